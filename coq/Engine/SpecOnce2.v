(* C02, part 2: the reason reported for running a rule is true of the state at the start of the call
   (which is the state at the moment of the decision for that rule, because nothing touches a rule before
   it is decided) and of the dependencies' results once brought up to date. *)
From LLB Require Import Engine.Rules Engine.Spec Engine.SpecOnceFrame Engine.SpecOnce1.
From Coq Require Import List NArith Bool Lia Arith.
Local Open Scope N_scope.

Section Reason.
Variable rules : key -> rule.
Variable env : key -> N.

(* a recorded dependency that did not trigger: up to date, and order-only or not changed since r0 was built *)
Definition dep_quiet (s' : state) (r0 : result) (d' : dep) : Prop :=
  done s' (d_key d') /\ (d_order d' = true \/ res_computedAt (get (st_mem s') (d_key d')) <= res_builtAt r0).

(* [r0]: the result the rule had; [fl]: whether it was flagged as interrupted; [s']: the final state *)
Definition reason_holds (r0 : result) (fl : bool) (s' : state) (x : key) (rs : N) (inp : option key) : Prop :=
  (rs = NeverBuilt /\ inp = None /\ res_builtAt r0 = 0)
  \/ (rs = Forced /\ inp = None /\ res_builtAt r0 <> 0 /\ fl = true)
  \/ (rs = SignatureChanged /\ inp = None /\ res_builtAt r0 <> 0 /\ fl = false /\ r_sig (rules x) <> res_sig r0)
  \/ (rs = InvalidValue /\ inp = None /\ res_builtAt r0 <> 0 /\ fl = false /\ r_sig (rules x) = res_sig r0 /\
      valid rules env x r0 = false)
  \/ (rs = InputRebuilt /\ res_builtAt r0 <> 0 /\ fl = false /\ r_sig (rules x) = res_sig r0 /\
      valid rules env x r0 = true /\
      exists d pre post, inp = Some (d_key d) /\ drop_single (res_deps r0) = pre ++ d :: post /\
        d_order d = false /\ d_single d = false /\
        done s' (d_key d) /\ res_builtAt r0 < res_computedAt (get (st_mem s') (d_key d)) /\
        forall d', In d' pre -> dep_quiet s' r0 d').

Definition reason_ok (s s' : state) (x : key) (rs : N) (inp : option key) : Prop :=
  reason_holds (get (st_mem s) x) (flagged s x) s' x rs inp.

Definition reason_l (s s' : state) (l : list event) : Prop :=
  forall x rs inp, In (ENeed x rs inp) l -> reason_ok s s' x rs inp.

Definition keeps_done (s1 s2 : state) : Prop :=
  forall y, done s1 y -> done s2 y /\ get (st_mem s2) y = get (st_mem s1) y.

Lemma frame_keeps_done : forall st s1 s2 ok l, frame_st st s1 s2 ok l -> keeps_done s1 s2.
Proof.
  intros st s1 s2 ok l H y Hy. split; [eapply frame_done_mono; eassumption | now apply (fr_frozen _ _ _ _ _ H)].
Qed.

Lemma reason_holds_post : forall r0 fl s1 s2 x rs inp,
  keeps_done s1 s2 -> reason_holds r0 fl s1 x rs inp -> reason_holds r0 fl s2 x rs inp.
Proof.
  intros r0 fl s1 s2 x rs inp K H. unfold reason_holds in *.
  destruct H as [H|[H|[H|[H|H]]]]; [tauto | tauto | tauto | tauto |].
  right; right; right; right.
  destruct H as (A & B & C & D & E & d & pre & post & I1 & I2 & I3 & I4 & I5 & I6 & I7).
  repeat (split; [assumption|]). exists d, pre, post. repeat (split; [assumption|]).
  destruct (K _ I5) as [K1 K2]. split; [exact K1|]. split; [now rewrite K2|].
  intros d' Hd'. destruct (I7 d' Hd') as [Q1 Q2]. destruct (K _ Q1) as [K3 K4].
  split; [exact K3 | now rewrite K4].
Qed.

Lemma reason_l_post : forall s s1 s2 l, keeps_done s1 s2 -> reason_l s s1 l -> reason_l s s2 l.
Proof. intros s s1 s2 l K H x rs inp Hx. eapply reason_holds_post; [exact K | now apply H]. Qed.

Lemma need_in_creates : forall l x rs inp, paired l -> In (ENeed x rs inp) l -> In x (creates l).
Proof.
  intros l x rs inp P H. rewrite <- (paired_needs_creates _ P). apply in_needs. eauto.
Qed.

(* composition of two consecutive stretches of the log *)
Lemma reason_compose : forall st s s1 s2 ok l1 l2,
  frame_st st s s1 true l1 -> frame_st st s1 s2 ok l2 -> paired l2 ->
  reason_l s s1 l1 -> reason_l s1 s2 l2 -> reason_l s s2 (l2 ++ l1).
Proof.
  intros st s s1 s2 ok l1 l2 A B P2 R1 R2 x rs inp Hx. apply in_app_iff in Hx. destruct Hx as [Hx|Hx].
  - pose proof (need_in_creates _ _ _ _ P2 Hx) as Hc.
    destruct (fr_fresh _ _ _ _ _ B x Hc) as [Hnd _].
    assert (Hnc : ~ In x (creates l1)) by (intros C; apply Hnd; exact (fr_done _ _ _ _ _ A eq_refl x C)).
    pose proof (R2 x rs inp Hx) as R. unfold reason_ok in *.
    rewrite (fr_flag_keep _ _ _ _ _ A x Hnc) in R.
    destruct (fr_touch _ _ _ _ _ A eq_refl x) as [E|[_ D]]; [now rewrite E in R | contradiction].
  - eapply reason_holds_post; [eapply frame_keeps_done; exact B | now apply R1].
Qed.

Definition reason_o (s : state) (o : outcome) : Prop :=
  forall s', ostate o = Some s' -> reason_l s s' (new_log s s').

Section Step.
Variable F : key -> N -> list value -> list N -> N -> N.
Variable order : N -> key -> list dep -> list dep.
Variable ens : list key -> state -> key -> outcome.
Hypothesis Hens : forall stack s k, frame stack s k (ens stack s k).
Hypothesis Hpair : forall stack s k, pair_o s (ens stack s k).
Hypothesis Hreason : forall stack s k, reason_o s (ens stack s k).

Lemma pair_o_new_log : forall s o s', pair_o s o -> ostate o = Some s' -> paired (new_log s s').
Proof. intros s o s' H E. destruct (H s' E) as (l & L & P). now rewrite (new_log_intro _ _ _ L). Qed.

Lemma seg_reason : forall st ks s o, seg ens st ks s o -> reason_o s o.
Proof.
  intros st ks s o H. induction H as [s|ks s e o Hp H IH|ks s x s1 o Hc H IH|ks s x o Hc Hn]; intros s' E.
  - inversion E. subst. rewrite new_log_refl. intros ? ? ? [].
  - destruct (seg_frame ens Hens _ _ _ _ H) as [A _].
    rewrite (new_log_trans s (emit s e) s' [e] _ eq_refl (frame_o_log _ _ _ _ A E)).
    intros x rs inp Hx. apply in_app_iff in Hx. destruct Hx as [Hx|[Hx|[]]]; [|subst e; destruct Hp].
    exact (IH s' E x rs inp Hx).
  - destruct (seg_frame ens Hens _ _ _ _ H) as [A _]. destruct (Hens st s x) as [B _]. rewrite Hc in B.
    cbn [frame_o] in B.
    rewrite (new_log_trans s s1 s' _ _ (fr_log _ _ _ _ _ B) (frame_o_log _ _ _ _ A E)).
    eapply reason_compose; [exact B | exact (frame_o_st _ _ _ _ A E) | | |].
    + eapply pair_o_new_log; [|exact E]. eapply seg_paired; [exact Hpair | exact H].
    + apply (Hreason st s x). now rewrite Hc.
    + now apply IH.
  - apply (Hreason st s x). now rewrite Hc.
Qed.

(* reasons inside [run]: all nested, none about k itself *)
Lemma run_reason : forall k stack r s s', ~ done s k -> ~ In k stack ->
  ostate (run rules env F order ens k stack r s) = Some s' ->
  forall x rs inp, In (ENeed x rs inp) (new_log s s') -> x <> k /\ reason_ok s s' x rs inp.
Proof.
  intros k stack r s s' Hnd Hns E x rs inp Hx.
  assert (Hpre : forall y rs' inp', ~ In (ENeed y rs' inp') (run_pre_log rules k r)).
  { intros y rs' inp'. unfold run_pre_log. destruct (_ && _); cbn [app In]; intros C; repeat (destruct C as [C|C]; [discriminate C|]); exact C. }
  destruct (run_cases rules env F order ens k stack r s _ eq_refl)
    as [(s4 & slots1 & slots3 & GA & GB) | (Hno & ks & GA)].
  - destruct (seg_frame ens Hens _ _ _ _ GA) as [A _]. destruct (seg_frame ens Hens _ _ _ _ GB) as [B _].
    cbn [frame_o] in A.
    pose proof (seg_reason _ _ _ _ GA _ eq_refl) as RA. pose proof (seg_reason _ _ _ _ GB _ E) as RB.
    pose proof (pair_o_new_log _ _ _ (seg_paired ens Hpair _ _ _ _ GB) E) as PB.
    pose proof (pair_o_new_log _ _ _ (seg_paired ens Hpair _ _ _ _ GA) eq_refl) as PA.
    pose proof (frame_o_st _ _ _ _ B E) as B'.
    set (bk := branch_keys (rules k) slots1) in *. set (v := task_value rules env F k (rules k) slots1 slots3) in *.
    set (s6 := complete order (emit s4 (EAvail k)) k (rules k) r bk v) in *.
    set (s0 := run_pre rules k r s) in *.
    (* s -> s6 is an Ok frame at the level of [stack] *)
    destruct (run_frame_main rules env F order k stack r s s4 _ bk v Hnd Hns A s6 true [] (frame_refl _ _ _)) as [M _].
    cbn [app] in M.
    assert (L : new_log s s' = new_log s6 s' ++ (EComplete k v :: EAvail k :: new_log s0 s4 ++ run_pre_log rules k r)).
    { eapply new_log_trans; [exact (fr_log _ _ _ _ _ M) | exact (fr_log _ _ _ _ _ B')]. }
    rewrite L in Hx.
    assert (Hk : x <> k).
    { intros ->. apply in_app_iff in Hx. destruct Hx as [Hx|[Hx|[Hx|Hx]]]; try discriminate.
      - pose proof (need_in_creates _ _ _ _ PB Hx) as C. destruct (fr_fresh _ _ _ _ _ B' k C) as [_ Q]. apply Q. now left.
      - apply in_app_iff in Hx. destruct Hx as [Hx|Hx]; [|now apply Hpre in Hx].
        pose proof (need_in_creates _ _ _ _ PA Hx) as C. destruct (fr_fresh _ _ _ _ _ A k C) as [_ Q]. apply Q. now left. }
    split; [exact Hk|].
    revert x rs inp Hx Hk. 
    assert (R : reason_l s s' (new_log s6 s' ++ (EComplete k v :: EAvail k :: new_log s0 s4 ++ run_pre_log rules k r)));
      [|intros x rs inp Hx _; now apply R].
    eapply reason_compose; [exact M | eapply frame_weaken_stack; exact B' | exact PB | | exact RB].
    intros x rs inp Hx. destruct Hx as [Hx|[Hx|Hx]]; try discriminate.
    apply in_app_iff in Hx. destruct Hx as [Hx|Hx]; [|now apply Hpre in Hx].
    pose proof (RA x rs inp Hx) as R. unfold reason_ok in *. unfold s0 in R at 1 2.
    unfold flagged in R at 1. rewrite run_pre_mem, run_pre_flag in R. fold (flagged s x) in R.
    eapply reason_holds_post; [|exact R].
    intros y Hy. assert (y <> k).
    { intros ->. apply Hnd. unfold done in *. rewrite (fr_stack _ _ _ _ _ A k) in Hy by now left.
      rewrite (fr_epoch _ _ _ _ _ A) in Hy. unfold s0 in Hy. now rewrite run_pre_mem, run_pre_epoch in Hy. }
    assert (G : get (st_mem s6) y = get (st_mem s4) y) by (unfold s6; now rewrite complete_mem_other).
    split; [|exact G]. unfold done in *. rewrite G. exact Hy.
  - destruct (seg_frame ens Hens _ _ _ _ GA) as [A _].
    pose proof (seg_reason _ _ _ _ GA _ E) as RA.
    pose proof (pair_o_new_log _ _ _ (seg_paired ens Hpair _ _ _ _ GA) E) as PA.
    pose proof (frame_o_st _ _ _ _ A E) as A'.
    assert (L : new_log s s' = new_log (run_pre rules k r s) s' ++ run_pre_log rules k r).
    { eapply new_log_trans; [apply run_pre_log_eq | exact (fr_log _ _ _ _ _ A')]. }
    rewrite L in Hx. apply in_app_iff in Hx. destruct Hx as [Hx|Hx]; [|now apply Hpre in Hx].
    split.
    + intros ->. pose proof (need_in_creates _ _ _ _ PA Hx) as C. destruct (fr_fresh _ _ _ _ _ A' k C) as [_ Q]. apply Q. now left.
    + pose proof (RA x rs inp Hx) as R. unfold reason_ok in *.
      unfold flagged in R at 1. rewrite run_pre_mem, run_pre_flag in R. exact R.
Qed.

Lemma need_off_stack : forall st s s' ok l x rs inp,
  frame_st st s s' ok l -> paired l -> In (ENeed x rs inp) l -> ~ In x st /\ ~ done s x.
Proof.
  intros st s s' ok l x rs inp A P Hx. pose proof (need_in_creates _ _ _ _ P Hx) as C.
  destruct (fr_fresh _ _ _ _ _ A x C) as [Q1 Q2]. now split.
Qed.

Definition rebuilt_holds (r : result) (s' : state) (inp : option key) : Prop :=
  exists d pre post, inp = Some (d_key d) /\ res_deps r = pre ++ d :: post /\ d_order d = false /\
    done s' (d_key d) /\ res_builtAt r < res_computedAt (get (st_mem s') (d_key d)) /\
    forall d', In d' pre -> dep_quiet s' r d'.

Lemma dep_quiet_post : forall s1 s2 r d, keeps_done s1 s2 -> dep_quiet s1 r d -> dep_quiet s2 r d.
Proof.
  intros s1 s2 r d K [Q1 Q2]. destruct (K _ Q1) as [K1 K2]. split; [exact K1 | now rewrite K2].
Qed.

Lemma scan_reason : forall k stack r ds pre sA s lacc,
  res_deps r = pre ++ ds -> ~ done sA k -> ~ In k stack ->
  frame_st (k :: stack) sA s true lacc -> paired lacc -> reason_l sA s lacc ->
  (forall d', In d' pre -> dep_quiet s r d') ->
  forall s', ostate (scan rules env F order ens k stack r ds s) = Some s' ->
  forall x rs inp, In (ENeed x rs inp) (new_log sA s') ->
    (x <> k /\ reason_ok sA s' x rs inp) \/ (x = k /\ rs = InputRebuilt /\ rebuilt_holds r s' inp).
Proof.
  intros k stack r ds. induction ds as [|d ds IH]; intros pre sA s lacc Hdeps HndA Hns A PA RA Hq s' E x rs inp Hx.
  - cbn [scan ostate] in E. inversion E. subst s'. clear E.
    rewrite (new_log_intro sA _ lacc) in Hx by (cbn [set_mem st_log]; exact (fr_log _ _ _ _ _ A)).
    destruct (need_off_stack _ _ _ _ _ _ _ _ A PA Hx) as [Hst _].
    left. split; [intros ->; apply Hst; now left|].
    eapply reason_holds_post; [|exact (RA x rs inp Hx)].
    intros y Hy. assert (y <> k).
    { intros ->. apply HndA. unfold done in *. rewrite (fr_stack _ _ _ _ _ A k) in Hy by now left.
      now rewrite (fr_epoch _ _ _ _ _ A) in Hy. }
    assert (G : get (st_mem (set_mem s k (mkRes (res_value r) (res_sig r) (res_computedAt r) (st_epoch s) (res_deps r)))) y
                = get (st_mem s) y) by (cbn [set_mem st_mem]; now apply get_update_other).
    split; [|exact G]. unfold done in *. rewrite G. exact Hy.
  - cbn [scan] in E. destruct (Hens (k :: stack) s (d_key d)) as [B D].
    pose proof (Hpair (k :: stack) s (d_key d)) as P1. pose proof (Hreason (k :: stack) s (d_key d)) as R1.
    destruct (ens (k :: stack) s (d_key d)) as [s1|s1 p|] eqn:Ec; [| |discriminate].
    + cbn [frame_o] in B. specialize (D s1 eq_refl).
      pose proof (pair_o_new_log _ _ _ P1 eq_refl) as P1'. specialize (R1 s1 eq_refl).
      pose proof (frame_trans _ _ _ _ _ _ _ A B) as AB.
      assert (PAB : paired (new_log s s1 ++ lacc)) by now apply paired_app.
      assert (RAB : reason_l sA s1 (new_log s s1 ++ lacc)) by (eapply reason_compose; eassumption).
      assert (Hq1 : forall d', In d' pre -> dep_quiet s1 r d').
      { intros d' Hd'. eapply dep_quiet_post; [eapply frame_keeps_done; exact B | now apply Hq]. }
      destruct (negb (d_order d) && (res_builtAt r <? res_computedAt (get (st_mem s1) (d_key d)))) eqn:T.
      * apply andb_prop in T. destruct T as [T1 T2]. apply negb_true_iff in T1. apply N.ltb_lt in T2.
        set (s2 := emit s1 (ENeed k InputRebuilt (Some (d_key d)))) in *.
        assert (Hnd2 : ~ done s2 k).
        { unfold done, s2. cbn [emit st_mem st_epoch]. rewrite (fr_stack _ _ _ _ _ AB k) by now left.
          now rewrite (fr_epoch _ _ _ _ _ AB). }
        destruct (run_frame rules env F order ens Hens k stack r s2 Hnd2 Hns) as [C _].
        pose proof (frame_o_st _ _ _ _ C E) as C'.
        assert (K2 : keeps_done s1 s') by (intros y Hy; exact (frame_keeps_done _ _ _ _ _ C' y Hy)).
        assert (L : new_log sA s' = new_log s2 s' ++ ENeed k InputRebuilt (Some (d_key d)) :: new_log s s1 ++ lacc).
        { eapply new_log_trans with (s1 := s2); [|exact (fr_log _ _ _ _ _ C')].
          unfold s2. cbn [emit st_log]. now rewrite (fr_log _ _ _ _ _ AB). }
        rewrite L in Hx. apply in_app_iff in Hx. destruct Hx as [Hx|[Hx|Hx]].
        -- destruct (run_reason k stack r s2 s' Hnd2 Hns E x rs inp Hx) as [Hk R]. left. split; [exact Hk|].
           (* x was not touched before *)
           destruct (run_paired rules env F order ens Hpair k stack r s2 s' E) as (X & LX & PX).
           assert (LX' : new_log s2 s' = X ++ [ECreate k]) by (apply new_log_intro; rewrite LX; now rewrite <- app_assoc).
           rewrite LX' in Hx. apply in_app_iff in Hx. destruct Hx as [Hx|[Hx|[]]]; [|discriminate].
           assert (Cx : In x (creates (new_log s2 s'))).
           { rewrite LX', creates_app, in_app_iff. left. eapply need_in_creates; eassumption. }
           destruct (fr_fresh _ _ _ _ _ C' x Cx) as [Nd2 _].
           assert (Nd1 : ~ done s1 x) by exact Nd2.
           assert (Hnc : ~ In x (creates (new_log s s1 ++ lacc)))
             by (intros Q; apply Nd1; exact (fr_done _ _ _ _ _ AB eq_refl x Q)).
           unfold reason_ok in *. unfold s2 in R at 1 2. unfold flagged in R at 1. cbn [emit st_mem st_flag] in R.
           fold (flagged s1 x) in R. rewrite (fr_flag_keep _ _ _ _ _ AB x Hnc) in R.
           destruct (fr_touch _ _ _ _ _ AB eq_refl x) as [Et|[_ Dt]]; [now rewrite Et in R | contradiction].
        -- inversion Hx. subst x rs inp. right. split; [reflexivity|]. split; [reflexivity|].
           exists d, pre, ds. repeat (split; [assumption|]). split; [reflexivity|]. split; [exact Hdeps|]. split; [exact T1|].
           destruct (K2 _ D) as [K3 K4]. split; [exact K3|]. split; [now rewrite K4|].
           intros d' Hd'. eapply dep_quiet_post; [exact K2 | now apply Hq1].
        -- destruct (need_off_stack _ _ _ _ _ _ _ _ AB PAB Hx) as [Hst _].
           left. split; [intros ->; apply Hst; now left|].
           eapply reason_holds_post; [exact K2 | exact (RAB x rs inp Hx)].
      * eapply (IH (pre ++ [d]) sA s1 (new_log s s1 ++ lacc)); try eassumption.
        -- rewrite <- app_assoc. exact Hdeps.
        -- intros d' Hd'. apply in_app_iff in Hd'. destruct Hd' as [Hd'|[<-|[]]]; [now apply Hq1|].
           split; [exact D|]. apply andb_false_iff in T. destruct T as [T|T].
           ++ left. now apply negb_false_iff in T.
           ++ right. now apply N.ltb_ge in T.
    + cbn [ostate] in E. inversion E. subst s'. cbn [frame_o] in B.
      pose proof (pair_o_new_log _ _ _ P1 eq_refl) as P1'. specialize (R1 s1 eq_refl).
      pose proof (frame_trans _ _ _ _ _ _ _ A B) as AB.
      rewrite (new_log_intro _ _ _ (fr_log _ _ _ _ _ AB)) in Hx.
      assert (PAB : paired (new_log s s1 ++ lacc)) by now apply paired_app.
      destruct (need_off_stack _ _ _ _ _ _ _ _ AB PAB Hx) as [Hst _].
      left. split; [intros ->; apply Hst; now left|].
      assert (RAB : reason_l sA s1 (new_log s s1 ++ lacc)) by (eapply reason_compose; eassumption).
      exact (RAB x rs inp Hx).
Qed.

Lemma valid_clean : forall k r0 ds,
  valid rules env k (mkRes (res_value r0) (res_sig r0) (res_computedAt r0) (res_builtAt r0) ds) = valid rules env k r0.
Proof. reflexivity. Qed.

Lemma ensure_body_reason : forall stack s k, reason_o s (ensure_body rules env F order ens stack s k).
Proof.
  intros stack s k s' E. unfold ensure_body in E.
  destruct (existsb (N.eqb k) stack) eqn:Est.
  { inversion E. subst. rewrite new_log_refl. intros ? ? ? []. }
  assert (Hns : ~ In k stack).
  { intros C. assert (existsb (N.eqb k) stack = true); [|congruence].
    apply existsb_exists. exists k. split; [exact C | apply N.eqb_refl]. }
  destruct (N.eqb (res_builtAt (get (st_mem s) k)) (st_epoch s)) eqn:Ed.
  { inversion E. subst. rewrite new_log_refl. intros ? ? ? []. }
  assert (Hnd : ~ done s k) by (now apply N.eqb_neq in Ed).
  set (r0 := get (st_mem s) k) in *.
  set (r := mkRes (res_value r0) (res_sig r0) (res_computedAt r0) (res_builtAt r0) (drop_single (res_deps r0))) in *.
  set (s1 := set_mem s k r) in *.
  assert (Hnd1 : ~ done s1 k) by (unfold done, s1; cbn [set_mem st_mem st_epoch]; now rewrite get_update_same).
  assert (Hother : forall x, x <> k -> get (st_mem s1) x = get (st_mem s) x)
    by (intros x Hx; unfold s1; cbn [set_mem st_mem]; now apply get_update_other).
  (* a run after the decision events Q ++ [ENeed k rs None] *)
  assert (RUN : forall rs Q s2, st_log s2 = ENeed k rs None :: Q ++ st_log s -> st_mem s2 = st_mem s1 ->
            st_epoch s2 = st_epoch s -> st_flag s2 = st_flag s ->
            (forall y rs' inp', ~ In (ENeed y rs' inp') Q) ->
            reason_holds r0 (flagged s k) s' k rs None ->
            ostate (run rules env F order ens k stack r s2) = Some s' -> reason_l s s' (new_log s s')).
  { intros rs Q s2 L2 M2 E2 F2 HQ Hk Er.
    assert (Hnd2 : ~ done s2 k) by (unfold done; rewrite M2, E2; exact Hnd1).
    destruct (run_frame rules env F order ens Hens k stack r s2 Hnd2 Hns) as [C _].
    pose proof (frame_o_log _ _ _ _ C Er) as LC.
    rewrite (new_log_trans s s2 s' (ENeed k rs None :: Q) _ L2 LC).
    intros x rs' inp' Hx. apply in_app_iff in Hx. destruct Hx as [Hx|[Hx|Hx]].
    - destruct (run_reason k stack r s2 s' Hnd2 Hns Er x rs' inp' Hx) as [Hxk R].
      unfold reason_ok in *. unfold flagged in *. rewrite M2, F2 in R. now rewrite Hother in R.
    - inversion Hx. subst. exact Hk.
    - now apply HQ in Hx. }
  fold r in E. fold s1 in E.
  change (flagged s1 k) with (flagged s k) in E.
  change (res_builtAt r) with (res_builtAt r0) in E. change (res_sig r) with (res_sig r0) in E.
  destruct (N.eqb (res_builtAt r0) 0) eqn:E0.
  { apply N.eqb_eq in E0. eapply (RUN NeverBuilt []); try exact E; try reflexivity; [intros ? ? ? []|].
    left. repeat split. exact E0. }
  apply N.eqb_neq in E0.
  destruct (flagged s k) eqn:Efl.
  { eapply (RUN Forced []); try exact E; try reflexivity; [intros ? ? ? []|].
    right; left. repeat split. exact E0. }
  destruct (negb (N.eqb (r_sig (rules k)) (res_sig r0))) eqn:Esig.
  { apply negb_true_iff, N.eqb_neq in Esig.
    eapply (RUN SignatureChanged []); try exact E; try reflexivity; [intros ? ? ? []|].
    right; right; left. repeat split; assumption. }
  apply negb_false_iff, N.eqb_eq in Esig.
  unfold r in E at 1. rewrite valid_clean in E.
  destruct (negb (valid rules env k r0)) eqn:Ev.
  { apply negb_true_iff in Ev.
    eapply (RUN InvalidValue [EValid k false]); try exact E; try reflexivity.
    - intros y rs' inp' [C|[]]. discriminate.
    - right; right; right; left. repeat split; assumption. }
  apply negb_false_iff in Ev.
  (* the scan *)
  set (sA := emit s1 (EValid k true)) in *.
  assert (HndA : ~ done sA k) by exact Hnd1.
  destruct (scan_frame rules env F order ens Hens k stack r (res_deps r) sA HndA Hns) as [C _].
  pose proof (frame_o_log _ _ _ _ C E) as LC.
  rewrite (new_log_trans s sA s' [EValid k true] _ eq_refl LC).
  intros x rs inp Hx. apply in_app_iff in Hx. destruct Hx as [Hx|[Hx|[]]]; [|discriminate].
  destruct (scan_reason k stack r (res_deps r) [] sA sA [] eq_refl HndA Hns (frame_refl _ _ _) paired_nil
              (fun _ _ _ (H : In _ []) => match H with end) (fun _ (H : In _ []) => match H with end) s' E x rs inp Hx)
    as [[Hxk R]|(-> & -> & d & pre & post & I1 & I2 & I3 & I4 & I5 & I6)].
  - unfold reason_ok in *. unfold flagged in *. cbn [sA emit st_mem st_flag] in R. fold s1 in R.
    rewrite Hother in R by exact Hxk. exact R.
  - unfold reason_ok. fold r0. right; right; right; right.
    repeat (split; [assumption || reflexivity|]).
    exists d, pre, post. split; [exact I1|]. split; [exact I2|]. split; [exact I3|].
    split.
    { assert (Hin : In d (drop_single (res_deps r0))) by (change (drop_single (res_deps r0)) with (res_deps r); rewrite I2; apply in_elt).
      unfold drop_single in Hin. apply filter_In in Hin. destruct Hin as [_ Hin]. now apply negb_true_iff in Hin. }
    split; [exact I4|]. split; [exact I5|]. exact I6.
Qed.

End Step.

(* ---------- lifted to ensure and build ---------- *)

Variable F : key -> N -> list value -> list N -> N -> N.
Variable order : N -> key -> list dep -> list dep.

Theorem ensure_reason : forall fuel stack s k, reason_o s (ensure rules env F order fuel stack s k).
Proof.
  induction fuel as [|f IH]; intros stack s k; cbn [ensure].
  - intros s' E. discriminate.
  - apply ensure_body_reason; [apply ensure_frame | apply ensure_paired | exact IH].
Qed.

End Reason.
