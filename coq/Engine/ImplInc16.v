(* P19b: under the rank hypothesis a build of the small-step engine never stalls, hence never reports a cycle and never cancels
   anything (the analogue of Properties_C01.c01_no_cycle_when_ranked).  So in a history all of whose rule tables are ranked the premise
   "no cancelled build before" of the value theorems holds by itself. *)
From LLB Require Import Engine.Rules Engine.Spec Engine.SpecInv1 Engine.Impl Engine.ImplProofs Engine.ImplProofsSticky Engine.ImplProofsInv Engine.ImplProofsInv2
  Engine.ImplProofsInv3 Engine.ImplProofsInv9 Engine.ImplProofsStall Engine.ImplProofsRun Engine.ImplVal1 Engine.ImplVal2 Engine.ImplInc1 Engine.ImplInc2 Engine.ImplInc3
  Engine.ImplInc9.
From LLB Require Engine.FindCycle.
From Coq Require Import Arith Lia.
Local Open Scope N_scope.

Lemma requestable_mentioned rl x : In x (requestable rl ++ r_disc rl) -> In x (mentioned rl).
Proof.
  unfold requestable, mentioned, br_keys. rewrite !in_app_iff. intros [[H|[H|[H|H]]]|H]; auto 6.
Qed.

Section NoStall.
Variable rules : key -> rule.
Variable F : key -> N -> list value -> list N -> N -> N.
Variable rank : key -> nat.
Variable R : key -> N -> rule.
Variable ord : key -> list rkind.
Variable syncp : key -> bool.
Hypothesis Hrank : wf_rank rules rank.
Hypothesis Hwfd : wf_disc rules.
Hypothesis HRt : table_ok rules R.
Hypothesis Hord : forall k, In RReq (ord k).
Variable env : key -> N.
Notation BInv := (BInv rules env F rank R).
Notation HInv := (HInv F R).

(* every edge of the wait graph goes down in rank *)
Lemma edge_rank root x s p k : Inv rules ctx0 s -> BInv root x s -> live s k -> In (p, k) (wait_graph s) -> (rank p < rank k)%nat.
Proof.
  intros HI (HT & HC & HS) Hlive Hin. destruct (edge_facts rules s p k HI Hin) as [_ [H|H]].
  - apply Hrank. apply requestable_mentioned. apply in_or_app. now left.
  - apply in_map_iff in H. destruct H as (d & <- & Hd). apply Hrank. apply requestable_mentioned.
    destruct Hlive as [Htk|Hsc].
    + destruct (aget (is_tasks s) k) as [ti|] eqn:Hg; [|now contradiction Htk]. apply in_or_app. left.
      apply (k2_dmen _ _ _ _ _ _ _ (b_task _ _ _ _ _ _ HT k ti Hg) d Hd).
    + destruct (b_scanning _ _ _ _ _ _ _ HS k Hsc) as (Hsg & Hb & _).
      assert (Hrow : rowok F R s k).
      { apply (b_rows _ _ _ _ HC); auto; [unfold idle; rewrite Hsc; split; discriminate|intros [Hc _]; congruence]. }
      destruct Hrow as (v & _ & _ & Hm & _). assert (Erl : rule_of R s k = rules k) by (unfold rule_of; rewrite Hsg; apply HRt).
      rewrite Erl in Hm. now apply Hm.
Qed.

(* with all queues idle nothing is left waiting *)
Lemma no_live_when_idle root x s : Inv rules ctx0 s -> BInv root x s -> idle_queues s -> forall k, ~ live s k.
Proof.
  intros HI HB Hid. assert (H : forall n k, (rank k < n)%nat -> ~ live s k).
  { induction n as [|n IH]; intros k Hlt Hl; [lia|]. destruct (live_waits rules s k HI Hid Hl) as (p & Hin & Hp).
    pose proof (edge_rank root x s p k HI HB Hl Hin) as Hr. apply (IH p); auto. lia. }
  intros k. apply (H (S (rank k))). lia.
Qed.

(* the loop never finds the engine stalled *)
Theorem never_stalls s0 root s fuel comps s' st : HInv s0 -> in_build rules env F ord syncp s0 root s ->
  loop_iteration rules env F ord syncp fuel s comps = (s', st) -> nf s' -> st <> StStall.
Proof.
  intros Hh Hb Hrun Hn ->. destruct (loop_iteration_no_work _ _ _ _ _ _ _ _ _ _ _ Hrun) as (Hs' & Q1 & Q2 & Q3 & Q4 & Q5 & _ & Hst & _); [discriminate|].
  destruct (Hst eq_refl) as [Q6 Hstall].
  assert (Hb' : in_build rules env F ord syncp s0 root s') by (eapply in_build_iteration; eauto).
  pose proof (in_build_Inv rules env F ord syncp s0 root s' Hb') as HI.
  pose proof (BInv_in_build rules F rank R ord syncp Hrank Hwfd HRt Hord env s0 root s' Hh Hb') as HB.
  assert (Hid : idle_queues s') by (repeat split; auto).
  pose proof (no_live_when_idle root None s' HI HB Hid) as Hnl.
  unfold stall_test in Hstall. apply Bool.orb_true_iff in Hstall. destruct Hstall as [Ht|Hsc].
  - destruct (is_tasks s') as [|[t ti] l] eqn:E; [discriminate|]. apply (Hnl t). left.
    destruct HI as (_ & HT & _). assert (Hin : In (t, ti) (is_tasks s')) by (rewrite E; now left).
    rewrite (in_aget_nodup _ _ _ (t_nd_tasks ctx0 s' HT) Hin). discriminate.
  - unfold any_scanning in Hsc. apply existsb_exists in Hsc. destruct Hsc as ([k ri] & Hin & Hk). cbn [snd] in Hk. apply kind_eqb_eq in Hk.
    apply (Hnl k). right. destruct HI as (_ & HT & _). unfold kind_of, rinfo_of. rewrite (in_aget_nodup _ _ _ (t_nd_rules ctx0 s' HT) Hin). exact Hk.
Qed.

Lemma run_loop_sticky_cycle stalled fuel pfuel root : forall s sched marks sC g c m,
  run_loop_gen rules env F ord syncp stalled fuel pfuel root s sched marks = (RCycle sC g c, m) -> nf sC -> nf s.
Proof.
  induction fuel as [|f IH]; intros s sched marks sC g c m Hrun Hn; cbn [run_loop_gen] in Hrun; [discriminate|].
  destruct (loop_iteration_gen rules env F ord syncp stalled pfuel s _) as [s' st] eqn:Hit.
  assert (Hs : nf s' -> nf s).
  { intros H. eapply sticky_loop_iteration. rewrite Hit. exact H. }
  destruct st.
  - apply Hs. eapply IH; eauto.
  - destruct (_ && _); [discriminate|]. apply Hs. eapply sticky_finish_all. eapply IH; eauto.
  - inversion Hrun. subst sC g c m. apply Hs. unfold nf in *. cbn [cancel_remaining is_fault] in Hn.
    destruct (FindCycle.findcycle_names _ _ _); [now autorewrite with iv in Hn|exact Hn].
  - discriminate.
Qed.

Lemma run_loop_never_cycles fuel pfuel root s0 : HInv s0 -> forall s sched marks sC g c m,
  in_build rules env F ord syncp s0 root s -> run_loop_gen rules env F ord syncp stall_test fuel pfuel root s sched marks = (RCycle sC g c, m) -> nf sC -> False.
Proof.
  intros Hh. induction fuel as [|f IH]; intros s sched marks sC g c m Hb Hrun Hn; cbn [run_loop_gen] in Hrun; [discriminate|].
  destruct (loop_iteration_gen rules env F ord syncp stall_test pfuel s _) as [s' st] eqn:Hit.
  destruct st.
  - assert (Hn' : nf s') by (eapply run_loop_sticky_cycle; eauto).
    eapply IH; [|exact Hrun|exact Hn]. eapply in_build_iteration; eauto.
  - destruct (_ && _); [discriminate|].
    assert (Hn'' : nf (fold_left (task_finish rules) (match sched with [] => [] | c0 :: _ => snd c0 end) s')) by (eapply run_loop_sticky_cycle; eauto).
    eapply IH; [|exact Hrun|exact Hn]. apply in_build_finish_all. eapply in_build_iteration; eauto. now apply sticky_finish_all in Hn''.
  - inversion Hrun. subst sC g c m.
    assert (Hn' : nf s').
    { unfold nf in *. cbn [cancel_remaining is_fault] in Hn. destruct (FindCycle.findcycle_names _ _ _); [now autorewrite with iv in Hn|exact Hn]. }
    exact (never_stalls s0 root s pfuel _ s' StStall Hh Hb Hit Hn' eq_refl).
  - discriminate.
Qed.

(* a build from a state at rest never reports a cycle (and so never cancels a task) *)
Theorem build_never_cycles fuel pfuel s0 root sched sC g c m : HInv s0 ->
  ibuild rules env F ord syncp fuel pfuel s0 root sched = (RCycle sC g c, m) -> is_fault sC = None -> False.
Proof.
  intros Hh Hrun Hn. unfold ibuild, ibuild_gen in Hrun. cbn zeta in Hrun.
  destruct (run_build_gen rules env F ord syncp stall_test fuel pfuel root (iemit (bump s0) (EBuildStart root)) sched) as [r mm] eqn:Hr.
  destruct r; inversion Hrun. subst sC g c m. clear Hrun.
  assert (Hn' : nf s) by (unfold nf in *; now autorewrite with iv in Hn).
  unfold run_build_gen in Hr.
  assert (Hb0 : in_build rules env F ord syncp s0 root (start_build (iemit (bump s0) (EBuildStart root)) root)) by (split; [apply (h_q _ _ _ Hh)|apply mss_refl]).
  exact (run_loop_never_cycles fuel pfuel root s0 Hh _ sched [] s g0 c0 mm Hb0 Hr Hn').
Qed.
End NoStall.
