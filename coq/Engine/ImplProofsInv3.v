(* P19 - part 7: the invariant under createTask (demandRule on a rule that needs to run). *)
From LLB Require Import Engine.Rules Engine.Spec Engine.Impl Engine.ImplProofs Engine.ImplProofsSticky Engine.ImplProofsInv Engine.ImplProofsInv2.
From Coq Require Import Arith Lia.
Local Open Scope N_scope.

Definition cx_set_ex (c : ctx) (e : option key) : ctx := mkCtx (cx_fi c) (cx_fs c) e (cx_slack c).
Definition cx_set_fi (c : ctx) (l : list ireq) : ctx := mkCtx l (cx_fs c) (cx_ex c) (cx_slack c).
Definition cx_set_fs (c : ctx) (l : list sreq) : ctx := mkCtx (cx_fi c) l (cx_ex c) (cx_slack c).
Definition cx_set_slack (c : ctx) (n : nat) : ctx := mkCtx (cx_fi c) (cx_fs c) (cx_ex c) n.

Lemma kind_of_mod_ri s k f k' : kind_of (mod_ri s k f) k' = if N.eqb k' k then ri_kind (f (rinfo_of s k)) else kind_of s k'.
Proof. unfold kind_of. autorewrite with iv. now destruct (N.eqb k' k). Qed.
Lemma res_of_mod_ri s k f k' : res_of (mod_ri s k f) k' = if N.eqb k' k then ri_res (f (rinfo_of s k)) else res_of s k'.
Proof. unfold res_of. autorewrite with iv. now destruct (N.eqb k' k). Qed.

Lemma in_progress_no_task_kind s k : kind_of s k = KNeedsToRun -> is_in_progress s k = false.
Proof. unfold is_in_progress. now intros ->. Qed.

Lemma filter_keys_aset_new {A} (p : N -> bool) (m : list (N * A)) k a : aget m k = None ->
  length (filter (fun e => p (fst e)) (aset m k a)) = (length (filter (fun e => p (fst e)) m) + if p k then 1 else 0)%nat.
Proof.
  induction m as [|[k0 a0] t IH]; cbn [aget aset].
  - intros _. cbn [filter fst]. destruct (p k); cbn [length]; lia.
  - destruct (N.eqb k k0) eqn:E; [discriminate|]. intros H. cbn [filter fst]. destruct (p k0); cbn [length]; rewrite IH; auto.
Qed.

Lemma filter_ext_len {A} (p q : A -> bool) l : (forall x, In x l -> p x = q x) -> length (filter p l) = length (filter q l).
Proof.
  induction l as [|x l IH]; auto. intros H. cbn [filter]. rewrite (H x (or_introl eq_refl)).
  destruct (q x); cbn [length]; rewrite IH; auto; intros; apply H; now right.
Qed.

(* the task table gets a record for a rule that had no task; its rule becomes InProgressWaiting *)
Lemma InvT_begin_task c s k : cx_ex c = None -> kind_of s k = KNeedsToRun -> InvT c s -> InvT (cx_set_ex c (Some k)) (begin_task s k).
Proof.
  intros Hex Hk [A1 A2 A3 A4 A5 A6 A7 A8 A9 A10 A11].
  assert (Hno : aget (is_tasks s) k = None).
  { destruct (aget (is_tasks s) k) eqn:E; auto. exfalso. assert (H : aget (is_tasks s) k <> None) by congruence.
    apply A5 in H. rewrite (in_progress_no_task_kind s k Hk) in H. discriminate. }
  unfold begin_task.
  assert (HK : forall k', kind_of (mod_ri (set_ti (iemit s (ECreate k)) k new_tinfo) k ri_begin_task) k' = if N.eqb k' k then KWaiting else kind_of s k').
  { intros k'. rewrite kind_of_mod_ri. reflexivity. }
  constructor; autorewrite with iv; auto.
  - now apply nodup_rules_set_ri.
  - now apply nodup_aset.
  - intros t. unfold is_in_progress. rewrite HK, aget_aset. destruct (N.eqb t k) eqn:E; [split; [reflexivity|discriminate]|apply A5].
  - intros t ti. rewrite HK, aget_aset. destruct (N.eqb t k) eqn:E; [discriminate|apply A6].
  - intros t Hin. destruct (A7 t Hin) as (ti & Hg & Hkk & Hw). rewrite HK, aget_aset. destruct (N.eqb t k) eqn:E; [|eauto].
    apply N.eqb_eq in E. subst. congruence.
  - intros t ti. rewrite HK, aget_aset. cbn [cx_ex cx_set_ex]. destruct (N.eqb t k) eqn:E.
    + apply N.eqb_eq in E. subst. auto.
    + intros Hg Hkk Hw. destruct (A8 t ti Hg Hkk Hw) as [H|H]; [auto|congruence].
  - intros t Hin. destruct (A9 t Hin) as (ti & Hg & Hkk & Hp). rewrite HK, aget_aset. destruct (N.eqb t k) eqn:E; [|eauto].
    apply N.eqb_eq in E. subst. congruence.
  - intros t ti. rewrite HK, aget_aset. destruct (N.eqb t k) eqn:E; [|apply A10].
    intros Hg. inversion Hg. subst. cbn. congruence.
  - cbn [cx_slack cx_set_ex]. rewrite A11. unfold n_computing. autorewrite with iv.
    set (p := fun k' => if N.eqb k' k then false else kind_eqb (kind_of s k') KComputing).
    transitivity (length (filter (fun e => p (fst e)) (is_tasks s))).
    { apply filter_ext_len. intros [k' a] Hin. cbn [fst]. unfold p.
      destruct (N.eqb k' k) eqn:E; auto. apply N.eqb_eq in E. subst. now rewrite Hk. }
    transitivity (length (filter (fun e => p (fst e)) (aset (is_tasks s) k new_tinfo))).
    { rewrite (filter_keys_aset_new p _ _ _ Hno). unfold p. rewrite N.eqb_refl. lia. }
    apply filter_ext_len. intros [k' a] _. cbn [fst]. unfold p. rewrite HK. now destruct (N.eqb k' k).
Qed.

Lemma ri_begin_task_paused ri : ri_paused (ri_begin_task ri) = ri_paused ri. Proof. reflexivity. Qed.
Lemma ri_begin_task_deferred ri : ri_deferred (ri_begin_task ri) = ri_deferred ri. Proof. reflexivity. Qed.

Lemma asum_tasks_new (g : tinfo -> nat) s k ti : aget (is_tasks s) k = None -> asum g (is_tasks (set_ti s k ti)) = (asum g (is_tasks s) + g ti)%nat.
Proof. intros Hno. autorewrite with iv. pose proof (asum_aset g (is_tasks s) k ti) as H. rewrite Hno in H. lia. Qed.

Lemma begin_task_paused s k k' : ri_paused (rinfo_of (begin_task s k) k') = ri_paused (rinfo_of s k').
Proof. unfold begin_task. autorewrite with iv. destruct (N.eqb k' k) eqn:E; auto. apply N.eqb_eq in E. now subst. Qed.
Lemma begin_task_deferred s k k' : ri_deferred (rinfo_of (begin_task s k) k') = ri_deferred (rinfo_of s k').
Proof. unfold begin_task. autorewrite with iv. destruct (N.eqb k' k) eqn:E; auto. apply N.eqb_eq in E. now subst. Qed.
Lemma begin_task_kind s k k' : kind_of (begin_task s k) k' = if N.eqb k' k then KWaiting else kind_of s k'.
Proof. unfold begin_task. now rewrite kind_of_mod_ri. Qed.
Lemma begin_task_tasks s k : is_tasks (begin_task s k) = aset (is_tasks s) k new_tinfo.
Proof. unfold begin_task. now autorewrite with iv. Qed.

Lemma begin_task_asum_rules (g : rinfo -> nat) s k : (forall r, g (new_rinfo r) = 0%nat) -> (forall ri, g (ri_begin_task ri) = g ri) ->
  asum g (is_rules (begin_task s k)) = asum g (is_rules s).
Proof.
  intros Hz Hg. unfold begin_task. pose proof (asum_rules_mod_ri g (set_ti (iemit s (ECreate k)) k new_tinfo) k ri_begin_task Hz) as H.
  rewrite Hg in H. autorewrite with iv in *. lia.
Qed.

Lemma begin_task_outstanding s k t : aget (is_tasks s) k = None -> outstanding_count (begin_task s k) t = outstanding_count s t.
Proof.
  intros Hno. unfold outstanding_count. rewrite begin_task_asum_rules; auto. rewrite begin_task_tasks.
  pose proof (asum_tasks_new (fun ti => cnt_i t (ti_reqby ti)) s k new_tinfo Hno) as H. autorewrite with iv in H. rewrite H.
  unfold begin_task. autorewrite with iv. cbn [new_tinfo ti_reqby]. rewrite cnt_i_nil. lia.
Qed.
Lemma begin_task_scan_count s k k' : aget (is_tasks s) k = None -> scan_count (begin_task s k) k' = scan_count s k'.
Proof.
  intros Hno. unfold scan_count. rewrite begin_task_asum_rules; auto. rewrite begin_task_tasks.
  pose proof (asum_tasks_new (fun ti => cnt_s k' (ti_deferred ti)) s k new_tinfo Hno) as H. autorewrite with iv in H. rewrite H.
  unfold begin_task. autorewrite with iv. cbn [new_tinfo ti_deferred]. rewrite cnt_s_nil. lia.
Qed.

Lemma cnt_i_zero_ok rules s k l : aget (is_tasks s) k = None -> Forall (ireq_ok rules s) l -> cnt_i k l = 0%nat.
Proof.
  intros Hno Hf. apply cnt_i_zero_forall. intros rq Hin Hrq. rewrite Forall_forall in Hf. destruct (Hf rq Hin k Hrq) as [H _]. contradiction.
Qed.

(* no request names a task that does not exist *)
Lemma outstanding_zero rules c s k : NoDup (map fst (is_rules s)) -> NoDup (map fst (is_tasks s)) -> InvI rules c s ->
  aget (is_tasks s) k = None -> outstanding_count s k = 0%nat /\ cnt_i k (cx_fi c) = 0%nat.
Proof.
  intros Hnr Hnt [B1 B2 B3 B4 B5 B6 B7 B8 B9 B10] Hno. split; [|eapply cnt_i_zero_ok; eauto].
  unfold outstanding_count. rewrite (cnt_i_zero_ok rules s k _ Hno B3), (cnt_i_zero_ok rules s k _ Hno B6).
  rewrite (asum_zero (fun ri => cnt_i k (ri_paused ri))), (asum_zero (fun ti => cnt_i k (ti_reqby ti))); auto.
  - intros t ti Hin. apply (cnt_i_zero_ok rules s); auto. apply (B5 t). now apply in_aget_nodup.
  - intros k' ri Hin. apply (cnt_i_zero_ok rules s); auto. rewrite <- (rinfo_of_some s k' ri); [apply B4|now apply in_aget_nodup].
Qed.

Lemma ireq_ok_new_task rules s s' rq : (forall t, aget (is_tasks s) t <> None -> aget (is_tasks s') t <> None) -> ireq_ok rules s rq -> ireq_ok rules s' rq.
Proof. intros Hm H t Ht. destruct (H t Ht). auto. Qed.

Lemma InvI_begin_task rules c s k : NoDup (map fst (is_rules s)) -> NoDup (map fst (is_tasks s)) ->
  aget (is_tasks s) k = None -> kind_of s k <> KScanning -> InvI rules c s -> InvI rules (cx_set_ex c (Some k)) (begin_task s k).
Proof.
  intros Hnr Hnt Hno Hk HI. destruct (outstanding_zero rules c s k Hnr Hnt HI Hno) as [Hz1 Hz2].
  destruct HI as [B1 B2 B3 B4 B5 B6 B7 B8 B9 B10].
  assert (Hm : forall t, aget (is_tasks s) t <> None -> aget (is_tasks (begin_task s k)) t <> None).
  { intros t H. rewrite begin_task_tasks, aget_aset. now destruct (N.eqb t k). }
  assert (Hok : forall rq, ireq_ok rules s rq -> ireq_ok rules (begin_task s k) rq) by (intros; eapply ireq_ok_new_task; eauto).
  constructor; cbn [cx_fi cx_set_ex].
  - intros t ti. rewrite begin_task_tasks, aget_aset, (begin_task_outstanding s k t Hno). destruct (N.eqb t k) eqn:E; [|apply B1].
    apply N.eqb_eq in E. subst. intros Hx. inversion Hx. cbn [new_tinfo ti_wait]. lia.
  - eapply Forall_impl; [apply Hok|auto].
  - change (is_inreq (begin_task s k)) with (is_inreq s). eapply Forall_impl; [apply Hok|auto].
  - intros k'. rewrite begin_task_paused. eapply Forall_impl; [apply Hok|auto].
  - intros t ti. rewrite begin_task_tasks, aget_aset. destruct (N.eqb t k) eqn:E; intros Hx.
    + inversion Hx. constructor.
    + eapply Forall_impl; [apply Hok|eauto].
  - change (is_fininreq (begin_task s k)) with (is_fininreq s). eapply Forall_impl; [apply Hok|auto].
  - intros k'. rewrite begin_task_kind, begin_task_paused. destruct (N.eqb k' k) eqn:E; [|apply B7].
    apply N.eqb_eq in E. subst. intros _. now apply B7.
  - intros k' rq. rewrite begin_task_paused. apply B8.
  - intros t ti rq. rewrite begin_task_tasks, aget_aset. destruct (N.eqb t k) eqn:E; intros Hx.
    + inversion Hx. cbn [new_tinfo ti_reqby]. intros [].
    + now apply B9.
  - exact B10.
Qed.

Lemma InvS_begin_task c s k : aget (is_tasks s) k = None -> kind_of s k <> KScanning -> InvS c s -> InvS (cx_set_ex c (Some k)) (begin_task s k).
Proof.
  intros Hno Hk [C1 C2 C3 C4 C5 C6 C7 C8].
  assert (Hok : forall rq, sreq_ok s rq -> sreq_ok (begin_task s k) rq).
  { intros rq (H1 & H2 & H3). assert (Hne : N.eqb (sq_rule rq) k = false) by (apply N.eqb_neq; intros E; rewrite E in H1; contradiction).
    unfold sreq_ok. rewrite begin_task_kind, Hne. unfold begin_task. rewrite res_of_mod_ri, Hne. auto. }
  assert (Hsc : forall k', kind_eqb (kind_of (begin_task s k) k') KScanning = kind_eqb (kind_of s k') KScanning).
  { intros k'. rewrite begin_task_kind. destruct (N.eqb k' k) eqn:E; auto. apply N.eqb_eq in E. subst.
    cbn [kind_eqb]. symmetry. now apply kind_eqb_neq. }
  constructor; cbn [cx_fs cx_set_ex].
  - intros k'. rewrite Hsc, (begin_task_scan_count s k k' Hno). apply C1.
  - eapply Forall_impl; [apply Hok|auto].
  - change (is_toscan (begin_task s k)) with (is_toscan s). eapply Forall_impl; [apply Hok|auto].
  - intros k'. rewrite begin_task_deferred. eapply Forall_impl; [apply Hok|auto].
  - intros t ti. rewrite begin_task_tasks, aget_aset. destruct (N.eqb t k) eqn:E; intros Hx.
    + inversion Hx. constructor.
    + eapply Forall_impl; [apply Hok|eauto].
  - intros k'. rewrite begin_task_deferred. intros Hk'. apply C6. intros Hc. apply Hk'. apply kind_eqb_eq in Hc. rewrite <- Hsc in Hc. now apply kind_eqb_eq.
  - intros k' rq. rewrite begin_task_deferred. apply C7.
  - intros t ti rq. rewrite begin_task_tasks, aget_aset. destruct (N.eqb t k) eqn:E; intros Hx.
    + inversion Hx. cbn [new_tinfo ti_deferred]. intros [].
    + now apply C8.
Qed.

Lemma no_task_of_kind c s k : InvT c s -> kind_of s k = KNeedsToRun -> aget (is_tasks s) k = None.
Proof.
  intros HT Hk. destruct (aget (is_tasks s) k) eqn:E; auto. exfalso. assert (H : aget (is_tasks s) k <> None) by congruence.
  apply (t_tk c s HT) in H. rewrite (in_progress_no_task_kind s k Hk) in H. discriminate.
Qed.

Lemma Inv_begin_task rules c s k : cx_ex c = None -> kind_of s k = KNeedsToRun -> Inv rules c s -> Inv rules (cx_set_ex c (Some k)) (begin_task s k).
Proof.
  intros Hex Hk (Hn & HT & HI & HS). pose proof (no_task_of_kind c s k HT Hk) as Hno.
  assert (Hns : kind_of s k <> KScanning) by (rewrite Hk; discriminate).
  split; [unfold begin_task; now apply nf_mod_ri, nf_set_ti, nf_iemit|]. split; [now apply InvT_begin_task|].
  split; [apply InvI_begin_task; auto; apply HT|now apply InvS_begin_task].
Qed.

(* InvI looks at cx_fi only, InvS at cx_fs only *)
Lemma InvI_ctx rules c c' s : cx_fi c' = cx_fi c -> InvI rules c s -> InvI rules c' s.
Proof. intros E [B1 B2 B3 B4 B5 B6 B7 B8 B9 B10]. constructor; rewrite ?E; auto. Qed.
Lemma InvS_ctx c c' s : cx_fs c' = cx_fs c -> InvS c s -> InvS c' s.
Proof. intros E [C1 C2 C3 C4 C5 C6 C7 C8]. constructor; rewrite ?E; auto. Qed.
Lemma InvT_ctx c c' s : cx_ex c' = cx_ex c -> cx_slack c' = cx_slack c -> InvT c s -> InvT c' s.
Proof. intros E1 E2 [A1 A2 A3 A4 A5 A6 A7 A8 A9 A10 A11]. constructor; rewrite ?E1, ?E2; auto. Qed.

Lemma nodup_snoc {A} (l : list A) x : NoDup l -> ~ In x l -> NoDup (l ++ [x]).
Proof.
  induction l as [|y l IH]; cbn [app]; intros Hnd Hni; [constructor; [tauto|constructor]|].
  inversion Hnd as [|z l' Hy Hl]. subst. constructor.
  - intros Hin. apply in_app_or in Hin. destruct Hin as [Hin|[Hin|[]]]; [contradiction|]. subst. apply Hni. now left.
  - apply IH; auto. intros Hin. apply Hni. now right.
Qed.

Lemma InvT_ready_if_nowait c s k ti : cx_ex c = Some k -> aget (is_tasks s) k = Some ti -> kind_of s k = KWaiting -> ~ In k (is_ready s) ->
  InvT c s -> InvT (cx_set_ex c None) (ready_if_nowait s k).
Proof.
  intros Hex Hg Hk Hnr [A1 A2 A3 A4 A5 A6 A7 A8 A9 A10 A11]. unfold ready_if_nowait. rewrite Hg.
  destruct (Nat.eqb (ti_wait ti) 0) eqn:Ew.
  - apply Nat.eqb_eq in Ew. constructor; autorewrite with iv; auto.
    + now apply nodup_snoc.
    + intros t Hin. apply in_app_or in Hin. destruct Hin as [Hin|[Hin|[]]]; [now apply A7|]. subst. eauto.
    + intros t x Hx Hkk Hw. left. apply in_or_app. destruct (A8 t x Hx Hkk Hw) as [H|H]; [now left|].
      rewrite Hex in H. inversion H. subst. right. now left.
  - apply Nat.eqb_neq in Ew. constructor; auto.
    intros t x Hx Hkk Hw. destruct (A8 t x Hx Hkk Hw) as [H|H]; [now left|].
    rewrite Hex in H. inversion H. subst. rewrite Hg in Hx. inversion Hx. subst. contradiction.
Qed.

Lemma Inv_ready_if_nowait rules c s k : cx_ex c = Some k -> aget (is_tasks s) k <> None -> kind_of s k = KWaiting -> ~ In k (is_ready s) ->
  Inv rules c s -> Inv rules (cx_set_ex c None) (ready_if_nowait s k).
Proof.
  intros Hex Hg Hk Hnr (Hn & HT & HI & HS). destruct (aget (is_tasks s) k) as [ti|] eqn:E; [|contradiction].
  split; [|split; [eapply InvT_ready_if_nowait; eauto|]].
  - unfold ready_if_nowait. rewrite E. destruct (Nat.eqb _ _); auto.
  - unfold ready_if_nowait. rewrite E. destruct (Nat.eqb _ _).
    + split; [apply InvI_upd_ready; now apply (InvI_ctx rules c)|apply InvS_upd_ready; now apply (InvS_ctx c)].
    + split; [now apply (InvI_ctx rules c)|now apply (InvS_ctx c)].
Qed.

Lemma keeps_prior_value rules s k : keeps s (prior_value rules s k).
Proof. unfold prior_value. cbn zeta. destruct (_ && _); [apply keeps_iemit|apply keeps_refl]. Qed.
Lemma Inv_prior_value rules c s k : Inv rules c s -> Inv rules c (prior_value rules s k).
Proof. intros H. unfold prior_value. cbn zeta. destruct (_ && _); [now apply Inv_iemit|auto]. Qed.

Lemma not_ready_no_task c s k : InvT c s -> aget (is_tasks s) k = None -> ~ In k (is_ready s).
Proof. intros HT Hno Hin. destruct (t_rd1 c s HT k Hin) as (ti & Hg & _). congruence. Qed.

Lemma Inv_create_task rules ord c s k : cx_ex c = None -> kind_of s k = KNeedsToRun -> Inv rules c s -> Inv rules c (create_task rules ord s k).
Proof.
  intros Hex Hk H. unfold create_task. cbn zeta. rewrite Hk. cbn [kind_eqb check].
  pose proof H as (_ & HT & _). pose proof (no_task_of_kind c s k HT Hk) as Hno. pose proof (not_ready_no_task c s k HT Hno) as Hnr.
  apply (Inv_begin_task rules c s k Hex Hk) in H.
  set (s1 := begin_task s k) in *. set (c1 := cx_set_ex c (Some k)) in *.
  assert (Hg1 : aget (is_tasks s1) k <> None) by (unfold s1; rewrite begin_task_tasks, aget_aset_same; discriminate).
  assert (Hk1 : kind_of s1 k = KWaiting) by (unfold s1; now rewrite begin_task_kind, N.eqb_refl).
  assert (Hr1 : ~ In k (is_ready s1)) by exact Hnr.
  apply (Inv_task_start rules ord c1 s1 k) in H; auto.
  pose proof (keeps_task_start rules ord s1 k) as K2. set (s2 := task_start rules ord s1 k) in *.
  apply (Inv_prior_value rules c1 s2 k) in H.
  pose proof (keeps_prior_value rules s2 k) as K3. set (s3 := prior_value rules s2 k) in *.
  pose proof (keeps_trans _ _ _ K2 K3) as K.
  apply (Inv_ready_if_nowait rules c1 s3 k) in H; auto.
  - destruct H as (Hn & HT' & HI' & HS'). split; auto. split; [|split].
    + apply (InvT_ctx (cx_set_ex c1 None)); auto.
    + now apply (InvI_ctx rules (cx_set_ex c1 None)).
    + now apply (InvS_ctx (cx_set_ex c1 None)).
  - destruct K as (_ & _ & K3' & _). auto.
  - now rewrite (keeps_kind _ _ k K).
  - destruct K as (K1 & _). now rewrite K1.
Qed.
