(* P19b stage 4 (under the premises of stage 3a): the values the small-step engine returns are the values the specification engine
   Spec.build returns - build by build, over any history of environment changes, whatever the schedule.  Both are the clean value
   (Properties_C01 for Spec.build, ImplInc9 for the small-step engine). *)
From LLB Require Import Engine.Rules Engine.Spec Engine.SpecInv1 Engine.SpecC01 Engine.Exec Engine.Impl Engine.ImplProofs Engine.ImplInc1 Engine.ImplInc9 Engine.ImplProofsExamples Engine.ImplVal7 Engine.ImplInc10.
From Coq Require Import Arith Lia Permutation.
Local Open Scope N_scope.

Section Ref.
Variable rules : key -> rule.
Variable F : key -> N -> list value -> list N -> N -> N.
Variable rank : key -> nat.
Variable ord : key -> list rkind.
Variable syncp : key -> bool.
Variable order : N -> key -> list dep -> list dep.
Hypothesis Hrank : wf_rank rules rank.
Hypothesis Hwfd : wf_disc rules.
Hypothesis Hord : forall k, In RReq (ord k).
Hypothesis Horder : wf_order order.


(* one build: any state at rest of the specification engine, any state at rest of the small-step engine (they need not correspond:
   both builds return the clean value) *)
Theorem refines_spec_values env fuel ss k ss' ifuel pfuel s sched sf m : (rank k < fuel)%nat ->
  AtRest F (fixedR rules) ss -> build rules env F order fuel ss k = Ok ss' ->
  HInv F (fixedR rules) s -> ibuild rules env F ord syncp ifuel pfuel s k sched = (RDone sf, m) -> is_fault sf = None ->
  res_value (res_of sf k) = result_of ss' k.
Proof.
  intros Hk HA Hb Hh Hi Hn.
  rewrite (c01_incremental_eq_clean_thm rules env F order rank (fixedR rules) (fixedR_ok rules) Hrank Hwfd Horder fuel ss k ss' Hk HA Hb).
  exact (proj1 (build_values_clean rules F rank (fixedR rules) ord syncp Hrank Hwfd (fixedR_ok rules) Hord env ifuel pfuel fuel s k sched sf m Hh Hi Hn) Hk).
Qed.

(* the same history of builds run by the specification engine *)
Fixpoint spec_builds (fuel : nat) (ss : state) (bs : list bspec) : option (state * list (option value)) :=
  match bs with
  | [] => Some (ss, [])
  | b :: bs' =>
    match build rules (bs_env b) F order fuel ss (bs_root b) with
    | Ok ss' => match spec_builds fuel ss' bs' with Some (sf, vs) => Some (sf, result_of ss' (bs_root b) :: vs) | None => None end
    | _ => None
    end
  end.

Lemma spec_builds_clean fuel bs : forall ss sf vs, AtRest F (fixedR rules) ss -> spec_builds fuel ss bs = Some (sf, vs) ->
  (forall b, In b bs -> (rank (bs_root b) < fuel)%nat) ->
  vs = map (fun b => cv rules (bs_env b) F fuel (bs_root b)) bs.
Proof.
  induction bs as [|b bs IH]; intros ss sf vs HA Hrun Hrk; cbn [spec_builds] in Hrun.
  - inversion Hrun. reflexivity.
  - destruct (build rules (bs_env b) F order fuel ss (bs_root b)) as [ss'|? ?|] eqn:Hb; try discriminate.
    destruct (spec_builds fuel ss' bs) as [[sf' vs']|] eqn:Hrest; [|discriminate]. inversion Hrun. subst sf vs.
    assert (Hk : (rank (bs_root b) < fuel)%nat) by (apply Hrk; now left).
    rewrite (c01_incremental_eq_clean_thm rules (bs_env b) F order rank (fixedR rules) (fixedR_ok rules) Hrank Hwfd Horder fuel ss _ ss' Hk HA Hb).
    cbn [map]. f_equal. apply (IH ss' sf' vs'); auto; [|intros b' Hb'; apply Hrk; now right].
    apply (c01_build_preserves_thm rules (bs_env b) F order rank (fixedR rules) (fixedR_ok rules) Hrank Hwfd Horder fuel ss _ ss' Hk HA Hb).
Qed.

(* both engines from their initial states, the same list of builds (environment, requested key; the small-step engine with any
   schedule and fuels per build): the same list of returned values *)
Theorem refines_spec_history fuel bs ssf vs1 sf vs2 : (forall b, In b bs -> (rank (bs_root b) < fuel)%nat) ->
  spec_builds fuel init_state bs = Some (ssf, vs1) -> run_builds rules F ord syncp init_istate bs = Some (sf, vs2) -> vs2 = vs1.
Proof.
  intros Hrk H1 H2.
  rewrite (spec_builds_clean fuel bs init_state ssf vs1 (AtRest_init F (fixedR rules)) H1 Hrk).
  exact (proj1 (history_values_clean rules F rank (fixedR rules) ord syncp Hrank Hwfd (fixedR_ok rules) Hord fuel bs init_istate sf vs2 (HInv_init F (fixedR rules)) H2 Hrk)).
Qed.
End Ref.

(* non-vacuity: the history of ImplInc10 run by the specification engine (dependencies scanned in the recorded order) *)
Definition order_id : N -> key -> list dep -> list dep := fun _ _ l => l.
Lemma order_id_ok : wf_order order_id. Proof. intros e k l. apply Permutation_refl. Qed.
Definition sres7 := spec_builds R7 mixF order_id 5 init_state H7.
Definition send7 : state := match sres7 with Some (s, _) => s | None => init_state end.
Definition svals7 : list (option value) := match sres7 with Some (_, v) => v | None => [] end.
Lemma srun7_eq : spec_builds R7 mixF order_id 5 init_state H7 = Some (send7, svals7).
Proof. vm_compute. reflexivity. Qed.
Example history7_refines : vals7 = svals7.
Proof.
  pose proof (refines_spec_history R7 mixF rank6 ord6 all_sync order_id R7_ranked R7_wfdisc ord6_ok order_id_ok 5 H7 send7 svals7 end7 vals7 H7_ranks) as H.
  specialize (H srun7_eq). specialize (H run7_eq). exact H.
Qed.
Example history7_refines_computed : vals7 = svals7 /\ length svals7 = 5%nat /\ ~ In None svals7.
Proof. vm_compute. repeat split; try reflexivity. intros H. repeat (destruct H as [H|H]; [discriminate|]). destruct H. Qed.
