(* C05 - proofs about cancellation, part 2: the cancellable engine `ensure_c` against `ensure`.
   Either both produce the same outcome, or `ensure_c` stopped with `Cycle s1 []` at a state `s1` where the budget
   was reached and which the uncancelled engine passes through (its log is extended by the uncancelled run). *)
From LLB Require Import Engine.Rules Engine.Spec Engine.Exec Engine.Cancel Engine.CancelProofs.
From Coq Require Import List NArith Bool Lia Arith.
Local Open Scope N_scope.

(* the log only grows *)
Definition ext (s s' : state) : Prop := exists l, st_log s' = l ++ st_log s.
Definition grows (s : state) (o : outcome) : Prop :=
  match o with Ok s' | Cycle s' _ => ext s s' | OutOfFuel => True end.

Lemma ext_refl : forall s, ext s s.
Proof. intros s. exists []. reflexivity. Qed.

Lemma ext_trans : forall s1 s2 s3, ext s1 s2 -> ext s2 s3 -> ext s1 s3.
Proof. intros s1 s2 s3 [l1 H1] [l2 H2]. exists (l2 ++ l1). rewrite H2, H1. now rewrite app_assoc. Qed.

Lemma ext_emit : forall s e, ext s (emit s e).
Proof. intros s e. exists [e]. reflexivity. Qed.

Lemma grows_trans : forall s s1 o, ext s s1 -> grows s1 o -> grows s o.
Proof. intros s s1 o H1 H2. destruct o; cbn [grows] in *; eauto using ext_trans. Qed.

Lemma grows_bind1 : forall s o f, grows s o -> (forall s1, o = Ok s1 -> grows s1 (f s1)) -> grows s (bind1 o f).
Proof.
  intros s o f Ho Hf. destruct o as [s1|s1 p|]; cbn [bind1]; [|exact Ho|exact I].
  eapply grows_trans; [exact Ho | apply Hf; reflexivity].
Qed.

Lemma grows_bind2 : forall (A : Type) s (p : outcome * A) f, grows s (fst p) ->
  (forall s1, fst p = Ok s1 -> grows s1 (f s1 (snd p))) -> grows s (bind2 p f).
Proof.
  intros A s [o a] f Ho Hf. unfold bind2. cbn [fst snd] in *. destruct o as [s1|s1 p|]; [|exact Ho|exact I].
  eapply grows_trans; [exact Ho | apply Hf; reflexivity].
Qed.

Lemma inv_grows : forall rules order st s o, inv_o rules order st s o -> grows s o.
Proof.
  intros rules order st s o H. destruct o as [s'|s' p|]; cbn [grows]; [| |exact I];
    destruct H as [l H]; exists l; apply (ci_log _ _ _ _ _ _ H).
Qed.

(* ---------- the invariant of the pieces, for a recursive call that has it ---------- *)

Section PieceInv.
Variable rules : key -> rule.
Variable env : key -> N.
Variable F : key -> N -> list value -> list N -> N -> N.
Variable order : N -> key -> list dep -> list dep.
Variable ens : list key -> state -> key -> outcome.
Hypothesis Hinv : forall st s k, inv_o rules order st s (ens st s k).

Lemma requests_inv : forall k stack ks slot s acc,
  inv_o rules order stack s (fst (requests ens k stack ks slot s acc)).
Proof.
  exact (requests_R (cR rules order) (cR_refl rules order) (cR_trans rules order) (cR_weaken rules order)
                    (cR_quiet rules order) ens Hinv).
Qed.

Lemma follows_inv : forall k stack ks s, inv_o rules order stack s (follows ens k stack ks s).
Proof.
  exact (follows_R (cR rules order) (cR_refl rules order) (cR_trans rules order) (cR_weaken rules order) ens Hinv).
Qed.

Lemma run_inv : forall k stack r s, ~ In k stack -> inv_o rules order stack s (run rules env F order ens k stack r s).
Proof.
  exact (run_R rules env F order (cR rules order) (cR_refl rules order) (cR_trans rules order) (cR_weaken rules order)
               (cR_quiet rules order) (cR_create rules order) (cR_complete rules order) ens Hinv).
Qed.

Lemma scan_inv : forall k stack r ds s, ~ In k stack ->
  inv_o rules order stack s (scan rules env F order ens k stack r ds s).
Proof.
  exact (scan_R rules env F order (cR rules order) (cR_refl rules order) (cR_trans rules order) (cR_weaken rules order)
                (cR_quiet rules order) (cR_create rules order) (cR_need rules order) (cR_set_mem rules order)
                (cR_complete rules order) ens Hinv).
Qed.

Lemma complete_ext : forall s k r bk v, ext s (complete order s k (rules k) r bk v).
Proof. intros. exists [EComplete k v]. reflexivity. Qed.

Lemma run_pre_ext : forall k r s, ext s (run_pre rules k r s).
Proof.
  intros k r s. unfold run_pre.
  destruct (negb (N.eqb (res_builtAt r) 0) && N.eqb (r_sig (rules k)) (res_sig r)).
  - exists [EPrior k (res_value r); EStart k; ECreate k]. reflexivity.
  - exists [EStart k; ECreate k]. reflexivity.
Qed.

End PieceInv.

(* ---------- simulation ---------- *)

Section Sim.
Variable rules : key -> rule.
Variable env : key -> N.
Variable F : key -> N -> list value -> list N -> N -> N.
Variable order : N -> key -> list dep -> list dep.
Variable n base : nat.

(* oc: outcome with cancellation; o: outcome without *)
Definition simo (oc o : outcome) : Prop :=
  oc = o \/ exists s1, oc = Cycle s1 [] /\ budget_reached n base s1 = true /\ grows s1 o.

Definition sim2 {A : Type} (pc p : outcome * A) : Prop :=
  pc = p \/ exists s1, fst pc = Cycle s1 [] /\ budget_reached n base s1 = true /\ grows s1 (fst p).

Lemma bind1_sim : forall oc o fc f, simo oc o ->
  (forall s1, o = Ok s1 -> simo (fc s1) (f s1)) ->
  (forall s1, o = Ok s1 -> grows s1 (f s1)) ->
  simo (bind1 oc fc) (bind1 o f).
Proof.
  intros oc o fc f [E|[s1 [E [Hb Hg]]]] Hs Hgf.
  - subst oc. destruct o as [s1|s1 p|]; cbn [bind1]; [apply Hs; reflexivity | now left | now left].
  - subst oc. cbn [bind1]. right. exists s1. split; [reflexivity|]. split; [exact Hb|].
    destruct o as [s2|s2 p|]; cbn [bind1]; [|exact Hg|exact I].
    eapply grows_trans; [exact Hg | apply Hgf; reflexivity].
Qed.

Lemma bind2_sim : forall (A : Type) (pc p : outcome * A) fc f, sim2 pc p ->
  (forall s1, fst p = Ok s1 -> simo (fc s1 (snd p)) (f s1 (snd p))) ->
  (forall s1, fst p = Ok s1 -> grows s1 (f s1 (snd p))) ->
  simo (bind2 pc fc) (bind2 p f).
Proof.
  intros A pc p fc f [E|[s1 [E [Hb Hg]]]] Hs Hgf.
  - subst pc. destruct p as [o a]. unfold bind2. cbn [fst snd] in *.
    destruct o as [s1|s1 q|]; [apply Hs; reflexivity | now left | now left].
  - destruct pc as [oc ac]. destruct p as [o a]. unfold bind2. cbn [fst snd] in *. subst oc.
    right. exists s1. split; [reflexivity|]. split; [exact Hb|].
    destruct o as [s2|s2 q|]; [|exact Hg|exact I].
    eapply grows_trans; [exact Hg | apply Hgf; reflexivity].
Qed.

Section SimStep.
Variable ensc ens : list key -> state -> key -> outcome.
Hypothesis Hsim : forall st s k, simo (ensc st s k) (ens st s k).
Hypothesis Hinv : forall st s k, inv_o rules order st s (ens st s k).

Lemma requests_grows : forall k stack ks slot s acc, grows s (fst (requests ens k stack ks slot s acc)).
Proof. intros. eapply inv_grows. apply requests_inv. exact Hinv. Qed.

Lemma follows_grows : forall k stack ks s, grows s (follows ens k stack ks s).
Proof. intros. eapply inv_grows. apply follows_inv. exact Hinv. Qed.

Lemma requests_sim : forall k stack ks slot s acc,
  sim2 (requests ensc k stack ks slot s acc) (requests ens k stack ks slot s acc).
Proof.
  intros k stack ks. induction ks as [|x t IH]; intros slot s acc; cbn [requests]; [now left|].
  destruct (Hsim (k :: stack) s x) as [E|[s1 [E [Hb Hg]]]].
  - rewrite E. destruct (ens (k :: stack) s x) as [s1|s1 p|]; [apply IH | now left | now left].
  - rewrite E. right. exists s1. cbn [fst]. split; [reflexivity|]. split; [exact Hb|].
    destruct (ens (k :: stack) s x) as [s2|s2 p|]; cbn [fst]; [|exact Hg|exact I].
    eapply grows_trans; [exact Hg|]. eapply grows_trans; [apply ext_emit | apply requests_grows].
Qed.

Lemma follows_sim : forall k stack ks s, simo (follows ensc k stack ks s) (follows ens k stack ks s).
Proof.
  intros k stack ks. induction ks as [|x t IH]; intros s; [now left|].
  rewrite !follows_cons. apply bind1_sim; [apply Hsim | intros s1 _; apply IH | intros s1 _; apply follows_grows].
Qed.

(* the tails of `run` after each group of requests *)
Definition T4 (e : list key -> state -> key -> outcome) k stack r slots1 : state -> list (option value) -> outcome :=
  fun s4 slots3 => follows e k stack (r_disc (rules k))
    (complete order (emit s4 (EAvail k)) k (rules k) r (branch_keys (rules k) slots1)
              (task_value rules env F k (rules k) slots1 slots3)).
Definition T3 (e : list key -> state -> key -> outcome) k stack r slots1 (slots2 : list (option value)) : state -> outcome :=
  fun s3 => bind2 (requests e k stack (branch_keys (rules k) slots1) (length slots1 + length slots2)%nat s3 [])
                  (T4 e k stack r slots1).
Definition T2 (e : list key -> state -> key -> outcome) k stack r slots1 : state -> list (option value) -> outcome :=
  fun s2 slots2 => bind1 (follows e k stack (r_follow (rules k)) s2) (T3 e k stack r slots1 slots2).
Definition T1 (e : list key -> state -> key -> outcome) k stack r : state -> list (option value) -> outcome :=
  fun s1 slots1 => bind2 (requests e k stack (r_single (rules k)) (length slots1) s1 []) (T2 e k stack r slots1).

Lemma run_T : forall e k stack r s,
  run rules env F order e k stack r s = bind2 (requests e k stack (r_req (rules k)) 0%nat (run_pre rules k r s) []) (T1 e k stack r).
Proof. intros. rewrite run_bind. reflexivity. Qed.

Lemma T4_grows : forall k stack r slots1 s4 slots3, grows s4 (T4 ens k stack r slots1 s4 slots3).
Proof.
  intros. unfold T4. eapply grows_trans; [|apply follows_grows].
  eapply ext_trans; [apply ext_emit | apply complete_ext].
Qed.

Lemma T3_grows : forall k stack r slots1 slots2 s3, grows s3 (T3 ens k stack r slots1 slots2 s3).
Proof. intros. unfold T3. apply grows_bind2; [apply requests_grows | intros; apply T4_grows]. Qed.

Lemma T2_grows : forall k stack r slots1 s2 slots2, grows s2 (T2 ens k stack r slots1 s2 slots2).
Proof. intros. unfold T2. apply grows_bind1; [apply follows_grows | intros; apply T3_grows]. Qed.

Lemma T1_grows : forall k stack r s1 slots1, grows s1 (T1 ens k stack r s1 slots1).
Proof. intros. unfold T1. apply grows_bind2; [apply requests_grows | intros; apply T2_grows]. Qed.

Lemma T4_sim : forall k stack r slots1 s4 slots3, simo (T4 ensc k stack r slots1 s4 slots3) (T4 ens k stack r slots1 s4 slots3).
Proof. intros. unfold T4. apply follows_sim. Qed.

Lemma T3_sim : forall k stack r slots1 slots2 s3, simo (T3 ensc k stack r slots1 slots2 s3) (T3 ens k stack r slots1 slots2 s3).
Proof.
  intros. unfold T3. apply bind2_sim; [apply requests_sim | intros; apply T4_sim | intros; apply T4_grows].
Qed.

Lemma T2_sim : forall k stack r slots1 s2 slots2, simo (T2 ensc k stack r slots1 s2 slots2) (T2 ens k stack r slots1 s2 slots2).
Proof.
  intros. unfold T2. apply bind1_sim; [apply follows_sim | intros; apply T3_sim | intros; apply T3_grows].
Qed.

Lemma T1_sim : forall k stack r s1 slots1, simo (T1 ensc k stack r s1 slots1) (T1 ens k stack r s1 slots1).
Proof.
  intros. unfold T1. apply bind2_sim; [apply requests_sim | intros; apply T2_sim | intros; apply T2_grows].
Qed.

Lemma run_sim : forall k stack r s,
  simo (run rules env F order ensc k stack r s) (run rules env F order ens k stack r s).
Proof.
  intros. rewrite !run_T. apply bind2_sim; [apply requests_sim | intros; apply T1_sim | intros; apply T1_grows].
Qed.

Lemma scan_sim : forall k stack r ds s, ~ In k stack ->
  simo (scan rules env F order ensc k stack r ds s) (scan rules env F order ens k stack r ds s).
Proof.
  intros k stack r ds. induction ds as [|d t IH]; intros s Hk; [now left|].
  rewrite !scan_cons. apply bind1_sim; [apply Hsim | |].
  - intros s1 _. destruct (negb (d_order d) && (res_builtAt r <? res_computedAt (get (st_mem s1) (d_key d)))).
    + apply run_sim.
    + apply IH. exact Hk.
  - intros s1 _. destruct (negb (d_order d) && (res_builtAt r <? res_computedAt (get (st_mem s1) (d_key d)))).
    + eapply grows_trans; [apply ext_emit|]. eapply inv_grows. apply run_inv; [exact Hinv | exact Hk].
    + eapply inv_grows. apply scan_inv; [exact Hinv | exact Hk].
Qed.

Lemma ensure_body_sim : forall stack s k,
  simo (ensure_body rules env F order ensc stack s k) (ensure_body rules env F order ens stack s k).
Proof.
  intros stack s k. unfold ensure_body.
  destruct (existsb (N.eqb k) stack) eqn:Est; [now left|].
  pose proof (existsb_eqb_false _ _ Est) as Hk.
  destruct (N.eqb (res_builtAt (get (st_mem s) k)) (st_epoch s)); [now left|].
  cbn [res_builtAt res_sig]. set (r := mkRes _ _ _ _ _).
  destruct (N.eqb (res_builtAt (get (st_mem s) k)) 0); [apply run_sim|].
  destruct (flagged (set_mem s k r) k); [apply run_sim|].
  destruct (negb (N.eqb (r_sig (rules k)) (res_sig (get (st_mem s) k)))); [apply run_sim|].
  destruct (negb (valid rules env k r)); [apply run_sim|].
  apply scan_sim. exact Hk.
Qed.

End SimStep.

Theorem ensure_c_sim : forall fuel stack s k,
  simo (ensure_c rules env F order n base fuel stack s k) (ensure rules env F order fuel stack s k).
Proof.
  induction fuel as [|f IH]; intros stack s k; cbn [ensure_c ensure]; [now left|].
  destruct (budget_reached n base s) eqn:Eb.
  - right. exists s. split; [reflexivity|]. split; [exact Eb|].
    eapply inv_grows. apply ensure_body_inv. apply ensure_inv.
  - apply ensure_body_sim; [exact IH | apply ensure_inv].
Qed.

End Sim.
