(* C02, part 4: a rule is executed ONLY for one of the five reasons; computedAt moves exactly when the
   value changes; an identical recomputation of a dependency does not re-run its dependents. *)
From LLB Require Import Engine.Rules Engine.Spec Engine.SpecOnceFrame Engine.SpecOnce1 Engine.SpecOnce2 Engine.SpecOnce3.
From Coq Require Import List NArith Bool Lia Arith.
Local Open Scope N_scope.

Lemma value_eqb_eq : forall a b : value, value_eqb a b = true <-> a = b.
Proof.
  intros [a1 a2] [b1 b2]. unfold value_eqb. cbn [fst snd]. rewrite andb_true_iff, !N.eqb_eq.
  split; [intros [-> ->]; reflexivity | intros E; inversion E; now split].
Qed.

Lemma changed_b_false_iff : forall r v, changed_b r v = false <-> res_value r = Some v.
Proof.
  intros r v. unfold changed_b. destruct (res_value r) as [old|].
  - rewrite negb_false_iff, value_eqb_eq. split; [now intros -> | intros E; now inversion E].
  - split; discriminate.
Qed.

Section OnlyIf.
Variable rules : key -> rule.
Variable env : key -> N.
Variable F : key -> N -> list value -> list N -> N -> N.
Variable order : N -> key -> list dep -> list dep.

(* ---- complete: computedAt := epoch iff the value changed ---- *)

Lemma complete_result : forall s k rl r bk v,
  let r' := get (st_mem (complete order s k rl r bk v)) k in
  res_value r' = Some v /\ res_sig r' = r_sig rl /\ res_builtAt r' = st_epoch s /\
  (res_value r = Some v -> res_computedAt r' = res_computedAt r) /\
  (res_value r <> Some v -> res_computedAt r' = st_epoch s) /\
  get (st_db (complete order s k rl r bk v)) k = r'.
Proof.
  intros s k rl r bk v. cbv zeta. rewrite complete_mem_k. cbn [res_value res_sig res_builtAt res_computedAt].
  repeat split.
  - intros E. apply changed_b_false_iff in E. now rewrite E.
  - intros E. destruct (changed_b r v) eqn:C; [reflexivity|]. apply changed_b_false_iff in C. contradiction.
  - unfold complete. cbn [set_db set_mem st_db unflag emit st_epoch]. rewrite get_update_same. reflexivity.
Qed.

Lemma complete_computedAt_iff : forall s k rl r bk v, res_computedAt r <> st_epoch s ->
  (res_computedAt (get (st_mem (complete order s k rl r bk v)) k) = st_epoch s <-> res_value r <> Some v).
Proof.
  intros s k rl r bk v Hne. destruct (complete_result s k rl r bk v) as (_ & _ & _ & A & B & _).
  split.
  - intros E C. apply Hne. rewrite <- E. symmetry. now apply A.
  - exact B.
Qed.

(* ---- one step of the scan ---- *)

Lemma scan_step_quiet : forall ens k stack r d ds s s1,
  ens (k :: stack) s (d_key d) = Ok s1 ->
  d_order d = true \/ res_computedAt (get (st_mem s1) (d_key d)) <= res_builtAt r ->
  scan rules env F order ens k stack r (d :: ds) s = scan rules env F order ens k stack r ds s1.
Proof.
  intros ens k stack r d ds s s1 E H. cbn [scan]. rewrite E.
  destruct H as [H|H].
  - rewrite H. reflexivity.
  - apply N.ltb_ge in H. rewrite H, andb_false_r. reflexivity.
Qed.

Lemma scan_step_trigger : forall ens k stack r d ds s s1,
  ens (k :: stack) s (d_key d) = Ok s1 -> d_order d = false ->
  res_builtAt r < res_computedAt (get (st_mem s1) (d_key d)) ->
  scan rules env F order ens k stack r (d :: ds) s =
  run rules env F order ens k stack r (emit s1 (ENeed k InputRebuilt (Some (d_key d)))).
Proof.
  intros ens k stack r d ds s s1 E H1 H2. cbn [scan]. rewrite E, H1. apply N.ltb_lt in H2. now rewrite H2.
Qed.

(* ---- per key: the value is unchanged only if computedAt is ---- *)

Lemma key_trans_value : forall ok x e r r' cr, key_trans rules env order ok x e r r' cr ->
  res_value r' = res_value r -> res_computedAt r' = res_computedAt r.
Proof.
  intros ok x e r r' cr [[_ [->|[->|[_ ->]]]]|[_ [(v & bk & _ & ->)|[_ ->]]]] E; try reflexivity.
  cbn [res_value res_computedAt] in *. symmetry in E. apply changed_b_false_iff in E. now rewrite E.
Qed.

Lemma key_trans_not_created : forall x e r r' cr, key_trans rules env order true x e r r' cr -> ~ cr ->
  r' = r \/ r' = validated e r.
Proof.
  intros x e r r' cr [[_ [H|[H|[H _]]]]|[C _]] N; try discriminate; tauto.
Qed.

Theorem ensure_value_computedAt : forall fuel stack s k s',
  ostate (ensure rules env F order fuel stack s k) = Some s' ->
  forall x, res_value (get (st_mem s') x) = res_value (get (st_mem s) x) ->
            res_computedAt (get (st_mem s') x) = res_computedAt (get (st_mem s) x).
Proof.
  intros fuel stack s k s' E x. pose proof (ensure_trans rules env order F fuel stack s k) as T.
  destruct (ensure rules env F order fuel stack s k) as [t|t p|]; cbn [ostate] in E; inversion E; subst t;
    cbn [trans_o] in T; eapply key_trans_value; apply T.
Qed.

(* ---- executed only for a reason ---- *)

Definition no_reason (s s' : state) (k : key) : Prop :=
  let r0 := get (st_mem s) k in
  res_builtAt r0 <> 0 /\ flagged s k = false /\ r_sig (rules k) = res_sig r0 /\ valid rules env k r0 = true /\
  forall d, In d (drop_single (res_deps r0)) -> d_order d = false ->
            res_computedAt (get (st_mem s') (d_key d)) <= res_builtAt r0.

Theorem ensure_only_if_not_created : forall fuel stack s k s' x,
  ostate (ensure rules env F order fuel stack s k) = Some s' -> no_reason s s' x ->
  ~ In x (creates (new_log s s')).
Proof.
  intros fuel stack s k s' x E (H1 & H2 & H3 & H4 & H5) C.
  destruct (ensure_paired rules env F order fuel stack s k s' E) as (l & L & P).
  rewrite (new_log_intro _ _ _ L) in C.
  rewrite <- (paired_needs_creates _ P) in C. apply in_needs in C. destruct C as (rs & inp & C).
  pose proof (ensure_reason rules env F order fuel stack s k s' E) as R.
  rewrite (new_log_intro _ _ _ L) in R. specialize (R x rs inp C). unfold reason_ok, reason_holds in R.
  destruct R as [R|[R|[R|[R|R]]]].
  - destruct R as (_ & _ & R). contradiction.
  - destruct R as (_ & _ & _ & R). congruence.
  - destruct R as (_ & _ & _ & _ & R). contradiction.
  - destruct R as (_ & _ & _ & _ & _ & R). congruence.
  - destruct R as (_ & _ & _ & _ & _ & d & pre & post & _ & I2 & I3 & _ & _ & I6 & _).
    assert (Hin : In d (drop_single (res_deps (get (st_mem s) x)))) by (rewrite I2; apply in_elt).
    specialize (H5 d Hin I3). lia.
Qed.

Theorem ensure_only_if : forall fuel stack s k s',
  ensure rules env F order fuel stack s k = Ok s' -> no_reason s s' k ->
  ~ In k (creates (new_log s s')) /\
  (get (st_mem s') k = validated (st_epoch s) (get (st_mem s) k)
   \/ (get (st_mem s') k = get (st_mem s) k /\ res_builtAt (get (st_mem s) k) = st_epoch s)).
Proof.
  intros fuel stack s k s' E H.
  assert (E' : ostate (ensure rules env F order fuel stack s k) = Some s') by now rewrite E.
  pose proof (ensure_only_if_not_created _ _ _ _ _ _ E' H) as N. split; [exact N|].
  pose proof (ensure_trans rules env order F fuel stack s k) as T. rewrite E in T. cbn [trans_o] in T.
  destruct (key_trans_not_created _ _ _ _ _ (T k) N) as [Q|Q]; [right | now left].
  split; [exact Q|]. destruct (ensure_frame rules env F order fuel stack s k) as [A D]. rewrite E in A.
  specialize (D s' E). unfold done in D. rewrite Q in D. rewrite D. exact (fr_epoch _ _ _ _ _ A).
Qed.

(* a dependency recomputed to an identical value does not re-run its dependents *)
Theorem ensure_identical_recompute_no_rerun : forall fuel stack s k s',
  ensure rules env F order fuel stack s k = Ok s' ->
  let r0 := get (st_mem s) k in
  res_builtAt r0 <> 0 -> flagged s k = false -> r_sig (rules k) = res_sig r0 -> valid rules env k r0 = true ->
  (forall d, In d (drop_single (res_deps r0)) -> d_order d = false ->
     res_computedAt (get (st_mem s) (d_key d)) <= res_builtAt r0 /\
     res_value (get (st_mem s') (d_key d)) = res_value (get (st_mem s) (d_key d))) ->
  ~ In k (creates (new_log s s')) /\ res_value (get (st_mem s') k) = res_value r0.
Proof.
  intros fuel stack s k s' E r0 H1 H2 H3 H4 H5.
  assert (E' : ostate (ensure rules env F order fuel stack s k) = Some s') by now rewrite E.
  assert (NR : no_reason s s' k).
  { repeat (split; [assumption|]). intros d Hd Ho. destruct (H5 d Hd Ho) as [A B].
    now rewrite (ensure_value_computedAt _ _ _ _ _ E' _ B). }
  destruct (ensure_only_if _ _ _ _ _ E NR) as [N [Q|[Q _]]]; (split; [exact N|]); rewrite Q; reflexivity.
Qed.

End OnlyIf.
