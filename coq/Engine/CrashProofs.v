(* C04 - proofs about Engine/Crash.v: a build killed after any number of database operations leaves exactly the
   pre-build or exactly the post-build state, both satisfying the invariant; histories; counter-models. *)
From Coq Require Import Arith.
From LLB Require Import Engine.Rules Engine.Crash.
Local Open Scope N_scope.

(* ------------------------------------------------------------------ key sets *)
Lemma mem_In : forall k ks, mem k ks = true <-> In k ks.
Proof.
  unfold mem. intros k ks. rewrite existsb_exists. split.
  - intros [x [Hi He]]. apply N.eqb_eq in He. subst x. exact Hi.
  - intros Hi. exists k. split; [exact Hi | apply N.eqb_refl].
Qed.

Lemma add_key_incl : forall ks k x, In x ks -> In x (add_key ks k).
Proof.
  unfold add_key. intros ks k x Hi. destruct (mem k ks); [exact Hi | apply in_or_app; left; exact Hi].
Qed.

Lemma add_key_in : forall ks k, In k (add_key ks k).
Proof.
  unfold add_key. intros ks k. destruct (mem k ks) eqn:E.
  - apply mem_In. exact E.
  - apply in_or_app. right. left. reflexivity.
Qed.

Lemma fold_add_key_incl : forall l ks x, In x ks -> In x (fold_left add_key l ks).
Proof.
  induction l as [|a t IH]; intros ks x Hi; cbn [fold_left].
  - exact Hi.
  - apply IH. apply add_key_incl. exact Hi.
Qed.

Lemma fold_add_key_in : forall l ks x, In x l -> In x (fold_left add_key l ks).
Proof.
  induction l as [|a t IH]; intros ks x Hi; cbn [fold_left].
  - destruct Hi.
  - destruct Hi as [He | Hi].
    + subst a. apply fold_add_key_incl. apply add_key_in.
    + apply IH. exact Hi.
Qed.

(* ------------------------------------------------------------------ rows *)
Lemma Forall_update : forall (P : key * result -> Prop) m k r,
  Forall P m -> P (k, r) -> Forall P (update m k r).
Proof.
  induction m as [|[k' r'] t IH]; intros k r Hm Hp; cbn [update].
  - constructor; [exact Hp | constructor].
  - inversion Hm as [|x l Hx Hl]; subst. destruct (N.eqb k k').
    + constructor; [exact Hp | exact Hl].
    + constructor; [exact Hx | apply IH; [exact Hl | exact Hp]].
Qed.

Lemma lookup_In : forall m k r, lookup m k = Some r -> In (k, r) m.
Proof.
  induction m as [|[k' r'] t IH]; intros k r Hl; cbn [lookup] in Hl.
  - discriminate.
  - destruct (N.eqb k k') eqn:E.
    + apply N.eqb_eq in E. subst k'. inversion Hl; subst. left. reflexivity.
    + right. apply IH. exact Hl.
Qed.

Lemma row_keys_in_mono : forall ks ks' kr,
  (forall x, In x ks -> In x ks') -> row_keys_in ks kr -> row_keys_in ks' kr.
Proof.
  intros ks ks' kr Hsub [Hk Hd]. split.
  - apply Hsub. exact Hk.
  - apply Forall_forall. intros d Hdi. apply Hsub. rewrite Forall_forall in Hd. apply Hd. exact Hdi.
Qed.

Lemma row_epochs_le_mono : forall n n' kr, n <= n' -> row_epochs_le n kr -> row_epochs_le n' kr.
Proof. intros n n' kr Hle [Hb Hc]. split; lia. Qed.

(* ------------------------------------------------------------------ the invariant, executable form *)
Lemma row_epochs_le_b_iff : forall n kr, row_epochs_le_b n kr = true <-> row_epochs_le n kr.
Proof.
  intros n kr. unfold row_epochs_le_b, row_epochs_le. rewrite andb_true_iff, !N.leb_le. tauto.
Qed.

Lemma row_keys_in_b_iff : forall ks kr, row_keys_in_b ks kr = true <-> row_keys_in ks kr.
Proof.
  intros ks kr. unfold row_keys_in_b, row_keys_in. rewrite andb_true_iff, mem_In, forallb_forall, Forall_forall.
  split.
  - intros [Hk Hd]. split; [exact Hk|]. intros d Hdi. apply mem_In. apply Hd. exact Hdi.
  - intros [Hk Hd]. split; [exact Hk|]. intros d Hdi. apply mem_In. apply Hd. exact Hdi.
Qed.

Theorem db_inv_b_iff : forall st, db_inv_b st = true <-> DbInv st.
Proof.
  intros st. unfold db_inv_b. rewrite andb_true_iff, !forallb_forall. split.
  - intros [He Hk]. constructor; apply Forall_forall; intros kr Hi.
    + apply row_epochs_le_b_iff. apply He. exact Hi.
    + apply row_keys_in_b_iff. apply Hk. exact Hi.
  - intros [He Hk]. rewrite Forall_forall in He, Hk. split; intros kr Hi.
    + apply row_epochs_le_b_iff. apply He. exact Hi.
    + apply row_keys_in_b_iff. apply Hk. exact Hi.
Qed.

Lemma empty_db_inv : DbInv empty_db.
Proof. constructor; constructor. Qed.

(* ------------------------------------------------------------------ inside one transaction *)
Definition BodyInv (e : N) (w : dbst) : Prop :=
  Forall (row_epochs_le e) (rows w) /\ Forall (row_keys_in (key_names w)) (rows w).

Lemma tail_is_commit : forall t : list dbop, match t with [Commit] => true | _ => false end = true -> t = [Commit].
Proof.
  intros t H. destruct t as [|o t']; [discriminate|]. destruct o; try discriminate.
  destruct t'; [reflexivity | discriminate].
Qed.

Lemma wf_body_inv : forall ops e w,
  wf_body e (key_names w) ops = true -> BodyInv e w -> DbInv (fold_left apply_op ops w).
Proof.
  induction ops as [|o t IH]; intros e w Hwf [He Hk]; cbn [wf_body] in Hwf.
  - discriminate.
  - destruct o as [|k|k r|m|]; try discriminate.
    + (* AddKey *)
      cbn [fold_left]. apply (IH e).
      * cbn [apply_op key_names]. exact Hwf.
      * split; cbn [apply_op rows key_names]; [exact He|].
        apply Forall_forall. intros kr Hi. rewrite Forall_forall in Hk.
        apply row_keys_in_mono with (ks := key_names w); [intros x Hx; apply add_key_incl; exact Hx | apply Hk; exact Hi].
    + (* SetResult *)
      apply andb_true_iff in Hwf. destruct Hwf as [Hr Hwf].
      unfold res_ok in Hr. apply andb_true_iff in Hr. destruct Hr as [Hr Hdeps].
      apply andb_true_iff in Hr. destruct Hr as [Hep Hmem].
      unfold result_epochs_ok in Hep. apply andb_true_iff in Hep. destruct Hep as [Hb Hc].
      apply N.eqb_eq in Hb. apply N.leb_le in Hc.
      cbn [fold_left]. apply (IH e).
      * cbn [apply_op key_names]. exact Hwf.
      * split; cbn [apply_op rows key_names].
        -- apply Forall_update; [exact He|]. split; cbn [snd]; lia.
        -- apply Forall_update; [exact Hk|]. split; cbn [fst snd].
           ++ apply mem_In. exact Hmem.
           ++ apply Forall_forall. intros d Hdi. apply mem_In. rewrite forallb_forall in Hdeps. apply Hdeps. exact Hdi.
    + (* SetIteration; Commit *)
      apply andb_true_iff in Hwf. destruct Hwf as [Hm Ht]. apply N.eqb_eq in Hm. subst m.
      apply tail_is_commit in Ht. subst t. cbn [fold_left apply_op rows key_names iteration].
      constructor; cbn [rows key_names iteration]; assumption.
Qed.

Lemma recover_body_cut : forall ops e ks j c w,
  wf_body e ks ops = true -> (j < length ops)%nat -> recover_aux c w true (firstn j ops) = c.
Proof.
  induction ops as [|o t IH]; intros e ks j c w Hwf Hj; cbn [wf_body] in Hwf.
  - discriminate.
  - destruct j as [|j']; [reflexivity|]. cbn [length] in Hj. cbn [firstn].
    destruct o as [|k|k r|m|]; try discriminate.
    + cbn [recover_aux]. apply (IH e (add_key ks k)); [exact Hwf | lia].
    + apply andb_true_iff in Hwf. destruct Hwf as [_ Hwf].
      cbn [recover_aux]. apply (IH e ks); [exact Hwf | lia].
    + apply andb_true_iff in Hwf. destruct Hwf as [_ Ht]. apply tail_is_commit in Ht. subst t.
      cbn [length] in Hj. assert (j' = 0%nat) as -> by lia. reflexivity.
Qed.

Lemma recover_body_full : forall ops e ks c w,
  wf_body e ks ops = true -> recover_aux c w true ops = fold_left apply_op ops w.
Proof.
  induction ops as [|o t IH]; intros e ks c w Hwf; cbn [wf_body] in Hwf.
  - discriminate.
  - destruct o as [|k|k r|m|]; try discriminate.
    + cbn [recover_aux fold_left]. apply (IH e (add_key ks k)). exact Hwf.
    + apply andb_true_iff in Hwf. destruct Hwf as [_ Hwf].
      cbn [recover_aux fold_left]. apply (IH e ks). exact Hwf.
    + apply andb_true_iff in Hwf. destruct Hwf as [_ Ht]. apply tail_is_commit in Ht. subst t. reflexivity.
Qed.

(* ------------------------------------------------------------------ one build trace *)
Lemma wf_trace_shape : forall st ops, wf_trace st ops = true ->
  exists t, ops = Begin :: t /\ (t = [Commit] \/ wf_body (iteration st + 1) (key_names st) t = true).
Proof.
  intros st ops H. unfold wf_trace in H. destruct ops as [|o t]; [discriminate|]. destruct o; try discriminate.
  exists t. split; [reflexivity|]. apply orb_true_iff in H. destruct H as [H | H].
  - left. unfold is_refused_tail in H. apply tail_is_commit. exact H.
  - right. exact H.
Qed.

(* killed before the trace was issued completely: nothing of the build is visible *)
Theorem recover_cut : forall st ops j,
  wf_trace st ops = true -> (j < length ops)%nat -> recover st (firstn j ops) = st.
Proof.
  intros st ops j Hwf Hj. destruct (wf_trace_shape st ops Hwf) as [t [-> Ht]].
  destruct j as [|j']; [reflexivity|]. cbn [length] in Hj. cbn [firstn]. unfold recover. cbn [recover_aux].
  destruct Ht as [-> | Hb].
  - cbn [length] in Hj. assert (j' = 0%nat) as -> by lia. reflexivity.
  - apply (recover_body_cut t (iteration st + 1) (key_names st)); [exact Hb | lia].
Qed.

(* the whole trace was issued: everything of the build is visible *)
Theorem recover_full : forall st ops,
  wf_trace st ops = true -> recover st ops = apply_committed st ops.
Proof.
  intros st ops Hwf. destruct (wf_trace_shape st ops Hwf) as [t [-> Ht]].
  unfold recover, apply_committed. cbn [recover_aux fold_left apply_op].
  destruct Ht as [-> | Hb].
  - reflexivity.
  - apply (recover_body_full t (iteration st + 1) (key_names st)). exact Hb.
Qed.

Theorem prefix_atomic : forall st ops n, wf_trace st ops = true ->
  recover st (firstn n ops) = if Nat.ltb n (length ops) then st else apply_committed st ops.
Proof.
  intros st ops n Hwf. destruct (Nat.ltb n (length ops)) eqn:E.
  - apply Nat.ltb_lt in E. apply recover_cut; assumption.
  - apply Nat.ltb_ge in E. rewrite firstn_all2 by exact E. apply recover_full. exact Hwf.
Qed.

Theorem committed_inv : forall st ops, DbInv st -> wf_trace st ops = true -> DbInv (apply_committed st ops).
Proof.
  intros st ops [He Hk] Hwf. destruct (wf_trace_shape st ops Hwf) as [t [-> Ht]].
  unfold apply_committed. cbn [fold_left apply_op]. destruct Ht as [-> | Hb].
  - cbn [fold_left apply_op]. constructor; assumption.
  - apply (wf_body_inv t (iteration st + 1)); [exact Hb|]. split; [|exact Hk].
    apply Forall_forall. intros kr Hi. rewrite Forall_forall in He.
    apply row_epochs_le_mono with (n := iteration st); [lia | apply He; exact Hi].
Qed.

(* ------------------------------------------------------------------ provenance *)
Lemma rows_fold : forall ops st, rows (fold_left apply_op ops st) = fold_left store (emitted ops) (rows st).
Proof.
  induction ops as [|o t IH]; intros st.
  - reflexivity.
  - cbn [fold_left]. rewrite IH. unfold emitted at 2. cbn [flat_map]. fold (emitted t).
    rewrite fold_left_app. destruct o; reflexivity.
Qed.

Lemma provenance_committed : forall log st ops,
  Provenance log st -> Provenance (log ++ emitted ops) (apply_committed st ops).
Proof.
  intros log st ops Hp. unfold Provenance, apply_committed, last_wins in *.
  rewrite rows_fold, fold_left_app, Hp. reflexivity.
Qed.

Lemma provenance_empty : Provenance [] empty_db.
Proof. reflexivity. Qed.

(* ------------------------------------------------------------------ process runs and histories *)
Lemma after_run_spec : forall st r, wf_trace st (run_trace r) = true ->
  after_run st r = if run_committed r then apply_committed st (run_trace r) else st.
Proof.
  intros st r Hwf. unfold after_run, run_ops, run_committed. destruct (run_cut r) as [n|].
  - rewrite (prefix_atomic st (run_trace r) n Hwf). rewrite Nat.ltb_antisym.
    destruct (Nat.leb (length (run_trace r)) n); reflexivity.
  - apply recover_full. exact Hwf.
Qed.

Lemma after_run_inv : forall st r, DbInv st -> wf_trace st (run_trace r) = true -> DbInv (after_run st r).
Proof.
  intros st r Hinv Hr. rewrite (after_run_spec st r Hr).
  destruct (run_committed r); [apply committed_inv; assumption | exact Hinv].
Qed.

Lemma history_inv : forall rs st0, DbInv st0 -> wf_history st0 rs = true -> DbInv (after_history st0 rs).
Proof.
  induction rs as [|r t IH]; intros st0 Hinv Hwf.
  - exact Hinv.
  - cbn [wf_history] in Hwf. apply andb_true_iff in Hwf. destruct Hwf as [Hr Ht].
    unfold after_history. cbn [fold_left]. apply IH; [apply after_run_inv; assumption | exact Ht].
Qed.

Theorem history_consistent : forall rs st0 log0,
  DbInv st0 -> Provenance log0 st0 -> wf_history st0 rs = true ->
  DbInv (after_history st0 rs) /\ Provenance (log0 ++ committed_log rs) (after_history st0 rs).
Proof.
  induction rs as [|r t IH]; intros st0 log0 Hinv Hp Hwf.
  - cbn [after_history fold_left committed_log flat_map]. rewrite app_nil_r. split; assumption.
  - cbn [wf_history] in Hwf. apply andb_true_iff in Hwf. destruct Hwf as [Hr Ht].
    unfold after_history. cbn [fold_left]. fold (after_history (after_run st0 r) t).
    unfold committed_log. cbn [flat_map]. fold (committed_log t). rewrite app_assoc.
    pose proof (after_run_spec st0 r Hr) as Hs. destruct (run_committed r).
    + apply IH; [rewrite Hs; apply committed_inv; assumption | rewrite Hs; apply provenance_committed; exact Hp | exact Ht].
    + rewrite app_nil_r. apply IH; [rewrite Hs; exact Hinv | rewrite Hs; exact Hp | exact Ht].
Qed.

(* a history with kills leaves the same database as the history in which the killed builds never started *)
Theorem history_equiv_uncrashed : forall rs st0, wf_history st0 rs = true ->
  after_history st0 rs = after_history st0 (uncrashed rs) /\ wf_history st0 (uncrashed rs) = true.
Proof.
  induction rs as [|r t IH]; intros st0 Hwf.
  - split; reflexivity.
  - cbn [wf_history] in Hwf. apply andb_true_iff in Hwf. destruct Hwf as [Hr Ht].
    unfold after_history. cbn [fold_left]. fold (after_history (after_run st0 r) t).
    unfold uncrashed. cbn [filter]. pose proof (after_run_spec st0 r Hr) as Hs.
    destruct (run_committed r) eqn:Ec.
    + cbn [map fold_left]. fold (uncrashed t).
      assert (Heq : after_run st0 (mkRun (run_trace r) None) = after_run st0 r).
      { rewrite Hs. unfold after_run, run_ops. cbn [run_cut run_trace]. apply recover_full. exact Hr. }
      rewrite Heq. fold (after_history (after_run st0 r) (uncrashed t)).
      destruct (IH (after_run st0 r) Ht) as [Ha Hw]. split; [exact Ha|].
      cbn [wf_history run_trace]. rewrite Hr, Heq. exact Hw.
    + fold (uncrashed t). rewrite Hs in *. apply IH. exact Ht.
Qed.

(* the statement asked for: any number of builds (each killed or not), then a build killed after n operations *)
Theorem prefix_consistent : forall st0 rs tr n,
  DbInv st0 -> wf_history st0 (rs ++ [mkRun tr (Some n)]) = true ->
  let st1 := after_history st0 rs in
  let st := after_history st0 (rs ++ [mkRun tr (Some n)]) in
  st = recover st1 (firstn n tr) /\ DbInv st /\
  ((n < length tr)%nat -> st = st1) /\ ((length tr <= n)%nat -> st = apply_committed st1 tr).
Proof.
  intros st0 rs tr n Hinv Hwf st1 st.
  assert (Hst : st = recover st1 (firstn n tr)).
  { unfold st, st1, after_history. rewrite fold_left_app. reflexivity. }
  assert (Hw1 : wf_trace st1 tr = true).
  { clear Hst st. subst st1. revert st0 Hinv Hwf. induction rs as [|r t IH]; intros st0 Hinv Hwf.
    - cbn [app wf_history run_trace] in Hwf. apply andb_true_iff in Hwf. destruct Hwf as [Hr _]. exact Hr.
    - cbn [app wf_history] in Hwf. apply andb_true_iff in Hwf. destruct Hwf as [Hr Ht].
      unfold after_history. cbn [fold_left]. apply IH; [|exact Ht].
      rewrite (after_run_spec st0 r Hr). destruct (run_committed r); [apply committed_inv; assumption | exact Hinv]. }
  split; [exact Hst|]. split.
  - apply history_inv; assumption.
  - rewrite Hst, (prefix_atomic st1 tr n Hw1). split; intros Hn.
    + apply Nat.ltb_lt in Hn. rewrite Hn. reflexivity.
    + apply Nat.ltb_ge in Hn. rewrite Hn. reflexivity.
Qed.

(* ------------------------------------------------------------------ no epoch is handed out twice with rows attached *)
(* The engine of the next process starts from [iteration st] and stamps its first build with [iteration st + 1]:
   no stored row carries that epoch, so "builtAt < computedAt of an input" comparisons never meet a stale equal stamp. *)
Theorem no_epoch_reuse_hazard : forall st k r,
  DbInv st -> lookup (rows st) k = Some r ->
  res_builtAt r <> iteration st + 1 /\ res_computedAt r <> iteration st + 1.
Proof.
  intros st k r [He _] Hl. apply lookup_In in Hl. rewrite Forall_forall in He.
  destruct (He (k, r) Hl) as [Hb Hc]. cbn [snd] in Hb, Hc. split; lia.
Qed.

Theorem no_epoch_reuse_after_kill : forall st0 ops n k r,
  DbInv st0 -> wf_trace st0 ops = true -> (n < length ops)%nat ->
  let st := recover st0 (firstn n ops) in
  iteration st = iteration st0 /\
  (lookup (rows st) k = Some r -> res_builtAt r <> iteration st0 + 1 /\ res_computedAt r <> iteration st0 + 1).
Proof.
  intros st0 ops n k r Hinv Hwf Hn st. unfold st. rewrite (recover_cut st0 ops n Hwf Hn).
  split; [reflexivity|]. intros Hl. apply (no_epoch_reuse_hazard st0 k r Hinv Hl).
Qed.

(* ------------------------------------------------------------------ the generated trace is well-formed *)
Lemma wf_body_addkeys : forall l e ks rest,
  wf_body e ks (map AddKey l ++ rest) = wf_body e (fold_left add_key l ks) rest.
Proof.
  induction l as [|a t IH]; intros e ks rest.
  - reflexivity.
  - cbn [map app wf_body fold_left]. apply IH.
Qed.

Lemma wf_body_results : forall results e ks,
  results_ok e results = true ->
  wf_body e ks (flat_map ops_of_result results ++ [SetIteration e; Commit]) = true.
Proof.
  induction results as [|[k r] t IH]; intros e ks Hok.
  - cbn [flat_map app wf_body]. rewrite N.eqb_refl. reflexivity.
  - unfold results_ok in Hok. cbn [forallb snd] in Hok. apply andb_true_iff in Hok. destruct Hok as [Hr Ht].
    cbn [flat_map]. unfold ops_of_result at 1. cbn [fst snd].
    rewrite <- map_map with (f := d_key) (g := AddKey).
    cbn [app]. rewrite <- !app_assoc. cbn [wf_body]. rewrite wf_body_addkeys. cbn [app wf_body].
    apply andb_true_iff. split.
    + unfold res_ok. rewrite Hr. cbn [andb]. apply andb_true_iff. split.
      * apply mem_In. apply fold_add_key_incl. apply add_key_in.
      * apply forallb_forall. intros d Hd. apply mem_In. apply fold_add_key_in. apply in_map. exact Hd.
    + apply IH. exact Ht.
Qed.

Theorem trace_of_build_wf : forall st e results,
  e = iteration st + 1 -> results_ok e results = true -> wf_trace st (trace_of_build e results) = true.
Proof.
  intros st e results -> Hok. unfold trace_of_build, wf_trace.
  rewrite (wf_body_results results (iteration st + 1) (key_names st) Hok). apply orb_true_r.
Qed.

Theorem trace_refused_wf : forall st, wf_trace st trace_refused = true.
Proof. intros st. reflexivity. Qed.

(* ------------------------------------------------------------------ counter-models *)
Definition cm_results : list (key * result) :=
  [ (0, mkRes (Some (1, 1)) 0 1 1 []);
    (1, mkRes (Some (2, 0)) 1 1 1 [mkDep 0 false false]) ].

(* iteration in its own transaction after the results: killed between the two commits (7 operations issued),
   the file holds rows of epoch 1 under stored epoch 0 - the next process re-issues epoch 1 *)
Theorem iteration_after_commit_refuted :
  exists st0 e results n,
    DbInv st0 /\ e = iteration st0 + 1 /\ results_ok e results = true /\
    ~ DbInv (recover st0 (firstn n (trace_iteration_after_commit e results))) /\
    exists k r, lookup (rows (recover st0 (firstn n (trace_iteration_after_commit e results)))) k = Some r /\
                res_builtAt r = iteration (recover st0 (firstn n (trace_iteration_after_commit e results))) + 1.
Proof.
  exists empty_db, 1, cm_results, 7%nat.
  split; [exact empty_db_inv|]. split; [reflexivity|]. split; [reflexivity|]. split.
  - intros H. apply db_inv_b_iff in H. vm_compute in H. discriminate.
  - exists 0, (mkRes (Some (1, 1)) 0 1 1 []). split; reflexivity.
Qed.

(* one transaction per result: killed after the first commit (4 operations issued), the file is neither the pre-build
   nor the post-build state, and again holds a row of epoch 1 under stored epoch 0 *)
Theorem commit_per_result_refuted :
  exists st0 e results n,
    DbInv st0 /\ e = iteration st0 + 1 /\ results_ok e results = true /\
    ~ DbInv (recover st0 (firstn n (trace_commit_per_result e results))) /\
    recover st0 (firstn n (trace_commit_per_result e results)) <> st0 /\
    recover st0 (firstn n (trace_commit_per_result e results)) <> apply_committed st0 (trace_commit_per_result e results).
Proof.
  exists empty_db, 1, cm_results, 4%nat.
  split; [exact empty_db_inv|]. split; [reflexivity|]. split; [reflexivity|]. split; [|split].
  - intros H. apply db_inv_b_iff in H. vm_compute in H. discriminate.
  - vm_compute. discriminate.
  - vm_compute. discriminate.
Qed.

Theorem needs_single_txn_refuted :
  (exists st0 e results n,
     DbInv st0 /\ e = iteration st0 + 1 /\ results_ok e results = true /\
     ~ DbInv (recover st0 (firstn n (trace_iteration_after_commit e results)))) /\
  (exists st0 e results n,
     DbInv st0 /\ e = iteration st0 + 1 /\ results_ok e results = true /\
     ~ DbInv (recover st0 (firstn n (trace_commit_per_result e results)))).
Proof.
  split.
  - destruct iteration_after_commit_refuted as [st0 [e [rs [n [H1 [H2 [H3 [H4 _]]]]]]]].
    exists st0, e, rs, n. split; [exact H1|]. split; [exact H2|]. split; [exact H3 | exact H4].
  - destruct commit_per_result_refuted as [st0 [e [rs [n [H1 [H2 [H3 [H4 _]]]]]]]].
    exists st0, e, rs, n. split; [exact H1|]. split; [exact H2|]. split; [exact H3 | exact H4].
Qed.

(* ------------------------------------------------------------------ cancelled / cycle-failed builds *)
Lemma results_ok_filter : forall e (f : key * result -> bool) results,
  results_ok e results = true -> results_ok e (filter f results) = true.
Proof.
  intros e f results H. unfold results_ok in *. rewrite forallb_forall in *. intros kr Hi.
  apply filter_In in Hi. apply H. exact (proj1 Hi).
Qed.

(* whatever subset of the tasks completed before the cancellation, the trace is well-formed (so every theorem above
   applies to it: atomic under a kill, invariant after the commit) *)
Theorem cancelled_build_wf : forall st e results (finished : key * result -> bool),
  e = iteration st + 1 -> results_ok e results = true ->
  wf_trace st (trace_of_build e (filter finished results)) = true.
Proof.
  intros st e results finished He Hok. apply trace_of_build_wf; [exact He | apply results_ok_filter; exact Hok].
Qed.

Theorem cancelled_build_inv : forall st e results (finished : key * result -> bool) n,
  DbInv st -> e = iteration st + 1 -> results_ok e results = true ->
  DbInv (recover st (firstn n (trace_of_build e (filter finished results)))).
Proof.
  intros st e results finished n Hinv He Hok.
  pose proof (cancelled_build_wf st e results finished He Hok) as Hwf.
  rewrite (prefix_atomic st _ n Hwf). destruct (Nat.ltb n _).
  - exact Hinv.
  - apply committed_inv; assumption.
Qed.

(* without the iteration a failed build that stored anything breaks the invariant in a COMMITTED state: no kill needed *)
Theorem failed_build_no_iteration_refuted :
  exists st0 e completed,
    DbInv st0 /\ e = iteration st0 + 1 /\ results_ok e completed = true /\
    wf_trace st0 (trace_failed_no_iteration e completed) = false /\
    ~ DbInv (recover st0 (trace_failed_no_iteration e completed)) /\
    exists k r, lookup (rows (recover st0 (trace_failed_no_iteration e completed))) k = Some r /\
                res_builtAt r = iteration (recover st0 (trace_failed_no_iteration e completed)) + 1.
Proof.
  exists empty_db, 1, [(0, mkRes (Some (1, 1)) 0 1 1 [])].
  split; [exact empty_db_inv|]. split; [reflexivity|]. split; [reflexivity|]. split; [reflexivity|]. split.
  - intros H. apply db_inv_b_iff in H. vm_compute in H. discriminate.
  - exists 0, (mkRes (Some (1, 1)) 0 1 1 []). split; reflexivity.
Qed.

(* the same two results through the real trace shape: every cut is harmless *)
Example cm_results_single_txn_ok : forall n,
  DbInv (recover empty_db (firstn n (trace_of_build 1 cm_results))).
Proof.
  intros n.
  assert (Hwf : wf_trace empty_db (trace_of_build 1 cm_results) = true) by (apply trace_of_build_wf; reflexivity).
  rewrite (prefix_atomic empty_db _ n Hwf). destruct (Nat.ltb n (length (trace_of_build 1 cm_results))).
  - exact empty_db_inv.
  - apply committed_inv; [exact empty_db_inv | exact Hwf].
Qed.

(* ------------------------------------------------------------------ non-vacuity *)
(* a non-empty database (two keys, one row with a dependency, epoch 3), then a build of epoch 4 storing two results,
   one of them with a dependency on a key that is new to the database *)
Definition ex_st0 : dbst :=
  mkDb [(5, mkRes (Some (7, 2)) 1 2 3 [mkDep 6 false false]); (6, mkRes (Some (9, 9)) 0 1 3 [])] [5; 6] 3.
Definition ex_results : list (key * result) :=
  [ (6, mkRes (Some (4, 4)) 0 4 4 []);
    (8, mkRes (Some (3, 0)) 2 4 4 [mkDep 6 false false; mkDep 9 true false]) ].
Definition ex_trace : list dbop := trace_of_build 4 ex_results.

Example ex_st0_inv : DbInv ex_st0.
Proof. apply db_inv_b_iff. reflexivity. Qed.
Example ex_trace_wf : wf_trace ex_st0 ex_trace = true.
Proof. reflexivity. Qed.
Example ex_trace_length : length ex_trace = 9%nat.
Proof. reflexivity. Qed.
(* killed just before the Commit is issued: exactly the pre-build state *)
Example ex_cut_before_commit : recover ex_st0 (firstn 8 ex_trace) = ex_st0.
Proof. reflexivity. Qed.
(* all nine operations issued: the post-build state, with the new keys, both rows and the new epoch *)
Example ex_full :
  recover ex_st0 (firstn 9 ex_trace) =
  mkDb [(5, mkRes (Some (7, 2)) 1 2 3 [mkDep 6 false false]); (6, mkRes (Some (4, 4)) 0 4 4 []);
        (8, mkRes (Some (3, 0)) 2 4 4 [mkDep 6 false false; mkDep 9 true false])] [5; 6; 8; 9] 4.
Proof. reflexivity. Qed.
Example ex_full_inv : db_inv_b (recover ex_st0 ex_trace) = true.
Proof. reflexivity. Qed.
(* a history: a refused build, a killed build (5 operations), the same build again to completion, a killed build *)
Definition ex_history : list run :=
  [ mkRun trace_refused None; mkRun ex_trace (Some 5%nat); mkRun ex_trace None;
    mkRun (trace_of_build 5 [(5, mkRes (Some (1, 1)) 1 5 5 [mkDep 8 false false])]) (Some 4%nat) ].
Example ex_history_wf : wf_history ex_st0 ex_history = true.
Proof. reflexivity. Qed.
Example ex_history_result : after_history ex_st0 ex_history = apply_committed ex_st0 ex_trace.
Proof. reflexivity. Qed.
Example ex_history_log : committed_log ex_history = ex_results.
Proof. reflexivity. Qed.
Example ex_no_reuse : forall k r, lookup (rows ex_st0) k = Some r -> res_builtAt r <> 4 /\ res_computedAt r <> 4.
Proof. intros k r H. apply (no_epoch_reuse_hazard ex_st0 k r ex_st0_inv H). Qed.
(* a cancelled build of epoch 4 in which only the first of the two tasks finished *)
Example ex_cancelled_wf :
  wf_trace ex_st0 (trace_of_build 4 (filter (fun kr => N.eqb (fst kr) 6) ex_results)) = true /\
  db_inv_b (recover ex_st0 (trace_of_build 4 (filter (fun kr => N.eqb (fst kr) 6) ex_results))) = true /\
  iteration (recover ex_st0 (trace_of_build 4 (filter (fun kr => N.eqb (fst kr) 6) ex_results))) = 4.
Proof. split; [reflexivity|]. split; reflexivity. Qed.
