(* P19b: histories of an engine with a database in which builds (each with its own rule table), restarts from the database, and
   rule edits are mixed. *)
From LLB Require Import Engine.Rules Engine.Spec Engine.SpecInv1 Engine.SpecC01 Engine.Exec Engine.Impl Engine.ImplProofs Engine.ImplProofsExamples Engine.ImplVal7
  Engine.ImplInc1 Engine.ImplInc9 Engine.ImplInc10 Engine.ImplInc13 Engine.ImplInc14.
From Coq Require Import Arith Lia.
Local Open Scope N_scope.

Inductive gop := GBuild (rb : rbspec) | GRestart.
Definition gop_builds (ops : list gop) : list rbspec := flat_map (fun o => match o with GBuild rb => [rb] | GRestart => [] end) ops.

Section Mixed.
Variable F : key -> N -> list value -> list N -> N -> N.
Variable R : key -> N -> rule.
Variable ord : key -> list rkind.
Variable syncp : key -> bool.
Hypothesis Hord : forall k, In RReq (ord k).

Fixpoint run_gops (s : istate) (ops : list gop) : option (istate * list (option value)) :=
  match ops with
  | [] => Some (s, [])
  | GRestart :: ops' => run_gops (irestart true s) ops'
  | GBuild rb :: ops' =>
    let b := rb_build rb in
    match ibuild (rb_rules rb) (bs_env b) F ord syncp (bs_fuel b) (bs_pfuel b) s (bs_root b) (bs_sched b) with
    | (RDone s', _) =>
      match is_fault s' with
      | None => match run_gops s' ops' with Some (sf, vs) => Some (sf, res_value (res_of s' (bs_root b)) :: vs) | None => None end
      | Some _ => None
      end
    | _ => None
    end
  end.

Theorem gops_values_clean cfuel ops : forall s sf vs, (forall rb, In rb (gop_builds ops) -> rb_ok R cfuel rb) -> DInv F R s ->
  run_gops s ops = Some (sf, vs) ->
  vs = map (fun rb => cv (rb_rules rb) (bs_env (rb_build rb)) F cfuel (bs_root (rb_build rb))) (gop_builds ops) /\ DInv F R sf.
Proof.
  induction ops as [|o ops IH]; intros s sf vs Hok HJ Hrun; cbn [run_gops] in Hrun.
  - inversion Hrun. subst. auto.
  - destruct o as [rb|].
    + cbn zeta in Hrun. set (b := rb_build rb) in *.
      destruct (ibuild (rb_rules rb) (bs_env b) F ord syncp (bs_fuel b) (bs_pfuel b) s (bs_root b) (bs_sched b)) as [r m] eqn:Hb.
      destruct r as [s'| | |]; try discriminate. destruct (is_fault s') eqn:Hf; [discriminate|].
      destruct (run_gops s' ops) as [[sf' vs']|] eqn:Hrest; [|discriminate]. inversion Hrun. subst sf vs.
      destruct (Hok rb) as (H1 & H2 & H3 & H4); [cbn [gop_builds flat_map]; apply in_or_app; left; now left|].
      destruct (build_DInv (rb_rules rb) F (rb_rank rb) R ord syncp H1 H2 H3 Hord (bs_env b) (bs_fuel b) (bs_pfuel b) cfuel s (bs_root b) (bs_sched b) s' m HJ Hb Hf) as [Hv HJ'].
      destruct (IH s' sf' vs') as [Hvs HJf]; auto; [intros rb' Hrb'; apply Hok; cbn [gop_builds flat_map]; apply in_or_app; now right|].
      split; auto. cbn [gop_builds flat_map app map]. fold b. rewrite (Hv H4). now rewrite Hvs.
    + apply (IH (irestart true s) sf vs); auto. now apply restart_DInv.
Qed.
End Mixed.

(* non-vacuity: the rule-edit history of ImplInc10 with restarts in between *)
Definition G78 : list gop :=
  [GBuild (mkRb R7 rank6 (mkBspec E7a 5 [] 200 200)); GRestart; GBuild (mkRb R7b rank6 (mkBspec E7a 5 [] 200 200));
   GBuild (mkRb R7b rank6 (mkBspec E7b 5 [] 200 200)); GRestart; GBuild (mkRb R7 rank6 (mkBspec E7b 5 [] 200 200))].
Definition gres78 := run_gops mixF ord6 all_sync (irestart true init_istate) G78.
Definition gend78 : istate := match gres78 with Some (s, _) => s | None => init_istate end.
Definition gvals78 : list (option value) := match gres78 with Some (_, v) => v | None => [] end.
Lemma grun78_eq : run_gops mixF ord6 all_sync (irestart true init_istate) G78 = Some (gend78, gvals78).
Proof. vm_compute. reflexivity. Qed.
Lemma G78_ok : forall rb, In rb (gop_builds G78) -> rb_ok R78 5 rb.
Proof. intros rb Hb. apply H78_ok. exact Hb. Qed.
Example gops78_clean : gvals78 = map (fun rb => cv (rb_rules rb) (bs_env (rb_build rb)) mixF 5 (bs_root (rb_build rb))) (gop_builds G78) /\ DInv mixF R78 gend78.
Proof.
  pose proof (gops_values_clean mixF R78 ord6 all_sync ord6_ok 5 G78 (irestart true init_istate) gend78 gvals78 G78_ok (DInv_new mixF R78)) as H.
  specialize (H grun78_eq). exact H.
Qed.
Example gops78_computed : gvals78 = vals78 /\ ~ In None gvals78.
Proof. vm_compute. split; [reflexivity|]. intros H. repeat (destruct H as [H|H]; [discriminate|]). destruct H. Qed.
