(* P19 - part 6: the invariant under updates of one task record. *)
From LLB Require Import Engine.Rules Engine.Spec Engine.Impl Engine.ImplProofs Engine.ImplProofsSticky Engine.ImplProofsInv.
From Coq Require Import Arith Lia.
Local Open Scope N_scope.

Lemma keys_aset_present {A} (m : list (N * A)) k o a : aget m k = Some o -> map fst (aset m k a) = map fst m.
Proof.
  induction m as [|[k0 a0] t IH]; cbn [aget aset map fst]; [discriminate|].
  destruct (N.eqb k k0) eqn:E; cbn [map fst]; intros H.
  - apply N.eqb_eq in E. now subst.
  - now rewrite IH.
Qed.

Lemma filter_keys_aset {A} (p : N -> bool) (m : list (N * A)) k o a : aget m k = Some o ->
  length (filter (fun e => p (fst e)) (aset m k a)) = length (filter (fun e => p (fst e)) m).
Proof.
  induction m as [|[k0 a0] t IH]; cbn [aget aset]; [discriminate|].
  destruct (N.eqb k k0) eqn:E; intros H.
  - apply N.eqb_eq in E. subst. cbn [filter fst]. now destruct (p k0).
  - cbn [filter fst]. destruct (p k0); cbn [length]; now rewrite IH.
Qed.

Lemma aget_aset_exists {A} (m : list (N * A)) k o a k' : aget m k = Some o -> (aget (aset m k a) k' <> None <-> aget m k' <> None).
Proof.
  intros H. rewrite aget_aset. destruct (N.eqb k' k) eqn:E; [|tauto].
  apply N.eqb_eq in E. subst. rewrite H. split; discriminate.
Qed.

(* a task record is replaced; waitCount and the pending value stay *)
Lemma InvT_set_ti c s t ti ti' : aget (is_tasks s) t = Some ti -> ti_wait ti' = ti_wait ti -> ti_pending ti' = ti_pending ti ->
  InvT c s -> InvT c (set_ti s t ti').
Proof.
  intros Hg Hw Hp [A1 A2 A3 A4 A5 A6 A7 A8 A9 A10 A11].
  constructor; autorewrite with iv; auto.
  - now apply nodup_aset.
  - intros t'. rewrite (aget_aset_exists _ _ _ _ _ Hg). apply A5.
  - intros t' x. rewrite aget_aset. destruct (N.eqb t' t) eqn:E; [|apply A6].
    apply N.eqb_eq in E. subst. intros Hx. inversion Hx. subst. rewrite Hw. now apply A6.
  - intros t' Hin. destruct (A7 t' Hin) as (x & Hx & Hk & Hw0). rewrite aget_aset. destruct (N.eqb t' t) eqn:E; [|eauto].
    apply N.eqb_eq in E. subst. rewrite Hg in Hx. inversion Hx. subst. exists ti'. rewrite Hw. auto.
  - intros t' x. rewrite aget_aset. destruct (N.eqb t' t) eqn:E; [|apply A8].
    apply N.eqb_eq in E. subst. intros Hx. inversion Hx. subst. rewrite Hw. now apply A8.
  - intros t' Hin. destruct (A9 t' Hin) as (x & Hx & Hk & Hp0). rewrite aget_aset. destruct (N.eqb t' t) eqn:E; [|eauto].
    apply N.eqb_eq in E. subst. rewrite Hg in Hx. inversion Hx. subst. exists ti'. rewrite Hp. auto.
  - intros t' x. rewrite aget_aset. destruct (N.eqb t' t) eqn:E; [|apply A10].
    apply N.eqb_eq in E. subst. intros Hx. inversion Hx. subst. rewrite Hp. now apply A10.
  - rewrite A11. unfold n_computing. autorewrite with iv. symmetry.
    apply (filter_keys_aset (fun k => kind_eqb (kind_of s k) KComputing) (is_tasks s) t ti ti' Hg).
Qed.

Lemma ireq_ok_set_ti rules s t ti ti' rq : aget (is_tasks s) t = Some ti -> ireq_ok rules s rq -> ireq_ok rules (set_ti s t ti') rq.
Proof.
  intros Hg H t' Ht'. destruct (H t' Ht') as [H1 H2]. split; auto. autorewrite with iv. now rewrite (aget_aset_exists _ _ _ _ _ Hg).
Qed.

(* effect of replacing a task record on a sum over the task table *)
Lemma asum_tasks_set_ti (g : tinfo -> nat) s t ti ti' : aget (is_tasks s) t = Some ti ->
  (asum g (is_tasks (set_ti s t ti')) + g ti = asum g (is_tasks s) + g ti')%nat.
Proof. intros Hg. autorewrite with iv. pose proof (asum_aset g (is_tasks s) t ti') as H. now rewrite Hg in H. Qed.

Lemma outstanding_count_set_ti s t ti ti' t0 : aget (is_tasks s) t = Some ti ->
  (outstanding_count (set_ti s t ti') t0 + cnt_i t0 (ti_reqby ti) = outstanding_count s t0 + cnt_i t0 (ti_reqby ti'))%nat.
Proof.
  intros Hg. unfold outstanding_count. pose proof (asum_tasks_set_ti (fun ti => cnt_i t0 (ti_reqby ti)) s t ti ti' Hg) as H.
  autorewrite with iv in *. lia.
Qed.

(* waitCount and requestedBy stay *)
Lemma InvI_set_ti rules c s t ti ti' : aget (is_tasks s) t = Some ti -> ti_wait ti' = ti_wait ti -> ti_reqby ti' = ti_reqby ti ->
  InvI rules c s -> InvI rules c (set_ti s t ti').
Proof.
  intros Hg Hw Hr [B1 B2 B3 B4 B5 B6 B7 B8 B9 B10].
  assert (Hok : forall rq, ireq_ok rules s rq -> ireq_ok rules (set_ti s t ti') rq) by (intros; eapply ireq_ok_set_ti; eauto).
  constructor; autorewrite with iv; auto.
  - intros t' x Hx. pose proof (outstanding_count_set_ti s t ti ti' t' Hg) as Ho. rewrite Hr in Ho.
    rewrite aget_aset in Hx. destruct (N.eqb t' t) eqn:E.
    + apply N.eqb_eq in E. subst. inversion Hx. subst. rewrite Hw, (B1 t ti Hg). lia.
    + rewrite (B1 t' x Hx). lia.
  - eapply Forall_impl; [apply Hok|auto].
  - eapply Forall_impl; [apply Hok|auto].
  - intros k. eapply Forall_impl; [apply Hok|apply B4].
  - intros t' x. rewrite aget_aset. destruct (N.eqb t' t) eqn:E; intros Hx.
    + inversion Hx. subst. rewrite Hr. eapply Forall_impl; [apply Hok|eauto].
    + eapply Forall_impl; [apply Hok|eauto].
  - eapply Forall_impl; [apply Hok|auto].
  - intros t' x rq. rewrite aget_aset. destruct (N.eqb t' t) eqn:E; intros Hx.
    + apply N.eqb_eq in E. inversion Hx. subst. rewrite Hr. now apply B9.
    + now apply B9.
Qed.

Lemma scan_count_set_ti s t ti ti' k : aget (is_tasks s) t = Some ti ->
  (scan_count (set_ti s t ti') k + cnt_s k (ti_deferred ti) = scan_count s k + cnt_s k (ti_deferred ti'))%nat.
Proof.
  intros Hg. unfold scan_count. pose proof (asum_tasks_set_ti (fun ti => cnt_s k (ti_deferred ti)) s t ti ti' Hg) as H.
  autorewrite with iv in *. lia.
Qed.

Lemma sreq_ok_set_ti s t ti rq : sreq_ok (set_ti s t ti) rq <-> sreq_ok s rq.
Proof. reflexivity. Qed.

(* the deferred scan requests stay *)
Lemma InvS_set_ti c s t ti ti' : aget (is_tasks s) t = Some ti -> ti_deferred ti' = ti_deferred ti -> InvS c s -> InvS c (set_ti s t ti').
Proof.
  intros Hg Hd [C1 C2 C3 C4 C5 C6 C7 C8].
  constructor; autorewrite with iv; auto.
  - intros k. pose proof (scan_count_set_ti s t ti ti' k Hg) as Ho. rewrite Hd in Ho.
    change (kind_of (set_ti s t ti') k) with (kind_of s k). specialize (C1 k). lia.
  - intros t' x. rewrite aget_aset. destruct (N.eqb t' t) eqn:E; intros Hx.
    + inversion Hx. subst. rewrite Hd. eauto.
    + eauto.
  - intros t' x rq. rewrite aget_aset. destruct (N.eqb t' t) eqn:E; intros Hx.
    + apply N.eqb_eq in E. inversion Hx. subst. rewrite Hd. now apply C8.
    + now apply C8.
Qed.

(* a change of a task record that touches neither waitCount, pending, requestedBy nor deferredScanRequests *)
Lemma Inv_set_ti_cosmetic rules c s t ti ti' : aget (is_tasks s) t = Some ti ->
  ti_wait ti' = ti_wait ti -> ti_pending ti' = ti_pending ti -> ti_reqby ti' = ti_reqby ti -> ti_deferred ti' = ti_deferred ti ->
  Inv rules c s -> Inv rules c (set_ti s t ti').
Proof.
  intros Hg H1 H2 H3 H4 (Hn & HT & HI & HS). split; [now apply nf_set_ti|].
  split; [eapply InvT_set_ti; eauto|]. split; [eapply InvI_set_ti; eauto|eapply InvS_set_ti; eauto].
Qed.

(* ---------- counting ---------- *)
Lemma cnt_i_app t a b : cnt_i t (a ++ b) = (cnt_i t a + cnt_i t b)%nat.
Proof. unfold cnt_i. now rewrite filter_app, app_length. Qed.
Lemma cnt_i_cons t rq l : cnt_i t (rq :: l) = ((if for_task t rq then 1 else 0) + cnt_i t l)%nat.
Proof. unfold cnt_i. cbn [filter]. now destruct (for_task t rq). Qed.
Lemma cnt_i_nil t : cnt_i t [] = 0%nat. Proof. reflexivity. Qed.
Lemma cnt_i_rev t l : cnt_i t (rev l) = cnt_i t l.
Proof. induction l as [|x l IH]; auto. cbn [rev]. rewrite cnt_i_app, cnt_i_cons, cnt_i_cons, cnt_i_nil, IH. lia. Qed.
Lemma cnt_s_app k a b : cnt_s k (a ++ b) = (cnt_s k a + cnt_s k b)%nat.
Proof. unfold cnt_s. now rewrite filter_app, app_length. Qed.
Lemma cnt_s_cons k rq l : cnt_s k (rq :: l) = ((if for_rule k rq then 1 else 0) + cnt_s k l)%nat.
Proof. unfold cnt_s. cbn [filter]. now destruct (for_rule k rq). Qed.
Lemma cnt_s_nil k : cnt_s k [] = 0%nat. Proof. reflexivity. Qed.
Lemma cnt_s_rev k l : cnt_s k (rev l) = cnt_s k l.
Proof. induction l as [|x l IH]; auto. cbn [rev]. rewrite cnt_s_app, cnt_s_cons, cnt_s_cons, cnt_s_nil, IH. lia. Qed.

Lemma for_task_mk t t' slot inp o sg : for_task t (mkIReq (Some t') slot inp o sg) = N.eqb t t'.
Proof. reflexivity. Qed.

Lemma cnt_i_zero_forall t l : (forall rq, In rq l -> iq_task rq <> Some t) -> cnt_i t l = 0%nat.
Proof.
  induction l as [|rq l IH]; auto. intros H. rewrite cnt_i_cons, IH; [|intros; apply H; now right].
  unfold for_task. specialize (H rq (or_introl eq_refl)). destruct (iq_task rq) as [t'|]; auto.
  destruct (N.eqb t t') eqn:E; auto. apply N.eqb_eq in E. subst. contradiction.
Qed.
Lemma cnt_i_pos_in t l : (0 < cnt_i t l)%nat -> exists rq, In rq l /\ iq_task rq = Some t.
Proof.
  induction l as [|rq l IH]; [cbn; lia|]. rewrite cnt_i_cons. unfold for_task at 1. destruct (iq_task rq) as [t'|] eqn:E.
  - destruct (N.eqb t t') eqn:E2.
    + apply N.eqb_eq in E2. subst. intros _. exists rq. split; [now left|auto].
    + intros H. destruct IH as (x & Hin & Hx); [lia|]. exists x. split; [now right|auto].
  - intros H. destruct IH as (x & Hin & Hx); [lia|]. exists x. split; [now right|auto].
Qed.

(* waitCount of a waiting task that is not queued as ready changes (to a non-zero value, or the task is still being started) *)
Lemma InvT_set_wait c s t ti n : aget (is_tasks s) t = Some ti -> kind_of s t = KWaiting -> ~ In t (is_ready s) ->
  (n <> 0%nat \/ cx_ex c = Some t) -> InvT c s -> InvT c (set_ti s t (ti_with_wait n ti)).
Proof.
  intros Hg Hk Hnr Hn [A1 A2 A3 A4 A5 A6 A7 A8 A9 A10 A11].
  constructor; autorewrite with iv; auto.
  - now apply nodup_aset.
  - intros t'. rewrite (aget_aset_exists _ _ _ _ _ Hg). apply A5.
  - intros t' x. rewrite aget_aset. destruct (N.eqb t' t) eqn:E; [|apply A6].
    apply N.eqb_eq in E. subst. intros _ Hc. change (kind_of (set_ti s t (ti_with_wait n ti)) t) with (kind_of s t) in Hc. congruence.
  - intros t' Hin. destruct (A7 t' Hin) as (x & Hx & Hk' & Hw0). rewrite aget_aset. destruct (N.eqb t' t) eqn:E; [|eauto].
    apply N.eqb_eq in E. subst. contradiction.
  - intros t' x. rewrite aget_aset. destruct (N.eqb t' t) eqn:E; [|apply A8].
    apply N.eqb_eq in E. subst. intros Hx _ Hw. inversion Hx. subst. cbn [ti_wait ti_with_wait] in Hw. destruct Hn; [contradiction|auto].
  - intros t' Hin. destruct (A9 t' Hin) as (x & Hx & Hk' & Hp0). rewrite aget_aset. destruct (N.eqb t' t) eqn:E; [|eauto].
    apply N.eqb_eq in E. subst. congruence.
  - intros t' x. rewrite aget_aset. destruct (N.eqb t' t) eqn:E; [|apply A10].
    apply N.eqb_eq in E. subst. intros Hx. inversion Hx. subst. cbn [ti_pending ti_with_wait]. now apply A10.
  - rewrite A11. unfold n_computing. autorewrite with iv. symmetry.
    apply (filter_keys_aset (fun k => kind_eqb (kind_of s k) KComputing) (is_tasks s) t ti _ Hg).
Qed.

Lemma ireq_ok_push_inreq rules s rq0 rq : ireq_ok rules s rq -> ireq_ok rules (push_inreq s rq0) rq.
Proof. auto. Qed.

(* addTaskInputRequest on a waiting task: one more request in inputRequests, waitCount + 1 *)
Lemma InvI_request rules c s t ti rq : aget (is_tasks s) t = Some ti -> iq_task rq = Some t -> In (iq_input rq) (requestable (rules t)) ->
  InvI rules c s -> InvI rules c (set_ti (push_inreq s rq) t (ti_inc_wait ti)).
Proof.
  intros Hg Hrq Hin [B1 B2 B3 B4 B5 B6 B7 B8 B9 B10].
  assert (Hg' : aget (is_tasks (push_inreq s rq)) t = Some ti) by exact Hg.
  assert (Hok : forall x, ireq_ok rules s x -> ireq_ok rules (set_ti (push_inreq s rq) t (ti_inc_wait ti)) x).
  { intros x Hx. eapply ireq_ok_set_ti; eauto. }
  constructor; autorewrite with iv; auto.
  - intros t' x Hx. pose proof (outstanding_count_set_ti (push_inreq s rq) t ti (ti_inc_wait ti) t' Hg') as Ho.
    cbn [ti_reqby ti_inc_wait ti_with_wait] in Ho.
    assert (Hc : outstanding_count (push_inreq s rq) t' = (outstanding_count s t' + if N.eqb t' t then 1 else 0)%nat).
    { unfold outstanding_count. autorewrite with iv. rewrite cnt_i_app, cnt_i_cons, cnt_i_nil. unfold for_task. rewrite Hrq. lia. }
    rewrite aget_aset in Hx. destruct (N.eqb t' t) eqn:E.
    + apply N.eqb_eq in E. subst. inversion Hx. subst. cbn [ti_wait ti_inc_wait ti_with_wait]. rewrite (B1 t ti Hg). lia.
    + rewrite (B1 t' x Hx). lia.
  - eapply Forall_impl; [apply Hok|auto].
  - apply Forall_app. split; [eapply Forall_impl; [apply Hok|auto]|]. constructor; [|constructor].
    intros t' Ht'. rewrite Hrq in Ht'. inversion Ht'. subst. split; auto. autorewrite with iv. rewrite aget_aset_same. discriminate.
  - intros k. eapply Forall_impl; [apply Hok|apply B4].
  - intros t' x. rewrite aget_aset. destruct (N.eqb t' t) eqn:E; intros Hx.
    + apply N.eqb_eq in E. inversion Hx. subst. cbn [ti_reqby ti_inc_wait ti_with_wait]. eapply Forall_impl; [apply Hok|eauto].
    + eapply Forall_impl; [apply Hok|eauto].
  - eapply Forall_impl; [apply Hok|auto].
  - intros t' x r. rewrite aget_aset. destruct (N.eqb t' t) eqn:E; intros Hx.
    + apply N.eqb_eq in E. inversion Hx. subst. cbn [ti_reqby ti_inc_wait ti_with_wait]. now apply B9.
    + now apply B9.
Qed.

(* ---------- queue updates that a part of the invariant does not look at ---------- *)
Ltac frameT s0 := apply (InvT_frame _ s0); auto.
Ltac frameI s0 := apply (InvI_frame _ _ s0); auto.
Ltac frameS s0 := apply (InvS_frame _ s0); auto.

Lemma InvT_upd_inreq c s q : InvT c s -> InvT c (upd_inreq s q).
Proof. intros H. frameT s; try apply H. Qed.
Lemma InvT_push_inreq c s rq : InvT c s -> InvT c (push_inreq s rq).
Proof. apply InvT_upd_inreq. Qed.
Lemma InvT_upd_fininreq c s q : InvT c s -> InvT c (upd_fininreq s q).
Proof. intros H. frameT s; try apply H. Qed.
Lemma InvT_upd_toscan c s q : InvT c s -> InvT c (upd_toscan s q).
Proof. intros H. frameT s; try apply H. Qed.
Lemma InvS_upd_inreq c s q : InvS c s -> InvS c (upd_inreq s q).
Proof. intros H. frameS s. Qed.
Lemma InvS_push_inreq c s rq : InvS c s -> InvS c (push_inreq s rq).
Proof. apply InvS_upd_inreq. Qed.
Lemma InvS_upd_fininreq c s q : InvS c s -> InvS c (upd_fininreq s q).
Proof. intros H. frameS s. Qed.
Lemma InvS_upd_ready c s q : InvS c s -> InvS c (upd_ready s q).
Proof. intros H. frameS s. Qed.
Lemma InvS_upd_fintasks c s q : InvS c s -> InvS c (upd_fintasks s q).
Proof. intros H. frameS s. Qed.
Lemma InvS_upd_outstanding c s q : InvS c s -> InvS c (upd_outstanding s q).
Proof. intros H. frameS s. Qed.
Lemma InvI_upd_toscan rules c s q : InvI rules c s -> InvI rules c (upd_toscan s q).
Proof. intros H. frameI s. Qed.
Lemma InvI_upd_ready rules c s q : InvI rules c s -> InvI rules c (upd_ready s q).
Proof. intros H. frameI s. Qed.
Lemma InvI_upd_fintasks rules c s q : InvI rules c s -> InvI rules c (upd_fintasks s q).
Proof. intros H. frameI s. Qed.
Lemma InvI_upd_outstanding rules c s q : InvI rules c s -> InvI rules c (upd_outstanding s q).
Proof. intros H. frameI s. Qed.

Lemma Inv_add_request rules c s t inp slot o sg :
  Inv rules c s -> aget (is_tasks s) t <> None -> kind_of s t = KWaiting -> ~ In t (is_ready s) -> In inp (requestable (rules t)) ->
  Inv rules c (add_request s t inp slot o sg).
Proof.
  intros H Hex Hk Hnr Hin. unfold add_request. destruct (aget (is_tasks s) t) as [ti|] eqn:Hg; [|contradiction].
  rewrite Hk. cbn [kind_eqb negb].
  apply (Inv_touch rules c s inp) in H. destruct H as (Hn & HT & HI & HS).
  set (s1 := touch s inp) in *. set (rq := mkIReq (Some t) slot inp o sg).
  assert (Hg1 : aget (is_tasks (push_inreq s1 rq)) t = Some ti) by (unfold s1; now autorewrite with iv).
  rewrite (mod_ti_some _ _ _ _ Hg1).
  split; [apply nf_set_ti, nf_push_inreq, Hn|]. split; [|split].
  - apply InvT_set_wait; auto.
    + unfold s1. change (kind_of (push_inreq (touch s inp) rq) t) with (kind_of (touch s inp) t). unfold kind_of. now autorewrite with iv.
    + unfold s1. now autorewrite with iv.
    + now apply InvT_push_inreq.
  - apply InvI_request; auto; try (unfold s1; now autorewrite with iv).
  - apply InvS_set_ti with (ti := ti); auto; try (now apply InvS_push_inreq).
Qed.

(* what addTaskInputRequest leaves alone *)
Lemma add_request_ready s t inp slot o sg : is_ready (add_request s t inp slot o sg) = is_ready s.
Proof.
  unfold add_request. destruct (aget (is_tasks s) t); [|reflexivity]. destruct (negb _); [reflexivity|].
  unfold mod_ti. destruct (aget _ _); now autorewrite with iv.
Qed.
Lemma add_request_rinfo s t inp slot o sg k : rinfo_of (add_request s t inp slot o sg) k = rinfo_of s k.
Proof.
  unfold add_request. destruct (aget (is_tasks s) t); [|reflexivity]. destruct (negb _); [reflexivity|].
  unfold mod_ti. destruct (aget _ _); now autorewrite with iv.
Qed.
Lemma add_request_kind s t inp slot o sg k : kind_of (add_request s t inp slot o sg) k = kind_of s k.
Proof. unfold kind_of. now rewrite add_request_rinfo. Qed.
Lemma add_request_task_exists s t inp slot o sg t' : aget (is_tasks s) t' <> None -> aget (is_tasks (add_request s t inp slot o sg)) t' <> None.
Proof.
  unfold add_request. destruct (aget (is_tasks s) t) eqn:Hg; [|auto]. destruct (negb _); [auto|].
  unfold mod_ti. autorewrite with iv. rewrite Hg. autorewrite with iv. intros H. now rewrite (aget_aset_exists _ _ _ _ _ Hg).
Qed.

Lemma Inv_add_reqs rules c ks : forall s t slot sg,
  Inv rules c s -> aget (is_tasks s) t <> None -> kind_of s t = KWaiting -> ~ In t (is_ready s) ->
  (forall x, In x ks -> In x (requestable (rules t))) -> Inv rules c (add_reqs s t ks slot sg).
Proof.
  induction ks as [|x ks IH]; intros s t slot sg H Hex Hk Hnr Hin; cbn [add_reqs]; auto.
  apply IH.
  - apply Inv_add_request; auto. apply Hin. now left.
  - now apply add_request_task_exists.
  - now rewrite add_request_kind.
  - now rewrite add_request_ready.
  - intros y Hy. apply Hin. now right.
Qed.

Lemma Inv_add_follows rules c ks : forall s t,
  Inv rules c s -> aget (is_tasks s) t <> None -> kind_of s t = KWaiting -> ~ In t (is_ready s) ->
  (forall x, In x ks -> In x (requestable (rules t))) -> Inv rules c (add_follows s t ks).
Proof.
  induction ks as [|x ks IH]; intros s t H Hex Hk Hnr Hin; cbn [add_follows]; auto.
  apply IH.
  - apply Inv_add_request; auto. apply Hin. now left.
  - now apply add_request_task_exists.
  - now rewrite add_request_kind.
  - now rewrite add_request_ready.
  - intros y Hy. apply Hin. now right.
Qed.

(* the same facts for the loops *)
Lemma add_reqs_views ks : forall s t slot sg,
  is_ready (add_reqs s t ks slot sg) = is_ready s /\ (forall k, rinfo_of (add_reqs s t ks slot sg) k = rinfo_of s k) /\
  (forall t', aget (is_tasks s) t' <> None -> aget (is_tasks (add_reqs s t ks slot sg)) t' <> None).
Proof.
  induction ks as [|x ks IH]; intros s t slot sg; cbn [add_reqs]; [auto|].
  destruct (IH (add_request s t x slot false sg) t (S slot) sg) as (H1 & H2 & H3). repeat split.
  - now rewrite H1, add_request_ready.
  - intros k. now rewrite H2, add_request_rinfo.
  - intros t' H. apply H3. now apply add_request_task_exists.
Qed.
Lemma add_follows_views ks : forall s t,
  is_ready (add_follows s t ks) = is_ready s /\ (forall k, rinfo_of (add_follows s t ks) k = rinfo_of s k) /\
  (forall t', aget (is_tasks s) t' <> None -> aget (is_tasks (add_follows s t ks)) t' <> None).
Proof.
  induction ks as [|x ks IH]; intros s t; cbn [add_follows]; [auto|].
  destruct (IH (add_request s t x 0%nat true false) t) as (H1 & H2 & H3). repeat split.
  - now rewrite H1, add_request_ready.
  - intros k. now rewrite H2, add_request_rinfo.
  - intros t' H. apply H3. now apply add_request_task_exists.
Qed.

(* what start() leaves alone: everything but inputRequests, the task's waitCount / slots, the log and rule look-ups *)
Definition keeps (s s' : istate) : Prop :=
  is_ready s' = is_ready s /\ (forall k, rinfo_of s' k = rinfo_of s k) /\
  (forall t', aget (is_tasks s) t' <> None -> aget (is_tasks s') t' <> None) /\
  is_fintasks s' = is_fintasks s /\ is_toscan s' = is_toscan s /\ is_fininreq s' = is_fininreq s /\
  is_outstanding s' = is_outstanding s /\ is_epoch s' = is_epoch s.
Lemma keeps_refl s : keeps s s. Proof. repeat split; auto. Qed.
Lemma keeps_trans s1 s2 s3 : keeps s1 s2 -> keeps s2 s3 -> keeps s1 s3.
Proof.
  intros (A1 & A2 & A3 & A4 & A5 & A6 & A7 & A8) (B1 & B2 & B3 & B4 & B5 & B6 & B7 & B8).
  repeat split; try congruence; auto; try (intros k; now rewrite B2).
Qed.
Lemma keeps_kind s s' k : keeps s s' -> kind_of s' k = kind_of s k.
Proof. intros (_ & H & _). unfold kind_of. now rewrite H. Qed.

Lemma keeps_add_request s t inp slot o sg : keeps s (add_request s t inp slot o sg).
Proof.
  split; [apply add_request_ready|]. split; [intros; apply add_request_rinfo|]. split; [intros; now apply add_request_task_exists|].
  unfold add_request. destruct (aget (is_tasks s) t); [|repeat split]. destruct (negb _); [repeat split|].
  unfold mod_ti. destruct (aget _ _); autorewrite with iv; repeat split.
Qed.
Lemma keeps_add_reqs ks : forall s t slot sg, keeps s (add_reqs s t ks slot sg).
Proof. induction ks as [|x ks IH]; intros; cbn [add_reqs]; [apply keeps_refl|]. eapply keeps_trans; [apply keeps_add_request|apply IH]. Qed.
Lemma keeps_add_follows ks : forall s t, keeps s (add_follows s t ks).
Proof. induction ks as [|x ks IH]; intros; cbn [add_follows]; [apply keeps_refl|]. eapply keeps_trans; [apply keeps_add_request|apply IH]. Qed.
Lemma keeps_start_group rules s t g : keeps s (start_group rules s t g).
Proof. unfold start_group. destruct g; [apply keeps_add_reqs|apply keeps_add_reqs|apply keeps_add_follows]. Qed.
Lemma keeps_fold {A} (f : istate -> A -> istate) (Hf : forall s a, keeps s (f s a)) l : forall s, keeps s (fold_left f l s).
Proof. induction l as [|a l IH]; intros s; cbn [fold_left]; [apply keeps_refl|]. eapply keeps_trans; [apply Hf|apply IH]. Qed.
Lemma keeps_iemit s e : keeps s (iemit s e). Proof. repeat split; auto. Qed.
Lemma keeps_mod_ti s t f : keeps s (mod_ti s t f).
Proof.
  unfold mod_ti. destruct (aget (is_tasks s) t) eqn:Hg; [|repeat split; auto]. repeat split; autorewrite with iv; auto.
  intros t' H. now rewrite (aget_aset_exists _ _ _ _ _ Hg).
Qed.
Lemma keeps_task_start rules ord s t : keeps s (task_start rules ord s t).
Proof.
  unfold task_start. cbn zeta. eapply keeps_trans; [apply keeps_iemit|]. eapply keeps_trans; [apply keeps_mod_ti|].
  apply keeps_fold. intros. apply keeps_start_group.
Qed.

Lemma in_requestable_req rl x : In x (r_req rl) -> In x (requestable rl).
Proof. unfold requestable. intros. apply in_or_app. now left. Qed.
Lemma in_requestable_single rl x : In x (r_single rl) -> In x (requestable rl).
Proof. unfold requestable. intros. apply in_or_app. right. apply in_or_app. now left. Qed.
Lemma in_requestable_follow rl x : In x (r_follow rl) -> In x (requestable rl).
Proof. unfold requestable. intros. apply in_or_app. right. apply in_or_app. right. apply in_or_app. now left. Qed.

Lemma Inv_start_group rules c s t g :
  Inv rules c s -> aget (is_tasks s) t <> None -> kind_of s t = KWaiting -> ~ In t (is_ready s) -> Inv rules c (start_group rules s t g).
Proof.
  intros. unfold start_group. destruct g.
  - apply Inv_add_reqs; auto. apply in_requestable_req.
  - apply Inv_add_reqs; auto. apply in_requestable_single.
  - apply Inv_add_follows; auto. apply in_requestable_follow.
Qed.

Lemma Inv_fold_start_group rules c t l : forall s,
  Inv rules c s -> aget (is_tasks s) t <> None -> kind_of s t = KWaiting -> ~ In t (is_ready s) ->
  Inv rules c (fold_left (fun s g => start_group rules s t g) l s).
Proof.
  induction l as [|g l IH]; intros s H Hex Hk Hnr; cbn [fold_left]; auto.
  pose proof (keeps_start_group rules s t g) as K. apply IH.
  - now apply Inv_start_group.
  - destruct K as (_ & _ & K3 & _). auto.
  - now rewrite (keeps_kind _ _ t K).
  - destruct K as (K1 & _). now rewrite K1.
Qed.

Lemma Inv_task_start rules ord c s t :
  Inv rules c s -> aget (is_tasks s) t <> None -> kind_of s t = KWaiting -> ~ In t (is_ready s) -> Inv rules c (task_start rules ord s t).
Proof.
  intros H Hex Hk Hnr. unfold task_start. cbn zeta. destruct (aget (is_tasks s) t) as [ti|] eqn:Hg; [|contradiction].
  assert (Hg1 : aget (is_tasks (iemit s (EStart t))) t = Some ti) by exact Hg.
  rewrite (mod_ti_some _ _ _ _ Hg1). apply Inv_fold_start_group.
  - apply Inv_set_ti_cosmetic with (ti := ti); auto. now apply Inv_iemit.
  - autorewrite with iv. rewrite aget_aset_same. discriminate.
  - exact Hk.
  - exact Hnr.
Qed.
