(* P19 - part 6: the invariant under updates of one task record. *)
From LLB Require Import Engine.Rules Engine.Spec Engine.Impl Engine.ImplProofs Engine.ImplProofsSticky Engine.ImplProofsInv.
From Coq Require Import Arith Lia.
Local Open Scope N_scope.

Lemma keys_aset_present {A} (m : list (N * A)) k o a : aget m k = Some o -> map fst (aset m k a) = map fst m.
Proof.
  induction m as [|[k0 a0] t IH]; cbn [aget aset map fst]; [discriminate|].
  destruct (N.eqb k k0) eqn:E; cbn [map fst]; intros H.
  - apply N.eqb_eq in E. now subst.
  - now rewrite IH.
Qed.

Lemma filter_keys_aset {A} (p : N -> bool) (m : list (N * A)) k o a : aget m k = Some o ->
  length (filter (fun e => p (fst e)) (aset m k a)) = length (filter (fun e => p (fst e)) m).
Proof.
  induction m as [|[k0 a0] t IH]; cbn [aget aset]; [discriminate|].
  destruct (N.eqb k k0) eqn:E; intros H.
  - apply N.eqb_eq in E. subst. cbn [filter fst]. now destruct (p k0).
  - cbn [filter fst]. destruct (p k0); cbn [length]; now rewrite IH.
Qed.

Lemma aget_aset_exists {A} (m : list (N * A)) k o a k' : aget m k = Some o -> (aget (aset m k a) k' <> None <-> aget m k' <> None).
Proof.
  intros H. rewrite aget_aset. destruct (N.eqb k' k) eqn:E; [|tauto].
  apply N.eqb_eq in E. subst. rewrite H. split; discriminate.
Qed.

(* a task record is replaced; waitCount and the pending value stay *)
Lemma InvT_set_ti c s t ti ti' : aget (is_tasks s) t = Some ti -> ti_wait ti' = ti_wait ti -> ti_pending ti' = ti_pending ti ->
  InvT c s -> InvT c (set_ti s t ti').
Proof.
  intros Hg Hw Hp [A1 A2 A3 A4 A5 A6 A7 A8 A9 A10 A11].
  constructor; autorewrite with iv; auto.
  - now apply nodup_aset.
  - intros t'. rewrite (aget_aset_exists _ _ _ _ _ Hg). apply A5.
  - intros t' x. rewrite aget_aset. destruct (N.eqb t' t) eqn:E; [|apply A6].
    apply N.eqb_eq in E. subst. intros Hx. inversion Hx. subst. rewrite Hw. now apply A6.
  - intros t' Hin. destruct (A7 t' Hin) as (x & Hx & Hk & Hw0). rewrite aget_aset. destruct (N.eqb t' t) eqn:E; [|eauto].
    apply N.eqb_eq in E. subst. rewrite Hg in Hx. inversion Hx. subst. exists ti'. rewrite Hw. auto.
  - intros t' x. rewrite aget_aset. destruct (N.eqb t' t) eqn:E; [|apply A8].
    apply N.eqb_eq in E. subst. intros Hx. inversion Hx. subst. rewrite Hw. now apply A8.
  - intros t' Hin. destruct (A9 t' Hin) as (x & Hx & Hk & Hp0). rewrite aget_aset. destruct (N.eqb t' t) eqn:E; [|eauto].
    apply N.eqb_eq in E. subst. rewrite Hg in Hx. inversion Hx. subst. exists ti'. rewrite Hp. auto.
  - intros t' x. rewrite aget_aset. destruct (N.eqb t' t) eqn:E; [|apply A10].
    apply N.eqb_eq in E. subst. intros Hx. inversion Hx. subst. rewrite Hp. now apply A10.
  - rewrite A11. unfold n_computing. autorewrite with iv. symmetry.
    apply (filter_keys_aset (fun k => kind_eqb (kind_of s k) KComputing) (is_tasks s) t ti ti' Hg).
Qed.

Lemma ireq_ok_set_ti rules s t ti ti' rq : aget (is_tasks s) t = Some ti -> ireq_ok rules s rq -> ireq_ok rules (set_ti s t ti') rq.
Proof.
  intros Hg H t' Ht'. destruct (H t' Ht') as [H1 H2]. split; auto. autorewrite with iv. now rewrite (aget_aset_exists _ _ _ _ _ Hg).
Qed.

(* effect of replacing a task record on a sum over the task table *)
Lemma asum_tasks_set_ti (g : tinfo -> nat) s t ti ti' : aget (is_tasks s) t = Some ti ->
  (asum g (is_tasks (set_ti s t ti')) + g ti = asum g (is_tasks s) + g ti')%nat.
Proof. intros Hg. autorewrite with iv. pose proof (asum_aset g (is_tasks s) t ti') as H. now rewrite Hg in H. Qed.

Lemma outstanding_count_set_ti s t ti ti' t0 : aget (is_tasks s) t = Some ti ->
  (outstanding_count (set_ti s t ti') t0 + cnt_i t0 (ti_reqby ti) = outstanding_count s t0 + cnt_i t0 (ti_reqby ti'))%nat.
Proof.
  intros Hg. unfold outstanding_count. pose proof (asum_tasks_set_ti (fun ti => cnt_i t0 (ti_reqby ti)) s t ti ti' Hg) as H.
  autorewrite with iv in *. lia.
Qed.

(* waitCount and requestedBy stay *)
Lemma InvI_set_ti rules c s t ti ti' : aget (is_tasks s) t = Some ti -> ti_wait ti' = ti_wait ti -> ti_reqby ti' = ti_reqby ti ->
  InvI rules c s -> InvI rules c (set_ti s t ti').
Proof.
  intros Hg Hw Hr [B1 B2 B3 B4 B5 B6 B7 B8 B9 B10].
  assert (Hok : forall rq, ireq_ok rules s rq -> ireq_ok rules (set_ti s t ti') rq) by (intros; eapply ireq_ok_set_ti; eauto).
  constructor; autorewrite with iv; auto.
  - intros t' x Hx. pose proof (outstanding_count_set_ti s t ti ti' t' Hg) as Ho. rewrite Hr in Ho.
    rewrite aget_aset in Hx. destruct (N.eqb t' t) eqn:E.
    + apply N.eqb_eq in E. subst. inversion Hx. subst. rewrite Hw, (B1 t ti Hg). lia.
    + rewrite (B1 t' x Hx). lia.
  - eapply Forall_impl; [apply Hok|auto].
  - eapply Forall_impl; [apply Hok|auto].
  - intros k. eapply Forall_impl; [apply Hok|apply B4].
  - intros t' x. rewrite aget_aset. destruct (N.eqb t' t) eqn:E; intros Hx.
    + inversion Hx. subst. rewrite Hr. eapply Forall_impl; [apply Hok|eauto].
    + eapply Forall_impl; [apply Hok|eauto].
  - eapply Forall_impl; [apply Hok|auto].
  - intros t' x rq. rewrite aget_aset. destruct (N.eqb t' t) eqn:E; intros Hx.
    + apply N.eqb_eq in E. inversion Hx. subst. rewrite Hr. now apply B9.
    + now apply B9.
Qed.

Lemma scan_count_set_ti s t ti ti' k : aget (is_tasks s) t = Some ti ->
  (scan_count (set_ti s t ti') k + cnt_s k (ti_deferred ti) = scan_count s k + cnt_s k (ti_deferred ti'))%nat.
Proof.
  intros Hg. unfold scan_count. pose proof (asum_tasks_set_ti (fun ti => cnt_s k (ti_deferred ti)) s t ti ti' Hg) as H.
  autorewrite with iv in *. lia.
Qed.

Lemma sreq_ok_set_ti s t ti rq : sreq_ok (set_ti s t ti) rq <-> sreq_ok s rq.
Proof. reflexivity. Qed.

(* the deferred scan requests stay *)
Lemma InvS_set_ti c s t ti ti' : aget (is_tasks s) t = Some ti -> ti_deferred ti' = ti_deferred ti -> InvS c s -> InvS c (set_ti s t ti').
Proof.
  intros Hg Hd [C1 C2 C3 C4 C5 C6 C7 C8].
  constructor; autorewrite with iv; auto.
  - intros k. pose proof (scan_count_set_ti s t ti ti' k Hg) as Ho. rewrite Hd in Ho.
    change (kind_of (set_ti s t ti') k) with (kind_of s k). specialize (C1 k). lia.
  - intros t' x. rewrite aget_aset. destruct (N.eqb t' t) eqn:E; intros Hx.
    + inversion Hx. subst. rewrite Hd. eauto.
    + eauto.
  - intros t' x rq. rewrite aget_aset. destruct (N.eqb t' t) eqn:E; intros Hx.
    + apply N.eqb_eq in E. inversion Hx. subst. rewrite Hd. now apply C8.
    + now apply C8.
Qed.

(* a change of a task record that touches neither waitCount, pending, requestedBy nor deferredScanRequests *)
Lemma Inv_set_ti_cosmetic rules c s t ti ti' : aget (is_tasks s) t = Some ti ->
  ti_wait ti' = ti_wait ti -> ti_pending ti' = ti_pending ti -> ti_reqby ti' = ti_reqby ti -> ti_deferred ti' = ti_deferred ti ->
  Inv rules c s -> Inv rules c (set_ti s t ti').
Proof.
  intros Hg H1 H2 H3 H4 (Hn & HT & HI & HS). split; [now apply nf_set_ti|].
  split; [eapply InvT_set_ti; eauto|]. split; [eapply InvI_set_ti; eauto|eapply InvS_set_ti; eauto].
Qed.
