(* Extraction of the C04 crash model (Engine/Crash.v) to OCaml (ExtrOcamlBasic only). *)
Require Extraction.
Require Import ExtrOcamlBasic.
From LLB Require Import Engine.Rules Engine.Crash.
Extraction "extracted/Model_crash.ml" recover_prefix recover apply_committed empty_db wf_trace wf_history db_inv_b
  trace_of_build trace_refused after_history trace_iteration_after_commit trace_commit_per_result trace_failed_no_iteration.
