(* Extraction of the handshake and protocol models (area handshake, property C06). *)
Require Extraction.
Require Import ExtrOcamlBasic.
From Coq Require Import NArith.
From LLB Require Import Engine.Handshake Engine.Protocol.
(* N.of_nat / N.to_nat only so that the shared OCaml helpers (which mention the types n and positive) compile *)
Extraction "extracted/Model_handshake.ml" hs_run step_gen init internal proto_check proto_accepts proto_prefix_ok N.of_nat N.to_nat.
