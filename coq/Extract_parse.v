(* Extraction of the dependency-file parser models (area "parse": C11, deps-parser part of C19). *)
Require Extraction.
Require Import ExtrOcamlBasic.
From LLB Require Import Base.Bytes Parse.MakeDeps Parse.DepInfo Parse.DepsGlue.
Extraction "extracted/Model_parse.ml" md_parse md_write md_write_eol md_write_rules md_deps md_has_error wf_path wf_target
  di_parse di_write di_inputs di_has_error wf_operand
  is_absolute path_append make_absolute glue_path process_discovered process_depinfo_v0 command_result.
