Require Extraction.
Require Import ExtrOcamlBasic.
From LLB Require Import Engine.Rules Engine.Spec Engine.Exec Engine.FindCycle Engine.Impl Engine.ImplGen Engine.ImplAccept.
Extraction "extracted/Model_implacc.ml" enabled_gen acc_begin acc_finish acc_result irestart init_istate dump_touch mixF rules_of env_of get.
