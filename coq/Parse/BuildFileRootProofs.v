(* Proofs about the build-description loader model (Parse/BuildFileRoot.v). *)
From LLB Require Import Base.Bytes Base.BytesFacts Parse.BuildFileRoot.
Local Open Scope N_scope.

(* ------------------------------------------------------------------ combinators *)

Definition safe {A} (r : res A) : Prop := r <> Crash.

Lemma safe_go {A} s (a : A) : safe (Go s a).
Proof. unfold safe. discriminate. Qed.
Lemma safe_stop {A} s : safe (@Stop A s).
Proof. unfold safe. discriminate. Qed.
#[local] Hint Resolve safe_go safe_stop : bf.

Lemma bind_safe {A B} (r : res A) (f : bstate -> A -> res B) :
  safe r -> (forall s a, r = Go s a -> safe (f s a)) -> safe (bind r f).
Proof.
  intros Hr Hf. destruct r as [s a| s |]; cbn [bind].
  - apply Hf. reflexivity.
  - apply safe_stop.
  - exfalso. apply Hr. reflexivity.
Qed.

Lemma each_safe {X A} (f : X -> bstate -> A -> res A) (l : list X) :
  (forall x, In x l -> forall s a, safe (f x s a)) -> forall s a, safe (each f l s a).
Proof.
  induction l as [|x l IH]; intros Hf s a; cbn [each].
  - apply safe_go.
  - apply bind_safe.
    + apply Hf. left. reflexivity.
    + intros s' a' _. apply IH. intros y Hy. apply Hf. right. exact Hy.
Qed.

Lemma with_type_safe {A} (n : ynode) (k : nkind -> res A) :
  present n -> (forall t, ntype n = Some t -> safe (k t)) -> safe (with_type n k).
Proof.
  intros Hp Hk. unfold with_type. destruct (ntype n) as [t|] eqn:E.
  - apply Hk. reflexivity.
  - exfalso. apply Hp. exact E.
Qed.

Lemma is_scalar_string_safe {A} (n : ynode) (name : bytes) (k : bool -> res A) :
  present n -> (forall b, safe (k b)) -> safe (is_scalar_string n name k).
Proof.
  intros Hp Hk. unfold is_scalar_string. apply with_type_safe; [exact Hp|].
  intros t _. destruct t; apply Hk.
Qed.

(* ------------------------------------------------------------------ what tree_ok gives *)

Definition entries_ok (g : bool) (kvs : list entry) : Prop :=
  Forall (fun kv => tree_ok g (fst kv) /\ tree_ok g (snd kv)) kvs.

Lemma tree_ok_mapping_of g v : tree_ok g v -> entries_ok g (mapping_of v).
Proof.
  intros H. destruct H; cbn [mapping_of]; try (apply Forall_nil). exact H.
Qed.

Lemma tree_ok_sequence_of g v : tree_ok g v -> Forall (fun x => present x /\ tree_ok g x) (sequence_of v).
Proof.
  intros H. destruct H; cbn [sequence_of]; try (apply Forall_nil). exact H.
Qed.

Lemma tree_ok_present v : tree_ok false v -> present v.
Proof.
  intros H. unfold present. destruct H; cbn [ntype]; try discriminate.
Qed.

Lemma entries_ok_in g kvs e : entries_ok g kvs -> In e kvs -> tree_ok g (fst e) /\ tree_ok g (snd e).
Proof. intros H Hin. unfold entries_ok in H. rewrite Forall_forall in H. apply H. exact Hin. Qed.

Lemma entries_ok_tl g kvs : entries_ok g kvs -> entries_ok g (tl kvs).
Proof. intros H. destruct kvs as [|e r]; cbn [tl]; [exact H|]. inversion H. assumption. Qed.

Lemma wf_tree_ok g v : wf_node v -> tree_ok g v.
Proof.
  revert v. fix IH 2. intros v H. destruct H.
  - apply to_scalar.
  - apply to_block.
  - apply to_alias.
  - apply to_null.
  - apply to_mapping. induction H as [|kv r [H1 H2] Hr IHr]; constructor.
    + split; apply IH; assumption.
    + exact IHr.
  - apply to_sequence. induction H as [|x r H1 Hr IHr]; constructor.
    + split; [|apply IH; exact H1]. unfold present. destruct H1; cbn [ntype]; discriminate.
    + exact IHr.
Qed.

(* ------------------------------------------------------------------ no dereference of an absent node *)

Section Total.
  Variable g : bool.
  Variable client_ok : bytes -> N -> list (bytes * bytes) -> bool.
  Variable tool_known : bytes -> bool.
  Variable tool_creates : bytes -> bytes -> bool.
  Variable attr_ok : owner -> bytes -> attr_val -> bool.
  Variable ownership_ok : list bytes -> bool.

  (* after the (possible) check of an entry both of its nodes can be asked for their type *)
  Lemma check_entry_safe {A} (e : entry) (s : bstate) (k : res A) :
    tree_ok g (fst e) -> tree_ok g (snd e) ->
    (present (fst e) -> present (snd e) -> safe k) -> safe (check_entry g e s k).
  Proof.
    intros H1 H2 Hk. unfold check_entry. destruct g eqn:Eg.
    - destruct (ntype (fst e)) eqn:E1; [|apply safe_stop].
      destruct (ntype (snd e)) eqn:E2; [|apply safe_stop].
      apply Hk; unfold present; congruence.
    - apply Hk; apply tree_ok_present; assumption.
  Qed.

  Lemma get_tool_safe {A} name s (k : bstate -> res A) :
    (forall s', safe (k s')) -> safe (get_tool tool_known name s k).
  Proof.
    intros Hk. unfold get_tool. destruct (mem_bytes name (st_tools s)); [apply Hk|].
    destruct (tool_known name); [apply Hk | apply safe_stop].
  Qed.

  Lemma collect_scalars_safe code xs s :
    Forall (fun x => present x /\ tree_ok g x) xs -> safe (collect_scalars code xs s).
  Proof.
    intros H. unfold collect_scalars. apply bind_safe; [|intros s' acc _; apply safe_go].
    apply each_safe. intros x Hx s' acc.
    rewrite Forall_forall in H. destruct (H x Hx) as [Hp _].
    apply with_type_safe; [exact Hp|]. intros t _. destruct t; apply safe_go.
  Qed.

  Lemma add_nodes_safe code xs s :
    Forall (fun x => present x /\ tree_ok g x) xs -> safe (add_nodes code xs s).
  Proof.
    intros H. unfold add_nodes. apply each_safe. intros x Hx s' acc.
    rewrite Forall_forall in H. destruct (H x Hx) as [Hp _].
    apply with_type_safe; [exact Hp|]. intros t _. destruct t; apply safe_go.
  Qed.

  Lemma collect_pairs_safe cs kvs s : entries_ok g kvs -> safe (collect_pairs g cs kvs s).
  Proof.
    intros H. unfold collect_pairs. apply bind_safe; [|intros s' acc _; apply safe_go].
    apply each_safe. intros e He s' acc.
    destruct (entries_ok_in _ _ _ H He) as [H1 H2].
    apply check_entry_safe; [exact H1 | exact H2 |]. intros P1 P2.
    apply with_type_safe; [exact P1|]. intros tk _. destruct tk; try apply safe_go.
    apply with_type_safe; [exact P2|]. intros tv _. destruct tv; apply safe_go.
  Qed.

  Lemma configure_attr_safe cs o attribute value s :
    present value -> tree_ok g value -> safe (configure_attr g attr_ok cs o attribute value s).
  Proof.
    intros Hp Hok. unfold configure_attr. apply with_type_safe; [exact Hp|]. intros tv _. destruct tv.
    - destruct (attr_ok o attribute (AScalar (scalar_of value))); [apply safe_go | apply safe_stop].
    - apply bind_safe.
      + apply collect_pairs_safe. apply tree_ok_mapping_of. exact Hok.
      + intros s' vals _. destruct (attr_ok o attribute (APairs vals)); [apply safe_go | apply safe_stop].
    - apply bind_safe.
      + apply collect_scalars_safe. apply tree_ok_sequence_of. exact Hok.
      + intros s' vals _. destruct (attr_ok o attribute (AList vals)); [apply safe_go | apply safe_stop].
    - apply safe_go.
  Qed.

  Lemma configure_attrs_safe cs key_code o attrs s :
    entries_ok g attrs -> safe (configure_attrs g attr_ok cs key_code o attrs s).
  Proof.
    intros H. unfold configure_attrs. apply each_safe. intros ve Hve s' u.
    destruct (entries_ok_in _ _ _ H Hve) as [H1 H2].
    apply check_entry_safe; [exact H1 | exact H2 |]. intros P1 P2.
    apply with_type_safe; [exact P1|]. intros tk _. destruct tk; try apply safe_go.
    apply configure_attr_safe; assumption.
  Qed.

  Lemma parse_client_safe map s : entries_ok g map -> safe (parse_client g client_ok map s).
  Proof.
    intros H. unfold parse_client. apply bind_safe.
    - apply each_safe. intros e He s' acc.
      destruct (entries_ok_in _ _ _ H He) as [H1 H2].
      apply check_entry_safe; [exact H1 | exact H2 |]. intros P1 P2.
      apply with_type_safe; [exact P1|]. intros tk _. destruct tk; try apply safe_stop.
      apply with_type_safe; [exact P2|]. intros tv _. destruct tv; try apply safe_stop.
      destruct (bytes_eqb (scalar_of (fst e)) s_name).
      + destruct (bytes_eqb (scalar_of (fst e)) s_perform_ownership_analysis); apply safe_go.
      + destruct (bytes_eqb (scalar_of (fst e)) s_version).
        * destruct (parse_u32 (scalar_of (snd e)));
            destruct (bytes_eqb (scalar_of (fst e)) s_perform_ownership_analysis); apply safe_go.
        * destruct (bytes_eqb (scalar_of (fst e)) s_perform_ownership_analysis); apply safe_go.
    - intros s' acc _. destruct (client_ok (ca_name acc) (ca_version acc) (ca_props acc)); [apply safe_go | apply safe_stop].
  Qed.

  Lemma parse_tools_safe map s : entries_ok g map -> safe (parse_tools g tool_known attr_ok map s).
  Proof.
    intros H. unfold parse_tools. apply each_safe. intros e He s' u.
    destruct (entries_ok_in _ _ _ H He) as [H1 H2].
    apply check_entry_safe; [exact H1 | exact H2 |]. intros P1 P2.
    apply with_type_safe; [exact P1|]. intros tk _. destruct tk; try apply safe_go.
    apply with_type_safe; [exact P2|]. intros tv _. destruct tv; try apply safe_go.
    apply get_tool_safe. intros s''. apply configure_attrs_safe. apply tree_ok_mapping_of. exact H2.
  Qed.

  Lemma parse_targets_safe map s : entries_ok g map -> safe (parse_targets g map s).
  Proof.
    intros H. unfold parse_targets. apply each_safe. intros e He s' u.
    destruct (entries_ok_in _ _ _ H He) as [H1 H2].
    apply check_entry_safe; [exact H1 | exact H2 |]. intros P1 P2.
    apply with_type_safe; [exact P1|]. intros tk _. destruct tk; try apply safe_go.
    apply with_type_safe; [exact P2|]. intros tv _. destruct tv; try apply safe_go.
    apply bind_safe.
    - apply add_nodes_safe. apply tree_ok_sequence_of. exact H2.
    - intros s'' u' _. apply safe_go.
  Qed.

  Lemma parse_default_safe v s : safe (parse_default v s).
  Proof. unfold parse_default. destruct (mem_bytes (scalar_of v) (st_targets s)); [apply safe_go | apply safe_stop]. Qed.

  Lemma parse_nodes_safe map s : entries_ok g map -> safe (parse_nodes g attr_ok map s).
  Proof.
    intros H. unfold parse_nodes. apply each_safe. intros e He s' u.
    destruct (entries_ok_in _ _ _ H He) as [H1 H2].
    apply check_entry_safe; [exact H1 | exact H2 |]. intros P1 P2.
    apply with_type_safe; [exact P1|]. intros tk _. destruct tk; try apply safe_go.
    apply with_type_safe; [exact P2|]. intros tv _. destruct tv; try apply safe_go.
    apply configure_attrs_safe. apply tree_ok_mapping_of. exact H2.
  Qed.

  Lemma command_attr_safe tool name e s :
    tree_ok g (fst e) -> tree_ok g (snd e) -> safe (command_attr g attr_ok tool name e s).
  Proof.
    intros H1 H2. unfold command_attr.
    apply check_entry_safe; [exact H1 | exact H2 |]. intros P1 P2.
    apply is_scalar_string_safe; [exact P1|]. intros b1. destruct b1.
    { apply with_type_safe; [exact P2|]. intros tv _. destruct tv; try apply safe_go.
      apply add_nodes_safe. apply tree_ok_sequence_of. exact H2. }
    apply is_scalar_string_safe; [exact P1|]. intros b2. destruct b2.
    { apply with_type_safe; [exact P2|]. intros tv _. destruct tv; try apply safe_go.
      apply add_nodes_safe. apply tree_ok_sequence_of. exact H2. }
    apply is_scalar_string_safe; [exact P1|]. intros b3. destruct b3.
    { apply with_type_safe; [exact P2|]. intros tv _. destruct tv; apply safe_go. }
    apply with_type_safe; [exact P1|]. intros tk _. destruct tk; try apply safe_go.
    apply configure_attr_safe; assumption.
  Qed.

  Lemma parse_commands_safe map s :
    entries_ok g map -> safe (parse_commands g tool_known tool_creates attr_ok map s).
  Proof.
    intros H. unfold parse_commands. apply each_safe. intros e He s' u.
    destruct (entries_ok_in _ _ _ H He) as [H1 H2].
    apply check_entry_safe; [exact H1 | exact H2 |]. intros P1 P2.
    apply with_type_safe; [exact P1|]. intros tk _. destruct tk; try apply safe_go.
    apply with_type_safe; [exact P2|]. intros tv _. destruct tv; try apply safe_go.
    destruct (mem_bytes (scalar_of (fst e)) (st_commands s')); [apply safe_go|].
    pose proof (tree_ok_mapping_of _ _ H2) as Hattrs.
    destruct (mapping_of (snd e)) as [|first rest] eqn:Em; cbn [at_end deref tl]; [apply safe_go|].
    destruct (entries_ok_in _ _ first Hattrs (or_introl eq_refl)) as [F1 F2].
    apply check_entry_safe; [exact F1 | exact F2 |]. intros Q1 Q2.
    apply is_scalar_string_safe; [exact Q1|]. intros is_tool. destruct is_tool; cbn [negb]; [|apply safe_go].
    apply with_type_safe; [exact Q2|]. intros tt_ _. destruct tt_; try apply safe_go.
    apply get_tool_safe. intros s''.
    destruct (tool_creates (scalar_of (snd first)) (scalar_of (fst e))); [|apply safe_stop].
    apply bind_safe.
    - apply each_safe. intros a Ha s3 u3.
      assert (Hin : In a (first :: rest)) by (right; exact Ha).
      destruct (entries_ok_in _ _ a Hattrs Hin) as [A1 A2].
      apply command_attr_safe; assumption.
    - intros s3 u3 _. apply safe_go.
  Qed.

  (* the entry an iterator of parseRootNode points at has been checked (repaired code) / is present (well-formed) *)
  Definition head_ok (it : list entry) : Prop :=
    match it with [] => True | e :: _ => present (fst e) /\ present (snd e) end.

  Lemma advance_safe (it : list entry) (s : bstate) :
    entries_ok g it ->
    safe (if at_end it then Go s it else deref it (fun e' => check_entry g e' s (Go s it))).
  Proof.
    intros H. destruct it as [|e r]; cbn [at_end deref]; [apply safe_go|].
    destruct (entries_ok_in _ _ e H (or_introl eq_refl)) as [H1 H2].
    apply check_entry_safe; [exact H1 | exact H2 |]. intros _ _. apply safe_go.
  Qed.

  Lemma advance_go (it : list entry) (s s' : bstate) (it' : list entry) :
    entries_ok g it ->
    (if at_end it then Go s it else deref it (fun e' => check_entry g e' s (Go s it))) = Go s' it' ->
    it' = it /\ head_ok it'.
  Proof.
    intros H. destruct it as [|e r]; cbn [at_end deref].
    - intros E. inversion E. split; [reflexivity | exact I].
    - destruct (entries_ok_in _ _ e H (or_introl eq_refl)) as [H1 H2].
      unfold check_entry. destruct g eqn:Eg.
      + destruct (ntype (fst e)) eqn:E1; [|discriminate]. destruct (ntype (snd e)) eqn:E2; [|discriminate].
        intros E. inversion E. split; [reflexivity|]. cbn [head_ok]. unfold present. split; congruence.
      + intros E. inversion E. split; [reflexivity|]. cbn [head_ok]. split; apply tree_ok_present; assumption.
  Qed.

  Lemma section_safe name want code parse (it : list entry) s :
    entries_ok g it -> head_ok it ->
    (forall v s', tree_ok g v -> safe (parse v s')) ->
    safe (section g name want code parse it s).
  Proof.
    intros Hit Hhd Hparse. unfold section. destruct it as [|e r]; cbn [at_end deref]; [apply safe_go|].
    destruct Hhd as [P1 P2].
    destruct (entries_ok_in _ _ e Hit (or_introl eq_refl)) as [H1 H2].
    apply is_scalar_string_safe; [exact P1|]. intros here. destruct here; [|apply safe_go].
    apply with_type_safe; [exact P2|]. intros tv _.
    match goal with |- safe (if ?c then _ else _) => destruct c end; [|apply safe_stop].
    apply bind_safe; [apply Hparse; exact H2|].
    intros s' u _. cbn [tl]. apply advance_safe. inversion Hit. assumption.
  Qed.

  Lemma section_go name want code parse (it : list entry) s s' it' :
    entries_ok g it -> head_ok it ->
    section g name want code parse it s = Go s' it' ->
    entries_ok g it' /\ head_ok it' /\ (it' = it \/ it' = tl it).
  Proof.
    intros Hit Hhd. unfold section. destruct it as [|e r]; cbn [at_end deref].
    - intros E. inversion E. split; [exact Hit|]. split; [exact I|]. left. reflexivity.
    - unfold is_scalar_string, with_type.
      destruct (ntype (fst e)) as [tk|]; [|discriminate].
      assert (Hgen : forall here : bool,
        (if here then
           match ntype (snd e) with
           | Some tv =>
               if match tv, want with
                  | KScalar, KScalar | KMapping, KMapping | KSequence, KSequence | KOther, KOther => true
                  | _, _ => false
                  end
               then bind (parse (snd e) s) (fun s0 _ =>
                      let it'0 := tl (e :: r) in
                      if at_end it'0 then Go s0 it'0 else deref it'0 (fun e' => check_entry g e' s0 (Go s0 it'0)))
               else Stop (add_err code s)
           | None => Crash
           end
         else Go s (e :: r)) = Go s' it' ->
        entries_ok g it' /\ head_ok it' /\ (it' = e :: r \/ it' = tl (e :: r))).
      { intros here. destruct here.
        - destruct (ntype (snd e)) as [tv|]; [|discriminate].
          match goal with |- (if ?c then _ else _) = _ -> _ => destruct c end; [|discriminate].
          destruct (parse (snd e) s) as [s0 u0| s0 |]; cbn [bind]; [|discriminate|discriminate].
          cbn [tl]. intros E.
          assert (Hr : entries_ok g r) by (inversion Hit; assumption).
          destruct (advance_go r s0 s' it' Hr E) as [Eq Hh]. subst it'.
          split; [exact Hr|]. split; [exact Hh|]. right. reflexivity.
        - intros E. inversion E. subst. split; [exact Hit|]. split; [exact Hhd|]. left. reflexivity. }
      destruct tk; [exact (Hgen (bytes_eqb (scalar_of (fst e)) name)) | exact (Hgen false) ..].
  Qed.

  Lemma parse_root_safe node s : present node -> tree_ok g node ->
    safe (parse_root g client_ok tool_known tool_creates attr_ok node s).
  Proof.
    intros Hp Hok. unfold parse_root. apply with_type_safe; [exact Hp|]. intros t _. destruct t; try apply safe_stop.
    pose proof (tree_ok_mapping_of _ _ Hok) as Hm.
    destruct (mapping_of node) as [|e r] eqn:Em; cbn [at_end deref tl]; [apply safe_stop|].
    destruct (entries_ok_in _ _ e Hm (or_introl eq_refl)) as [H1 H2].
    assert (Hr : entries_ok g r) by (inversion Hm; assumption).
    apply check_entry_safe; [exact H1 | exact H2 |]. intros P1 P2.
    apply is_scalar_string_safe; [exact P1|]. intros is_client. destruct is_client; cbn [negb]; [|apply safe_stop].
    apply with_type_safe; [exact P2|]. intros tv _. destruct tv; try apply safe_stop.
    apply bind_safe; [apply parse_client_safe; apply tree_ok_mapping_of; exact H2|].
    intros s1 u1 _.
    apply bind_safe; [apply advance_safe; exact Hr|].
    intros s2 it1 E1. destruct (advance_go _ _ _ _ Hr E1) as [Eq1 Hh1]. subst it1.
    apply bind_safe.
    { apply section_safe; [exact Hr | exact Hh1 |]. intros v s' Hv. apply parse_tools_safe. apply tree_ok_mapping_of. exact Hv. }
    intros s3 it2 E2. destruct (section_go _ _ _ _ _ _ _ _ Hr Hh1 E2) as [Hr2 [Hh2 _]].
    apply bind_safe.
    { apply section_safe; [exact Hr2 | exact Hh2 |]. intros v s' Hv. apply parse_targets_safe. apply tree_ok_mapping_of. exact Hv. }
    intros s4 it3 E3. destruct (section_go _ _ _ _ _ _ _ _ Hr2 Hh2 E3) as [Hr3 [Hh3 _]].
    apply bind_safe.
    { apply section_safe; [exact Hr3 | exact Hh3 |]. intros v s' Hv. apply parse_default_safe. }
    intros s5 it4 E4. destruct (section_go _ _ _ _ _ _ _ _ Hr3 Hh3 E4) as [Hr4 [Hh4 _]].
    apply bind_safe.
    { apply section_safe; [exact Hr4 | exact Hh4 |]. intros v s' Hv. apply parse_nodes_safe. apply tree_ok_mapping_of. exact Hv. }
    intros s6 it5 E5. destruct (section_go _ _ _ _ _ _ _ _ Hr4 Hh4 E5) as [Hr5 [Hh5 _]].
    apply bind_safe.
    { apply section_safe; [exact Hr5 | exact Hh5 |]. intros v s' Hv. apply parse_commands_safe. apply tree_ok_mapping_of. exact Hv. }
    intros s7 it6 E6. destruct (at_end it6); [apply safe_go | apply safe_stop].
  Qed.

  Theorem load_no_crash docs :
    Forall (tree_ok g) docs ->
    load g client_ok tool_known tool_creates attr_ok ownership_ok docs <> LoadCrash.
  Proof.
    intros H. unfold load. destruct docs as [|root more]; [discriminate|].
    assert (Hroot : tree_ok g root) by (inversion H; assumption).
    assert (Hmore : Forall (tree_ok g) more) by (inversion H; assumption).
    assert (Hsafe : forall s, present root -> safe (parse_root g client_ok tool_known tool_creates attr_ok root s)).
    { intros s Hp. apply parse_root_safe; assumption. }
    assert (Hcont : present root ->
      match parse_root g client_ok tool_known tool_creates attr_ok root init_state with
      | Go s _ =>
          match more with
          | [] => if st_own s then if ownership_ok (st_commands s) then LoadOk s else LoadError s else LoadOk s
          | extra :: _ =>
              match ntype extra with
              | Some _ => LoadError (add_err E_additional_document s)
              | None => if g then LoadError (add_err E_additional_document s) else LoadCrash
              end
          end
      | Stop s => LoadError s
      | Crash => LoadCrash
      end <> LoadCrash).
    { intros Hp. specialize (Hsafe init_state Hp).
      destruct (parse_root g client_ok tool_known tool_creates attr_ok root init_state) as [s u| s |]; [|discriminate|exfalso; apply Hsafe; reflexivity].
      destruct more as [|extra more'].
      - destruct (st_own s); [destruct (ownership_ok (st_commands s))|]; discriminate.
      - destruct (ntype extra) eqn:Ex; [discriminate|].
        destruct g eqn:Eg; [discriminate|].
        exfalso. assert (Hx : tree_ok false extra) by (inversion Hmore; assumption).
        apply (tree_ok_present _ Hx). exact Ex. }
    destruct root; try (apply Hcont; unfold present; cbn [ntype]; discriminate).
    discriminate.
  Qed.
End Total.

(* ------------------------------------------------------------------ what an accepted document looks like *)

Definition key_is (k : ynode) (name : bytes) : bool :=
  match k with YScalar v => bytes_eqb v name | _ => false end.

Lemma check_entry_go {A} g (e : entry) s (k : res A) s' a : check_entry g e s k = Go s' a -> k = Go s' a.
Proof.
  unfold check_entry. destruct g; [|exact (fun H => H)].
  destruct (ntype (fst e)); [|discriminate]. destruct (ntype (snd e)); [|discriminate]. exact (fun H => H).
Qed.

Lemma advance_eq g (it : list entry) (s s' : bstate) (it' : list entry) :
  (if at_end it then Go s it else deref it (fun e' => check_entry g e' s (Go s it))) = Go s' it' -> it' = it.
Proof.
  destruct it as [|e r]; cbn [at_end deref].
  - intros E. inversion E. reflexivity.
  - unfold check_entry. destruct g.
    + destruct (ntype (fst e)); [|discriminate]. destruct (ntype (snd e)); [|discriminate].
      intros E. inversion E. reflexivity.
    + intros E. inversion E. reflexivity.
Qed.

(* an optional section either leaves the iterator where it is (its key is not there) or steps over exactly that key *)
Lemma section_inv g name want code parse (it : list entry) s s' it' :
  section g name want code parse it s = Go s' it' ->
  (it' = it /\ match it with [] => True | e :: _ => key_is (fst e) name = false end)
  \/ (exists e r, it = e :: r /\ it' = r /\ key_is (fst e) name = true).
Proof.
  unfold section. destruct it as [|e r]; cbn [at_end deref].
  - intros E. inversion E. left. split; [reflexivity | exact I].
  - unfold is_scalar_string, with_type.
    destruct (fst e) as [v|v|a| |kvs|xs|] eqn:K; cbn [ntype scalar_of key_is];
      try (intros E; inversion E; left; split; reflexivity); try discriminate.
    destruct (bytes_eqb v name) eqn:Ev.
    + destruct (ntype (snd e)) as [tv|]; [|discriminate].
      match goal with |- (if ?c then _ else _) = _ -> _ => destruct c end; [|discriminate].
      destruct (parse (snd e) s) as [s0 u0| s0 |]; cbn [bind]; [|discriminate|discriminate].
      cbn [tl]. intros E. apply advance_eq in E. subst it'.
      right. exists e, r. rewrite K. cbn [key_is]. repeat split. exact Ev.
    + intros E. inversion E. left. split; reflexivity.
Qed.

Lemma section_keys g name want code parse (it : list entry) s s' it' canon :
  section g name want code parse it s = Go s' it' ->
  keys_subseq canon (map fst it') = true -> keys_subseq (name :: canon) (map fst it) = true.
Proof.
  intros E Hk. apply section_inv in E. destruct E as [[Eq Hhd] | [e [r [Eq [Eq' Hkey]]]]].
  - subst it'. destruct it as [|e r]; cbn [map keys_subseq]; [reflexivity|].
    cbn [map] in Hk. unfold key_is in Hhd. rewrite Hhd. exact Hk.
  - subst it it'. cbn [map keys_subseq]. unfold key_is in Hkey. rewrite Hkey. exact Hk.
Qed.

Ltac bind_step E :=
  match goal with
  | |- bind ?X _ = _ -> _ => destruct X as [? ?| ? |] eqn:E; cbn [bind]; [|discriminate|discriminate]
  end.

Lemma parse_root_shape g client_ok tool_known tool_creates attr_ok node s s' u :
  parse_root g client_ok tool_known tool_creates attr_ok node s = Go s' u ->
  exists cl more, node = YMapping ((YScalar s_client, YMapping cl) :: more)
                  /\ keys_subseq section_order (map fst more) = true.
Proof.
  unfold parse_root, with_type.
  destruct node as [v|v|a| |kvs|xs|]; cbn [ntype mapping_of]; try discriminate.
  destruct kvs as [|e r]; cbn [at_end deref tl]; [discriminate|].
  intros E. apply check_entry_go in E. revert E. unfold is_scalar_string, with_type.
  destruct e as [k v]. cbn [fst snd].
  destruct k as [kv|kv|ka| |kkvs|kxs|]; cbn [ntype scalar_of negb]; try discriminate.
  destruct (bytes_eqb kv s_client) eqn:Ek; cbn [negb]; [|discriminate].
  apply bytes_eqb_eq in Ek. subst kv.
  destruct v as [vv|vv|va| |cl|vxs|]; cbn [ntype mapping_of]; try discriminate.
  bind_step E0.
  bind_step E1. apply advance_eq in E1. subst.
  bind_step E2. bind_step E3. bind_step E4. bind_step E5. bind_step E6.
  match goal with |- (if at_end ?it then _ else _) = _ -> _ => destruct it as [|x6 r6]; cbn [at_end]; [|discriminate] end.
  intros _. exists cl, r. split; [reflexivity|].
  unfold section_order.
  apply (section_keys _ _ _ _ _ _ _ _ _ _ E2).
  apply (section_keys _ _ _ _ _ _ _ _ _ _ E3).
  apply (section_keys _ _ _ _ _ _ _ _ _ _ E4).
  apply (section_keys _ _ _ _ _ _ _ _ _ _ E5).
  apply (section_keys _ _ _ _ _ _ _ _ _ _ E6).
  reflexivity.
Qed.

(* A build description is loaded only if it is ONE document whose root is a mapping that starts with the key
   'client' bound to a mapping, and whose remaining keys spell a subsequence of tools, targets, default, nodes,
   commands: each at most once, in that order, nothing else. *)
Theorem load_ok_shape g client_ok tool_known tool_creates attr_ok ownership_ok docs s :
  load g client_ok tool_known tool_creates attr_ok ownership_ok docs = LoadOk s ->
  exists cl more, docs = [YMapping ((YScalar s_client, YMapping cl) :: more)]
                  /\ keys_subseq section_order (map fst more) = true.
Proof.
  unfold load. destruct docs as [|root rest]; [discriminate|].
  destruct (parse_root g client_ok tool_known tool_creates attr_ok root init_state) as [s1 u1| s1 |] eqn:E.
  - destruct rest as [|extra rest'].
    + intros _. apply parse_root_shape in E. destruct E as [cl [more [Eq Hk]]].
      exists cl, more. split; [rewrite Eq; reflexivity | exact Hk].
    + destruct root; try discriminate; destruct (ntype extra); try discriminate; destruct g; discriminate.
  - destruct root; discriminate.
  - destruct root; discriminate.
Qed.

(* ------------------------------------------------------------------ a failed load has told the delegate why *)

Definition reports {A} (r : res A) : Prop := forall s, r = Stop s -> st_errs s <> [].

Lemma reports_go {A} s (a : A) : reports (Go s a).
Proof. intros s' E. discriminate. Qed.
Lemma reports_err {A} c s : reports (@Stop A (add_err c s)).
Proof. intros s' E. inversion E. cbn [add_err st_errs]. discriminate. Qed.
Lemma reports_crash {A} : reports (@Crash A).
Proof. intros s' E. discriminate. Qed.

Lemma bind_reports {A B} (r : res A) (f : bstate -> A -> res B) :
  reports r -> (forall s a, reports (f s a)) -> reports (bind r f).
Proof.
  intros Hr Hf. destruct r as [s a| s |]; cbn [bind].
  - apply Hf.
  - intros s' E. inversion E. subst. apply Hr. reflexivity.
  - apply reports_crash.
Qed.

Lemma each_reports {X A} (f : X -> bstate -> A -> res A) (l : list X) :
  (forall x s a, reports (f x s a)) -> forall s a, reports (each f l s a).
Proof.
  intros Hf. induction l as [|x l IH]; intros s a; cbn [each].
  - apply reports_go.
  - apply bind_reports; [apply Hf | exact IH].
Qed.

Lemma with_type_reports {A} (n : ynode) (k : nkind -> res A) : (forall t, reports (k t)) -> reports (with_type n k).
Proof. intros Hk. unfold with_type. destruct (ntype n); [apply Hk | apply reports_crash]. Qed.

Lemma is_scalar_string_reports {A} (n : ynode) name (k : bool -> res A) :
  (forall b, reports (k b)) -> reports (is_scalar_string n name k).
Proof. intros Hk. unfold is_scalar_string. apply with_type_reports. intros t. destruct t; apply Hk. Qed.

Lemma check_entry_reports {A} g (e : entry) s (k : res A) : reports k -> reports (check_entry g e s k).
Proof.
  intros Hk. unfold check_entry. destruct g; [|exact Hk].
  destruct (ntype (fst e)); [|apply reports_err]. destruct (ntype (snd e)); [exact Hk | apply reports_err].
Qed.

Section Reported.
  Variable g : bool.
  Variable client_ok : bytes -> N -> list (bytes * bytes) -> bool.
  Variable tool_known : bytes -> bool.
  Variable tool_creates : bytes -> bytes -> bool.
  Variable attr_ok : owner -> bytes -> attr_val -> bool.
  Variable ownership_ok : list bytes -> bool.
  (* a rejected attribute is reported by the tool / node / command that rejects it, a conflict found by the ownership
     analysis through cannotLoadDueToMultipleProducers: outside BuildFile.cpp's own messages *)
  Hypothesis attr_accepts : forall o a v, attr_ok o a v = true.
  Hypothesis ownership_accepts : forall cs, ownership_ok cs = true.

  Lemma get_tool_reports {A} name s (k : bstate -> res A) :
    (forall s', reports (k s')) -> reports (get_tool tool_known name s k).
  Proof.
    intros Hk. unfold get_tool. destruct (mem_bytes name (st_tools s)); [apply Hk|].
    destruct (tool_known name); [apply Hk | apply reports_err].
  Qed.

  Lemma collect_scalars_reports code xs s : reports (collect_scalars code xs s).
  Proof.
    unfold collect_scalars. apply bind_reports; [|intros s' acc; apply reports_go].
    apply each_reports. intros x s' acc. apply with_type_reports. intros t.
    destruct t; apply reports_go.
  Qed.

  Lemma add_nodes_reports code xs s : reports (add_nodes code xs s).
  Proof.
    unfold add_nodes. apply each_reports. intros x s' acc. apply with_type_reports. intros t.
    destruct t; apply reports_go.
  Qed.

  Lemma collect_pairs_reports cs kvs s : reports (collect_pairs g cs kvs s).
  Proof.
    unfold collect_pairs. apply bind_reports; [|intros s' acc; apply reports_go].
    apply each_reports. intros e s' acc. apply check_entry_reports.
    apply with_type_reports. intros tk. destruct tk; try apply reports_go.
    apply with_type_reports. intros tv. destruct tv; apply reports_go.
  Qed.

  Lemma configure_attr_reports cs o attribute value s : reports (configure_attr g attr_ok cs o attribute value s).
  Proof.
    unfold configure_attr. apply with_type_reports. intros tv. destruct tv.
    - rewrite attr_accepts. apply reports_go.
    - apply bind_reports; [apply collect_pairs_reports|]. intros s' vals. rewrite attr_accepts. apply reports_go.
    - apply bind_reports; [apply collect_scalars_reports|]. intros s' vals. rewrite attr_accepts. apply reports_go.
    - apply reports_go.
  Qed.

  Lemma configure_attrs_reports cs key_code o attrs s : reports (configure_attrs g attr_ok cs key_code o attrs s).
  Proof.
    unfold configure_attrs. apply each_reports. intros ve s' u. apply check_entry_reports.
    apply with_type_reports. intros tk. destruct tk; try apply reports_go. apply configure_attr_reports.
  Qed.

  Lemma parse_client_reports map s : reports (parse_client g client_ok map s).
  Proof.
    unfold parse_client. apply bind_reports.
    - apply each_reports. intros e s' acc. apply check_entry_reports.
      apply with_type_reports. intros tk. destruct tk; try apply reports_err.
      apply with_type_reports. intros tv. destruct tv; try apply reports_err.
      destruct (bytes_eqb (scalar_of (fst e)) s_name).
      + destruct (bytes_eqb (scalar_of (fst e)) s_perform_ownership_analysis); apply reports_go.
      + destruct (bytes_eqb (scalar_of (fst e)) s_version).
        * destruct (parse_u32 (scalar_of (snd e)));
            destruct (bytes_eqb (scalar_of (fst e)) s_perform_ownership_analysis); apply reports_go.
        * destruct (bytes_eqb (scalar_of (fst e)) s_perform_ownership_analysis); apply reports_go.
    - intros s' acc. destruct (client_ok (ca_name acc) (ca_version acc) (ca_props acc)); [apply reports_go | apply reports_err].
  Qed.

  Lemma parse_tools_reports map s : reports (parse_tools g tool_known attr_ok map s).
  Proof.
    unfold parse_tools. apply each_reports. intros e s' u. apply check_entry_reports.
    apply with_type_reports. intros tk. destruct tk; try apply reports_go.
    apply with_type_reports. intros tv. destruct tv; try apply reports_go.
    apply get_tool_reports. intros s''. apply configure_attrs_reports.
  Qed.

  Lemma parse_targets_reports map s : reports (parse_targets g map s).
  Proof.
    unfold parse_targets. apply each_reports. intros e s' u. apply check_entry_reports.
    apply with_type_reports. intros tk. destruct tk; try apply reports_go.
    apply with_type_reports. intros tv. destruct tv; try apply reports_go.
    apply bind_reports; [apply add_nodes_reports|]. intros s'' u'. apply reports_go.
  Qed.

  Lemma parse_default_reports v s : reports (parse_default v s).
  Proof. unfold parse_default. destruct (mem_bytes (scalar_of v) (st_targets s)); [apply reports_go | apply reports_err]. Qed.

  Lemma parse_nodes_reports map s : reports (parse_nodes g attr_ok map s).
  Proof.
    unfold parse_nodes. apply each_reports. intros e s' u. apply check_entry_reports.
    apply with_type_reports. intros tk. destruct tk; try apply reports_go.
    apply with_type_reports. intros tv. destruct tv; try apply reports_go.
    apply configure_attrs_reports.
  Qed.

  Lemma command_attr_reports tool name e s : reports (command_attr g attr_ok tool name e s).
  Proof.
    unfold command_attr. apply check_entry_reports.
    apply is_scalar_string_reports. intros b1. destruct b1.
    { apply with_type_reports. intros tv. destruct tv; try apply reports_go. apply add_nodes_reports. }
    apply is_scalar_string_reports. intros b2. destruct b2.
    { apply with_type_reports. intros tv. destruct tv; try apply reports_go. apply add_nodes_reports. }
    apply is_scalar_string_reports. intros b3. destruct b3.
    { apply with_type_reports. intros tv. destruct tv; apply reports_go. }
    apply with_type_reports. intros tk. destruct tk; try apply reports_go. apply configure_attr_reports.
  Qed.

  Lemma parse_commands_reports map s : reports (parse_commands g tool_known tool_creates attr_ok map s).
  Proof.
    unfold parse_commands. apply each_reports. intros e s' u. apply check_entry_reports.
    apply with_type_reports. intros tk. destruct tk; try apply reports_go.
    apply with_type_reports. intros tv. destruct tv; try apply reports_go.
    destruct (mem_bytes (scalar_of (fst e)) (st_commands s')); [apply reports_go|].
    destruct (mapping_of (snd e)) as [|first rest]; cbn [at_end deref tl]; [apply reports_go|].
    apply check_entry_reports. apply is_scalar_string_reports. intros is_tool.
    destruct is_tool; cbn [negb]; [|apply reports_go].
    apply with_type_reports. intros tt_. destruct tt_; try apply reports_go.
    apply get_tool_reports. intros s''.
    destruct (tool_creates (scalar_of (snd first)) (scalar_of (fst e))); [|apply reports_err].
    apply bind_reports.
    - apply each_reports. intros a s3 u3. apply command_attr_reports.
    - intros s3 u3. apply reports_go.
  Qed.

  Lemma advance_reports (it : list entry) s :
    reports (if at_end it then Go s it else deref it (fun e' => check_entry g e' s (Go s it))).
  Proof.
    destruct it as [|e r]; cbn [at_end deref]; [apply reports_go|]. apply check_entry_reports. apply reports_go.
  Qed.

  Lemma section_reports name want code parse (it : list entry) s :
    (forall v s', reports (parse v s')) -> reports (section g name want code parse it s).
  Proof.
    intros Hp. unfold section. destruct it as [|e r]; cbn [at_end deref]; [apply reports_go|].
    apply is_scalar_string_reports. intros here. destruct here; [|apply reports_go].
    apply with_type_reports. intros tv.
    match goal with |- reports (if ?c then _ else _) => destruct c end; [|apply reports_err].
    apply bind_reports; [apply Hp|]. intros s' u. apply advance_reports.
  Qed.

  Lemma parse_root_reports node s : reports (parse_root g client_ok tool_known tool_creates attr_ok node s).
  Proof.
    unfold parse_root. apply with_type_reports. intros t. destruct t; try apply reports_err.
    destruct (mapping_of node) as [|e r]; cbn [at_end deref tl]; [apply reports_err|].
    apply check_entry_reports. apply is_scalar_string_reports. intros is_client.
    destruct is_client; cbn [negb]; [|apply reports_err].
    apply with_type_reports. intros tv. destruct tv; try apply reports_err.
    apply bind_reports; [apply parse_client_reports|]. intros s1 u1.
    apply bind_reports; [apply advance_reports|]. intros s2 it1.
    apply bind_reports; [apply section_reports; intros v s'; apply parse_tools_reports|]. intros s3 it2.
    apply bind_reports; [apply section_reports; intros v s'; apply parse_targets_reports|]. intros s4 it3.
    apply bind_reports; [apply section_reports; intros v s'; apply parse_default_reports|]. intros s5 it4.
    apply bind_reports; [apply section_reports; intros v s'; apply parse_nodes_reports|]. intros s6 it5.
    apply bind_reports; [apply section_reports; intros v s'; apply parse_commands_reports|]. intros s7 it6.
    destruct (at_end it6); [apply reports_go | apply reports_err].
  Qed.

  Theorem load_error_reported docs s :
    load g client_ok tool_known tool_creates attr_ok ownership_ok docs = LoadError s -> st_errs s <> [].
  Proof.
    unfold load. destruct docs as [|root more].
    { intros E. inversion E. cbn [add_err st_errs]. discriminate. }
    pose proof (parse_root_reports root init_state) as Hr.
    assert (Hcont :
      match parse_root g client_ok tool_known tool_creates attr_ok root init_state with
      | Go s0 _ =>
          match more with
          | [] => if st_own s0 then if ownership_ok (st_commands s0) then LoadOk s0 else LoadError s0 else LoadOk s0
          | extra :: _ =>
              match ntype extra with
              | Some _ => LoadError (add_err E_additional_document s0)
              | None => if g then LoadError (add_err E_additional_document s0) else LoadCrash
              end
          end
      | Stop s0 => LoadError s0
      | Crash => LoadCrash
      end = LoadError s -> st_errs s <> []).
    { destruct (parse_root g client_ok tool_known tool_creates attr_ok root init_state) as [s0 u0| s0 |].
      - destruct more as [|extra more'].
        + rewrite ownership_accepts. destruct (st_own s0); discriminate.
        + destruct (ntype extra); [|destruct g; [|discriminate]];
            intros E; inversion E; cbn [add_err st_errs]; discriminate.
      - intros E. inversion E. subst. apply Hr. reflexivity.
      - discriminate. }
    destruct root; try exact Hcont.
    intros E. inversion E. cbn [add_err st_errs]. discriminate.
  Qed.
End Reported.

(* ------------------------------------------------------------------ the code before the null-node repair *)

(* `client: ?x` : llvm's scanner rejects a plain scalar that starts with '?', the value node is null *)
Definition null_value_doc : list ynode := [YMapping [(YScalar s_client, YAbsent)]].

Theorem load_unrepaired_refuted :
  load_parse_cmd false null_value_doc = LoadCrash
  /\ errors_of (load_parse_cmd true null_value_doc) = [E_malformed]
  /\ is_ok (load_parse_cmd true null_value_doc) = false.
Proof. vm_compute. repeat split. Qed.

(* ------------------------------------------------------------------ instances *)

Definition sc (l : bytes) : ynode := YScalar l.
Definition valid_doc : ynode :=
  YMapping [
    (sc s_client, YMapping [(sc s_name, sc [98; 97; 115; 105; 99]); (sc s_version, sc [48])]);
    (sc s_tools, YMapping [(sc [115; 104; 101; 108; 108], YMapping [])]);
    (sc s_targets, YMapping [(sc [], YSequence [sc [60; 97; 108; 108; 62]]); (sc [116], YSequence [sc [111; 117; 116]])]);
    (sc s_default, sc [116]);
    (sc s_nodes, YMapping [(sc [111; 117; 116], YMapping [(sc [105; 115; 45; 109; 117; 116; 97; 116; 101; 100], sc [102; 97; 108; 115; 101])])]);
    (sc s_commands, YMapping [
       (sc [99; 49], YMapping [(sc s_tool, sc [115; 104; 101; 108; 108]); (sc s_inputs, YSequence [sc [105; 110]]);
                               (sc s_outputs, YSequence [sc [111; 117; 116]; sc [60; 97; 108; 108; 62]]);
                               (sc s_description, sc [67; 49]);
                               (sc [97; 114; 103; 115], YSequence [sc [101; 99; 104; 111]; sc [104; 105]]);
                               (sc [101; 110; 118], YMapping [(sc [65], sc [66])])]);
       (sc [99; 50], YMapping [(sc s_tool, sc [112; 104; 111; 110; 121]); (sc s_inputs, YSequence [sc [111; 117; 116]])])])].

Definition summary (r : load_result) : option (list N * (nat * nat * nat * nat) * bytes) :=
  match r with
  | LoadOk s => Some (rev (st_errs s), (length (st_tools s), length (st_targets s), length (st_nodes s), length (st_commands s)), st_default s)
  | _ => None
  end.

Example valid_doc_loads :
  summary (load_parse_cmd true [valid_doc]) = Some ([], (2%nat, 2%nat, 3%nat, 2%nat), [116]).
Proof. vm_compute. reflexivity. Qed.

Example valid_doc_wf : wf_node valid_doc.
Proof. unfold valid_doc, sc. repeat (constructor; cbn [fst snd]). Qed.

Example valid_doc_sections : keys_subseq section_order (map fst (tl (mapping_of valid_doc))) = true.
Proof. vm_compute. reflexivity. Qed.

(* the empty mapping `{}` (the repaired end-iterator dereference b1642a5) *)
Example empty_mapping_rejected : errors_of (load_parse_cmd true [YMapping []]) = [E_initial_client].
Proof. vm_compute. reflexivity. Qed.

Example root_not_mapping : errors_of (load_parse_cmd true [YSequence []]) = [E_top_level].
Proof. vm_compute. reflexivity. Qed.

Example client_not_first :
  errors_of (load_parse_cmd true [YMapping [(sc s_tools, YMapping []); (sc s_client, YMapping [])]]) = [E_initial_client].
Proof. vm_compute. reflexivity. Qed.

Example sections_misordered :
  errors_of (load_parse_cmd true [YMapping [(sc s_client, YMapping []); (sc s_commands, YMapping []); (sc s_tools, YMapping [])]])
  = [E_trailing].
Proof. vm_compute. reflexivity. Qed.

Example section_duplicated :
  errors_of (load_parse_cmd true [YMapping [(sc s_client, YMapping []); (sc s_nodes, YMapping []); (sc s_nodes, YMapping [])]])
  = [E_trailing].
Proof. vm_compute. reflexivity. Qed.

Example section_wrong_kind :
  errors_of (load_parse_cmd true [YMapping [(sc s_client, YMapping []); (sc s_targets, YSequence [])]]) = [E_targets_value].
Proof. vm_compute. reflexivity. Qed.

Example second_document :
  errors_of (load_parse_cmd true [YMapping [(sc s_client, YMapping [])]; YNull]) = [E_additional_document].
Proof. vm_compute. reflexivity. Qed.

Example default_unknown_target :
  errors_of (load_parse_cmd true [YMapping [(sc s_client, YMapping []); (sc s_default, sc [116])]]) = [E_default_unknown].
Proof. vm_compute. reflexivity. Qed.

(* recoverable problems are reported and loading goes on: command without 'tool', 'tool' not first, duplicate command *)
Example command_errors_continue :
  summary (load_parse_cmd true [YMapping [(sc s_client, YMapping []);
     (sc s_commands, YMapping [(sc [97], YMapping []);
                               (sc [98], YMapping [(sc s_inputs, YSequence []); (sc s_tool, sc [120])]);
                               (sc [99], YMapping [(sc s_tool, sc [120]); (sc s_inputs, sc [105])]);
                               (sc [99], YMapping [(sc s_tool, sc [120])])])]])
  = Some ([E_commands_no_tool; E_commands_tool_first; E_inputs_value; E_commands_duplicate], (1%nat, 0%nat, 0%nat, 1%nat), []).
Proof. vm_compute. reflexivity. Qed.

(* an unknown tool is fatal (delegate of the real build system: only the built-in names exist) *)
Example unknown_tool_fatal :
  errors_of (load true yes3 (fun _ => false) yes2 yes3 yes1
               [YMapping [(sc s_client, YMapping []); (sc s_commands, YMapping [(sc [99], YMapping [(sc s_tool, sc [120])])])]])
  = [E_invalid_tool].
Proof. vm_compute. reflexivity. Qed.

Example client_rejected :
  errors_of (load true (fun _ _ _ => false) yes1 yes2 yes3 yes1 [YMapping [(sc s_client, YMapping [])]]) = [E_client_configure].
Proof. vm_compute. reflexivity. Qed.

Example bad_version_not_fatal :
  summary (load_parse_cmd true [YMapping [(sc s_client, YMapping [(sc s_version, sc [52; 50; 57; 52; 57; 54; 55; 50; 57; 54])])]])
  = Some ([E_client_version], (0%nat, 0%nat, 0%nat, 0%nat), []).
Proof. vm_compute. reflexivity. Qed.

(* every one of the 2^5 subsequences of the section order is accepted when the sections are empty / consistent *)
Definition skeleton (sel : list bool) : ynode :=
  YMapping ((sc s_client, YMapping []) ::
            concat (map (fun p : bool * entry => if fst p then [snd p] else [])
                        (combine sel [(sc s_tools, YMapping []); (sc s_targets, YMapping [(sc [116], YSequence [])]);
                                      (sc s_nodes, YMapping []); (sc s_commands, YMapping [])]))).
Fixpoint selections (n : nat) : list (list bool) :=
  match n with O => [[]] | S n' => map (cons true) (selections n') ++ map (cons false) (selections n') end.

Example every_subsequence_accepted :
  forallb (fun sel => is_ok (load_parse_cmd true [skeleton sel])) (selections 4) = true.
Proof. vm_compute. reflexivity. Qed.

(* ------------------------------------------------------------------ corollaries in the wording of the property *)

Theorem load_no_crash_wellformed g client_ok tool_known tool_creates attr_ok ownership_ok docs :
  Forall wf_node docs -> load g client_ok tool_known tool_creates attr_ok ownership_ok docs <> LoadCrash.
Proof.
  intros H. apply (load_no_crash g). revert H. apply Forall_impl. exact (wf_tree_ok g).
Qed.

Lemma root_instance :
  wf_node valid_doc
  /\ summary (load_parse_cmd true [valid_doc]) = Some ([], (2%nat, 2%nat, 3%nat, 2%nat), [116])
  /\ load true yes3 yes1 yes2 yes3 yes1 [valid_doc] <> LoadCrash.
Proof.
  split; [exact valid_doc_wf|]. split; [exact valid_doc_loads|].
  apply load_no_crash_wellformed. constructor; [exact valid_doc_wf | constructor].
Qed.

(* ------------------------------------------------------------------ the theorems under the names of the task *)

(* no tree makes the loader (as it is now) dereference an absent entry *)
Theorem root_total : forall client_ok tool_known tool_creates attr_ok ownership_ok docs,
  Forall (tree_ok true) docs ->
  load true client_ok tool_known tool_creates attr_ok ownership_ok docs <> LoadCrash.
Proof. exact (load_no_crash true). Qed.

(* the loader before c91b855 did *)
Theorem root_total_unrepaired_refuted : exists docs, load_parse_cmd false docs = LoadCrash.
Proof. exists null_value_doc. vm_compute. reflexivity. Qed.

Theorem root_requires_client : forall g client_ok tool_known tool_creates attr_ok ownership_ok docs s,
  load g client_ok tool_known tool_creates attr_ok ownership_ok docs = LoadOk s ->
  exists cl more, docs = [YMapping ((YScalar s_client, YMapping cl) :: more)].
Proof.
  intros g client_ok tool_known tool_creates attr_ok ownership_ok docs s H.
  destruct (load_ok_shape _ _ _ _ _ _ _ _ H) as [cl [more [Eq _]]]. exists cl, more. exact Eq.
Qed.

Theorem root_sections_order : forall g client_ok tool_known tool_creates attr_ok ownership_ok first more rest s,
  load g client_ok tool_known tool_creates attr_ok ownership_ok (YMapping (first :: more) :: rest) = LoadOk s ->
  keys_subseq section_order (map fst more) = true.
Proof.
  intros g client_ok tool_known tool_creates attr_ok ownership_ok first more rest s H.
  destruct (load_ok_shape _ _ _ _ _ _ _ _ H) as [cl [more' [Eq Hk]]]. inversion Eq. subst. exact Hk.
Qed.
Example null_value_doc_premise : Forall (tree_ok true) null_value_doc /\ ~ Forall wf_node null_value_doc.
Proof.
  split.
  - constructor; [|constructor]. apply to_mapping. constructor; [|constructor].
    cbn [fst snd]. split; [apply to_scalar | apply to_absent; reflexivity].
  - intros H. inversion H as [|d ds Hw Hr]. inversion Hw as [ | | | |kvs Hf| ].
    inversion Hf as [|kv r Hkv Hrest]. destruct Hkv as [_ Habs]. inversion Habs.
Qed.
