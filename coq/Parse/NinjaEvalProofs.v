(* Proofs about the Ninja manifest loader model (Parse/NinjaEval.v). *)
From LLB Require Import Base.Bytes Base.BytesFacts Path.ShellQuote Parse.NinjaEval.
From LLB Require Parse.NinjaLex.
Local Open Scope N_scope.

(* ================================================================ evalString *)

Definition no_dollar (s : bytes) : Prop := Forall (fun b => b <> 36) s.
Definition all_space (s : bytes) : Prop := Forall (fun b => NinjaLex.is_space b = true) s.
Definition all_simple (s : bytes) : Prop := Forall (fun b => NinjaLex.is_simple_ident_char b = true) s.
Definition no_close_brace (s : bytes) : Prop := Forall (fun b => b <> 125) s.
(* the rest of the text does not continue a run of blanks / a simple identifier *)
Definition not_space_head (s : bytes) : Prop := match s with [] => True | b :: _ => NinjaLex.is_space b = false end.
Definition not_simple_head (s : bytes) : Prop :=
  match s with [] => True | b :: _ => NinjaLex.is_simple_ident_char b = false end.

Section EvalFacts.
  Context {E : Type}.
  Variable wrap : eval_err -> E.
  Variable lookup : bytes -> bytes * list E.

  Notation ev := (eval_string wrap lookup).
  Notation go := (eval_go wrap lookup).

  Lemma ev_then_nil_l r : ev_then (@ev_done E) r = r.
  Proof. destruct r; reflexivity. Qed.

  (* the scanner in text mode, one byte *)
  Lemma go_text_cons b s : go EvText (b :: s) = if b =? 36 then go EvDollar s else ev_emit b (go EvText s).
  Proof. reflexivity. Qed.

  (* literal text is copied; evaluation continues behind it *)
  Lemma go_text_prefix t s : no_dollar t -> go EvText (t ++ s) = (t ++ fst (go EvText s), snd (go EvText s)).
  Proof.
    induction 1 as [|b t Hb Ht IH]; [cbn [app]; destruct (go EvText s); reflexivity|].
    cbn [app]. rewrite go_text_cons. apply N.eqb_neq in Hb. rewrite Hb, IH. reflexivity.
  Qed.

  Theorem eval_text_prefix t s : no_dollar t -> ev (t ++ s) = (t ++ fst (ev s), snd (ev s)).
  Proof. apply go_text_prefix. Qed.

  Theorem eval_string_literal s : no_dollar s -> ev s = (s, []).
  Proof. intros H. rewrite <- (app_nil_r s) at 1. rewrite eval_text_prefix by exact H. cbn. rewrite app_nil_r. reflexivity. Qed.

  (* $$  $<space>  $:  *)
  Theorem eval_escape_char c s : c = 36 \/ c = 32 \/ c = 58 -> ev (36 :: c :: s) = ev_emit c (ev s).
  Proof. intros [H|[H|H]]; subst c; reflexivity. Qed.

  (* $<newline> and the blanks that follow it vanish *)
  Lemma go_skip ws s : all_space ws -> not_space_head s -> go EvSkip (ws ++ s) = go EvText s.
  Proof.
    induction 1 as [|b ws Hb Hws IH]; intros Hs.
    - destruct s as [|b s]; [reflexivity|]. cbn in Hs. cbn [app eval_go]. rewrite Hs. reflexivity.
    - cbn [app eval_go]. rewrite Hb. apply IH. exact Hs.
  Qed.

  Theorem eval_line_continuation ws s : all_space ws -> not_space_head s -> ev (36 :: 10 :: ws ++ s) = ev s.
  Proof. intros Hw Hs. change (ev (36 :: 10 :: ws ++ s)) with (go EvSkip (ws ++ s)). apply go_skip; assumption. Qed.

  Theorem eval_dollar_at_end : ev [36] = ([], [wrap EvDollarAtEnd]).
  Proof. reflexivity. Qed.

  (* ${name} *)
  Lemma go_brace name acc v s : no_close_brace name ->
    go (EvBrace acc v) (name ++ 125 :: s) =
    ev_then (if v && forallb NinjaLex.is_ident_char name then lookup (rev acc ++ name) else ([], [wrap EvBadVarName]))
            (go EvText s).
  Proof.
    intros H. revert acc v. induction H as [|b name Hb Hn IH]; intros acc v.
    - cbn [app eval_go forallb]. rewrite andb_true_r, app_nil_r. reflexivity.
    - cbn [app eval_go]. apply N.eqb_neq in Hb. rewrite Hb. rewrite IH. cbn [rev forallb].
      rewrite <- app_assoc. cbn [app]. rewrite andb_assoc. reflexivity.
  Qed.

  Theorem eval_braced name s : no_close_brace name ->
    ev (36 :: 123 :: name ++ 125 :: s) =
    ev_then (if forallb NinjaLex.is_ident_char name then lookup name else ([], [wrap EvBadVarName])) (ev s).
  Proof. intros H. change (ev (36 :: 123 :: name ++ 125 :: s)) with (go (EvBrace [] true) (name ++ 125 :: s)). rewrite go_brace by exact H. reflexivity. Qed.

  Lemma go_brace_open name acc v : no_close_brace name -> go (EvBrace acc v) name = ([], [wrap EvMissingBrace]).
  Proof.
    intros H. revert acc v. induction H as [|b name Hb Hn IH]; intros acc v; [reflexivity|].
    cbn [eval_go]. apply N.eqb_neq in Hb. rewrite Hb. apply IH.
  Qed.

  Theorem eval_braced_unterminated name : no_close_brace name -> ev (36 :: 123 :: name) = ([], [wrap EvMissingBrace]).
  Proof. intros H. apply (go_brace_open name [] true H). Qed.

  (* $name: the longest run of simple identifier characters *)
  Lemma go_simple name acc s : all_simple name -> not_simple_head s ->
    go (EvSimple acc) (name ++ s) = ev_then (lookup (rev acc ++ name)) (go EvText s).
  Proof.
    intros H. revert acc. induction H as [|b name Hb Hn IH]; intros acc Hs.
    - rewrite app_nil_r. destruct s as [|b s]; cbn [app eval_go].
      + destruct (lookup (rev acc)); unfold ev_then; cbn. rewrite !app_nil_r. reflexivity.
      + cbn in Hs. rewrite Hs. reflexivity.
    - cbn [app eval_go]. rewrite Hb. rewrite IH by exact Hs. cbn [rev]. rewrite <- app_assoc. reflexivity.
  Qed.

  Theorem eval_simple_var_longest b name s : all_simple (b :: name) -> not_simple_head s ->
    ev (36 :: (b :: name) ++ s) = ev_then (lookup (b :: name)) (ev s).
  Proof.
    intros H Hs. inversion H as [|b' n' Hb Hn]; subst.
    assert (Hd : go EvDollar ((b :: name) ++ s) = go (EvSimple [b]) (name ++ s)).
    { cbn [app eval_go]. rewrite Hb.
      destruct (b =? 10) eqn:E10; [apply N.eqb_eq in E10; subst b; discriminate Hb|].
      destruct (b =? 32) eqn:E32; [apply N.eqb_eq in E32; subst b; discriminate Hb|].
      destruct (b =? 58) eqn:E58; [apply N.eqb_eq in E58; subst b; discriminate Hb|].
      destruct (b =? 36) eqn:E36; [apply N.eqb_eq in E36; subst b; discriminate Hb|].
      destruct (b =? 123) eqn:E123; [apply N.eqb_eq in E123; subst b; discriminate Hb|].
      reflexivity. }
    change (ev (36 :: (b :: name) ++ s)) with (go EvDollar ((b :: name) ++ s)). rewrite Hd.
    rewrite go_simple by assumption. reflexivity.
  Qed.

  Theorem eval_bad_escape b s :
    b <> 10 -> b <> 32 -> b <> 58 -> b <> 36 -> b <> 123 -> NinjaLex.is_simple_ident_char b = false ->
    ev (36 :: b :: s) = ([], [wrap EvBadEscape]).
  Proof.
    intros H1 H2 H3 H4 H5 H6. change (ev (36 :: b :: s)) with (go EvDollar (b :: s)). cbn [eval_go].
    apply N.eqb_neq in H1, H2, H3, H4, H5. rewrite H1, H2, H3, H4, H5, H6. reflexivity.
  Qed.
End EvalFacts.
