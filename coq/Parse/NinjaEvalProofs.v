(* Proofs about the Ninja manifest loader model (Parse/NinjaEval.v). *)
From LLB Require Import Base.Bytes Base.BytesFacts Path.ShellQuote Parse.NinjaEval.
From LLB Require Parse.NinjaLex.
Local Open Scope N_scope.

(* ================================================================ evalString *)

Definition no_dollar (s : bytes) : Prop := Forall (fun b => b <> 36) s.
Definition all_space (s : bytes) : Prop := Forall (fun b => NinjaLex.is_space b = true) s.
Definition all_simple (s : bytes) : Prop := Forall (fun b => NinjaLex.is_simple_ident_char b = true) s.
Definition no_close_brace (s : bytes) : Prop := Forall (fun b => b <> 125) s.
(* the rest of the text does not continue a run of blanks / a simple identifier *)
Definition not_space_head (s : bytes) : Prop := match s with [] => True | b :: _ => NinjaLex.is_space b = false end.
Definition not_simple_head (s : bytes) : Prop :=
  match s with [] => True | b :: _ => NinjaLex.is_simple_ident_char b = false end.

Section EvalFacts.
  Context {E : Type}.
  Variable wrap : eval_err -> E.
  Variable lookup : bytes -> bytes * list E.

  Notation ev := (eval_string wrap lookup).
  Notation go := (eval_go wrap lookup).

  Lemma ev_then_nil_l r : ev_then (@ev_done E) r = r.
  Proof. destruct r; reflexivity. Qed.

  (* the scanner in text mode, one byte *)
  Lemma go_text_cons b s : go EvText (b :: s) = if b =? 36 then go EvDollar s else ev_emit b (go EvText s).
  Proof. reflexivity. Qed.

  (* literal text is copied; evaluation continues behind it *)
  Lemma go_text_prefix t s : no_dollar t -> go EvText (t ++ s) = (t ++ fst (go EvText s), snd (go EvText s)).
  Proof.
    induction 1 as [|b t Hb Ht IH]; [cbn [app]; destruct (go EvText s); reflexivity|].
    cbn [app]. rewrite go_text_cons. apply N.eqb_neq in Hb. rewrite Hb, IH. reflexivity.
  Qed.

  Theorem eval_text_prefix t s : no_dollar t -> ev (t ++ s) = (t ++ fst (ev s), snd (ev s)).
  Proof. apply go_text_prefix. Qed.

  Theorem eval_string_literal s : no_dollar s -> ev s = (s, []).
  Proof. intros H. rewrite <- (app_nil_r s) at 1. rewrite eval_text_prefix by exact H. cbn. rewrite app_nil_r. reflexivity. Qed.

  (* $$  $<space>  $:  *)
  Theorem eval_escape_char c s : c = 36 \/ c = 32 \/ c = 58 -> ev (36 :: c :: s) = ev_emit c (ev s).
  Proof. intros [H|[H|H]]; subst c; reflexivity. Qed.

  (* $<newline> and the blanks that follow it vanish *)
  Lemma go_skip ws s : all_space ws -> not_space_head s -> go EvSkip (ws ++ s) = go EvText s.
  Proof.
    induction 1 as [|b ws Hb Hws IH]; intros Hs.
    - destruct s as [|b s]; [reflexivity|]. cbn in Hs. cbn [app eval_go]. rewrite Hs. reflexivity.
    - cbn [app eval_go]. rewrite Hb. apply IH. exact Hs.
  Qed.

  Theorem eval_line_continuation ws s : all_space ws -> not_space_head s -> ev (36 :: 10 :: ws ++ s) = ev s.
  Proof. intros Hw Hs. change (ev (36 :: 10 :: ws ++ s)) with (go EvSkip (ws ++ s)). apply go_skip; assumption. Qed.

  Theorem eval_dollar_at_end : ev [36] = ([], [wrap EvDollarAtEnd]).
  Proof. reflexivity. Qed.

  (* ${name} *)
  Lemma go_brace name acc v s : no_close_brace name ->
    go (EvBrace acc v) (name ++ 125 :: s) =
    ev_then (if v && forallb NinjaLex.is_ident_char name then lookup (rev acc ++ name) else ([], [wrap EvBadVarName]))
            (go EvText s).
  Proof.
    intros H. revert acc v. induction H as [|b name Hb Hn IH]; intros acc v.
    - cbn [app eval_go forallb]. rewrite andb_true_r, app_nil_r. reflexivity.
    - cbn [app eval_go]. apply N.eqb_neq in Hb. rewrite Hb. rewrite IH. cbn [rev forallb].
      rewrite <- app_assoc. cbn [app]. rewrite andb_assoc. reflexivity.
  Qed.

  Theorem eval_braced name s : no_close_brace name ->
    ev (36 :: 123 :: name ++ 125 :: s) =
    ev_then (if forallb NinjaLex.is_ident_char name then lookup name else ([], [wrap EvBadVarName])) (ev s).
  Proof. intros H. change (ev (36 :: 123 :: name ++ 125 :: s)) with (go (EvBrace [] true) (name ++ 125 :: s)). rewrite go_brace by exact H. reflexivity. Qed.

  Lemma go_brace_open name acc v : no_close_brace name -> go (EvBrace acc v) name = ([], [wrap EvMissingBrace]).
  Proof.
    intros H. revert acc v. induction H as [|b name Hb Hn IH]; intros acc v; [reflexivity|].
    cbn [eval_go]. apply N.eqb_neq in Hb. rewrite Hb. apply IH.
  Qed.

  Theorem eval_braced_unterminated name : no_close_brace name -> ev (36 :: 123 :: name) = ([], [wrap EvMissingBrace]).
  Proof. intros H. apply (go_brace_open name [] true H). Qed.

  (* $name: the longest run of simple identifier characters *)
  Lemma go_simple name acc s : all_simple name -> not_simple_head s ->
    go (EvSimple acc) (name ++ s) = ev_then (lookup (rev acc ++ name)) (go EvText s).
  Proof.
    intros H. revert acc. induction H as [|b name Hb Hn IH]; intros acc Hs.
    - rewrite app_nil_r. destruct s as [|b s]; cbn [app eval_go].
      + destruct (lookup (rev acc)); unfold ev_then; cbn. rewrite !app_nil_r. reflexivity.
      + cbn in Hs. rewrite Hs. reflexivity.
    - cbn [app eval_go]. rewrite Hb. rewrite IH by exact Hs. cbn [rev]. rewrite <- app_assoc. reflexivity.
  Qed.

  Theorem eval_simple_var_longest b name s : all_simple (b :: name) -> not_simple_head s ->
    ev (36 :: (b :: name) ++ s) = ev_then (lookup (b :: name)) (ev s).
  Proof.
    intros H Hs. inversion H as [|b' n' Hb Hn]; subst.
    assert (Hd : go EvDollar ((b :: name) ++ s) = go (EvSimple [b]) (name ++ s)).
    { cbn [app eval_go]. rewrite Hb.
      destruct (b =? 10) eqn:E10; [apply N.eqb_eq in E10; subst b; discriminate Hb|].
      destruct (b =? 32) eqn:E32; [apply N.eqb_eq in E32; subst b; discriminate Hb|].
      destruct (b =? 58) eqn:E58; [apply N.eqb_eq in E58; subst b; discriminate Hb|].
      destruct (b =? 36) eqn:E36; [apply N.eqb_eq in E36; subst b; discriminate Hb|].
      destruct (b =? 123) eqn:E123; [apply N.eqb_eq in E123; subst b; discriminate Hb|].
      reflexivity. }
    change (ev (36 :: (b :: name) ++ s)) with (go EvDollar ((b :: name) ++ s)). rewrite Hd.
    rewrite go_simple by assumption. reflexivity.
  Qed.

  Theorem eval_bad_escape b s :
    b <> 10 -> b <> 32 -> b <> 58 -> b <> 36 -> b <> 123 -> NinjaLex.is_simple_ident_char b = false ->
    ev (36 :: b :: s) = ([], [wrap EvBadEscape]).
  Proof.
    intros H1 H2 H3 H4 H5 H6. change (ev (36 :: b :: s)) with (go EvDollar (b :: s)). cbn [eval_go].
    apply N.eqb_neq in H1, H2, H3, H4, H5. rewrite H1, H2, H3, H4, H5, H6. reflexivity.
  Qed.
End EvalFacts.

(* ================================================================ StringMap and scopes *)

Lemma aget_aset_same {V : Type} k (v : V) l : aget k (aset k v l) = Some v.
Proof.
  induction l as [|[k' v'] l IH]; cbn [aset aget]; [rewrite bytes_eqb_refl; reflexivity|].
  destruct (bytes_eqb k k') eqn:E; cbn [aget]; [rewrite bytes_eqb_refl; reflexivity|].
  rewrite E. exact IH.
Qed.

Lemma aget_aset_other {V : Type} k k' (v : V) l : k <> k' -> aget k (aset k' v l) = aget k l.
Proof.
  intros Hne. induction l as [|[k2 v2] l IH]; cbn [aset aget].
  - apply bytes_eqb_neq in Hne. rewrite Hne. reflexivity.
  - destruct (bytes_eqb k' k2) eqn:E; cbn [aget].
    + apply bytes_eqb_eq in E. subst k2. apply bytes_eqb_neq in Hne. rewrite Hne. reflexivity.
    + destruct (bytes_eqb k k2); [reflexivity | exact IH].
Qed.

Lemma aget_In {V : Type} k (v : V) l : aget k l = Some v -> In k (map fst l).
Proof.
  induction l as [|[k' v'] l IH]; cbn [aget map fst]; [discriminate|].
  destruct (bytes_eqb k k') eqn:E; [apply bytes_eqb_eq in E; left; symmetry; exact E | right; auto].
Qed.

(* the innermost scope wins, parents are consulted in order (Scope::lookupBinding) *)
Theorem lookup_binding_inner_first f ps name :
  lookup_binding (f :: ps) name = match aget name (f_vars f) with Some v => v | None => lookup_binding ps name end.
Proof. reflexivity. Qed.

Lemma lookup_binding_set_same sc x v : lookup_binding (set_var sc x v) x = v.
Proof.
  destruct sc as [|f ps]; cbn [set_var lookup_binding f_vars aget].
  - rewrite bytes_eqb_refl. reflexivity.
  - rewrite aget_aset_same. reflexivity.
Qed.

Lemma lookup_binding_set_other sc x y v : x <> y -> lookup_binding (set_var sc y v) x = lookup_binding sc x.
Proof.
  intros Hne. destruct sc as [|f ps]; cbn [set_var lookup_binding f_vars aget].
  - apply bytes_eqb_neq in Hne. rewrite Hne. reflexivity.
  - rewrite aget_aset_other by exact Hne. reflexivity.
Qed.

Lemma lookup_rule_set_var sc x v n : lookup_rule (set_var sc x v) n = lookup_rule sc n.
Proof. destruct sc as [|f ps]; reflexivity. Qed.

Lemma lookup_rule_set_same sc n r : lookup_rule (set_rule sc n r) n = Some r.
Proof.
  destruct sc as [|f ps]; cbn [set_rule lookup_rule f_rules aget].
  - rewrite bytes_eqb_refl. reflexivity.
  - rewrite aget_aset_same. reflexivity.
Qed.

Lemma find_rule_set_same sc n r : find_rule (set_rule sc n r) n = Some r.
Proof.
  destruct sc as [|f ps]; cbn [set_rule find_rule f_rules aget].
  - rewrite bytes_eqb_refl. reflexivity.
  - apply aget_aset_same.
Qed.

Lemma lookup_binding_set_rule sc n r x : lookup_binding (set_rule sc n r) x = lookup_binding sc x.
Proof. destruct sc as [|f ps]; reflexivity. Qed.

(* a subninja scope starts empty: it sees exactly the bindings and rules of the enclosing scopes *)
Theorem child_scope_sees_parent sc x : lookup_binding (empty_frame :: sc) x = lookup_binding sc x.
Proof. reflexivity. Qed.

Theorem child_scope_sees_parent_rules sc n : lookup_rule (empty_frame :: sc) n = lookup_rule sc n.
Proof. reflexivity. Qed.

(* ================================================================ lookupBuildParamImpl *)

Definition special_name (n : bytes) : Prop := n = nm_in \/ n = nm_in_newline \/ n = nm_out.

Lemma not_special n : ~ special_name n ->
  bytes_eqb n nm_in = false /\ bytes_eqb n nm_in_newline = false /\ bytes_eqb n nm_out = false.
Proof.
  intros H. repeat split; apply bytes_eqb_neq; intros E; apply H; unfold special_name; auto.
Qed.

(* the order of lookupBuildParamImpl for a name other than in / in_newline / out: build-level binding, else the
   rule-level text evaluated in the build's context (guarded against cycles), else the scope chain *)
Theorem lookup_order fuel cx active name : ~ special_name name ->
  lookup_var (S fuel) cx active name =
  match aget name (bx_params cx) with
  | Some v => (v, [])
  | None =>
    match aget name (bx_rule cx) with
    | Some text =>
      if mem_bytes name active then ([], [ECycle name])
      else eval_string (fun e => EEvalDuring e name) (lookup_var fuel cx (name :: active)) text
    | None => (lookup_binding (bx_scopes cx) name, [])
    end
  end.
Proof.
  intros H. destruct (not_special name H) as [H1 [H2 H3]].
  cbn [lookup_var]. rewrite H1, H2, H3. reflexivity.
Qed.

(* $in: the explicit inputs only, joined by a space; $in_newline: by a newline; $out: all outputs; each path is
   shell-escaped iff the context says so *)
Theorem in_expansion fuel ex outs ps rule sc esc active :
  lookup_var fuel (mkCtx ex outs ps rule sc esc) active nm_in =
  (join_with 32 (map (fun p => if esc then shell_escaped p else p) ex), []).
Proof. destruct fuel; reflexivity. Qed.

Theorem in_newline_expansion fuel ex outs ps rule sc esc active :
  lookup_var fuel (mkCtx ex outs ps rule sc esc) active nm_in_newline =
  (join_with 10 (map (fun p => if esc then shell_escaped p else p) ex), []).
Proof. destruct fuel; reflexivity. Qed.

Theorem out_expansion fuel ex outs ps rule sc esc active :
  lookup_var fuel (mkCtx ex outs ps rule sc esc) active nm_out =
  (join_with 32 (map (fun p => if esc then shell_escaped p else p) outs), []).
Proof. destruct fuel; reflexivity. Qed.

(* which expansions see shell-escaped paths: all but the depfile and rspfile names *)
Theorem escapes_in_out_spec name : escapes_in_out name = false <-> name = nm_depfile \/ name = nm_rspfile.
Proof.
  unfold escapes_in_out. rewrite andb_false_iff, !negb_false_iff, !bytes_eqb_eq. tauto.
Qed.

Theorem lookup_named_context ex outs ps rule sc name :
  lookup_named ex outs ps rule sc name =
  lookup_var (S (length rule)) (mkCtx ex outs ps rule sc (escapes_in_out name)) [] name.
Proof. reflexivity. Qed.

(* what actOnEndBuildDecl stores: each attribute is the named lookup in the context of THIS command - its explicit
   inputs (not the implicit or order-only ones), its outputs, its build-level bindings, its rule, the current scope *)
Theorem end_build_strings wd sc pools rn rule outs ex im oo params :
  let c := fst (end_build wd sc pools rn rule outs ex im oo params) in
  let look := lookup_named (screens ex) (screens outs) params rule sc in
  c_command c = fst (look nm_command) /\
  c_description c = fst (look nm_description) /\
  c_outputs c = outs /\ c_explicit c = ex /\ c_implicit c = im /\ c_orderonly c = oo /\ c_rule c = rn.
Proof. cbn. repeat split. Qed.

Theorem run_build_command wd sc st outs rname ex im oo binds :
  let st' := run_build wd sc st outs rname ex im oo binds in
  let rr := resolve_rule sc rname in
  let po := eval_paths wd sc EEmptyOutput outs (m_nodes st) in
  let pe := eval_paths wd sc EEmptyInput ex (p_map po) in
  exists c, m_commands st' = m_commands st ++ [c] /\
    c_command c = fst (lookup_named (screens (p_nodes pe)) (screens (p_nodes po)) (fst (build_bindings sc binds []))
                                    (snd (fst rr)) sc nm_command) /\
    c_description c = fst (lookup_named (screens (p_nodes pe)) (screens (p_nodes po)) (fst (build_bindings sc binds []))
                                        (snd (fst rr)) sc nm_description).
Proof.
  cbn zeta. unfold run_build. cbn [add_command m_commands]. eexists. split; [reflexivity|].
  split; reflexivity.
Qed.

(* ================================================================ the fuel of rule-variable expansion is never exhausted *)

Definition nf (es : list err) : Prop := ~ In EOutOfFuel es.

Lemma nf_nil : nf [].
Proof. intros H; exact H. Qed.

Lemma nf_app a b : nf (a ++ b) <-> nf a /\ nf b.
Proof. unfold nf. rewrite in_app_iff. tauto. Qed.

Lemma nf_cons e a : e <> EOutOfFuel -> nf a -> nf (e :: a).
Proof. unfold nf. cbn. intros H1 H2 [H|H]; [apply H1; exact H | apply H2; exact H]. Qed.

Lemma nf_one e : e <> EOutOfFuel -> nf [e].
Proof. intros H. apply nf_cons; [exact H | apply nf_nil]. Qed.

Lemma eval_go_nf (wrap : eval_err -> err) lookup :
  (forall e, wrap e <> EOutOfFuel) -> (forall n, nf (snd (lookup n))) ->
  forall s m, nf (snd (eval_go wrap lookup m s)).
Proof.
  intros Hw Hl. induction s as [|b s IH]; intros m.
  - destruct m; cbn [eval_go ev_done ev_fail snd]; try apply nf_nil; try (apply nf_one; apply Hw). apply Hl.
  - destruct m as [| | |n v|n]; cbn [eval_go].
    + destruct (b =? 36); [apply IH | cbn [ev_emit snd]; apply IH].
    + destruct (b =? 10); [apply IH|].
      destruct ((b =? 32) || (b =? 58) || (b =? 36)); [cbn [ev_emit snd]; apply IH|].
      destruct (b =? 123); [apply IH|].
      destruct (NinjaLex.is_simple_ident_char b); [apply IH|].
      cbn [ev_fail snd]. apply nf_one. apply Hw.
    + destruct (NinjaLex.is_space b); [apply IH|].
      destruct (b =? 36); [apply IH | cbn [ev_emit snd]; apply IH].
    + destruct (b =? 125); [|apply IH].
      unfold ev_then. cbn [snd]. apply nf_app. split; [|apply IH].
      destruct v; [apply Hl | cbn [snd]; apply nf_one; apply Hw].
    + destruct (NinjaLex.is_simple_ident_char b); [apply IH|].
      unfold ev_then. cbn [snd]. apply nf_app. split; [apply Hl|].
      destruct (b =? 36); [apply IH | cbn [ev_emit snd]; apply IH].
Qed.

Lemma eval_in_scope_nf sc s : nf (snd (eval_in_scope sc s)).
Proof.
  unfold eval_in_scope, eval_string. apply eval_go_nf; [intros e; discriminate | intros n; apply nf_nil].
Qed.

(* activeRuleParams never repeats a name and only holds names of the rule, so it is shorter than the rule's
   variable table whenever one more name is pushed *)
Lemma lookup_var_nf cx : forall fuel active name,
  NoDup active -> incl active (map fst (bx_rule cx)) -> (length (bx_rule cx) < fuel + length active)%nat ->
  nf (snd (lookup_var fuel cx active name)).
Proof.
  induction fuel as [|f IH]; intros active name Hnd Hincl Hlen.
  - cbn [lookup_var].
    destruct (bytes_eqb name nm_in); [apply nf_nil|].
    destruct (bytes_eqb name nm_in_newline); [apply nf_nil|].
    destruct (bytes_eqb name nm_out); [apply nf_nil|].
    destruct (aget name (bx_params cx)); [apply nf_nil|].
    destruct (aget name (bx_rule cx)) as [text|] eqn:Er; [|apply nf_nil].
    destruct (mem_bytes name active) eqn:Em; [apply nf_one; discriminate|].
    exfalso.
    assert (Hn : NoDup (name :: active)).
    { constructor; [|exact Hnd]. intros Hin. apply mem_bytes_In in Hin. congruence. }
    assert (Hi : incl (name :: active) (map fst (bx_rule cx))).
    { intros x [<-|Hx]; [eapply aget_In; exact Er | apply Hincl; exact Hx]. }
    pose proof (NoDup_incl_length Hn Hi) as Hle. rewrite map_length in Hle. cbn [length] in Hle. lia.
  - cbn [lookup_var].
    destruct (bytes_eqb name nm_in); [apply nf_nil|].
    destruct (bytes_eqb name nm_in_newline); [apply nf_nil|].
    destruct (bytes_eqb name nm_out); [apply nf_nil|].
    destruct (aget name (bx_params cx)); [apply nf_nil|].
    destruct (aget name (bx_rule cx)) as [text|] eqn:Er; [|apply nf_nil].
    destruct (mem_bytes name active) eqn:Em; [apply nf_one; discriminate|].
    unfold eval_string. apply eval_go_nf; [intros e; discriminate|].
    intros n. apply IH.
    + constructor; [|exact Hnd]. intros Hin. apply mem_bytes_In in Hin. congruence.
    + intros x [<-|Hx]; [eapply aget_In; exact Er | apply Hincl; exact Hx].
    + cbn [length]. lia.
Qed.

(* rule_cycle_reports_error, termination half: with fuel S (number of rule variables) - what lookup_named passes -
   or more, the expansion of any name in any build context never runs out of fuel *)
Theorem rule_expansion_fuel_suffices cx fuel name :
  (length (bx_rule cx) < fuel)%nat -> nf (snd (lookup_var fuel cx [] name)).
Proof.
  intros H. apply lookup_var_nf; [constructor | intros x [] | cbn [length]; lia].
Qed.

Lemma lookup_named_nf ex outs ps rule sc name : nf (snd (lookup_named ex outs ps rule sc name)).
Proof. unfold lookup_named. apply rule_expansion_fuel_suffices. cbn [bx_rule]. unfold var_fuel. lia. Qed.

(* ================================================================ a rule variable that reaches itself is reported *)

(* [refers text m]: evaluating text calls the Lookup callback on m (whatever the callbacks are, everything the
   callback reports for m is reported by the evaluation) *)
Definition refers (text m : bytes) : Prop :=
  forall (wrap : eval_err -> err) lookup, incl (snd (lookup m)) (snd (eval_string wrap lookup text)).

Lemma refers_simple t name s :
  no_dollar t -> name <> [] -> all_simple name -> not_simple_head s -> refers (t ++ 36 :: name ++ s) name.
Proof.
  intros Ht Hne Hn Hs wrap lookup. rewrite eval_text_prefix by exact Ht. cbn [snd].
  destruct name as [|b name]; [congruence|].
  rewrite (eval_simple_var_longest wrap lookup b name s Hn Hs). unfold ev_then. cbn [snd].
  apply incl_appl. apply incl_refl.
Qed.

Lemma refers_braced t name s :
  no_dollar t -> no_close_brace name -> forallb NinjaLex.is_ident_char name = true ->
  refers (t ++ 36 :: 123 :: name ++ 125 :: s) name.
Proof.
  intros Ht Hn Hid wrap lookup. rewrite eval_text_prefix by exact Ht. cbn [snd].
  rewrite (eval_braced wrap lookup name s Hn). rewrite Hid. unfold ev_then. cbn [snd].
  apply incl_appl. apply incl_refl.
Qed.

(* a rule-level variable of the command: not in/in_newline/out, not bound at build level, bound in the rule *)
Definition rule_level (cx : bctx) (n : bytes) : Prop :=
  ~ special_name n /\ aget n (bx_params cx) = None /\ exists text, aget n (bx_rule cx) = Some text.

(* following references between rule-level variables from n leads back to a name that is being expanded *)
Inductive reaches_cycle (cx : bctx) : list bytes -> bytes -> Prop :=
| rc_here active n : In n active -> rule_level cx n -> reaches_cycle cx active n
| rc_step active n m text :
    ~ special_name n -> aget n (bx_params cx) = None -> aget n (bx_rule cx) = Some text -> refers text m ->
    reaches_cycle cx (n :: active) m -> reaches_cycle cx active n.

Lemma reaches_cycle_error cx active n : reaches_cycle cx active n ->
  forall fuel, exists e, In e (snd (lookup_var fuel cx active n)) /\ ((exists v, e = ECycle v) \/ e = EOutOfFuel).
Proof.
  induction 1 as [active n Hin [Hs [Hp [text Hr]]] | active n m text Hs Hp Hr Href Hrc IH]; intros fuel.
  - destruct (not_special n Hs) as [H1 [H2 H3]]. apply mem_bytes_In in Hin.
    exists (ECycle n). split; [|left; eexists; reflexivity].
    destruct fuel; cbn [lookup_var]; rewrite H1, H2, H3, Hp, Hr, Hin; left; reflexivity.
  - destruct (not_special n Hs) as [H1 [H2 H3]].
    destruct (mem_bytes n active) eqn:Em.
    + exists (ECycle n). split; [|left; eexists; reflexivity].
      destruct fuel; cbn [lookup_var]; rewrite H1, H2, H3, Hp, Hr, Em; left; reflexivity.
    + destruct fuel as [|f].
      * exists EOutOfFuel. split; [|right; reflexivity].
        cbn [lookup_var]. rewrite H1, H2, H3, Hp, Hr, Em. left; reflexivity.
      * destruct (IH f) as [e [He Hk]]. exists e. split; [|exact Hk].
        cbn [lookup_var]. rewrite H1, H2, H3, Hp, Hr, Em. apply Href. exact He.
Qed.

(* rule_cycle_reports_error: the expansion (with the fuel the loader passes, or more) reports a cycle *)
Theorem rule_cycle_reports_error cx n fuel :
  reaches_cycle cx [] n -> (length (bx_rule cx) < fuel)%nat ->
  exists v, In (ECycle v) (snd (lookup_var fuel cx [] n)).
Proof.
  intros Hc Hf. destruct (reaches_cycle_error cx [] n Hc fuel) as [e [He [[v ->]| ->]]].
  - exists v. exact He.
  - exfalso. exact (rule_expansion_fuel_suffices cx fuel n Hf He).
Qed.

(* ================================================================ the loader: one decl at a time *)

(* the body of the loop of run_decls *)
Definition step (fuel : nat) (stack : list bytes) (wd : bytes) (fs : files) (a : scopes * mstate) (d : decl)
  : scopes * mstate :=
  let '(sc, st) := a in
  match d with
  | DInclude is_inc ptext =>
    let '(path, es) := eval_in_scope sc ptext in
    let st1 := add_errors st es in
    let apath := make_absolute wd path in
    if Nat.leb max_include_depth (length stack) then (sc, add_errors st1 [EIncludeTooDeep])
    else if mem_bytes apath stack then (sc, add_errors st1 [ERecursiveInclude])
    else
    match fuel with
    | O => (sc, add_errors st1 [EOutOfFuel])
    | S f =>
      match find_file fs apath with
      | None => (sc, add_errors st1 [EMissingFile])
      | Some ds' =>
        if is_inc then run_decls f (apath :: stack) wd fs ds' (sc, st1)
        else (sc, snd (run_decls f (apath :: stack) wd fs ds' (empty_frame :: sc, st1)))
      end
    end
  | _ => run_simple wd d sc st
  end.

Lemma run_decls_fold fuel stack wd fs ds acc :
  run_decls fuel stack wd fs ds acc = fold_left (step fuel stack wd fs) ds acc.
Proof. destruct fuel; reflexivity. Qed.

Lemma run_decls_nil fuel stack wd fs acc : run_decls fuel stack wd fs [] acc = acc.
Proof. rewrite run_decls_fold. reflexivity. Qed.

Lemma run_decls_cons fuel stack wd fs d ds acc :
  run_decls fuel stack wd fs (d :: ds) acc = run_decls fuel stack wd fs ds (step fuel stack wd fs acc d).
Proof. rewrite !run_decls_fold. reflexivity. Qed.

Lemma run_decls_app fuel stack wd fs ds1 ds2 acc :
  run_decls fuel stack wd fs (ds1 ++ ds2) acc = run_decls fuel stack wd fs ds2 (run_decls fuel stack wd fs ds1 acc).
Proof. rewrite !run_decls_fold. apply fold_left_app. Qed.

(* ---------------------------------------------------------------- include shares the scope, subninja nests *)

(* the three tests of enterFile pass: nesting below the bound, file not being loaded already, file readable *)
Definition enterable (stack : list bytes) (wd : bytes) (fs : files) (path : bytes) (ds : list decl) : Prop :=
  (length stack < max_include_depth)%nat /\ mem_bytes (make_absolute wd path) stack = false /\
  find_file fs (make_absolute wd path) = Some ds.

(* `include`: the decls of the included file are processed in place, in the SAME scope, and what they leave in
   the scope and in the manifest is what the rest of the including file sees *)
Theorem include_shares_scope f stack wd fs sc st ptext path es ds rest :
  eval_in_scope sc ptext = (path, es) -> enterable stack wd fs path ds ->
  run_decls (S f) stack wd fs (DInclude true ptext :: rest) (sc, st) =
  run_decls (S f) stack wd fs rest (run_decls f (make_absolute wd path :: stack) wd fs ds (sc, add_errors st es)).
Proof.
  intros He [Hd [Hm Hf]]. rewrite run_decls_cons. f_equal. cbn [step]. rewrite He.
  apply Nat.leb_gt in Hd. rewrite Hd, Hm, Hf. reflexivity.
Qed.

(* `subninja`: the decls of the file are processed in a fresh scope whose parent is the current one; afterwards
   the current scope is exactly what it was (no binding and no rule of the file is visible), only the manifest
   (commands, nodes, pools, defaults, errors) keeps what the file added *)
Theorem subninja_nests f stack wd fs sc st ptext path es ds rest :
  eval_in_scope sc ptext = (path, es) -> enterable stack wd fs path ds ->
  run_decls (S f) stack wd fs (DInclude false ptext :: rest) (sc, st) =
  run_decls (S f) stack wd fs rest
            (sc, snd (run_decls f (make_absolute wd path :: stack) wd fs ds (empty_frame :: sc, add_errors st es))).
Proof.
  intros He [Hd [Hm Hf]]. rewrite run_decls_cons. f_equal. cbn [step]. rewrite He.
  apply Nat.leb_gt in Hd. rewrite Hd, Hm, Hf. reflexivity.
Qed.

(* whatever a file does, it only changes the innermost frame: the enclosing scopes are out of its reach *)
Lemma run_simple_tail wd d fr sc st : exists fr', fst (run_simple wd d (fr :: sc) st) = fr' :: sc.
Proof.
  destruct d as [n v|ps|i p|outs r ex im oo bs|n bs|n bs|c]; cbn [run_simple].
  - destruct (eval_in_scope (fr :: sc) v) as [val es]. cbn [fst set_var]. eexists; reflexivity.
  - eexists; reflexivity.
  - eexists; reflexivity.
  - eexists; reflexivity.
  - eexists; reflexivity.
  - unfold run_rule. destruct (rule_bindings bs []) as [r e1]. cbn [fst set_rule]. eexists; reflexivity.
  - eexists; reflexivity.
Qed.

Lemma run_decls_tail wd fs : forall fuel stack ds fr sc st,
  exists fr', fst (run_decls fuel stack wd fs ds (fr :: sc, st)) = fr' :: sc.
Proof.
  induction fuel as [|f IHf]; intros stack ds; induction ds as [|d ds IHd]; intros fr sc st.
  - rewrite run_decls_nil. eexists; reflexivity.
  - rewrite run_decls_cons.
    assert (Hs : exists fr1 st1, step 0 stack wd fs (fr :: sc, st) d = (fr1 :: sc, st1)).
    { destruct d as [n v|ps|i p|outs r ex im oo bs|n bs|n bs|c];
        try (match goal with |- exists _ _, step _ _ _ _ _ ?d = _ => destruct (run_simple_tail wd d fr sc st) as [fr1 H1] end;
             cbn [step]; revert H1;
             match goal with |- _ -> exists _ _, ?X = _ => destruct X as [sc1 st1] end;
             cbn [fst]; intros H1; subst sc1; eexists; eexists; reflexivity).
      unfold step. cbv beta iota zeta. destruct (eval_in_scope (fr :: sc) p) as [path es].
      destruct (Nat.leb max_include_depth (length stack)); [eexists; eexists; reflexivity|].
      destruct (mem_bytes (make_absolute wd path) stack); eexists; eexists; reflexivity. }
    destruct Hs as [fr1 [st1 Hs]]. rewrite Hs. apply IHd.
  - rewrite run_decls_nil. eexists; reflexivity.
  - rewrite run_decls_cons.
    assert (Hs : exists fr1 st1, step (S f) stack wd fs (fr :: sc, st) d = (fr1 :: sc, st1)).
    { destruct d as [n v|ps|i p|outs r ex im oo bs|n bs|n bs|c];
        try (match goal with |- exists _ _, step _ _ _ _ _ ?d = _ => destruct (run_simple_tail wd d fr sc st) as [fr1 H1] end;
             cbn [step]; revert H1;
             match goal with |- _ -> exists _ _, ?X = _ => destruct X as [sc1 st1] end;
             cbn [fst]; intros H1; subst sc1; eexists; eexists; reflexivity).
      unfold step. cbv beta iota zeta. destruct (eval_in_scope (fr :: sc) p) as [path es].
      destruct (Nat.leb max_include_depth (length stack)); [eexists; eexists; reflexivity|].
      destruct (mem_bytes (make_absolute wd path) stack); [eexists; eexists; reflexivity|].
      destruct (find_file fs (make_absolute wd path)) as [ds'|]; [|eexists; eexists; reflexivity].
      destruct i; [|eexists; eexists; reflexivity].
      destruct (IHf (make_absolute wd path :: stack) ds' fr sc (add_errors st es)) as [fr1 H1].
      exists fr1, (snd (run_decls f (make_absolute wd path :: stack) wd fs ds' (fr :: sc, add_errors st es))).
      rewrite <- H1. apply surjective_pairing. }
    destruct Hs as [fr1 [st1 Hs]]. rewrite Hs. apply IHd.
Qed.

(* the parent's bindings and rules are the same before, during and after a subninja file, for every file content:
   inside, the enclosing scopes are the tail of the scope list at every point *)
Theorem subninja_cannot_touch_parent wd fs fuel stack ds sc st :
  exists fr', fst (run_decls fuel stack wd fs ds (empty_frame :: sc, st)) = fr' :: sc.
Proof. apply run_decls_tail. Qed.

(* ================================================================ eval_total: the loader never runs out of fuel *)

Lemma eval_paths_nf wd sc e : e <> EOutOfFuel ->
  forall toks nodes, nf (p_errs (eval_paths wd sc e toks nodes)).
Proof.
  intros He. induction toks as [|t ts IH]; intros nodes; [apply nf_nil|].
  cbn [eval_paths]. pose proof (eval_in_scope_nf sc t) as Hn.
  destruct (eval_in_scope sc t) as [p es]. cbn [snd] in Hn.
  destruct (find_or_create_node wd nodes p) as [nodes1 on].
  specialize (IH nodes1). destruct (eval_paths wd sc e ts nodes1) as [[ns nodes2] es3].
  unfold p_errs in *. cbn [snd] in IH.
  destruct on as [n|]; cbn [snd]; repeat (apply nf_app; split); try exact Hn; try exact IH; try apply nf_nil.
  - destruct (is_nil p); [apply nf_one; exact He | apply nf_nil].
  - destruct (is_nil p); [apply nf_one; exact He | apply nf_nil].
  - apply nf_one. discriminate.
Qed.

Lemma build_bindings_nf sc : forall binds params, nf (snd (build_bindings sc binds params)).
Proof.
  induction binds as [|[n v|c] bs IH]; intros params; cbn [build_bindings]; [apply nf_nil| |].
  - pose proof (eval_in_scope_nf sc v) as Hn. destruct (eval_in_scope sc v) as [val es1]. cbn [snd] in Hn.
    specialize (IH (aset n val params)). destruct (build_bindings sc bs (aset n val params)) as [p es2].
    cbn [snd] in *. apply nf_app. split; assumption.
  - specialize (IH params). destruct (build_bindings sc bs params) as [p es]. cbn [snd] in *.
    apply nf_cons; [discriminate | exact IH].
Qed.

Lemma deps_of_nf a b : nf (snd (deps_of a b)).
Proof.
  unfold deps_of.
  destruct (is_nil a); [|destruct (bytes_eqb a nm_gcc); [|destruct (bytes_eqb a nm_msvc)]];
    destruct (is_nil b); cbn [negb snd app]; try apply nf_nil; repeat (apply nf_cons; [discriminate|]); apply nf_nil.
Qed.

Lemma pool_of_nf pools v : nf (snd (pool_of pools v)).
Proof.
  unfold pool_of. destruct (is_nil v); [apply nf_nil|].
  destruct (aget v pools); [apply nf_nil | apply nf_one; discriminate].
Qed.

Lemma rsp_of_nf wd v c : nf (snd c) -> nf (snd (rsp_of wd v c)).
Proof.
  intros H. unfold rsp_of. destruct (is_nil v); [apply nf_nil|].
  destruct (normalize_path wd v); [exact H | apply nf_nil].
Qed.

Lemma end_build_nf wd sc pools rn rule outs ex im oo params :
  nf (snd (end_build wd sc pools rn rule outs ex im oo params)).
Proof.
  unfold end_build. cbn [snd].
  repeat (apply nf_app; split); try apply lookup_named_nf; try apply deps_of_nf; try apply pool_of_nf.
  apply rsp_of_nf. apply lookup_named_nf.
Qed.

(* the errors of st' are those of st followed by errors none of which is EOutOfFuel *)
Definition grows (st st' : mstate) : Prop := exists es, m_errors st' = m_errors st ++ es /\ nf es.

Lemma grows_refl st : grows st st.
Proof. exists []. split; [rewrite app_nil_r; reflexivity | apply nf_nil]. Qed.

Lemma grows_trans a b c : grows a b -> grows b c -> grows a c.
Proof.
  intros [e1 [H1 N1]] [e2 [H2 N2]]. exists (e1 ++ e2). split; [rewrite H2, H1, app_assoc; reflexivity|].
  apply nf_app; split; assumption.
Qed.

Lemma grows_add st es : nf es -> grows st (add_errors st es).
Proof. intros H. exists es. split; [reflexivity | exact H]. Qed.

Lemma run_build_grows wd sc st outs r ex im oo bs : grows st (run_build wd sc st outs r ex im oo bs).
Proof.
  unfold run_build. eexists. split; [cbn [add_command add_errors with_nodes m_errors]; reflexivity|].
  apply nf_app; split.
  { unfold resolve_rule. destruct (lookup_rule sc r); [apply nf_nil | apply nf_one; discriminate]. }
  apply nf_app; split; [apply eval_paths_nf; discriminate|].
  apply nf_app; split; [apply eval_paths_nf; discriminate|].
  apply nf_app; split; [apply eval_paths_nf; discriminate|].
  apply nf_app; split; [apply eval_paths_nf; discriminate|].
  apply nf_app; split; [apply build_bindings_nf | apply end_build_nf].
Qed.

Lemma pool_bindings_nf sc : forall binds d, nf (snd (pool_bindings sc binds d)).
Proof.
  induction binds as [|[n v|c] bs IH]; intros d; cbn [pool_bindings]; [apply nf_nil| |].
  - pose proof (eval_in_scope_nf sc v) as Hn. destruct (eval_in_scope sc v) as [val es1]. cbn [snd] in Hn.
    destruct (bytes_eqb n nm_depth).
    + destruct (parse_depth val) as [d1|].
      * specialize (IH d1). destruct (pool_bindings sc bs d1) as [d2 es3]. cbn [snd app] in *.
        apply nf_app; split; [exact Hn | exact IH].
      * specialize (IH d). destruct (pool_bindings sc bs d) as [d2 es3]. cbn [snd] in *.
        apply nf_app; split; [exact Hn|]. apply nf_app; split; [apply nf_one; discriminate | exact IH].
    + specialize (IH d). destruct (pool_bindings sc bs d) as [d2 es3]. cbn [snd] in *.
      apply nf_app; split; [exact Hn|]. apply nf_app; split; [apply nf_one; discriminate | exact IH].
  - specialize (IH d). destruct (pool_bindings sc bs d) as [d2 es]. cbn [snd] in *.
    apply nf_cons; [discriminate | exact IH].
Qed.

Lemma run_pool_grows sc st n bs : grows st (run_pool sc st n bs).
Proof.
  unfold run_pool. pose proof (pool_bindings_nf sc bs 0) as Hn.
  destruct (pool_bindings sc bs 0) as [depth e1]. cbn [snd] in Hn.
  eexists. split; [cbn [add_errors with_pools m_errors]; reflexivity|]. apply nf_app; split; [|apply nf_app; split; [exact Hn|]].
  - destruct (aget n (m_pools st)); [apply nf_one; discriminate | apply nf_nil].
  - destruct (depth =? 0); [apply nf_one; discriminate | apply nf_nil].
Qed.

Lemma rule_bindings_nf : forall binds r, nf (snd (rule_bindings binds r)).
Proof.
  induction binds as [|[n v|c] bs IH]; intros r; cbn [rule_bindings]; [apply nf_nil| |].
  - destruct (is_rule_var_name n); [apply IH|].
    specialize (IH r). destruct (rule_bindings bs r) as [r1 es]. cbn [snd] in *.
    apply nf_cons; [discriminate | exact IH].
  - specialize (IH r). destruct (rule_bindings bs r) as [r1 es]. cbn [snd] in *.
    apply nf_cons; [discriminate | exact IH].
Qed.

Lemma run_rule_grows sc st n bs : grows st (snd (run_rule sc st n bs)).
Proof.
  unfold run_rule. pose proof (rule_bindings_nf bs []) as Hn.
  destruct (rule_bindings bs []) as [r e1]. cbn [snd] in *.
  apply grows_add. apply nf_app; split; [|apply nf_app; split; [exact Hn|]].
  - destruct (find_rule sc n); [apply nf_one; discriminate | apply nf_nil].
  - destruct (aget nm_command r); [apply nf_nil | apply nf_one; discriminate].
Qed.

Lemma run_default_grows wd sc : forall ps st, grows st (run_default wd sc st ps).
Proof.
  induction ps as [|t ps IH]; intros st; cbn [run_default]; [apply grows_refl|].
  pose proof (eval_in_scope_nf sc t) as Hn. destruct (eval_in_scope sc t) as [p es]. cbn [snd] in Hn.
  apply (grows_trans _ (add_errors st es)); [apply grows_add; exact Hn|].
  destruct (find_node wd (m_nodes (add_errors st es)) p) as [n|].
  - eapply grows_trans; [|apply IH]. exists []. split; [cbn; rewrite app_nil_r; reflexivity | apply nf_nil].
  - eapply grows_trans; [|apply IH]. apply grows_add. apply nf_one. discriminate.
Qed.

Lemma run_simple_grows wd d sc st : grows st (snd (run_simple wd d sc st)).
Proof.
  destruct d as [n v|ps|i p|outs r ex im oo bs|n bs|n bs|c]; cbn [run_simple].
  - pose proof (eval_in_scope_nf sc v) as Hn. destruct (eval_in_scope sc v) as [val es]. cbn [snd] in *.
    apply grows_add. exact Hn.
  - apply run_default_grows.
  - apply grows_refl.
  - apply run_build_grows.
  - apply run_pool_grows.
  - apply run_rule_grows.
  - apply grows_add. apply nf_one. discriminate.
Qed.

Lemma run_decls_grows wd fs : forall fuel stack ds sc st,
  (max_include_depth < fuel + length stack)%nat -> grows st (snd (run_decls fuel stack wd fs ds (sc, st))).
Proof.
  induction fuel as [|f IHf]; intros stack ds; induction ds as [|d ds IHd]; intros sc st Hlen.
  - rewrite run_decls_nil. apply grows_refl.
  - rewrite run_decls_cons.
    assert (Hs : grows st (snd (step 0 stack wd fs (sc, st) d))).
    { destruct d as [n v|ps|i p|outs r ex im oo bs|n bs|n bs|c]; try (cbn [step]; apply run_simple_grows).
      unfold step. cbv beta iota zeta.
      pose proof (eval_in_scope_nf sc p) as Hn. destruct (eval_in_scope sc p) as [path es]. cbn [snd] in Hn.
      destruct (Nat.leb max_include_depth (length stack)) eqn:El.
      - cbn [snd]. eapply grows_trans; [apply grows_add; exact Hn | apply grows_add; apply nf_one; discriminate].
      - apply Nat.leb_gt in El. cbn [plus] in Hlen. lia. }
    destruct (step 0 stack wd fs (sc, st) d) as [sc1 st1]. cbn [snd] in Hs.
    eapply grows_trans; [exact Hs | apply IHd; exact Hlen].
  - rewrite run_decls_nil. apply grows_refl.
  - rewrite run_decls_cons.
    assert (Hs : grows st (snd (step (S f) stack wd fs (sc, st) d))).
    { destruct d as [n v|ps|i p|outs r ex im oo bs|n bs|n bs|c]; try (cbn [step]; apply run_simple_grows).
      unfold step. cbv beta iota zeta.
      pose proof (eval_in_scope_nf sc p) as Hn. destruct (eval_in_scope sc p) as [path es]. cbn [snd] in Hn.
      destruct (Nat.leb max_include_depth (length stack)) eqn:El.
      { cbn [snd]. eapply grows_trans; [apply grows_add; exact Hn | apply grows_add; apply nf_one; discriminate]. }
      destruct (mem_bytes (make_absolute wd path) stack).
      { cbn [snd]. eapply grows_trans; [apply grows_add; exact Hn | apply grows_add; apply nf_one; discriminate]. }
      destruct (find_file fs (make_absolute wd path)) as [ds'|].
      2:{ cbn [snd]. eapply grows_trans; [apply grows_add; exact Hn | apply grows_add; apply nf_one; discriminate]. }
      assert (Hl : (max_include_depth < f + length (make_absolute wd path :: stack))%nat) by (cbn [length]; lia).
      destruct i; [|cbn [snd]]; (eapply grows_trans; [apply grows_add; exact Hn | apply IHf; exact Hl]). }
    destruct (step (S f) stack wd fs (sc, st) d) as [sc1 st1]. cbn [snd] in Hs.
    eapply grows_trans; [exact Hs | apply IHd; exact Hlen].
Qed.

Lemma has_out_of_fuel_false es : nf es -> has_out_of_fuel es = false.
Proof.
  intros H. unfold has_out_of_fuel. destruct (existsb _ es) eqn:E; [|reflexivity].
  apply existsb_exists in E. destruct E as [e [Hin He]]. destruct e; try discriminate. contradiction.
Qed.

(* eval_total: for EVERY file map and every main file, with fuel 64 (the include bound of the code) or more the
   model never reports EOutOfFuel - neither from the include recursion nor from a rule-variable expansion *)
Theorem eval_total fuel wd fs main : (max_include_depth <= fuel)%nat ->
  has_out_of_fuel (mf_errors (load fuel wd fs main)) = false.
Proof.
  intros Hf. unfold load. destruct (find_file fs (make_absolute wd main)) as [ds|].
  - pose proof (run_decls_grows wd fs fuel [make_absolute wd main] ds init_scopes init_state) as Hg.
    destruct (run_decls fuel [make_absolute wd main] wd fs ds (init_scopes, init_state)) as [sc st].
    cbn [mf_errors]. cbn [snd length] in Hg. destruct Hg as [es [He Hn]]; [lia|].
    apply has_out_of_fuel_false. rewrite He. cbn [init_state m_errors app]. exact Hn.
  - reflexivity.
Qed.

(* ================================================================ rule variables are expanded lazily *)

(* a rule block stores its values unevaluated: [rule_bindings] does not even take the scope as an argument, so
   whatever the scope holds when the rule is declared the text is kept verbatim, under the rule's name *)
Theorem rule_text_stored_verbatim sc st n binds :
  lookup_rule (fst (run_rule sc st n binds)) n = Some (fst (rule_bindings binds [])).
Proof.
  unfold run_rule. destruct (rule_bindings binds []) as [r e1]. cbn [fst]. apply lookup_rule_set_same.
Qed.

Theorem rule_binding_verbatim k text : is_rule_var_name k = true ->
  aget k (fst (rule_bindings [BBind k text] [])) = Some text.
Proof. intros H. cbn [rule_bindings]. rewrite H. cbn [rule_bindings fst aset aget]. rewrite bytes_eqb_refl. reflexivity. Qed.

Lemma special_command : ~ special_name nm_command.
Proof. intros [H|[H|H]]; discriminate H. Qed.

(* the command of a rule `command = $x` in a build context: the build-level binding of x if there is one, else the
   value x has in the scope chain handed to the lookup *)
Lemma dollar_x_command ex outs params r sc x :
  x <> [] -> all_simple x -> ~ special_name x -> x <> nm_command ->
  @aget bytes nm_command r = Some (36 :: x) -> @aget bytes x r = None ->
  fst (lookup_named ex outs params r sc nm_command) =
  match aget nm_command params with
  | Some v => v
  | None => match aget x params with Some v => v | None => lookup_binding sc x end
  end.
Proof.
  intros Hne Hx Hsp Hxc Hc Hxr. rewrite lookup_named_context.
  rewrite (lookup_order _ _ _ _ special_command). cbn [bx_params bx_rule bx_scopes mem_bytes].
  destruct (aget nm_command params) as [v|]; [reflexivity|]. rewrite Hc.
  destruct x as [|b name]; [congruence|].
  replace (36 :: b :: name) with (36 :: (b :: name) ++ []) by (rewrite app_nil_r; reflexivity).
  rewrite eval_simple_var_longest; [|exact Hx | exact I].
  destruct (length r) as [|k] eqn:El; [destruct r; [discriminate Hc | discriminate El]|].
  rewrite (lookup_order _ _ _ _ Hsp). cbn [bx_params bx_rule bx_scopes]. rewrite Hxr.
  destruct (aget (b :: name) params) as [v|]; cbn; rewrite app_nil_r; reflexivity.
Qed.

(* rule_vars_lazy, on whole manifests: x is bound to v1, THEN the rule `command = $x` is declared, THEN x is
   re-bound to v2, THEN a build statement uses the rule: the command is v2 (the rule text is evaluated at the
   build statement against the scope at that point); with a build-level binding x = v3 the command is v3.
   For every scope and manifest state the four decls start from, and every include stack / fuel. *)
Theorem rule_vars_lazy wd fs fuel stack sc0 st0 x v1 v2 rn out :
  x <> [] -> all_simple x -> ~ special_name x -> x <> nm_command -> no_dollar v1 -> no_dollar v2 ->
  exists cs c,
    m_commands (snd (run_decls fuel stack wd fs
                       [DBinding x v1; DRule rn [BBind nm_command (36 :: x)]; DBinding x v2; DBuild [out] rn [] [] [] []]
                       (sc0, st0))) = cs ++ [c] /\ c_command c = v2.
Proof.
  intros Hne Hx Hsp Hxc Hv1 Hv2.
  rewrite !run_decls_cons, run_decls_nil. cbn [step run_simple].
  unfold eval_in_scope at 1. rewrite (eval_string_literal _ _ v1 Hv1).
  cbn [step run_simple]. unfold run_rule. cbn [rule_bindings is_rule_var_name].
  replace (is_rule_var_name nm_command) with true by reflexivity. cbn [rule_bindings aset fst snd].
  cbn [step run_simple]. unfold eval_in_scope at 1. rewrite (eval_string_literal _ _ v2 Hv2).
  cbn [step run_simple].
  match goal with |- context [run_build wd ?sc ?st [out] rn [] [] [] []] =>
    destruct (run_build_command wd sc st [out] rn [] [] [] []) as [c [Hm [Hc _]]]; exists (m_commands st), c end.
  cbn [snd]. split; [exact Hm|]. rewrite Hc. clear Hm Hc.
  unfold resolve_rule. rewrite lookup_rule_set_var, lookup_rule_set_same. cbn [fst snd build_bindings].
  rewrite (dollar_x_command _ _ _ _ _ x); try assumption.
  - cbn [aget]. apply lookup_binding_set_same.
  - cbn [aget]. rewrite bytes_eqb_refl. reflexivity.
  - cbn [aget]. apply bytes_eqb_neq in Hxc. rewrite Hxc. reflexivity.
Qed.

Theorem build_level_binding_shadows wd fs fuel stack sc0 st0 x v1 v2 v3 rn out :
  x <> [] -> all_simple x -> ~ special_name x -> x <> nm_command -> no_dollar v1 -> no_dollar v2 -> no_dollar v3 ->
  exists cs c,
    m_commands (snd (run_decls fuel stack wd fs
                       [DBinding x v1; DRule rn [BBind nm_command (36 :: x)]; DBinding x v2;
                        DBuild [out] rn [] [] [] [BBind x v3]]
                       (sc0, st0))) = cs ++ [c] /\ c_command c = v3.
Proof.
  intros Hne Hx Hsp Hxc Hv1 Hv2 Hv3.
  rewrite !run_decls_cons, run_decls_nil. cbn [step run_simple].
  unfold eval_in_scope at 1. rewrite (eval_string_literal _ _ v1 Hv1).
  cbn [step run_simple]. unfold run_rule. cbn [rule_bindings is_rule_var_name].
  replace (is_rule_var_name nm_command) with true by reflexivity. cbn [rule_bindings aset fst snd].
  cbn [step run_simple]. unfold eval_in_scope at 1. rewrite (eval_string_literal _ _ v2 Hv2).
  cbn [step run_simple].
  match goal with |- context [run_build wd ?sc ?st [out] rn [] [] [] [BBind x v3]] =>
    destruct (run_build_command wd sc st [out] rn [] [] [] [BBind x v3]) as [c [Hm [Hc _]]]; exists (m_commands st), c end.
  cbn [snd]. split; [exact Hm|]. rewrite Hc. clear Hm Hc.
  unfold resolve_rule. rewrite lookup_rule_set_var, lookup_rule_set_same. cbn [fst snd build_bindings].
  unfold eval_in_scope. rewrite (eval_string_literal _ _ v3 Hv3). cbn [fst snd aset build_bindings].
  rewrite (dollar_x_command _ _ _ _ _ x); try assumption.
  - cbn [aget]. apply bytes_eqb_neq in Hxc. assert (Hcx : bytes_eqb nm_command x = false).
    { apply bytes_eqb_neq. intros E. apply bytes_eqb_neq in Hxc. congruence. }
    rewrite Hcx, bytes_eqb_refl. reflexivity.
  - cbn [aget]. rewrite bytes_eqb_refl. reflexivity.
  - cbn [aget]. apply bytes_eqb_neq in Hxc. rewrite Hxc. reflexivity.
Qed.

(* ================================================================ what include / subninja leave behind *)

(* a binding made by the last decl of an included file is visible in the includer afterwards *)
Theorem include_binding_visible f stack wd fs sc st ptext path es ds0 x v :
  eval_in_scope sc ptext = (path, es) -> enterable stack wd fs path (ds0 ++ [DBinding x v]) -> no_dollar v ->
  lookup_binding (fst (run_decls (S f) stack wd fs [DInclude true ptext] (sc, st))) x = v.
Proof.
  intros He Hen Hv. rewrite (include_shares_scope f stack wd fs sc st ptext path es _ [] He Hen).
  rewrite run_decls_nil, run_decls_app, run_decls_cons, run_decls_nil.
  destruct (run_decls f (make_absolute wd path :: stack) wd fs ds0 (sc, add_errors st es)) as [sc1 st1].
  cbn [step run_simple]. unfold eval_in_scope. rewrite (eval_string_literal _ _ v Hv). cbn [fst].
  apply lookup_binding_set_same.
Qed.

(* ... and so is a rule declared by the last decl of an included file *)
Theorem include_rule_visible f stack wd fs sc st ptext path es ds0 rn binds :
  eval_in_scope sc ptext = (path, es) -> enterable stack wd fs path (ds0 ++ [DRule rn binds]) ->
  lookup_rule (fst (run_decls (S f) stack wd fs [DInclude true ptext] (sc, st))) rn = Some (fst (rule_bindings binds [])).
Proof.
  intros He Hen. rewrite (include_shares_scope f stack wd fs sc st ptext path es _ [] He Hen).
  rewrite run_decls_nil, run_decls_app, run_decls_cons, run_decls_nil.
  destruct (run_decls f (make_absolute wd path :: stack) wd fs ds0 (sc, add_errors st es)) as [sc1 st1].
  cbn [step run_simple]. apply rule_text_stored_verbatim.
Qed.

(* after a subninja decl - whatever the file contains, whether or not it can be entered - the scope is what it
   was: no binding and no rule made in the file is visible in the parent *)
Theorem subninja_scope_restored fuel stack wd fs sc st ptext :
  fst (run_decls fuel stack wd fs [DInclude false ptext] (sc, st)) = sc.
Proof.
  rewrite run_decls_cons, run_decls_nil. unfold step. cbv beta iota zeta.
  destruct (eval_in_scope sc ptext) as [path es].
  destruct (Nat.leb max_include_depth (length stack)); [reflexivity|].
  destruct (mem_bytes (make_absolute wd path) stack); [reflexivity|].
  destruct fuel as [|f]; [reflexivity|].
  destruct (find_file fs (make_absolute wd path)); reflexivity.
Qed.

(* inside the subninja file the parent's earlier bindings and rules are visible: the file starts in the scope
   [empty_frame :: sc] (subninja_nests), which answers every lookup like sc (child_scope_sees_parent) until the
   file shadows a name in its own frame *)
Theorem subninja_child_start f stack wd fs sc st ptext path es ds x rn :
  eval_in_scope sc ptext = (path, es) -> enterable stack wd fs path ds ->
  snd (run_decls (S f) stack wd fs [DInclude false ptext] (sc, st)) =
  snd (run_decls f (make_absolute wd path :: stack) wd fs ds (empty_frame :: sc, add_errors st es)) /\
  lookup_binding (empty_frame :: sc) x = lookup_binding sc x /\
  lookup_rule (empty_frame :: sc) rn = lookup_rule sc rn.
Proof.
  intros He Hen. rewrite (subninja_nests f stack wd fs sc st ptext path es ds [] He Hen), run_decls_nil.
  repeat split.
Qed.

(* ================================================================ non-vacuity: concrete manifests *)

(* Strings are spelled as byte lists; the comment above each example gives the manifest text. *)
(* wd /w, main.ninja:
     flags = -O1
     rule cc
       command = cc $in -o $out $flags
       description = CC $out
       depfile = $out.d
     flags = -O2
     build a$ b.o: cc a$ b.c | imp.h || oo
     build c.o: cc c.c
       flags = -g
   the first command uses the value of flags at ITS build statement (-O2, not -O1), quotes the path with the
   space in command and description but not in depfile, and $in lists only the explicit input *)
Definition ex1_files : files :=
  [([47; 119; 47; 109; 97; 105; 110; 46; 110; 105; 110; 106; 97],
    [DBinding [102; 108; 97; 103; 115] [45; 79; 49];
     DRule [99; 99] [BBind [99; 111; 109; 109; 97; 110; 100] [99; 99; 32; 36; 105; 110; 32; 45; 111; 32; 36; 111; 117; 116; 32; 36; 102; 108; 97; 103; 115]; BBind [100; 101; 115; 99; 114; 105; 112; 116; 105; 111; 110] [67; 67; 32; 36; 111; 117; 116]; BBind [100; 101; 112; 102; 105; 108; 101] [36; 111; 117; 116; 46; 100]];
     DBinding [102; 108; 97; 103; 115] [45; 79; 50];
     DBuild [[97; 36; 32; 98; 46; 111]] [99; 99] [[97; 36; 32; 98; 46; 99]] [[105; 109; 112; 46; 104]] [[111; 111]] [];
     DBuild [[99; 46; 111]] [99; 99] [[99; 46; 99]] [] [] [BBind [102; 108; 97; 103; 115] [45; 103]]])].
Example ex1_commands :
  map (fun c => (c_command c, c_description c, c_depfile c)) (mf_commands (load 64 [47; 119] ex1_files [109; 97; 105; 110; 46; 110; 105; 110; 106; 97])) =
  [([99; 99; 32; 39; 97; 32; 98; 46; 99; 39; 32; 45; 111; 32; 39; 97; 32; 98; 46; 111; 39; 32; 45; 79; 50], [67; 67; 32; 39; 97; 32; 98; 46; 111; 39], [97; 32; 98; 46; 111; 46; 100]); ([99; 99; 32; 99; 46; 99; 32; 45; 111; 32; 99; 46; 111; 32; 45; 103], [67; 67; 32; 99; 46; 111], [99; 46; 111; 46; 100])] /\
  mf_errors (load 64 [47; 119] ex1_files [109; 97; 105; 110; 46; 110; 105; 110; 106; 97]) = [].
Proof. vm_compute. split; reflexivity. Qed.
(* main.ninja:            inc.ninja:            sub.ninja:
     x = 1                  y = ${x}-inc          z = ${x}-sub
     rule r                 rule ri               rule rs
       command = r $x $y $z   command = ri          command = rs $x
     include inc.ninja                            x = shadow
     subninja sub.ninja                           build s: rs
     build o: r                                   build t: r
     build p: ri
     build q: rs
   y and ri (include) are visible afterwards, z and rs (subninja) are not (q: unknown rule), the subninja file sees
   the parent's x and r, and its own x shadows the parent's only inside *)
Definition ex2_files : files :=
  [([47; 119; 47; 109; 97; 105; 110; 46; 110; 105; 110; 106; 97], [DBinding [120] [49]; DRule [114] [BBind [99; 111; 109; 109; 97; 110; 100] [114; 32; 36; 120; 32; 36; 121; 32; 36; 122]]; DInclude true [105; 110; 99; 46; 110; 105; 110; 106; 97]; DInclude false [115; 117; 98; 46; 110; 105; 110; 106; 97];
         DBuild [[111]] [114] [] [] [] []; DBuild [[112]] [114; 105] [] [] [] []; DBuild [[113]] [114; 115] [] [] [] []]);
   ([47; 119; 47; 105; 110; 99; 46; 110; 105; 110; 106; 97], [DBinding [121] [36; 123; 120; 125; 45; 105; 110; 99]; DRule [114; 105] [BBind [99; 111; 109; 109; 97; 110; 100] [114; 105]]]);
   ([47; 119; 47; 115; 117; 98; 46; 110; 105; 110; 106; 97], [DBinding [122] [36; 123; 120; 125; 45; 115; 117; 98]; DRule [114; 115] [BBind [99; 111; 109; 109; 97; 110; 100] [114; 115; 32; 36; 120]]; DBinding [120] [115; 104; 97; 100; 111; 119]; DBuild [[115]] [114; 115] [] [] [] []; DBuild [[116]] [114] [] [] [] []])].
Example ex2_scopes :
  map (fun c => (map n_screen (c_outputs c), c_rule c, c_command c)) (mf_commands (load 64 [47; 119] ex2_files [109; 97; 105; 110; 46; 110; 105; 110; 106; 97])) =
  [([[115]], [114; 115], [114; 115; 32; 115; 104; 97; 100; 111; 119]); ([[116]], [114], [114; 32; 115; 104; 97; 100; 111; 119; 32; 49; 45; 105; 110; 99; 32; 49; 45; 115; 117; 98]); ([[111]], [114], [114; 32; 49; 32; 49; 45; 105; 110; 99; 32]); ([[112]], [114; 105], [114; 105]); ([[113]], [112; 104; 111; 110; 121], [])] /\
  mf_errors (load 64 [47; 119] ex2_files [109; 97; 105; 110; 46; 110; 105; 110; 106; 97]) = [EUnknownRule] /\
  f_vars (mf_root (load 64 [47; 119] ex2_files [109; 97; 105; 110; 46; 110; 105; 110; 106; 97])) = [([120], [49]); ([121], [49; 45; 105; 110; 99])].
Proof. vm_compute. repeat split; reflexivity. Qed.
(* main.ninja:  rule r / command = a $description / description = b $command / build o: r i / include main.ninja
   the rule variable cycle is reported once per expansion that meets it, the self-include is refused, and no fuel
   runs out *)
Definition ex3_files : files :=
  [([47; 119; 47; 109; 97; 105; 110; 46; 110; 105; 110; 106; 97], [DRule [114] [BBind [99; 111; 109; 109; 97; 110; 100] [97; 32; 36; 100; 101; 115; 99; 114; 105; 112; 116; 105; 111; 110]; BBind [100; 101; 115; 99; 114; 105; 112; 116; 105; 111; 110] [98; 32; 36; 99; 111; 109; 109; 97; 110; 100]]; DBuild [[111]] [114] [[105]] [] [] []; DInclude true [109; 97; 105; 110; 46; 110; 105; 110; 106; 97]])].
Example ex3_errors :
  mf_errors (load 64 [47; 119] ex3_files [109; 97; 105; 110; 46; 110; 105; 110; 106; 97]) = [ECycle [99; 111; 109; 109; 97; 110; 100]; ECycle [100; 101; 115; 99; 114; 105; 112; 116; 105; 111; 110]; ERecursiveInclude] /\
  map c_command (mf_commands (load 64 [47; 119] ex3_files [109; 97; 105; 110; 46; 110; 105; 110; 106; 97])) = [[97; 32; 98; 32]].
Proof. vm_compute. split; reflexivity. Qed.


(* every escape form at once:  a$x.b${x.y}$$ $:$ c$<newline><blanks>d$-  with x = 1, x.y = 2 (the trailing "$-" is
   the simple variable "-", unbound) *)
Example ex_escapes :
  eval_in_scope [mkFrame [([120], [49]); ([120; 46; 121], [50])] []] [97; 36; 120; 46; 98; 36; 123; 120; 46; 121; 125; 36; 36; 32; 36; 58; 36; 32; 99; 36; 10; 32; 32; 32; 9; 100; 36; 45] = ([97; 49; 46; 98; 50; 36; 32; 58; 32; 99; 100], []) /\
  eval_in_scope [] [97; 98; 36; 33; 99; 100] = ([97; 98], [EEval EvBadEscape]) /\
  eval_in_scope [] [97; 36; 123; 120; 43; 121; 125; 98; 36; 123; 122; 122] = ([97; 98], [EEval EvBadVarName; EEval EvMissingBrace]) /\
  eval_in_scope [] [97; 98; 99; 36] = ([97; 98; 99], [EEval EvDollarAtEnd]).
Proof. vm_compute. repeat split; reflexivity. Qed.

(* the hypotheses of rule_vars_lazy are met by x = "x", v1 = "1", v2 = "2" *)
Example rule_vars_lazy_instance : exists cs c,
  m_commands (snd (run_decls 64 [[47; 119; 47; 109; 97; 105; 110; 46; 110; 105; 110; 106; 97]] [47; 119] []
     [DBinding [120] [49]; DRule [114] [BBind nm_command (36 :: [120])]; DBinding [120] [50]; DBuild [[111]] [114] [] [] [] []]
     (init_scopes, init_state))) = cs ++ [c] /\ c_command c = [50].
Proof.
  apply rule_vars_lazy.
  - discriminate.
  - repeat constructor.
  - intros [H|[H|H]]; discriminate H.
  - discriminate.
  - repeat constructor; discriminate.
  - repeat constructor; discriminate.
Qed.

(* the hypotheses of rule_cycle_reports_error are met by the rule of ex3: command -> description -> command *)
Definition ex3_ctx : bctx :=
  mkCtx [] [] [] [(nm_command, [97; 32; 36; 100; 101; 115; 99; 114; 105; 112; 116; 105; 111; 110]); (nm_description, [98; 32; 36; 99; 111; 109; 109; 97; 110; 100])] [] true.
Example ex3_reaches_cycle : reaches_cycle ex3_ctx [] nm_command.
Proof.
  assert (Hs1 : ~ special_name nm_command) by (intros [H|[H|H]]; discriminate H).
  assert (Hs2 : ~ special_name nm_description) by (intros [H|[H|H]]; discriminate H).
  eapply (rc_step ex3_ctx [] nm_command nm_description); [exact Hs1 | reflexivity | reflexivity | | ].
  - apply (refers_simple [97; 32] nm_description []); [repeat constructor; discriminate | discriminate | repeat constructor | exact I].
  - eapply (rc_step ex3_ctx [nm_command] nm_description nm_command); [exact Hs2 | reflexivity | reflexivity | | ].
    + apply (refers_simple [98; 32] nm_command []); [repeat constructor; discriminate | discriminate | repeat constructor | exact I].
    + apply rc_here; [right; left; reflexivity|].
      split; [exact Hs1 | split; [reflexivity | eexists; reflexivity]].
Qed.
Example ex3_cycle_error : exists v, In (ECycle v) (snd (lookup_var 3 ex3_ctx [] nm_command)).
Proof. apply rule_cycle_reports_error; [exact ex3_reaches_cycle | cbn; lia]. Qed.

(* the hypotheses of include_binding_visible are met: inc.ninja = "y = ${x}-inc / z9 = lit" *)
Definition ex4_files : files := [([47; 119; 47; 105; 110; 99; 46; 110; 105; 110; 106; 97], [DBinding [121] [36; 123; 120; 125; 45; 105; 110; 99]; DBinding [122; 57] [108; 105; 116]])].
Example ex4_include_instance :
  lookup_binding (fst (run_decls 1 [[47; 119; 47; 109; 97; 105; 110; 46; 110; 105; 110; 106; 97]] [47; 119] ex4_files [DInclude true [105; 110; 99; 46; 110; 105; 110; 106; 97]] (set_var init_scopes [120] [49], init_state))) [122; 57] = [108; 105; 116].
Proof.
  apply (include_binding_visible 0 _ _ _ _ _ _ [105; 110; 99; 46; 110; 105; 110; 106; 97] [] [DBinding [121] [36; 123; 120; 125; 45; 105; 110; 99]]).
  - reflexivity.
  - split; [unfold max_include_depth; cbn [length]; lia | split; vm_compute; reflexivity].
  - repeat constructor; discriminate.
Qed.

(* ================================================================ normalize_path never fails under an absolute working directory *)

Definition nohead (l : bytes) : Prop := match l with [] => True | c :: _ => c <> 47 end.
Definition noslash (l : bytes) : Prop := Forall (fun b => b <> 47) l.
(* "/", "/a/b", ... : starts with exactly one slash (not the //net form) *)
Definition simple_abs (wd : bytes) : Prop := exists w, wd = 47 :: w /\ nohead w.

Lemma is_slash_true b : is_slash b = true <-> b = 47.
Proof. unfold is_slash. apply N.eqb_eq. Qed.
Lemma is_slash_false b : is_slash b = false <-> b <> 47.
Proof. unfold is_slash. apply N.eqb_neq. Qed.

Lemma strip_slashes_nohead l : nohead (strip_slashes l).
Proof.
  induction l as [|b l IH]; cbn [strip_slashes]; [exact I|].
  destruct (is_slash b) eqn:E; [exact IH | cbn; apply is_slash_false; exact E].
Qed.

Lemma span_noslash_fst l : noslash (fst (span_noslash l)).
Proof.
  induction l as [|b l IH]; cbn [span_noslash]; [constructor|].
  destruct (is_slash b) eqn:E; [constructor|].
  destruct (span_noslash l) as [a t]. cbn [fst] in *. constructor; [apply is_slash_false; exact E | exact IH].
Qed.

Lemma span_noslash_app a y : noslash a -> span_noslash (a ++ 47 :: y) = (a, 47 :: y).
Proof.
  induction 1 as [|b a Hb Ha IH]; cbn [app span_noslash]; [reflexivity|].
  apply is_slash_false in Hb. rewrite Hb, IH. reflexivity.
Qed.

Lemma first_component_simple rest : nohead rest -> first_component (47 :: rest) = [47].
Proof.
  intros H. destruct rest as [|b [|c r3]]; cbn [first_component]; try reflexivity.
  cbn in H. replace (47 =? b) with false by (symmetry; apply N.eqb_neq; congruence).
  cbn. reflexivity.
Qed.

Lemma root_directory_simple rest : nohead rest -> root_directory (47 :: rest) = [47].
Proof.
  intros H. unfold root_directory. rewrite (first_component_simple rest H). reflexivity.
Qed.

Lemma root_name_simple rest : nohead rest -> root_name (47 :: rest) = [].
Proof. intros H. unfold root_name. rewrite (first_component_simple rest H). reflexivity. Qed.

(* appending to "/u" (u not starting with a slash) keeps that shape *)
Lemma path_append_shape u comp : nohead u -> exists rest, path_append (47 :: u) comp = 47 :: rest /\ nohead rest.
Proof.
  intros Hu. destruct u as [|c u'].
  - exists (strip_slashes comp). split; [reflexivity | apply strip_slashes_nohead].
  - unfold path_append.
    match goal with |- context [if ?b then _ else _] => destruct b end.
    + eexists. split; [cbn [app]; reflexivity | exact Hu].
    + match goal with |- context [if ?b then _ else _] => destruct b end.
      * eexists. split; [cbn [app]; reflexivity | exact Hu].
      * eexists. split; [cbn [app]; reflexivity | exact Hu].
Qed.

(* the net form of a first component *)
Lemma has_net_head l : has_net l = true -> exists r, l = 47 :: 47 :: r.
Proof.
  destruct l as [|x [|y [|z r]]]; cbn [has_net]; try discriminate.
  intros H. apply andb_true_iff in H. destruct H as [Hx Hy]. apply is_slash_true in Hx. apply N.eqb_eq in Hy. subst.
  eexists; reflexivity.
Qed.

Lemma span_head a l : is_slash a = false -> fst (span_noslash (a :: l)) = a :: fst (span_noslash l).
Proof. intros H. cbn [span_noslash]. rewrite H. destruct (span_noslash l); reflexivity. Qed.

Lemma span_split l : exists t, l = fst (span_noslash l) ++ t /\ (t = [] \/ exists r', t = 47 :: r').
Proof.
  induction l as [|x l IH]; cbn [span_noslash].
  - exists []. split; auto.
  - destruct (is_slash x) eqn:Ex.
    + apply is_slash_true in Ex. subst x. exists (47 :: l). split; cbn; eauto.
    + destruct IH as [t [H2 H3]]. destruct (span_noslash l) as [a0 t0]. cbn [fst] in *.
      exists t. split; [cbn; rewrite <- H2; reflexivity | exact H3].
Qed.

Lemma not_net_nonslash a l : is_slash a = false -> has_net (fst (span_noslash (a :: l))) = false.
Proof.
  intros H. rewrite (span_head a l H). destruct (has_net (a :: fst (span_noslash l))) eqn:E; [|reflexivity].
  apply has_net_head in E. destruct E as [r E]. inversion E. subst a. discriminate H.
Qed.

Lemma has_net_first_component p : has_net (first_component p) = true ->
  exists c m r, c <> 47 /\ noslash m /\ first_component p = 47 :: 47 :: c :: m /\ p = 47 :: 47 :: c :: m ++ r /\
                (r = [] \/ exists r', r = 47 :: r').
Proof.
  intros H.
  assert (Hcase : (exists c r3, p = 47 :: 47 :: c :: r3 /\ c <> 47) \/ has_net (first_component p) = false).
  { destruct p as [|a [|b [|c r3]]].
    - right. reflexivity.
    - right. cbn [first_component]. destruct (is_slash a) eqn:Ea; [reflexivity | apply not_net_nonslash; exact Ea].
    - right. cbn [first_component]. destruct (is_slash a) eqn:Ea; [reflexivity | apply not_net_nonslash; exact Ea].
    - cbn [first_component]. destruct (is_slash a && (a =? b) && negb (is_slash c)) eqn:E.
      + left. apply andb_true_iff in E. destruct E as [E Ec]. apply andb_true_iff in E. destruct E as [Ea Eb].
        apply is_slash_true in Ea. apply N.eqb_eq in Eb. apply negb_true_iff in Ec. apply is_slash_false in Ec. subst a b.
        exists c, r3. split; [reflexivity | exact Ec].
      + right. destruct (is_slash a) eqn:Ea; [reflexivity | apply not_net_nonslash; exact Ea]. }
  destruct Hcase as [[c [r3 [Hp Hc]]] | Hf]; [|congruence].
  subst p. clear H.
  destruct (span_split r3) as [t [H2 H3]].
  exists c, (fst (span_noslash r3)), t.
  assert (Hc' : is_slash c = false) by (apply is_slash_false; exact Hc).
  split; [exact Hc|]. split; [apply span_noslash_fst|].
  split.
  - cbn [first_component]. replace (is_slash 47 && (47 =? 47) && negb (is_slash c)) with true by (rewrite Hc'; reflexivity).
    rewrite (span_head c r3 Hc'). reflexivity.
  - split; [rewrite <- H2; reflexivity | exact H3].
Qed.

Lemma last_noslash l : noslash l -> l <> [] -> last l 0 <> 47.
Proof.
  induction 1 as [|b l Hb Hl IH]; intros Hne; [exfalso; apply Hne; reflexivity|].
  destruct l as [|c l']; [exact Hb|]. change (last (b :: c :: l') 0) with (last (c :: l') 0). apply IH. discriminate.
Qed.

Lemma last_snoc (l : bytes) x d : last (l ++ [x]) d = x.
Proof.
  induction l as [|y l IH]; [reflexivity|]. cbn [app].
  destruct (l ++ [x]) as [|z r] eqn:E; [destruct l; discriminate E|]. change (last (y :: z :: r) d) with (last (z :: r) d). exact IH.
Qed.

Lemma skipn_length_app (a b : bytes) : skipn (length a) (a ++ b) = b.
Proof. induction a as [|x a IH]; [reflexivity | exact IH]. Qed.

Lemma path_append_app a comp : exists z, path_append a comp = a ++ z.
Proof.
  unfold path_append.
  match goal with |- context [if ?b then _ else _] => destruct b end; [eexists; reflexivity|].
  match goal with |- context [if ?b then _ else _] => destruct b end; eexists; reflexivity.
Qed.

Lemma is_nil_false_cons {A : Type} (x : A) l : is_nil (x :: l) = false.
Proof. reflexivity. Qed.

(* Manifest::normalize_path succeeds on every path when the working directory is "/..." (not the //net form) *)
Theorem normalize_path_some wd p : simple_abs wd -> exists q, normalize_path wd p = Some q.
Proof.
  intros [w [Hwd Hw]]. subst wd. unfold normalize_path.
  assert (Ht : exists t, make_absolute (47 :: w) p = t /\ is_nil t = false /\ has_root_directory t = true).
  { unfold make_absolute. destruct (has_root_directory p) eqn:Hrd.
    - exists p. split; [reflexivity|]. split; [|exact Hrd].
      destruct p; [discriminate Hrd | reflexivity].
    - rewrite (root_directory_simple w Hw).
      unfold root_name at 1. destruct (has_net (first_component p)) eqn:Hnet.
      + (* p is exactly a //net name *)
        destruct (has_net_first_component p Hnet) as [c [m [r [Hc [Hm [Hfc [Hp Hr]]]]]]].
        rewrite Hfc. set (N := (47 :: 47 :: c :: m) : bytes).
        assert (HA1 : path_append [] N = N) by reflexivity.
        assert (Hlast : is_slash (@last byte N 0) = false).
        { apply is_slash_false. unfold N. change (last (47 :: 47 :: c :: m) 0) with (last (c :: m) 0).
          apply last_noslash; [constructor; assumption | discriminate]. }
        assert (HA2 : path_append N [47] = N ++ [47]).
        { unfold path_append. rewrite Hlast. unfold N at 1. cbn [is_nil negb andb]. reflexivity. }
        assert (HA3 : forall x, path_append (N ++ [47]) x = (N ++ [47]) ++ strip_slashes x).
        { intros x. unfold path_append. rewrite last_snoc. unfold N at 1. reflexivity. }
        rewrite HA1, HA2, HA3.
        destruct (path_append_app ((N ++ [47]) ++ strip_slashes (relative_path (47 :: w))) (relative_path p)) as [z Hz].
        rewrite Hz. eexists. split; [reflexivity|].
        set (Y := strip_slashes (relative_path (47 :: w)) ++ z).
        assert (Hshape : ((N ++ [47]) ++ strip_slashes (relative_path (47 :: w))) ++ z = 47 :: 47 :: c :: (m ++ 47 :: Y)).
        { unfold N, Y. cbn [app]. rewrite <- !app_assoc. reflexivity. }
        rewrite Hshape. split; [reflexivity|].
        unfold has_root_directory, root_directory.
        assert (Hfc2 : first_component (47 :: 47 :: c :: m ++ 47 :: Y) = N).
        { cbn [first_component]. apply is_slash_false in Hc.
          replace (is_slash 47 && (47 =? 47) && negb (is_slash c)) with true by (rewrite Hc; reflexivity).
          change (c :: m ++ 47 :: Y) with ((c :: m) ++ 47 :: Y).
          rewrite span_noslash_app by (constructor; [apply is_slash_false; exact Hc | exact Hm]). reflexivity. }
        rewrite Hfc2. unfold N at 1. cbn [has_net]. replace (is_slash 47 && (47 =? 47)) with true by reflexivity.
        change (47 :: 47 :: c :: m ++ 47 :: Y) with (N ++ 47 :: Y). rewrite skipn_length_app. reflexivity.
      + (* an ordinary relative path *)
        change (path_append [] []) with (@nil byte).
        change (path_append [] [47]) with [47].
        destruct (path_append_shape [] (relative_path (47 :: w)) I) as [u [Hu1 Hu2]].
        change (path_append (path_append [47] (relative_path (47 :: w))) (relative_path p))
          with (path_append (path_append (47 :: @nil byte) (relative_path (47 :: w))) (relative_path p)).
        rewrite Hu1.
        destruct (path_append_shape u (relative_path p) Hu2) as [rest [Hr1 Hr2]]. rewrite Hr1.
        eexists. split; [reflexivity|]. split; [reflexivity|].
        unfold has_root_directory. rewrite (root_directory_simple rest Hr2). reflexivity. }
  destruct Ht as [t [Ht [Hn Hr]]]. rewrite Ht, Hn, Hr. cbn [negb orb]. eexists; reflexivity.
Qed.

(* the model's ENullNode outcome (the C++ would store a null Node* and dereference it later) is unreachable under
   such a working directory; eval_paths is the only place that constructs ENullNode *)
Theorem no_null_node wd sc e : simple_abs wd -> e <> ENullNode ->
  forall toks nodes, ~ In ENullNode (p_errs (eval_paths wd sc e toks nodes)).
Proof.
  intros Hwd He. induction toks as [|t ts IH]; intros nodes; [intros []|].
  cbn [eval_paths].
  assert (Hev : ~ In ENullNode (snd (eval_in_scope sc t))).
  { unfold eval_in_scope, eval_string.
    assert (G : forall s m, ~ In ENullNode (snd (eval_go EEval (scope_lookup sc) m s))).
    { induction s as [|b s IHs]; intros m.
      - destruct m; cbn; intros H; try contradiction; destruct H as [H|[]]; discriminate H.
      - destruct m as [| | |n v|n]; cbn [eval_go].
        + destruct (b =? 36); [apply IHs | cbn [ev_emit snd]; apply IHs].
        + destruct (b =? 10); [apply IHs|].
          destruct ((b =? 32) || (b =? 58) || (b =? 36)); [cbn [ev_emit snd]; apply IHs|].
          destruct (b =? 123); [apply IHs|].
          destruct (NinjaLex.is_simple_ident_char b); [apply IHs|].
          cbn. intros [H|[]]; discriminate H.
        + destruct (NinjaLex.is_space b); [apply IHs|].
          destruct (b =? 36); [apply IHs | cbn [ev_emit snd]; apply IHs].
        + destruct (b =? 125); [|apply IHs].
          unfold ev_then. cbn [snd]. intros H. apply in_app_or in H. destruct H as [H|H]; [|exact (IHs _ H)].
          destruct v; cbn in H; [contradiction | destruct H as [H|[]]; discriminate H].
        + destruct (NinjaLex.is_simple_ident_char b); [apply IHs|].
          unfold ev_then. cbn [snd scope_lookup app].
          destruct (b =? 36); [apply IHs | cbn [ev_emit snd]; apply IHs]. }
    apply G. }
  destruct (eval_in_scope sc t) as [p es]. cbn [snd] in Hev.
  unfold find_or_create_node. destruct (normalize_path_some wd p Hwd) as [q Hq]. rewrite Hq.
  destruct (aget q nodes) as [scr|].
  - specialize (IH nodes). destruct (eval_paths wd sc e ts nodes) as [[ns nodes2] es3].
    unfold p_errs in *. cbn [snd] in *. intros H.
    apply in_app_or in H. destruct H as [H|H]; [exact (Hev H)|].
    apply in_app_or in H. destruct H as [H|H]; [destruct (is_nil p); [destruct H as [H|[]]; congruence | contradiction]|].
    cbn [app] in H. exact (IH H).
  - specialize (IH (nodes ++ [(q, p)])). destruct (eval_paths wd sc e ts (nodes ++ [(q, p)])) as [[ns nodes2] es3].
    unfold p_errs in *. cbn [snd] in *. intros H.
    apply in_app_or in H. destruct H as [H|H]; [exact (Hev H)|].
    apply in_app_or in H. destruct H as [H|H]; [destruct (is_nil p); [destruct H as [H|[]]; congruence | contradiction]|].
    cbn [app] in H. exact (IH H).
Qed.

(* combined forms used by the property file *)
Theorem in_out_quoting ex outs ps rule sc name :
  lookup_named ex outs ps rule sc name =
  lookup_var (S (length rule)) (mkCtx ex outs ps rule sc (escapes_in_out name)) [] name /\
  (escapes_in_out name = false <-> name = nm_depfile \/ name = nm_rspfile).
Proof. split; [apply lookup_named_context | apply escapes_in_out_spec]. Qed.

Theorem subninja_child_sees_parent sc x rn :
  lookup_binding (empty_frame :: sc) x = lookup_binding sc x /\ lookup_rule (empty_frame :: sc) rn = lookup_rule sc rn.
Proof. split; reflexivity. Qed.

Example simple_abs_instance : simple_abs [47; 119; 47; 100] /\ simple_abs [47].
Proof.
  split.
  - exists [119; 47; 100]. split; [reflexivity | cbn; discriminate].
  - exists []. split; [reflexivity | exact I].
Qed.

(* ================================================================ build-level bindings see the file scope only *)

(* what actOnBuildBindingDecl records for one indented line, given the scope of the FILE (never the bindings the
   statement has made so far) *)
Definition bind_in_file_scope (sc : scopes) (p : vars) (b : bitem) : vars :=
  match b with BBind n v => aset n (fst (eval_in_scope sc v)) p | BPErr _ => p end.

(* every value of a build statement's block is evaluated in the enclosing file-level scope: the accumulated
   build-level bindings [params] are never consulted, so the bindings of one statement do not see each other *)
Theorem build_bindings_see_file_scope_only sc : forall binds params,
  fst (build_bindings sc binds params) = fold_left (bind_in_file_scope sc) binds params.
Proof.
  induction binds as [|[n v|c] bs IH]; intros params; cbn [build_bindings fold_left bind_in_file_scope]; [reflexivity| |].
  - destruct (eval_in_scope sc v) as [val es1]. specialize (IH (aset n val params)).
    destruct (build_bindings sc bs (aset n val params)) as [p es2]. cbn [fst] in *. exact IH.
  - specialize (IH params). destruct (build_bindings sc bs params) as [p es]. cbn [fst] in *. exact IH.
Qed.

(* x = v1 followed by y = $x in ONE build statement: y gets the file-level value of x, not v1 *)
Theorem build_binding_ignores_earlier_binding sc x y v1 :
  x <> [] -> all_simple x -> x <> y -> no_dollar v1 ->
  aget y (fst (build_bindings sc [BBind x v1; BBind y (36 :: x)] [])) = Some (lookup_binding sc x) /\
  aget x (fst (build_bindings sc [BBind x v1; BBind y (36 :: x)] [])) = Some v1.
Proof.
  intros Hne Hx Hxy Hv1. rewrite build_bindings_see_file_scope_only. cbn [fold_left bind_in_file_scope].
  unfold eval_in_scope. rewrite (eval_string_literal _ _ v1 Hv1). cbn [fst].
  destruct x as [|b name]; [congruence|].
  replace (36 :: b :: name) with (36 :: (b :: name) ++ []) by (rewrite app_nil_r; reflexivity).
  rewrite eval_simple_var_longest; [|exact Hx | exact I].
  unfold ev_then, scope_lookup. cbn [fst eval_string eval_go ev_done]. rewrite app_nil_r.
  split.
  - apply aget_aset_same.
  - rewrite aget_aset_other by exact Hxy. cbn [aset aget]. rewrite bytes_eqb_refl. reflexivity.
Qed.

(* ================================================================ the quoting mode belongs to the query *)

Lemma special_depfile : ~ special_name nm_depfile.
Proof. intros [H|[H|H]]; discriminate H. Qed.

(* rule: command = $depfile, depfile = $out<suffix>.  The quoting mode is fixed by the variable that is QUERIED and
   kept through every nested expansion: the command sees the shell-escaped outputs also THROUGH $depfile, the
   depfile attribute itself sees them unescaped *)
Theorem quote_mode_is_per_query ex outs ps rule sc suffix :
  @aget bytes nm_command ps = None -> @aget bytes nm_depfile ps = None ->
  @aget bytes nm_command rule = Some (36 :: nm_depfile) ->
  @aget bytes nm_depfile rule = Some (36 :: nm_out ++ suffix) ->
  no_dollar suffix -> not_simple_head suffix ->
  fst (lookup_named ex outs ps rule sc nm_command) = join_with 32 (map shell_escaped outs) ++ suffix /\
  fst (lookup_named ex outs ps rule sc nm_depfile) = join_with 32 outs ++ suffix.
Proof.
  intros Hpc Hpd Hrc Hrd Hsuf Hhead.
  assert (Hlen : exists k, length rule = S (S k)).
  { destruct rule as [|[k1 v1] [|[k2 v2] r]]; cbn [length]; [discriminate Hrc | | eexists; reflexivity].
    exfalso. cbn [aget] in Hrc, Hrd.
    destruct (bytes_eqb nm_command k1) eqn:E1; [|discriminate Hrc].
    destruct (bytes_eqb nm_depfile k1) eqn:E2; [|discriminate Hrd].
    apply bytes_eqb_eq in E1, E2. rewrite <- E1 in E2. discriminate E2. }
  destruct Hlen as [k Hk].
  assert (Hdep : forall f esc active, mem_bytes nm_depfile active = false ->
            lookup_var (S f) (mkCtx ex outs ps rule sc esc) active nm_depfile =
            (join_with 32 (map (fun p => if esc then shell_escaped p else p) outs) ++ suffix, [])).
  { intros f esc active Hact. rewrite (lookup_order _ _ _ _ special_depfile). cbn [bx_params bx_rule bx_scopes].
    rewrite Hpd, Hrd, Hact.
    change (36 :: nm_out ++ suffix) with (36 :: (111 :: [117; 116]) ++ suffix).
    rewrite eval_simple_var_longest; [|repeat constructor | exact Hhead].
    change (111 :: [117; 116]) with nm_out. rewrite out_expansion.
    rewrite (eval_string_literal _ _ suffix Hsuf). unfold ev_then. cbn [fst snd app]. reflexivity. }
  split.
  - rewrite lookup_named_context, Hk. rewrite (lookup_order _ _ _ _ special_command). cbn [bx_params bx_rule bx_scopes mem_bytes].
    rewrite Hpc, Hrc.
    replace (36 :: nm_depfile) with (36 :: (100 :: [101; 112; 102; 105; 108; 101]) ++ []) by reflexivity.
    rewrite eval_simple_var_longest; [|repeat constructor | exact I].
    change (100 :: [101; 112; 102; 105; 108; 101]) with nm_depfile.
    rewrite Hdep by reflexivity. replace (escapes_in_out nm_command) with true by reflexivity.
    cbn [fst snd eval_string eval_go ev_done ev_then]. rewrite app_nil_r. reflexivity.
  - rewrite lookup_named_context. rewrite (Hdep _ _ [] eq_refl).
    replace (escapes_in_out nm_depfile) with false by reflexivity. cbn [fst].
    rewrite map_id. reflexivity.
Qed.

(* the two rules on concrete manifests; the expected strings are those `ninja -t commands` / `ninja -n` 1.11.1 print

   rule cc / command = gcc -MMD -MF $depfile @$rspfile -c $in -o $out / description = CC $out (deps in $depfile)
           / depfile = $out.d / rspfile = $out.rsp / rspfile_content = $in
   build my$ obj.o: cc my$ src.c *)
Definition ex5_files : files :=
  [([47; 119; 47; 109; 97; 105; 110; 46; 110; 105; 110; 106; 97], [DRule [99; 99] [BBind [99; 111; 109; 109; 97; 110; 100] [103; 99; 99; 32; 45; 77; 77; 68; 32; 45; 77; 70; 32; 36; 100; 101; 112; 102; 105; 108; 101; 32; 64; 36; 114; 115; 112; 102; 105; 108; 101; 32; 45; 99; 32; 36; 105; 110; 32; 45; 111; 32; 36; 111; 117; 116]; BBind [100; 101; 115; 99; 114; 105; 112; 116; 105; 111; 110] [67; 67; 32; 36; 111; 117; 116; 32; 40; 100; 101; 112; 115; 32; 105; 110; 32; 36; 100; 101; 112; 102; 105; 108; 101; 41]; BBind [100; 101; 112; 102; 105; 108; 101] [36; 111; 117; 116; 46; 100]; BBind [114; 115; 112; 102; 105; 108; 101] [36; 111; 117; 116; 46; 114; 115; 112]; BBind [114; 115; 112; 102; 105; 108; 101; 95; 99; 111; 110; 116; 101; 110; 116] [36; 105; 110]]; DBuild [[109; 121; 36; 32; 111; 98; 106; 46; 111]] [99; 99] [[109; 121; 36; 32; 115; 114; 99; 46; 99]] [] [] []])].
Example ex5_quote_mode_per_query :
  map (fun c => (c_command c, c_description c, c_depfile c, c_rspfile c, c_rspfile_content c))
      (mf_commands (load 64 [47; 119] ex5_files [109; 97; 105; 110; 46; 110; 105; 110; 106; 97])) =
  [([103; 99; 99; 32; 45; 77; 77; 68; 32; 45; 77; 70; 32; 39; 109; 121; 32; 111; 98; 106; 46; 111; 39; 46; 100; 32; 64; 39; 109; 121; 32; 111; 98; 106; 46; 111; 39; 46; 114; 115; 112; 32; 45; 99; 32; 39; 109; 121; 32; 115; 114; 99; 46; 99; 39; 32; 45; 111; 32; 39; 109; 121; 32; 111; 98; 106; 46; 111; 39], [67; 67; 32; 39; 109; 121; 32; 111; 98; 106; 46; 111; 39; 32; 40; 100; 101; 112; 115; 32; 105; 110; 32; 39; 109; 121; 32; 111; 98; 106; 46; 111; 39; 46; 100; 41], [109; 121; 32; 111; 98; 106; 46; 111; 46; 100], [47; 119; 47; 109; 121; 32; 111; 98; 106; 46; 111; 46; 114; 115; 112], [39; 109; 121; 32; 115; 114; 99; 46; 99; 39])].
Proof. vm_compute. reflexivity. Qed.

(* opt = -O0 / cflags = -Wall $opt / tag = dev
   rule cc / command = gcc $cflags -c $in -o $out / description = CC[$tag] $out
   build a.o: cc a.c / cflags = -Wextra $opt
   build b.o: cc b.c / opt = -O3 / cflags = -Wall $opt -g        ($opt is still the file-level -O0)
   build c.o: cc c.c / tag = rel / tag = ${tag}-signed           (${tag} is still the file-level dev) *)
Definition ex6_files : files :=
  [([47; 119; 47; 109; 97; 105; 110; 46; 110; 105; 110; 106; 97], [DBinding [111; 112; 116] [45; 79; 48]; DBinding [99; 102; 108; 97; 103; 115] [45; 87; 97; 108; 108; 32; 36; 111; 112; 116]; DBinding [116; 97; 103] [100; 101; 118]; DRule [99; 99] [BBind [99; 111; 109; 109; 97; 110; 100] [103; 99; 99; 32; 36; 99; 102; 108; 97; 103; 115; 32; 45; 99; 32; 36; 105; 110; 32; 45; 111; 32; 36; 111; 117; 116]; BBind [100; 101; 115; 99; 114; 105; 112; 116; 105; 111; 110] [67; 67; 91; 36; 116; 97; 103; 93; 32; 36; 111; 117; 116]];
         DBuild [[97; 46; 111]] [99; 99] [[97; 46; 99]] [] [] [BBind [99; 102; 108; 97; 103; 115] [45; 87; 101; 120; 116; 114; 97; 32; 36; 111; 112; 116]]; DBuild [[98; 46; 111]] [99; 99] [[98; 46; 99]] [] [] [BBind [111; 112; 116] [45; 79; 51]; BBind [99; 102; 108; 97; 103; 115] [45; 87; 97; 108; 108; 32; 36; 111; 112; 116; 32; 45; 103]]; DBuild [[99; 46; 111]] [99; 99] [[99; 46; 99]] [] [] [BBind [116; 97; 103] [114; 101; 108]; BBind [116; 97; 103] [36; 123; 116; 97; 103; 125; 45; 115; 105; 103; 110; 101; 100]]])].
Example ex6_build_bindings_file_scope :
  map (fun c => (c_command c, c_description c)) (mf_commands (load 64 [47; 119] ex6_files [109; 97; 105; 110; 46; 110; 105; 110; 106; 97])) =
  [([103; 99; 99; 32; 45; 87; 101; 120; 116; 114; 97; 32; 45; 79; 48; 32; 45; 99; 32; 97; 46; 99; 32; 45; 111; 32; 97; 46; 111], [67; 67; 91; 100; 101; 118; 93; 32; 97; 46; 111]); ([103; 99; 99; 32; 45; 87; 97; 108; 108; 32; 45; 79; 48; 32; 45; 103; 32; 45; 99; 32; 98; 46; 99; 32; 45; 111; 32; 98; 46; 111], [67; 67; 91; 100; 101; 118; 93; 32; 98; 46; 111]); ([103; 99; 99; 32; 45; 87; 97; 108; 108; 32; 45; 79; 48; 32; 45; 99; 32; 99; 46; 99; 32; 45; 111; 32; 99; 46; 111], [67; 67; 91; 100; 101; 118; 45; 115; 105; 103; 110; 101; 100; 93; 32; 99; 46; 111])].
Proof. vm_compute. reflexivity. Qed.


(* ================================================================ an empty build-level binding still shadows *)

(* the binding is recorded whatever its value - also when the value is, or evaluates to, the empty string ... *)
Lemma empty_build_binding_recorded sc n v ps :
  fst (eval_in_scope sc v) = [] -> aget n (fst (build_bindings sc [BBind n v] ps)) = Some [].
Proof.
  intros H. rewrite build_bindings_see_file_scope_only. cbn [fold_left bind_in_file_scope]. rewrite H.
  apply aget_aset_same.
Qed.

(* ... and the lookup finds the BINDING, not its emptiness: the rule-level text and the file-level value of the
   name are not consulted (the "reset" idiom: `flags =` under a build statement) *)
Theorem empty_build_binding_shadows sc n v ps fuel ex outs rule sc' esc active :
  ~ special_name n -> fst (eval_in_scope sc v) = [] ->
  lookup_var (S fuel) (mkCtx ex outs (fst (build_bindings sc [BBind n v] ps)) rule sc' esc) active n = ([], []).
Proof.
  intros Hs He. rewrite (lookup_order _ _ _ _ Hs). cbn [bx_params].
  rewrite (empty_build_binding_recorded sc n v ps He). reflexivity.
Qed.

(* flags = -O2 / depflags = -MD / pool link_pool: depth = 1
   rule cc / command = cc $flags $depflags -c $in -o $out / description = CC $out / depfile = $out.d / pool = link_pool
   build a.o: cc a.c
   build b.o: cc b.c / flags = / description =
   build c.o: cc c.c / depfile = $undefined / depflags = / pool =
   (what ninja 1.11.1 gives: the empty overrides hide the rule-level and file-level values) *)
Definition ex7_files : files :=
  [([47; 119; 47; 109; 97; 105; 110; 46; 110; 105; 110; 106; 97], [DBinding [102; 108; 97; 103; 115] [45; 79; 50]; DBinding [100; 101; 112; 102; 108; 97; 103; 115] [45; 77; 68]; DPool [108; 105; 110; 107; 95; 112; 111; 111; 108] [BBind [100; 101; 112; 116; 104] [49]]; DRule [99; 99] [BBind [99; 111; 109; 109; 97; 110; 100] [99; 99; 32; 36; 102; 108; 97; 103; 115; 32; 36; 100; 101; 112; 102; 108; 97; 103; 115; 32; 45; 99; 32; 36; 105; 110; 32; 45; 111; 32; 36; 111; 117; 116]; BBind [100; 101; 115; 99; 114; 105; 112; 116; 105; 111; 110] [67; 67; 32; 36; 111; 117; 116]; BBind [100; 101; 112; 102; 105; 108; 101] [36; 111; 117; 116; 46; 100]; BBind [112; 111; 111; 108] [108; 105; 110; 107; 95; 112; 111; 111; 108]];
         DBuild [[97; 46; 111]] [99; 99] [[97; 46; 99]] [] [] []; DBuild [[98; 46; 111]] [99; 99] [[98; 46; 99]] [] [] [BBind [102; 108; 97; 103; 115] []; BBind [100; 101; 115; 99; 114; 105; 112; 116; 105; 111; 110] []]; DBuild [[99; 46; 111]] [99; 99] [[99; 46; 99]] [] [] [BBind [100; 101; 112; 102; 105; 108; 101] [36; 117; 110; 100; 101; 102; 105; 110; 101; 100]; BBind [100; 101; 112; 102; 108; 97; 103; 115] []; BBind [112; 111; 111; 108] []]])].
Example ex7_empty_binding_shadows :
  map (fun c => (c_command c, c_description c, c_deps c, c_depfile c, c_pool c)) (mf_commands (load 64 [47; 119] ex7_files [109; 97; 105; 110; 46; 110; 105; 110; 106; 97])) =
  [([99; 99; 32; 45; 79; 50; 32; 45; 77; 68; 32; 45; 99; 32; 97; 46; 99; 32; 45; 111; 32; 97; 46; 111], [67; 67; 32; 97; 46; 111], DepsGCC, [97; 46; 111; 46; 100], Some [108; 105; 110; 107; 95; 112; 111; 111; 108]); ([99; 99; 32; 32; 45; 77; 68; 32; 45; 99; 32; 98; 46; 99; 32; 45; 111; 32; 98; 46; 111], [], DepsGCC, [98; 46; 111; 46; 100], Some [108; 105; 110; 107; 95; 112; 111; 111; 108]); ([99; 99; 32; 45; 79; 50; 32; 32; 45; 99; 32; 99; 46; 99; 32; 45; 111; 32; 99; 46; 111], [67; 67; 32; 99; 46; 111], DepsNone, [], None)] /\
  mf_errors (load 64 [47; 119] ex7_files [109; 97; 105; 110; 46; 110; 105; 110; 106; 97]) = [].
Proof. vm_compute. split; reflexivity. Qed.

