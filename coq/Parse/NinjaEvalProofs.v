(* Proofs about the Ninja manifest loader model (Parse/NinjaEval.v). *)
From LLB Require Import Base.Bytes Base.BytesFacts Path.ShellQuote Parse.NinjaEval.
From LLB Require Parse.NinjaLex.
Local Open Scope N_scope.

(* ---------------------------------------------------------------- evalString *)

Definition no_dollar (s : bytes) : Prop := Forall (fun b => b <> 36) s.

Section EvalFacts.
  Context {E : Type}.
  Variable wrap : eval_err -> E.
  Variable lookup : bytes -> bytes * list E.

  Lemma eval_go_text_literal s : no_dollar s -> eval_go wrap lookup EvText s = (s, []).
  Proof.
    induction 1 as [|b s Hb Hs IH]; [reflexivity|].
    cbn [eval_go]. apply N.eqb_neq in Hb. rewrite Hb, IH. reflexivity.
  Qed.

  Theorem eval_string_literal s : no_dollar s -> eval_string wrap lookup s = (s, []).
  Proof. apply eval_go_text_literal. Qed.
End EvalFacts.
