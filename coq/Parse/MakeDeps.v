(* Model of core::MakefileDepsParser (lib/Core/MakefileDepsParser.cpp, the CURRENT source, POSIX branch) and of
   the documented writer of Makefile-style dependency files.  Definitions only (proofs: MakeDepsProofs.v).

   Cursor model: a `const char* cur` into the buffer [data.data(), end) is the REMAINING SUFFIX of the
   buffer (a `bytes` list); `cur == end` is the empty list; `cur - data.data()` is
   `length data - length suffix`.  Every read `*cur` / `cur[1]` / `cur[2]` of the C++ is a pattern match on
   the suffix, so a read is only ever possible where the C++ has established `cur != end`
   (resp. `cur + 1 != end`, `cur + 2 < end`): the current source performs no read at `end`, hence the model
   has no over-read outcome.  (The two places that used to read at `end` - the byte after a trailing
   backslash in lexWord - are guarded in the current source by `if (cur == end) {push '\\'; break;}`.)

   Byte values: NUL 0, TAB 9, LF 10, CR 13, ' ' 32, '#' 35, '$' 36, ':' 58, '\\' 92.
   `int c = *cur` sign-extends bytes >= 0x80; they compare unequal to every ASCII constant either way and
   `push_back(c)` converts back to the same byte, so bytes are modelled as unsigned. *)
From LLB Require Import Base.Bytes.
Local Open Scope N_scope.

(* static bool isWordChar(int c) *)
Definition is_word_char (c : byte) : bool :=
  negb ((c =? 0) || (c =? 9) || (c =? 13) || (c =? 10) || (c =? 32) || (c =? 36) || (c =? 58)).

(* the inner loop of the comment branch:  while (cur + 1 != end && cur[1] == '\n') ++cur;
   given the bytes AFTER the '#', returns the bytes after the run of newlines.  (Yes: the source skips
   newlines that FOLLOW the '#', not the text up to the next newline; a '#' therefore acts as one blank.) *)
Fixpoint skip_newlines (l : bytes) : bytes :=
  match l with
  | [] => []
  | d :: r => if d =? 10 then skip_newlines r else l
  end.

(* static void skipWhitespaceAndComments(const char*& cur, const char* end)
   The comment branch is the local fixpoint `nl` (= skip_newlines followed by the `continue`). *)
Fixpoint skip_ws (l : bytes) : bytes :=
  match l with
  | [] => []
  | c :: r =>
    if c =? 35 then
      (fix nl (r : bytes) : bytes :=
         match r with
         | [] => []
         | d :: r' => if d =? 10 then nl r' else skip_ws r
         end) r
    else if (c =? 32) || (c =? 9) || (c =? 10) || (c =? 13) then skip_ws r
    else l
  end.

(* static void skipNonNewlineWhitespace(const char*& cur, const char* end) *)
Fixpoint skip_nnws (l : bytes) : bytes :=
  match l with
  | [] => []
  | c :: r =>
    if (c =? 32) || (c =? 9) || (c =? 13) then skip_nnws r
    else if c =? 92 then
      match r with
      | [] => l                                    (* cur + 1 == end *)
      | d :: r' =>
        if d =? 10 then skip_nnws r'               (* escaped newline *)
        else if d =? 13 then
          match r' with
          | [] => l                                (* cur + 2 < end fails *)
          | e :: r'' => if e =? 10 then skip_nnws r'' else l
          end
        else l
      end
    else l
  end.

(* static void skipToEndOfLine(const char*& cur, const char* end) *)
Fixpoint skip_eol (l : bytes) : bytes :=
  match l with
  | [] => []
  | c :: r => if c =? 10 then r else skip_eol r
  end.

(* static void lexWord(const char*& cur, const char* end, SmallVectorImpl<char>& unescapedWord)
   returns (the bytes pushed onto unescapedWord, the new cursor) *)
Fixpoint lex_word (l : bytes) : bytes * bytes :=
  match l with
  | [] => ([], [])
  | c :: r =>
    if c =? 92 then
      match r with
      | [] => ([92], [])                           (* "a backslash at the very end of the input is taken literally" *)
      | d :: r' =>
        if d =? 10 then ([], l)                    (* line continuation ends the word; cur stays on the backslash *)
        else if (d =? 32) || (d =? 35) || (d =? 92)
             then let '(u, rest) := lex_word r' in (d :: u, rest)
             else let '(u, rest) := lex_word r' in (92 :: d :: u, rest)
      end
    else if c =? 36 then
      match r with
      | [] => ([], l)                              (* lone '$': not a word character *)
      | d :: r' => if d =? 36 then let '(u, rest) := lex_word r' in (36 :: u, rest) else ([], l)
      end
    else if is_word_char c then let '(u, rest) := lex_word r in (c :: u, rest)
    else ([], l)
  end.

Inductive md_event :=
| RuleStart (raw unescaped : bytes)
| Dep (raw unescaped : bytes)
| RuleEnd
| Err (code : N) (pos : N)     (* 1 "unexpected character in file", 2 "missing ':' following rule",
                                  3 "unexpected character in prerequisites" *)
| OutOfFuel.

(* cur - data.data() *)
Definition pos_of (dlen : nat) (cur : bytes) : N := N.of_nat (dlen - length cur).
(* StringRef(wordStart, cur - wordStart) *)
Definition raw_of (start rest : bytes) : bytes := firstn (length start - length rest) start.
(* cur != wordStart *)
Definition progressed (start rest : bytes) : bool := negb (Nat.eqb (length start) (length rest)).

(* while (cur != end && *cur == ':') { unescapedWord.push_back( *cur ); ++cur; lexWord(cur, end, unescapedWord); } *)
Fixpoint colon_loop (fuel : nat) (cur : bytes) : option (bytes * bytes) :=
  match fuel with
  | O => None
  | S f =>
    match cur with
    | [] => Some ([], cur)
    | c :: r =>
      if c =? 58 then
        let '(u, rest) := lex_word r in
        match colon_loop f rest with
        | Some (u2, rest2) => Some (58 :: u ++ u2, rest2)
        | None => None
        end
      else Some ([], cur)
    end
  end.

(* the loop "Consume dependency words until we reach the end of a line"; returns the events and the cursor
   at which the loop was left.  `while (cur != end) { skipNonNewlineWhitespace; if (cur == end || ...) break;`
   - the loop test is subsumed by the test after the skip (skipping nothing from an empty suffix). *)
Fixpoint deps_loop (fuel : nat) (dlen : nat) (cur : bytes) : list md_event * bytes :=
  match fuel with
  | O => ([OutOfFuel], [])
  | S f =>
    let c1 := skip_nnws cur in
    match c1 with
    | [] => ([], c1)
    | c :: _ =>
      if c =? 10 then ([], c1)
      else
        let '(u, c2) := lex_word c1 in
        if negb (progressed c1 c2) then
          (* error, skipToEndOfLine, continue: the NEXT line is then read as further prerequisites *)
          let '(evs, c3) := deps_loop f dlen (skip_eol c2) in (Err 3 (pos_of dlen c2) :: evs, c3)
        else
          match colon_loop (S (length c2)) c2 with
          | None => ([OutOfFuel], [])
          | Some (u2, c3) =>
            let '(evs, c4) := deps_loop f dlen c3 in (Dep (raw_of c1 c3) (u ++ u2) :: evs, c4)
          end
    end
  end.

Definition head_is (l : bytes) (c : byte) : bool :=
  match l with [] => false | x :: _ => x =? c end.

(* the outer loop of MakefileDepsParser::parse() *)
Fixpoint rules_loop (fuel : nat) (ign : bool) (dlen : nat) (cur : bytes) : list md_event :=
  match fuel with
  | O => [OutOfFuel]
  | S f =>
    let c1 := skip_ws cur in
    match c1 with
    | [] => []
    | _ :: _ =>
      let '(u, c2) := lex_word c1 in
      if negb (progressed c1 c2) then
        Err 1 (pos_of dlen c2) :: rules_loop f ign dlen (skip_eol c2)
      else
        RuleStart (raw_of c1 c2) u ::
        (let c3 := skip_nnws c2 in
         if negb (head_is c3 58) then
           Err 2 (pos_of dlen c3) :: RuleEnd :: rules_loop f ign dlen (skip_eol c3)
         else
           let '(evs, c4) := deps_loop (S (length (tl c3))) dlen (tl c3) in
           evs ++ RuleEnd :: (if ign then [] else rules_loop f ign dlen c4))
    end
  end.

(* MakefileDepsParser(data, actions, ignoreSubsequentOutputs).parse(): the sequence of callbacks.
   Fuel: every iteration of either loop consumes at least one byte (MakeDepsProofs.md_parse_total). *)
Definition md_parse (ignoreSubsequent : bool) (data : bytes) : list md_event :=
  rules_loop (S (length data)) ignoreSubsequent (length data) data.

(* the unescaped dependency words, in order *)
Definition md_deps (evs : list md_event) : list bytes :=
  flat_map (fun e => match e with Dep _ u => [u] | _ => [] end) evs.

Definition md_has_error (evs : list md_event) : bool :=
  existsb (fun e => match e with Err _ _ => true | _ => false end) evs.

(* ---------- the documented writer (docs/buildsystem.rst "deps-style: makefile"; what Clang/GCC emit plus
   the escapes lexWord honours): space, '#' and backslash preceded by a backslash, '$' doubled ---------- *)

Definition esc_byte (c : byte) : bytes :=
  if (c =? 32) || (c =? 35) || (c =? 92) then [92; c]
  else if c =? 36 then [36; 36]
  else [c].

Definition md_escape (p : bytes) : bytes := flat_map esc_byte p.

Inductive sepchoice := SepSpace | SepLF | SepCRLF.

Definition sep_bytes (s : sepchoice) : bytes :=
  match s with
  | SepSpace => [32]                 (* " " *)
  | SepLF => [32; 92; 10; 32]        (* " \\\n " *)
  | SepCRLF => [32; 92; 13; 10; 32]  (* " \\\r\n " *)
  end.

(* one rule:  target ':' { sep path } '\n' *)
Definition md_write (target : bytes) (paths : list bytes) (sep : sepchoice) : bytes :=
  md_escape target ++ [58] ++ flat_map (fun p => sep_bytes sep ++ md_escape p) paths ++ [10].

(* the same with a chosen line end: LF, CRLF, or none (the file ends right after the last path) *)
Inductive eolchoice := EolLF | EolCRLF | EolNone.

Definition eol_bytes (e : eolchoice) : bytes :=
  match e with EolLF => [10] | EolCRLF => [13; 10] | EolNone => [] end.

Definition md_write_eol (target : bytes) (paths : list bytes) (sep : sepchoice) (eol : eolchoice) : bytes :=
  md_escape target ++ [58] ++ flat_map (fun p => sep_bytes sep ++ md_escape p) paths ++ eol_bytes eol.

(* a file with several rules *)
Definition md_write_rules (rules : list (bytes * list bytes * sepchoice)) : bytes :=
  flat_map (fun r => md_write (fst (fst r)) (snd (fst r)) (snd r)) rules.

(* ---------- well-formedness of what the writer is given (exactness: see the counter-examples in
   MakeDepsProofs.v) ---------- *)

(* bytes that can occur in a dependency path: all but NUL, TAB, LF, CR *)
Definition path_byte_ok (c : byte) : bool :=
  negb ((c =? 0) || (c =? 9) || (c =? 10) || (c =? 13)).

Definition wf_path (p : bytes) : bool :=
  match p with
  | [] => false
  | c :: _ => negb (c =? 58) && forallb path_byte_ok p
  end.

(* a target additionally contains no ':' anywhere (the first ':' ends the rule name) *)
Definition wf_target (t : bytes) : bool :=
  match t with
  | [] => false
  | _ :: _ => forallb (fun c => path_byte_ok c && negb (c =? 58)) t
  end.
