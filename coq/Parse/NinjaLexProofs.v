(* Proofs about the Ninja lexer model (Parse/NinjaLex.v): totality (no OutOfFuel), progress, tiling of the input by
   the tokens, EndOfFile only at the end, bytes >= 128 are ordinary, keywords are whole words.
   The exported statements are listed in the comment block at the end of the file. *)
From LLB Require Import Base.Bytes Base.BytesFacts Parse.NinjaLex.
Local Open Scope N_scope.

(* ---------- character classes ---------- *)

Lemma nn_space_not_nl b : is_nn_space b = true -> is_nl b = false.
Proof.
  unfold is_nn_space, is_nl. intros H.
  apply andb_true_iff in H. destruct H as [H H3]. apply andb_true_iff in H. destruct H as [_ H2].
  apply negb_true_iff in H2. apply negb_true_iff in H3. rewrite H2, H3. reflexivity.
Qed.

Lemma nl_cases b : is_nl b = true -> b = 10 \/ b = 13.
Proof.
  unfold is_nl. intros H. apply orb_true_iff in H. destruct H as [H|H]; apply N.eqb_eq in H; auto.
Qed.

Lemma ident_not_nl b : is_ident_char b = true -> is_nl b = false.
Proof.
  intros H. destruct (is_nl b) eqn:E; [|reflexivity].
  apply nl_cases in E. destruct E as [->| ->]; vm_compute in H; discriminate.
Qed.

Lemma space_split b : is_space b = true -> is_nn_space b = true \/ is_nl b = true.
Proof.
  unfold is_nn_space, is_nl. intros H. rewrite H.
  destruct (b =? 10); [right; reflexivity|]. destruct (b =? 13); [right; reflexivity|]. left. reflexivity.
Qed.

Lemma nn_space_is_space b : is_nn_space b = true -> is_space b = true.
Proof. unfold is_nn_space. intros H. apply andb_true_iff in H. destruct H as [H _]. apply andb_true_iff in H. tauto. Qed.

Lemma high_not_space b : 128 <= b -> is_space b = false.
Proof.
  intros H. unfold is_space. apply orb_false_iff. split.
  - apply andb_false_iff. right. apply N.leb_gt. lia.
  - apply N.eqb_neq. lia.
Qed.

Lemma high_not_nn_space b : 128 <= b -> is_nn_space b = false.
Proof. intros H. unfold is_nn_space. rewrite (high_not_space b H). reflexivity. Qed.

Lemma high_not_nl b : 128 <= b -> is_nl b = false.
Proof. intros H. unfold is_nl. apply orb_false_iff. split; apply N.eqb_neq; lia. Qed.

Lemma high_not_ident b : 128 <= b -> is_ident_char b = false.
Proof.
  intros H. unfold is_ident_char.
  repeat (apply orb_false_iff; split); try (apply N.eqb_neq; lia);
    apply andb_false_iff; right; apply N.leb_gt; lia.
Qed.

Lemma high_not_simple_ident b : 128 <= b -> is_simple_ident_char b = false.
Proof.
  intros H. unfold is_simple_ident_char.
  repeat (apply orb_false_iff; split); try (apply N.eqb_neq; lia);
    apply andb_false_iff; right; apply N.leb_gt; lia.
Qed.

(* ---------- advancing over bytes ---------- *)

(* s' is s advanced over exactly the bytes c *)
Definition adv (s s' : lstate) (c : bytes) : Prop :=
  l_rest s = c ++ l_rest s' /\ l_pos s' = (l_pos s + length c)%nat.

Lemma adv_refl s : adv s s [].
Proof. split; [reflexivity | cbn; lia]. Qed.

Lemma adv_trans s1 s2 s3 c1 c2 : adv s1 s2 c1 -> adv s2 s3 c2 -> adv s1 s3 (c1 ++ c2).
Proof.
  intros [H1 P1] [H2 P2]. split.
  - rewrite H1, H2. rewrite app_assoc. reflexivity.
  - rewrite P2, P1, app_length. lia.
Qed.

Lemma adv_len s s' c : adv s s' c -> length (l_rest s) = (length c + length (l_rest s'))%nat.
Proof. intros [H _]. rewrite H. apply app_length. Qed.

(* the bytes one getNextChar() consumes from the remaining suffix r *)
Definition getc_chunk (r : bytes) : bytes :=
  match r with
  | [] => []
  | b :: r' =>
    if is_nl b then
      match r' with
      | c :: _ => if c =? 23 - b then [b; c] else [b]
      | [] => [b]
      end
    else [b]
  end.

Lemma skipc_adv s : adv s (skipc s) (getc_chunk (l_rest s)).
Proof.
  destruct s as [rest pos line col]. unfold skipc, getc, getc_chunk. cbn [l_rest l_pos l_line l_col].
  destruct rest as [|b r]; [apply adv_refl|].
  destruct (is_nl b).
  - destruct r as [|c r2].
    + cbn [snd]. split; cbn; [reflexivity | lia].
    + destruct (c =? 23 - b); cbn [snd]; split; cbn; try reflexivity; lia.
  - cbn [snd]. split; cbn; [reflexivity | lia].
Qed.

Lemma skipc_plain b r pos line col :
  is_nl b = false -> skipc (mkL (b :: r) pos line col) = mkL r (S pos) line (col + 1).
Proof. intros H. unfold skipc, getc. cbn [l_rest l_pos l_line l_col]. rewrite H. reflexivity. Qed.

Lemma getc_plain b r pos line col :
  is_nl b = false -> getc (mkL (b :: r) pos line col) = (Some b, mkL r (S pos) line (col + 1)).
Proof. intros H. unfold getc. cbn [l_rest l_pos l_line l_col]. rewrite H. reflexivity. Qed.

Lemma getc_chunk_nonempty b r : getc_chunk (b :: r) <> [].
Proof.
  unfold getc_chunk. destruct (is_nl b); [|discriminate].
  destruct r as [|c r2]; [discriminate|]. destruct (c =? 23 - b); discriminate.
Qed.

Lemma getc_chunk_nl b r : is_nl b = true ->
  getc_chunk (b :: r) = [10] \/ getc_chunk (b :: r) = [13] \/ getc_chunk (b :: r) = [10; 13] \/ getc_chunk (b :: r) = [13; 10].
Proof.
  intros H. unfold getc_chunk. rewrite H. apply nl_cases in H.
  destruct r as [|c r2]; [destruct H as [->| ->]; auto|].
  destruct (N.eqb_spec c (23 - b)) as [E|E].
  - destruct H as [->| ->]; change (23 - 10) with 13 in E; change (23 - 13) with 10 in E; subst c; auto.
  - destruct H as [->| ->]; auto.
Qed.

(* the value returned by getNextChar is '\n' exactly when the byte at the cursor is a newline character *)
Lemma getc_value s : fst (getc s) = match l_rest s with
                                    | [] => None
                                    | b :: _ => if is_nl b then Some 10 else Some b
                                    end.
Proof.
  unfold getc. destruct (l_rest s) as [|b r]; [reflexivity|].
  destruct (is_nl b); [|reflexivity].
  destruct r as [|c r2]; [reflexivity|]. destruct (c =? 23 - b); reflexivity.
Qed.

(* r is empty or its first byte satisfies f *)
Definition ends_with (f : byte -> bool) (r : bytes) : Prop :=
  match r with [] => True | b :: _ => f b = true end.

(* ---------- the simple loops ---------- *)

Lemma nn_space_loop_spec fuel : forall s, (length (l_rest s) < fuel)%nat ->
  exists s' c, nn_space_loop fuel s = Ok s' /\ adv s s' c /\
               Forall (fun b => is_nn_space b = true) c /\ ends_with (fun b => negb (is_nn_space b)) (l_rest s').
Proof.
  induction fuel as [|f IH]; intros s H; [lia|].
  destruct s as [rest pos line col]. destruct rest as [|b r]; cbn [nn_space_loop peek l_rest opt_test].
  - eexists. exists []. split; [reflexivity|]. split; [apply adv_refl|]. split; [constructor | exact I].
  - destruct (is_nn_space b) eqn:Eb.
    + rewrite skipc_plain by (apply nn_space_not_nl; exact Eb).
      destruct (IH (mkL r (S pos) line (col + 1))) as [s' [c [E [[A1 A2] [Hc He]]]]]; [cbn in *; lia|].
      exists s', (b :: c). split; [exact E|]. cbn [l_rest l_pos] in *. split.
      * split; cbn; [rewrite A1; reflexivity | lia].
      * split; [constructor; assumption | exact He].
    + eexists. exists []. split; [reflexivity|]. split; [apply adv_refl|]. split; [constructor|].
      cbn. rewrite Eb. reflexivity.
Qed.

Lemma ident_loop_spec fuel : forall s, (length (l_rest s) < fuel)%nat ->
  exists s' c, ident_loop fuel s = Ok s' /\ adv s s' c /\
               Forall (fun b => is_ident_char b = true) c /\ ends_with (fun b => negb (is_ident_char b)) (l_rest s').
Proof.
  induction fuel as [|f IH]; intros s H; [lia|].
  destruct s as [rest pos line col]. destruct rest as [|b r]; cbn [ident_loop peek l_rest opt_test].
  - eexists. exists []. split; [reflexivity|]. split; [apply adv_refl|]. split; [constructor | exact I].
  - destruct (is_ident_char b) eqn:Eb.
    + rewrite skipc_plain by (apply ident_not_nl; exact Eb).
      destruct (IH (mkL r (S pos) line (col + 1))) as [s' [c [E [[A1 A2] [Hc He]]]]]; [cbn in *; lia|].
      exists s', (b :: c). split; [exact E|]. cbn [l_rest l_pos] in *. split.
      * split; cbn; [rewrite A1; reflexivity | lia].
      * split; [constructor; assumption | exact He].
    + eexists. exists []. split; [reflexivity|]. split; [apply adv_refl|]. split; [constructor|].
      cbn. rewrite Eb. reflexivity.
Qed.

Lemma skip_to_eol_spec fuel : forall s, (length (l_rest s) < fuel)%nat ->
  exists s' c, skip_to_eol fuel s = Ok s' /\ adv s s' c /\
               Forall (fun b => is_nl b = false) c /\ ends_with is_nl (l_rest s').
Proof.
  induction fuel as [|f IH]; intros s H; [lia|].
  destruct s as [rest pos line col]. destruct rest as [|b r]; cbn [skip_to_eol peek l_rest].
  - eexists. exists []. split; [reflexivity|]. split; [apply adv_refl|]. split; [constructor | exact I].
  - destruct (is_nl b) eqn:Eb.
    + eexists. exists []. split; [reflexivity|]. split; [apply adv_refl|]. split; [constructor|].
      cbn. exact Eb.
    + rewrite skipc_plain by exact Eb.
      destruct (IH (mkL r (S pos) line (col + 1))) as [s' [c [E [[A1 A2] [Hc He]]]]]; [cbn in *; lia|].
      exists s', (b :: c). split; [exact E|]. cbn [l_rest l_pos] in *. split.
      * split; cbn; [rewrite A1; reflexivity | lia].
      * split; [constructor; assumption | exact He].
Qed.

(* ---------- the string loops ---------- *)

Definition path_stop (b : byte) : bool := is_space b || (b =? 58) || (b =? 124).

Lemma dollar_not_nl : is_nl 36 = false.
Proof. reflexivity. Qed.

Lemma var_loop_spec fuel : forall s, (length (l_rest s) < fuel)%nat ->
  exists s' c, var_loop fuel s = Ok s' /\ adv s s' c /\ ends_with is_nl (l_rest s') /\
               (forall b r, l_rest s = b :: r -> is_nl b = false -> c <> []).
Proof.
  induction fuel as [|f IH]; intros s H; [lia|].
  destruct s as [rest pos line col]. destruct rest as [|b r]; cbn [var_loop peek l_rest].
  - eexists. exists []. split; [reflexivity|]. split; [apply adv_refl|]. split; [exact I|].
    intros b r Hb. discriminate.
  - destruct (N.eqb_spec b 36) as [->|Hd].
    + rewrite (skipc_plain 36) by reflexivity.
      pose proof (skipc_adv (mkL r (S pos) line (col + 1))) as A. cbn [l_rest] in A.
      destruct (IH (skipc (mkL r (S pos) line (col + 1)))) as [s' [c [E [A' [He _]]]]].
      { apply adv_len in A. cbn [l_rest length] in *. lia. }
      exists s', (36 :: getc_chunk r ++ c). split; [exact E|]. split.
      * pose proof (adv_trans _ _ _ _ _ A A') as [T1 T2]. cbn [l_rest l_pos] in *. split.
        -- cbn [app l_rest]. f_equal. exact T1.
        -- rewrite T2. cbn. lia.
      * split; [exact He | intros; discriminate].
    + destruct (is_nl b) eqn:Eb.
      * eexists. exists []. split; [reflexivity|]. split; [apply adv_refl|]. split; [cbn; exact Eb|].
        intros b' r' Hb Hn. cbn in Hb. inversion Hb; subst. congruence.
      * rewrite skipc_plain by exact Eb.
        destruct (IH (mkL r (S pos) line (col + 1))) as [s' [c [E [[A1 A2] [He _]]]]]; [cbn in *; lia|].
        exists s', (b :: c). split; [exact E|]. cbn [l_rest l_pos] in *. split.
        -- split; cbn; [rewrite A1; reflexivity | lia].
        -- split; [exact He | intros; discriminate].
Qed.

Lemma path_loop_spec fuel : forall s, (length (l_rest s) < fuel)%nat ->
  exists s' c, path_loop fuel s = Ok s' /\ adv s s' c /\ ends_with path_stop (l_rest s') /\
               (forall b r, l_rest s = b :: r -> b = 36 \/ path_stop b = false -> c <> []).
Proof.
  induction fuel as [|f IH]; intros s H; [lia|].
  destruct s as [rest pos line col]. destruct rest as [|b r]; cbn [path_loop peek l_rest].
  - eexists. exists []. split; [reflexivity|]. split; [apply adv_refl|]. split; [exact I|].
    intros b r Hb. discriminate.
  - destruct (N.eqb_spec b 36) as [->|Hd].
    + rewrite (skipc_plain 36) by reflexivity.
      set (s1 := mkL r (S pos) line (col + 1)).
      pose proof (skipc_adv s1) as A. unfold skipc in A.
      destruct (getc s1) as [c2 s2] eqn:Eg. cbn [snd] in A.
      assert (L2 : (length (l_rest s2) < f)%nat).
      { apply adv_len in A. subst s1. cbn [l_rest length] in *. lia. }
      destruct (opt_test (N.eqb 10) c2).
      * destruct (nn_space_loop_spec f s2 L2) as [s3 [c3 [E3 [A3 _]]]]. rewrite E3.
        destruct (IH s3) as [s' [c [E [A' [He _]]]]].
        { apply adv_len in A3. lia. }
        exists s', (36 :: (getc_chunk (l_rest s1) ++ c3) ++ c). split; [exact E|]. split.
        -- pose proof (adv_trans _ _ _ _ _ (adv_trans _ _ _ _ _ A A3) A') as [T1 T2].
           subst s1. cbn [l_rest l_pos] in *. split.
           ++ cbn [app l_rest]. f_equal. exact T1.
           ++ rewrite T2. cbn. lia.
        -- split; [exact He | intros; discriminate].
      * destruct (IH s2 L2) as [s' [c [E [A' [He _]]]]].
        exists s', (36 :: getc_chunk (l_rest s1) ++ c). split; [exact E|]. split.
        -- pose proof (adv_trans _ _ _ _ _ A A') as [T1 T2].
           subst s1. cbn [l_rest l_pos] in *. split.
           ++ cbn [app l_rest]. f_equal. exact T1.
           ++ rewrite T2. cbn. lia.
        -- split; [exact He | intros; discriminate].
    + destruct (is_space b || (b =? 58) || (b =? 124)) eqn:Es.
      * eexists. exists []. split; [reflexivity|]. split; [apply adv_refl|]. split; [cbn; exact Es|].
        intros b' r' Hb Hn. cbn in Hb. inversion Hb; subst. unfold path_stop in Hn. destruct Hn; congruence.
      * assert (Eb : is_nl b = false).
        { destruct (is_nl b) eqn:En; [|reflexivity]. apply nl_cases in En.
          destruct En as [->| ->]; vm_compute in Es; discriminate. }
        rewrite skipc_plain by exact Eb.
        destruct (IH (mkL r (S pos) line (col + 1))) as [s' [c [E [[A1 A2] [He _]]]]]; [cbn in *; lia|].
        exists s', (b :: c). split; [exact E|]. cbn [l_rest l_pos] in *. split.
        -- split; cbn; [rewrite A1; reflexivity | lia].
        -- split; [exact He | intros; discriminate].
Qed.

(* ---------- the whitespace / continuation loop ---------- *)

(* The bytes the lexer may skip between two tokens: any sequence of
     - one non-newline space (9, 11, 12, 32),
     - "$\n", "$\n\r" (a '\r' directly after the '\n' is folded into it), "$\r\n".     *)
Inductive gap_units : bytes -> Prop :=
| gu_nil : gap_units []
| gu_space b r : is_nn_space b = true -> gap_units r -> gap_units (b :: r)
| gu_lf r : gap_units r -> gap_units (36 :: 10 :: r)
| gu_lfcr r : gap_units r -> gap_units (36 :: 10 :: 13 :: r)
| gu_crlf r : gap_units r -> gap_units (36 :: 13 :: 10 :: r).

Lemma ws_escape_chunk c1 r2 : newline_escape_ahead (36 :: c1 :: r2) = true ->
  getc_chunk (c1 :: r2) = [10] \/ getc_chunk (c1 :: r2) = [10; 13] \/ getc_chunk (c1 :: r2) = [13; 10].
Proof.
  cbn [newline_escape_ahead]. intros H. apply orb_true_iff in H. destruct H as [H|H].
  - apply N.eqb_eq in H. subst c1. unfold getc_chunk. change (is_nl 10) with true. cbv iota.
    destruct r2 as [|d r3]; [auto|]. change (23 - 10) with 13.
    destruct (N.eqb_spec d 13) as [->|]; auto.
  - apply andb_true_iff in H. destruct H as [H1 H2]. apply N.eqb_eq in H1. subst c1.
    destruct r2 as [|d r3]; [discriminate|]. apply N.eqb_eq in H2. subst d.
    right. right. reflexivity.
Qed.

Lemma ws_escape_units c1 r2 c : newline_escape_ahead (36 :: c1 :: r2) = true -> gap_units c ->
  gap_units (36 :: getc_chunk (c1 :: r2) ++ c).
Proof.
  intros Ea Hg.
  destruct (ws_escape_chunk c1 r2 Ea) as [Ec|[Ec|Ec]]; rewrite Ec; cbn [app];
    [apply gu_lf | apply gu_lfcr | apply gu_crlf]; exact Hg.
Qed.

Lemma ws_loop_spec fuel : forall s, (length (l_rest s) < fuel)%nat ->
  exists s' c, ws_loop fuel s = Ok s' /\ adv s s' c /\ gap_units c /\
               ends_with (fun b => negb (is_nn_space b)) (l_rest s').
Proof.
  induction fuel as [|f IH]; intros s H; [lia|].
  destruct s as [rest pos line col]. destruct rest as [|b r]; cbn [ws_loop peek l_rest l_col].
  - eexists. exists []. split; [reflexivity|]. split; [apply adv_refl|]. split; [constructor | exact I].
  - destruct ((b =? 36) && negb (col =? 0)) eqn:Ed.
    + apply andb_true_iff in Ed. destruct Ed as [Ed _]. apply N.eqb_eq in Ed. subst b.
      destruct (newline_escape_ahead _) eqn:Ea.
      * rewrite (skipc_plain 36) by reflexivity.
        destruct r as [|c1 r2]; [discriminate|].
        pose proof (skipc_adv (mkL (c1 :: r2) (S pos) line (col + 1))) as A. cbn [l_rest] in A.
        destruct (IH (skipc (mkL (c1 :: r2) (S pos) line (col + 1)))) as [s' [c [E [A' [Hg He]]]]].
        { apply adv_len in A. cbn [l_rest length] in *. lia. }
        exists s', (36 :: getc_chunk (c1 :: r2) ++ c). split; [exact E|]. split.
        -- pose proof (adv_trans _ _ _ _ _ A A') as [T1 T2]. cbn [l_rest l_pos] in *. split.
           ++ cbn [app l_rest]. f_equal. exact T1.
           ++ rewrite T2. cbn [length l_pos]. lia.
        -- split; [|exact He]. apply ws_escape_units; assumption.
      * eexists. exists []. split; [reflexivity|]. split; [apply adv_refl|]. split; [constructor|].
        cbn. reflexivity.
    + destruct (is_nn_space b) eqn:Eb.
      * rewrite skipc_plain by (apply nn_space_not_nl; exact Eb).
        destruct (IH (mkL r (S pos) line (col + 1))) as [s' [c [E [[A1 A2] [Hg He]]]]]; [cbn in *; lia|].
        exists s', (b :: c). split; [exact E|]. cbn [l_rest l_pos] in *. split.
        -- split; cbn; [rewrite A1; reflexivity | lia].
        -- split; [apply gu_space; assumption | exact He].
      * eexists. exists []. split; [reflexivity|]. split; [apply adv_refl|]. split; [constructor|].
        cbn. rewrite Eb. reflexivity.
Qed.

Lemma gap_units_app a b : gap_units a -> gap_units b -> gap_units (a ++ b).
Proof.
  intros Ha Hb. induction Ha; cbn [app]; [exact Hb | apply gu_space; assumption | apply gu_lf; assumption
                                          | apply gu_lfcr; assumption | apply gu_crlf; assumption].
Qed.

(* the first byte of a gap is a non-newline space or '$' *)
Lemma gap_units_head b r : gap_units (b :: r) -> is_nn_space b = true \/ b = 36.
Proof. intros H. inversion H; subst; auto. Qed.

(* ---------- one lex call: the master specification ---------- *)

Lemma token_bytes_adv s0 s1 body : adv s0 s1 body -> token_bytes s0 s1 = body.
Proof.
  intros [H1 H2]. unfold token_bytes. rewrite H1, H2.
  replace (l_pos s0 + length body - l_pos s0)%nat with (length body + 0)%nat by lia.
  rewrite firstn_app_2. cbn. apply app_nil_r.
Qed.

Definition regular_mode (m : mode) : Prop := m = MNone \/ m = MIdentifierSpecific.

(* what is known about a token of kind k with bytes [body], followed in the buffer by [rest'], lexed in mode m *)
Definition kind_facts (m : mode) (k : kind) (body rest' : bytes) : Prop :=
  match k with
  | TkEndOfFile => body = [] /\ rest' = []
  | TkIndentation =>
    body <> [] /\ Forall (fun b => is_nn_space b = true) body /\ ends_with (fun b => negb (is_nn_space b)) rest'
  | TkNewline => body = [10] \/ body = [13] \/ body = [10; 13] \/ body = [13; 10]
  | TkString =>
    body <> [] /\ ((m = MVariableString /\ ends_with is_nl rest') \/ (m = MPathString /\ ends_with path_stop rest'))
  | TkColon => body = [58] /\ m <> MVariableString
  | TkEquals => body = [61] /\ regular_mode m
  | TkComment =>
    exists c, body = 35 :: c /\ Forall (fun b => is_nl b = false) c /\ ends_with is_nl rest' /\ regular_mode m
  | TkPipe => body = [124] /\ ends_with (fun b => negb (b =? 124)) rest' /\ m <> MVariableString
  | TkPipePipe => body = [124; 124] /\ m <> MVariableString
  | TkUnknown =>
    exists b, body = [b] /\ is_ident_char b = false /\ is_nl b = false /\ is_nn_space b = false /\
              b <> 58 /\ b <> 61 /\ b <> 35 /\ b <> 124 /\ regular_mode m
  | _ => (* Identifier and the six keyword kinds *)
    body <> [] /\ Forall (fun b => is_ident_char b = true) body /\
    ends_with (fun b => negb (is_ident_char b)) rest' /\ regular_mode m /\
    k = match m with MIdentifierSpecific => TkIdentifier | _ => ident_kind body end
  end.

Definition is_identlike (k : kind) : bool := match k with TkIdentifier => true | _ => is_keyword k end.

Lemma ident_kind_identlike w : is_identlike (ident_kind w) = true.
Proof.
  unfold ident_kind.
  destruct (length w) as [|[|[|[|[|[|[|[|[|n]]]]]]]]]; try reflexivity.
  - destruct (bytes_eqb w kw_rule); [reflexivity|]. destruct (bytes_eqb w kw_pool); reflexivity.
  - destruct (bytes_eqb w kw_build); reflexivity.
  - destruct (bytes_eqb w kw_default); [reflexivity|]. destruct (bytes_eqb w kw_include); reflexivity.
  - destruct (bytes_eqb w kw_subninja); reflexivity.
Qed.

Lemma identlike_facts m k body rest' : is_identlike k = true ->
  (body <> [] /\ Forall (fun b => is_ident_char b = true) body /\
   ends_with (fun b => negb (is_ident_char b)) rest' /\ regular_mode m /\
   k = match m with MIdentifierSpecific => TkIdentifier | _ => ident_kind body end) ->
  kind_facts m k body rest'.
Proof. intros Hk H. destruct k; try discriminate Hk; exact H. Qed.

Lemma lex_regular_spec m fuel s0 b r :
  l_rest s0 = b :: r -> is_nl b = false -> is_nn_space b = false -> (length (l_rest s0) < fuel)%nat ->
  m <> MVariableString -> (m = MPathString -> b = 58 \/ b = 124) ->
  exists k s1 body, lex_regular m fuel s0 b = Ok (mk_token k s0 s1, s1) /\ adv s0 s1 body /\
                    kind_facts m k body (l_rest s1) /\ k <> TkEndOfFile /\ body <> [].
Proof.
  intros Hr Hnl Hsp Hf Hv Hp.
  assert (Hreg : b <> 58 -> b <> 124 -> regular_mode m).
  { intros H1 H2. destruct m; [left; reflexivity | | congruence | right; reflexivity].
    destruct (Hp eq_refl); congruence. }
  destruct s0 as [rest pos line col]. cbn [l_rest] in Hr. subst rest.
  unfold lex_regular. rewrite skipc_plain by exact Hnl.
  set (s0 := mkL (b :: r) pos line col). set (s1 := mkL r (S pos) line (col + 1)).
  assert (A01 : adv s0 s1 [b]). { split; cbn; [reflexivity | lia]. }
  destruct (N.eqb_spec b 58) as [E58|N58].
  { exists TkColon, s1, [b]. split; [reflexivity|]. split; [exact A01|]. subst b.
    split; [split; [reflexivity | exact Hv]|]. split; discriminate. }
  destruct (N.eqb_spec b 61) as [E61|N61].
  { exists TkEquals, s1, [b]. split; [reflexivity|]. split; [exact A01|]. subst b.
    split; [split; [reflexivity | apply Hreg; lia]|]. split; discriminate. }
  destruct (N.eqb_spec b 35) as [E35|N35].
  { destruct (skip_to_eol_spec fuel s1) as [s2 [c [E [A [Hc He]]]]]; [cbn in *; lia|].
    rewrite E. exists TkComment, s2, ([b] ++ c). split; [reflexivity|]. split; [exact (adv_trans _ _ _ _ _ A01 A)|].
    subst b. split; [|split; discriminate].
    exists c. split; [reflexivity|]. split; [exact Hc|]. split; [exact He | apply Hreg; lia]. }
  destruct (N.eqb_spec b 124) as [E124|N124].
  { subst b. subst s1. unfold peek. cbn [l_rest opt_test]. destruct r as [|d r2].
    - cbn [opt_test]. exists TkPipe, (mkL [] (S pos) line (col + 1)), [124].
      split; [reflexivity|]. split; [exact A01|].
      split; [split; [reflexivity | split; [exact I | exact Hv]]|]. split; discriminate.
    - cbn [opt_test]. destruct (N.eqb_spec 124 d) as [Ed|Nd].
      + subst d. rewrite (skipc_plain 124) by reflexivity.
        exists TkPipePipe, (mkL r2 (S (S pos)) line (col + 1 + 1)), [124; 124].
        split; [reflexivity|]. split; [split; cbn; [reflexivity | lia]|].
        split; [split; [reflexivity | exact Hv]|]. split; discriminate.
      + exists TkPipe, (mkL (d :: r2) (S pos) line (col + 1)), [124].
        split; [reflexivity|]. split; [exact A01|].
        split; [|split; discriminate]. split; [reflexivity|]. split; [|exact Hv].
        cbn. apply negb_true_iff. apply N.eqb_neq. congruence. }
  destruct (is_ident_char b) eqn:Eid.
  { unfold lex_identifier.
    destruct (ident_loop_spec fuel s1) as [s2 [c [E [A [Hc He]]]]]; [cbn in *; lia|].
    rewrite E. pose proof (adv_trans _ _ _ _ _ A01 A) as A02.
    assert (Hb : Forall (fun x => is_ident_char x = true) ([b] ++ c)).
    { cbn. constructor; assumption. }
    assert (Hne : [b] ++ c <> []) by discriminate.
    destruct m.
    - exists (ident_kind (token_bytes s0 s2)), s2, ([b] ++ c). split; [reflexivity|]. split; [exact A02|].
      rewrite (token_bytes_adv _ _ _ A02).
      split; [|split; [|exact Hne]].
      + apply identlike_facts; [apply ident_kind_identlike|].
        split; [exact Hne|]. split; [exact Hb|]. split; [exact He|]. split; [left; reflexivity | reflexivity].
      + intros Hk. pose proof (ident_kind_identlike ([b] ++ c)) as Hi. rewrite Hk in Hi. discriminate.
    - exfalso. destruct (Hp eq_refl); congruence.
    - congruence.
    - exists TkIdentifier, s2, ([b] ++ c). split; [reflexivity|]. split; [exact A02|].
      split; [|split; [discriminate | exact Hne]].
      cbn. split; [exact Hne|]. split; [exact Hb|]. split; [exact He|]. split; [right; reflexivity | reflexivity]. }
  exists TkUnknown, s1, [b]. split; [reflexivity|]. split; [exact A01|].
  split; [|split; discriminate].
  exists b. split; [reflexivity|]. split; [exact Eid|]. split; [exact Hnl|]. split; [exact Hsp|].
  split; [exact N58|]. split; [exact N61|]. split; [exact N35|]. split; [exact N124|]. apply Hreg; assumption.
Qed.

(* Every lex call succeeds; it skips a gap, then produces a token whose bytes are [body]. *)
Lemma lex_spec m s :
  exists k s0 s1 gap body,
    lex m s = Ok (mk_token k s0 s1, s1) /\ adv s s0 gap /\ adv s0 s1 body /\ gap_units gap /\
    kind_facts m k body (l_rest s1) /\ (k <> TkEndOfFile -> body <> []).
Proof.
  unfold lex.
  destruct (opt_test is_nn_space (peek s) && (l_col s =? 0)) eqn:Eind.
  - (* indentation token *)
    apply andb_true_iff in Eind. destruct Eind as [Esp _].
    destruct s as [rest pos line col]. destruct rest as [|b r]; [discriminate Esp|].
    cbn [peek l_rest opt_test] in Esp.
    rewrite skipc_plain by (apply nn_space_not_nl; exact Esp).
    cbn [l_rest].
    destruct (nn_space_loop_spec (S (length (b :: r))) (mkL r (S pos) line (col + 1))) as [s1 [c [E [A [Hc He]]]]];
      [cbn; lia|].
    rewrite E. exists TkIndentation, (mkL (b :: r) pos line col), s1, [], ([b] ++ c).
    split; [reflexivity|]. split; [apply adv_refl|]. split.
    { apply (adv_trans _ (mkL r (S pos) line (col + 1))); [split; cbn; [reflexivity | lia] | exact A]. }
    split; [constructor|]. split; [|intros _; discriminate].
    cbn. split; [discriminate|]. split; [constructor; assumption | exact He].
  - destruct (ws_loop_spec (S (length (l_rest s))) s) as [s0 [gap [E [A [Hg He]]]]]; [lia|].
    rewrite E.
    assert (Hf : (length (l_rest s0) < S (length (l_rest s)))%nat). { apply adv_len in A. lia. }
    remember (S (length (l_rest s))) as fuel eqn:Efuel. clear Efuel.
    destruct (l_rest s0) as [|b r] eqn:Er0; unfold peek; rewrite Er0.
    + (* end of file *)
      exists TkEndOfFile, s0, s0, gap, []. split; [reflexivity|]. split; [exact A|]. split; [apply adv_refl|].
      split; [exact Hg|]. split; [|congruence]. cbn. split; [reflexivity | exact Er0].
    + destruct (is_nl b) eqn:Enl.
      * (* newline token *)
        exists TkNewline, s0, (skipc s0), gap, (getc_chunk (l_rest s0)).
        split; [reflexivity|]. split; [exact A|]. split; [apply skipc_adv|]. split; [exact Hg|].
        rewrite Er0. split; [|intros _; apply getc_chunk_nonempty].
        cbn [kind_facts]. apply getc_chunk_nl. exact Enl.
      * assert (Hsp : is_nn_space b = false).
        { cbn in He. apply negb_true_iff in He. exact He. }
        assert (Hreg : forall m', m' <> MVariableString -> (m' = MPathString -> b = 58 \/ b = 124) ->
                  exists k s0' s1 gap' body,
                    lex_regular m' fuel s0 b = Ok (mk_token k s0' s1, s1) /\ adv s s0' gap' /\ adv s0' s1 body /\
                    gap_units gap' /\ kind_facts m' k body (l_rest s1) /\ (k <> TkEndOfFile -> body <> [])).
        { intros m' Hv Hp.
          destruct (lex_regular_spec m' fuel s0 b r Er0 Enl Hsp) as [k [s1 [body [E1 [A1 [Hk [_ Hne]]]]]]];
            [rewrite Er0; exact Hf | exact Hv | exact Hp |].
          exists k, s0, s1, gap, body. split; [exact E1|]. split; [exact A|]. split; [exact A1|].
          split; [exact Hg|]. split; [exact Hk | intros _; exact Hne]. }
        destruct m.
        -- apply Hreg; congruence.
        -- destruct (negb (b =? 58) && negb (b =? 124)) eqn:Ep.
           ++ destruct (path_loop_spec fuel s0) as [s1 [body [E1 [A1 [He1 Hne]]]]]; [rewrite Er0; exact Hf|].
              rewrite E1. exists TkString, s0, s1, gap, body.
              split; [reflexivity|]. split; [exact A|]. split; [exact A1|]. split; [exact Hg|].
              assert (Hb : body <> []).
              { apply (Hne b r Er0). right. unfold path_stop.
                apply andb_true_iff in Ep. destruct Ep as [E58 E124].
                apply negb_true_iff in E58. apply negb_true_iff in E124. rewrite E58, E124.
                destruct (is_space b) eqn:Es; [|reflexivity].
                apply space_split in Es. destruct Es; congruence. }
              split; [|intros _; exact Hb].
              cbn. split; [exact Hb|]. right. split; [reflexivity | exact He1].
           ++ apply Hreg; [congruence|]. intros _.
              apply andb_false_iff in Ep. destruct Ep as [Ep|Ep]; apply negb_false_iff in Ep; apply N.eqb_eq in Ep; auto.
        -- destruct (var_loop_spec fuel s0) as [s1 [body [E1 [A1 [He1 Hne]]]]]; [rewrite Er0; exact Hf|].
           rewrite E1. exists TkString, s0, s1, gap, body.
           split; [reflexivity|]. split; [exact A|]. split; [exact A1|]. split; [exact Hg|].
           assert (Hb : body <> []) by (apply (Hne b r Er0 Enl)).
           split; [|intros _; exact Hb].
           cbn. split; [exact Hb|]. left. split; [reflexivity | exact He1].
        -- apply Hreg; congruence.
Qed.

(* ====================================================================================================== *)
(* ---------- exported theorems: one lex call ---------- *)

(* lex never runs out of fuel *)
Theorem lex_total m s : exists t s', lex m s = Ok (t, s').
Proof.
  destruct (lex_spec m s) as [k [s0 [s1 [gap [body [E _]]]]]]. exists (mk_token k s0 s1), s1. exact E.
Qed.

(* data[a .. b) *)
Definition slice (data : bytes) (a b : nat) : bytes := firstn (b - a) (skipn a data).

Lemma skipn_app_exact (pre r : bytes) : skipn (length pre) (pre ++ r) = r.
Proof. rewrite skipn_app, skipn_all, Nat.sub_diag. reflexivity. Qed.

Lemma slice_app (pre mid post : bytes) : slice (pre ++ mid ++ post) (length pre) (length pre + length mid) = mid.
Proof.
  unfold slice. rewrite skipn_app_exact.
  replace (length pre + length mid - length pre)%nat with (length mid + 0)%nat by lia.
  rewrite firstn_app_2. cbn [firstn]. apply app_nil_r.
Qed.

Lemma slice_mid (a b c d : bytes) :
  slice (a ++ b ++ c ++ d) (length a + length b) (length a + length b + length c) = c.
Proof. rewrite app_assoc, <- app_length. apply slice_app. Qed.

(* the lexer state s is a cursor into the buffer [data]: the remaining suffix starts at offset l_pos s *)
Definition at_data (data : bytes) (s : lstate) : Prop :=
  exists pre, data = pre ++ l_rest s /\ l_pos s = length pre.

Lemma at_data_init data : at_data data (init data).
Proof. exists []. split; reflexivity. Qed.

Lemma at_data_length data s : at_data data s -> length data = (l_pos s + length (l_rest s))%nat.
Proof. intros [pre [H1 H2]]. rewrite H1, app_length, H2. reflexivity. Qed.

Lemma at_data_rest data s : at_data data s -> l_rest s = skipn (l_pos s) data.
Proof. intros [pre [H1 H2]]. rewrite H1, H2, skipn_app_exact. reflexivity. Qed.

(* what one successful lex call did, in terms of the remaining suffix *)
Lemma lex_call m s t s' : lex m s = Ok (t, s') ->
  exists gap body,
    l_rest s = gap ++ body ++ l_rest s' /\ gap_units gap /\
    tk_start t = (l_pos s + length gap)%nat /\ tk_len t = length body /\
    l_pos s' = (l_pos s + length gap + length body)%nat /\
    kind_facts m (tk_kind t) body (l_rest s') /\ (tk_kind t <> TkEndOfFile -> body <> []).
Proof.
  intros E. destruct (lex_spec m s) as [k [s0 [s1 [gap [body [E' [[G1 G2] [[B1 B2] [Hg [Hk Hne]]]]]]]]]].
  rewrite E' in E. inversion E; subst t s'. clear E.
  exists gap, body. unfold mk_token; cbn [tk_start tk_len tk_kind].
  split; [rewrite G1, B1; reflexivity|]. split; [exact Hg|]. split; [exact G2|].
  split; [lia|]. split; [lia|]. split; assumption.
Qed.

(* the bytes of token t and the bytes that follow it, read off the buffer *)
Definition token_slice (data : bytes) (t : token) : bytes := slice data (tk_start t) (tk_start t + tk_len t).
Definition token_after (data : bytes) (t : token) : bytes := skipn (tk_start t + tk_len t) data.

(* the full lexical description of token t (lexed in mode m) in terms of the buffer *)
Definition token_facts (data : bytes) (m : mode) (t : token) : Prop :=
  kind_facts m (tk_kind t) (token_slice data t) (token_after data t).

(* One lex call from any cursor into [data], in any mode. *)
Theorem lex_call_facts data m s t s' : at_data data s -> lex m s = Ok (t, s') ->
  at_data data s' /\ (l_pos s <= tk_start t)%nat /\ l_pos s' = (tk_start t + tk_len t)%nat /\
  (l_pos s' <= length data)%nat /\
  gap_units (slice data (l_pos s) (tk_start t)) /\ token_facts data m t.
Proof.
  intros [pre [D P]] E.
  destruct (lex_call m s t s' E) as [gap [body [Hr [Hg [Hs [Hl [Hp [Hk _]]]]]]]].
  assert (D' : data = pre ++ gap ++ body ++ l_rest s') by (rewrite D, Hr; reflexivity).
  split.
  { exists (pre ++ gap ++ body). split.
    - rewrite D'. rewrite <- !app_assoc. reflexivity.
    - rewrite Hp, P, !app_length. lia. }
  split; [lia|]. split; [lia|]. split.
  { rewrite D', !app_length. lia. }
  split.
  - rewrite Hs, P, D'. rewrite slice_app. exact Hg.
  - unfold token_facts, token_slice, token_after. rewrite Hs, Hl, P, D'. rewrite slice_mid.
    replace (length pre + length gap + length body)%nat with (length (pre ++ gap ++ body)) by (rewrite !app_length; lia).
    replace (pre ++ gap ++ body ++ l_rest s') with ((pre ++ gap ++ body) ++ l_rest s') by (rewrite <- !app_assoc; reflexivity).
    rewrite skipn_app_exact. exact Hk.
Qed.

(* lex_progress: a lex call either reports EndOfFile with the cursor at the very end of the buffer (and leaves the
   cursor there), or produces a non-empty token and moves the cursor strictly forward. *)
Theorem lex_progress data m s t s' : at_data data s -> lex m s = Ok (t, s') ->
  (tk_kind t = TkEndOfFile /\ tk_len t = 0%nat /\ tk_start t = length data /\ l_pos s' = length data /\ l_rest s' = []) \/
  (tk_kind t <> TkEndOfFile /\ (0 < tk_len t)%nat /\ (l_pos s < l_pos s')%nat /\ (l_pos s' <= length data)%nat).
Proof.
  intros A E. pose proof (at_data_length data s A) as L.
  destruct (lex_call m s t s' E) as [gap [body [Hr [Hg [Hs [Hl [Hp [Hk Hne]]]]]]]].
  rewrite Hr, !app_length in L.
  destruct (tk_kind t) eqn:K;
    try (right; split; [discriminate|]; assert (Hb : body <> []) by (apply Hne; discriminate);
         destruct body as [|b0 body']; [congruence|]; cbn [length] in *; lia).
  left. cbn in Hk. destruct Hk as [Hb Hre]. subst body. rewrite Hre in *. cbn [length] in *.
  split; [reflexivity|]. split; [exact Hl|]. split; [lia|]. split; [lia | reflexivity].
Qed.

(* end-of-file is reported only at the true end of the buffer, and exactly there *)
Theorem lex_eof_iff_at_end data m s t s' : at_data data s -> lex m s = Ok (t, s') ->
  (tk_kind t = TkEndOfFile <-> tk_start t = length data).
Proof.
  intros A E. destruct (lex_progress data m s t s' A E) as [[K [L [S _]]]|[K [L [P B]]]].
  - tauto.
  - split; [congruence|]. intros S.
    destruct (lex_call_facts data m s t s' A E) as [_ [_ [Q _]]]. lia.
Qed.

(* ---------- token streams ---------- *)

(* internal: the tokens [toks] were lexed in the modes [modes] from offset pos, where the remaining suffix is r;
   afterwards the cursor is at pos_e with remaining suffix r_e *)
Inductive stream_spec : list mode -> nat -> bytes -> list token -> nat -> bytes -> Prop :=
| ss_nil pos r : stream_spec [] pos r [] pos r
| ss_cons m ms pos gap body r' t ts pos_e r_e :
    gap_units gap -> tk_start t = (pos + length gap)%nat -> tk_len t = length body ->
    kind_facts m (tk_kind t) body r' -> (tk_kind t <> TkEndOfFile -> body <> []) ->
    stream_spec ms (pos + length gap + length body)%nat r' ts pos_e r_e ->
    stream_spec (m :: ms) pos (gap ++ body ++ r') (t :: ts) pos_e r_e.

Lemma lex_stream_from_spec modes : forall s, exists toks s_e,
  lex_stream_from modes s = Ok toks /\ stream_spec modes (l_pos s) (l_rest s) toks (l_pos s_e) (l_rest s_e).
Proof.
  induction modes as [|m ms IH]; intros s.
  - exists [], s. split; [reflexivity | constructor].
  - destruct (lex_total m s) as [t [s' E]].
    destruct (lex_call m s t s' E) as [gap [body [Hr [Hg [Hs [Hl [Hp [Hk Hne]]]]]]]].
    destruct (IH s') as [ts [s_e [E2 SS]]].
    exists (t :: ts), s_e. split.
    + cbn [lex_stream_from]. rewrite E, E2. reflexivity.
    + rewrite Hr. rewrite Hp in SS. econstructor; eassumption.
Qed.

(* Tokens in order: each starts at or after the end of its predecessor (the first: at or after pos), ends inside
   the buffer, and the bytes skipped in between form a gap (non-newline spaces and "$"-newline continuations). *)
Fixpoint tok_chain (data : bytes) (pos : nat) (toks : list token) : Prop :=
  match toks with
  | [] => True
  | t :: ts =>
    (pos <= tk_start t)%nat /\ (tk_start t + tk_len t <= length data)%nat /\
    gap_units (slice data pos (tk_start t)) /\ tok_chain data (tk_start t + tk_len t) ts
  end.

(* the offset just behind the last token *)
Fixpoint toks_end (pos : nat) (toks : list token) : nat :=
  match toks with [] => pos | t :: ts => toks_end (tk_start t + tk_len t)%nat ts end.

(* the skipped bytes and the token bytes, concatenated in order *)
Fixpoint rebuild (data : bytes) (pos : nat) (toks : list token) : bytes :=
  match toks with
  | [] => []
  | t :: ts => slice data pos (tk_start t) ++ token_slice data t ++ rebuild data (tk_start t + tk_len t)%nat ts
  end.

Definition eof_shape (data : bytes) (t : token) : Prop :=
  (tk_kind t = TkEndOfFile -> tk_start t = length data /\ tk_len t = 0%nat) /\
  (tk_kind t <> TkEndOfFile -> (0 < tk_len t)%nat).

Lemma stream_data modes pos r toks pos_e r_e : stream_spec modes pos r toks pos_e r_e ->
  forall pre, length pre = pos ->
    tok_chain (pre ++ r) pos toks /\ Forall2 (token_facts (pre ++ r)) modes toks /\
    Forall (eof_shape (pre ++ r)) toks /\ toks_end pos toks = pos_e /\
    r = rebuild (pre ++ r) pos toks ++ r_e /\ pos_e = (pos + length (rebuild (pre ++ r) pos toks))%nat.
Proof.
  induction 1 as [pos r | m ms pos gap body r' t ts pos_e r_e Hg Hs Hl Hk Hne SS IH]; intros pre P.
  - cbn. split; [exact I|]. split; [constructor|]. split; [constructor|]. split; [reflexivity|]. split; [reflexivity | lia].
  - set (data := pre ++ gap ++ body ++ r').
    assert (D2 : data = (pre ++ gap ++ body) ++ r') by (unfold data; rewrite <- !app_assoc; reflexivity).
    assert (P2 : length (pre ++ gap ++ body) = (pos + length gap + length body)%nat) by (rewrite !app_length; lia).
    destruct (IH _ P2) as [I1 [I2 [I3 [I4 [I5 I6]]]]]. rewrite <- D2 in I1, I2, I3, I5, I6.
    assert (Sg : slice data pos (tk_start t) = gap).
    { rewrite Hs, <- P. unfold data. apply slice_app. }
    assert (Sb : token_slice data t = body).
    { unfold token_slice. rewrite Hs, Hl, <- P. unfold data. apply slice_mid. }
    assert (Sa : token_after data t = r').
    { unfold token_after. rewrite Hs, Hl, <- P2, D2. apply skipn_app_exact. }
    assert (Le : (tk_start t + tk_len t)%nat = (pos + length gap + length body)%nat) by lia.
    assert (Ld : length data = (pos + length gap + length body + length r')%nat).
    { unfold data. rewrite !app_length. lia. }
    split; [|split; [|split; [|split; [|split]]]].
    + cbn [tok_chain]. split; [lia|]. split; [lia|]. split; [rewrite Sg; exact Hg|]. rewrite Le. exact I1.
    + constructor; [|exact I2]. unfold token_facts. rewrite Sb, Sa. exact Hk.
    + constructor; [|exact I3]. split.
      * intros K. rewrite K in Hk. cbn in Hk. destruct Hk as [Hb Hr']. subst body r'. cbn [length] in *. lia.
      * intros K. specialize (Hne K). destruct body; [congruence | cbn [length] in *; lia].
    + cbn [toks_end]. rewrite Le. exact I4.
    + cbn [rebuild]. rewrite Sg, Sb, Le. rewrite <- !app_assoc. rewrite <- I5. reflexivity.
    + cbn [rebuild]. rewrite Sg, Sb, Le, !app_length. lia.
Qed.

(* every byte the stream went over lies in a gap or in the body of one of the tokens *)
Lemma gap_units_bytes c : gap_units c -> Forall (fun b => is_nn_space b = true \/ b = 36 \/ b = 10 \/ b = 13) c.
Proof.
  induction 1 as [|b r Hb _ IH|r _ IH|r _ IH|r _ IH].
  - constructor.
  - constructor; [left; exact Hb | exact IH].
  - constructor; [auto|]. constructor; [auto | exact IH].
  - constructor; [auto|]. constructor; [auto|]. constructor; [auto | exact IH].
  - constructor; [auto|]. constructor; [auto|]. constructor; [auto | exact IH].
Qed.

Lemma stream_index modes pos r toks pos_e r_e : stream_spec modes pos r toks pos_e r_e ->
  forall j b, nth_error r j = Some b -> (pos + j < pos_e)%nat ->
    (is_nn_space b = true \/ b = 36 \/ b = 10 \/ b = 13) \/
    exists m t body rest' off, In (m, t) (combine modes toks) /\ kind_facts m (tk_kind t) body rest' /\
       nth_error body off = Some b /\ (tk_start t + off = pos + j)%nat /\ tk_len t = length body.
Proof.
  induction 1 as [pos r | m ms pos gap body r' t ts pos_e r_e Hg Hs Hl Hk Hne SS IH]; intros j b Hn Hj.
  - lia.
  - destruct (Nat.lt_ge_cases j (length gap)) as [L1|L1].
    + left. rewrite nth_error_app1 in Hn by exact L1. apply nth_error_In in Hn.
      pose proof (gap_units_bytes gap Hg) as F. rewrite Forall_forall in F. apply F. exact Hn.
    + rewrite nth_error_app2 in Hn by exact L1.
      destruct (Nat.lt_ge_cases (j - length gap) (length body)) as [L2|L2].
      * right. rewrite nth_error_app1 in Hn by exact L2.
        exists m, t, body, r', (j - length gap)%nat. split; [left; reflexivity|]. split; [exact Hk|].
        split; [exact Hn|]. split; [lia | exact Hl].
      * rewrite nth_error_app2 in Hn by exact L2.
        destruct (IH _ _ Hn) as [G|[m' [t' [body' [rest' [off [Hi Hrest]]]]]]]; [lia | left; exact G|].
        right. exists m', t', body', rest', off. split; [right; exact Hi|].
        destruct Hrest as [Q1 [Q2 [Q3 Q4]]]. split; [exact Q1|]. split; [exact Q2|]. split; [lia | exact Q4].
Qed.

(* ---------- lex_stream: an adversarial mode sequence ---------- *)

Theorem lex_stream_total modes data : exists toks, lex_stream modes data = Ok toks.
Proof. destruct (lex_stream_from_spec modes (init data)) as [toks [s_e [E _]]]. exists toks. exact E. Qed.

Lemma lex_stream_spec modes data toks : lex_stream modes data = Ok toks ->
  exists pos_e r_e, stream_spec modes 0 data toks pos_e r_e.
Proof.
  intros E. destruct (lex_stream_from_spec modes (init data)) as [toks' [s_e [E' SS]]].
  unfold lex_stream in E. rewrite E' in E. inversion E; subst toks'. eauto.
Qed.

Theorem lex_stream_length modes data toks : lex_stream modes data = Ok toks -> length toks = length modes.
Proof.
  intros E. destruct (lex_stream_spec modes data toks E) as [pe [re SS]]. clear E.
  induction SS; cbn [length]; congruence.
Qed.

(* in bounds, ordered, gaps blank - for every mode sequence and every byte string *)
Theorem lex_stream_chain modes data toks : lex_stream modes data = Ok toks -> tok_chain data 0 toks.
Proof.
  intros E. destruct (lex_stream_spec modes data toks E) as [pe [re SS]].
  destruct (stream_data _ _ _ _ _ _ SS [] eq_refl) as [H _]. exact H.
Qed.

Theorem lex_stream_token_facts modes data toks : lex_stream modes data = Ok toks ->
  Forall2 (token_facts data) modes toks.
Proof.
  intros E. destruct (lex_stream_spec modes data toks E) as [pe [re SS]].
  destruct (stream_data _ _ _ _ _ _ SS [] eq_refl) as [_ [H _]]. exact H.
Qed.

(* the bytes the calls went over are exactly the skipped gaps and the token bodies, in order: no byte is lost
   or duplicated *)
Theorem lex_stream_tiles modes data toks : lex_stream modes data = Ok toks ->
  data = rebuild data 0 toks ++ skipn (toks_end 0 toks) data /\ toks_end 0 toks = length (rebuild data 0 toks).
Proof.
  intros E. destruct (lex_stream_spec modes data toks E) as [pe [re SS]].
  destruct (stream_data _ _ _ _ _ _ SS [] eq_refl) as [_ [_ [_ [H4 [H5 H6]]]]]. cbn [app] in *.
  rewrite H4. cbn [Nat.add] in H6. split; [|exact H6].
  rewrite H6. remember (rebuild data 0 toks) as c eqn:Hc. clear Hc E SS.
  rewrite H5 at 2. rewrite skipn_app_exact. exact H5.
Qed.

Theorem lex_in_bounds modes data toks t : lex_stream modes data = Ok toks -> In t toks ->
  (tk_start t + tk_len t <= length data)%nat.
Proof.
  intros E. pose proof (lex_stream_chain modes data toks E) as C. clear E. revert C. generalize 0%nat.
  induction toks as [|t0 ts IH]; intros pos C Hin; [destruct Hin|].
  cbn [tok_chain] in C. destruct C as [_ [B [_ C]]]. destruct Hin as [->|Hin]; [exact B | exact (IH _ C Hin)].
Qed.

Lemma tok_chain_app data l1 : forall pos l2, tok_chain data pos (l1 ++ l2) -> tok_chain data (toks_end pos l1) l2.
Proof.
  induction l1 as [|t l1 IH]; intros pos l2 C; [exact C|].
  cbn [app tok_chain toks_end] in *. destruct C as [_ [_ [_ C]]]. exact (IH _ _ C).
Qed.

Lemma toks_end_snoc l1 : forall pos t, toks_end pos (l1 ++ [t]) = (tk_start t + tk_len t)%nat.
Proof. induction l1 as [|t0 l1 IH]; intros pos t; [reflexivity|]. cbn [app toks_end]. apply IH. Qed.

(* consecutive tokens do not overlap, and what lies between them is a gap *)
Theorem lex_tokens_ordered modes data l1 t1 t2 l2 : lex_stream modes data = Ok (l1 ++ t1 :: t2 :: l2) ->
  (tk_start t1 + tk_len t1 <= tk_start t2)%nat /\ gap_units (slice data (tk_start t1 + tk_len t1) (tk_start t2)).
Proof.
  intros E. pose proof (lex_stream_chain _ _ _ E) as C.
  replace (l1 ++ t1 :: t2 :: l2) with ((l1 ++ [t1]) ++ t2 :: l2) in C by (rewrite <- app_assoc; reflexivity).
  apply tok_chain_app in C. rewrite toks_end_snoc in C. cbn [tok_chain] in C. tauto.
Qed.

(* lex_gaps_blank: what lies between the end of one token and the start of the next is a gap *)
Corollary lex_gaps_blank modes data l1 t1 t2 l2 : lex_stream modes data = Ok (l1 ++ t1 :: t2 :: l2) ->
  gap_units (slice data (tk_start t1 + tk_len t1) (tk_start t2)).
Proof. intros E. exact (proj2 (lex_tokens_ordered _ _ _ _ _ _ E)). Qed.

(* the bytes before the first token are a gap as well *)
Theorem lex_first_gap modes data t ts : lex_stream modes data = Ok (t :: ts) -> gap_units (slice data 0 (tk_start t)).
Proof. intros E. pose proof (lex_stream_chain _ _ _ E) as C. cbn [tok_chain] in C. tauto. Qed.

(* the exact set of bytes a gap is made of *)
Theorem gap_units_inv c : gap_units c ->
  c = [] \/ (exists b r, c = b :: r /\ is_nn_space b = true /\ gap_units r) \/
  (exists r, c = 36 :: 10 :: r /\ gap_units r) \/ (exists r, c = 36 :: 10 :: 13 :: r /\ gap_units r) \/
  (exists r, c = 36 :: 13 :: 10 :: r /\ gap_units r).
Proof. intros H. inversion H; subst; eauto 10. Qed.

Theorem lex_eof_only_at_end modes data toks t : lex_stream modes data = Ok toks -> In t toks ->
  (tk_kind t = TkEndOfFile -> tk_start t = length data /\ tk_len t = 0%nat) /\
  (tk_kind t <> TkEndOfFile -> (0 < tk_len t)%nat).
Proof.
  intros E Hin. destruct (lex_stream_spec modes data toks E) as [pe [re SS]].
  destruct (stream_data _ _ _ _ _ _ SS [] eq_refl) as [_ [_ [H _]]]. cbn [app] in H.
  rewrite Forall_forall in H. exact (H t Hin).
Qed.

(* ---------- lex_all: constant mode until EndOfFile ---------- *)

(* the last token is EndOfFile, no other is *)
Fixpoint eof_last (toks : list token) : Prop :=
  match toks with
  | [] => False
  | t :: ts => match ts with
               | [] => tk_kind t = TkEndOfFile
               | _ :: _ => tk_kind t <> TkEndOfFile /\ eof_last ts
               end
  end.

Lemma is_eof_iff k : is_eof k = true <-> k = TkEndOfFile.
Proof. destruct k; cbn; split; intros H; congruence. Qed.

Lemma lex_all_from_spec m fuel : forall s, (length (l_rest s) < fuel)%nat ->
  exists toks, lex_all_from fuel m s = Ok toks /\ lex_stream_from (repeat m (length toks)) s = Ok toks /\ eof_last toks.
Proof.
  induction fuel as [|f IH]; intros s Hf; [lia|].
  destruct (lex_total m s) as [t [s' E]]. cbn [lex_all_from]. rewrite E.
  destruct (is_eof (tk_kind t)) eqn:Ee.
  - exists [t]. split; [reflexivity|]. split.
    + cbn [length repeat lex_stream_from]. rewrite E. reflexivity.
    + cbn. apply is_eof_iff. exact Ee.
  - assert (K : tk_kind t <> TkEndOfFile). { intros K. apply is_eof_iff in K. congruence. }
    destruct (lex_call m s t s' E) as [gap [body [Hr [_ [_ [_ [_ [_ Hne]]]]]]]].
    specialize (Hne K).
    destruct (IH s') as [ts [E1 [E2 E3]]].
    { rewrite Hr, !app_length in Hf. destruct body; [congruence|]. cbn [length] in Hf. lia. }
    rewrite E1. exists (t :: ts). split; [reflexivity|]. split.
    + cbn [length repeat lex_stream_from]. rewrite E, E2. reflexivity.
    + cbn [eof_last]. destruct ts as [|t2 ts2]; [destruct E3|]. split; assumption.
Qed.

(* lex_all_total: for ALL byte strings and all modes the fuel suffices *)
Theorem lex_all_total m data : exists toks, lex_all m data = Ok toks.
Proof.
  destruct (lex_all_from_spec m (S (length data)) (init data)) as [toks [E _]]; [cbn; lia|]. exists toks. exact E.
Qed.

(* lex_all is the lex_stream of a constant mode sequence (so every lex_stream theorem applies to it), and it stops
   at the first EndOfFile *)
Theorem lex_all_stream m data toks : lex_all m data = Ok toks ->
  lex_stream (repeat m (length toks)) data = Ok toks /\ eof_last toks.
Proof.
  intros E. destruct (lex_all_from_spec m (S (length data)) (init data)) as [toks' [E' H]]; [cbn; lia|].
  unfold lex_all in E. rewrite E' in E. inversion E; subst toks'. exact H.
Qed.

Lemma stream_eof_last modes pos r toks pos_e r_e : stream_spec modes pos r toks pos_e r_e -> eof_last toks -> r_e = [].
Proof.
  induction 1 as [pos r | m ms pos gap body r' t ts pos_e r_e Hg Hs Hl Hk Hne SS IH]; intros L; [destruct L|].
  cbn [eof_last] in L. destruct ts as [|t2 ts2].
  - inversion SS; subst. rewrite L in Hk. cbn in Hk. tauto.
  - apply IH. tauto.
Qed.

(* the tokens of lex_all tile the whole input: gaps and token bodies concatenated give back the buffer, and the
   last token ends at length data *)
Theorem lex_all_tiles m data toks : lex_all m data = Ok toks ->
  rebuild data 0 toks = data /\ toks_end 0 toks = length data /\ tok_chain data 0 toks.
Proof.
  intros E. destruct (lex_all_stream m data toks E) as [E1 L].
  destruct (lex_stream_spec _ data toks E1) as [pe [re SS]].
  pose proof (stream_eof_last _ _ _ _ _ _ SS L) as Hre. subst re.
  destruct (stream_data _ _ _ _ _ _ SS [] eq_refl) as [H1 [_ [_ [H4 [H5 H6]]]]]. cbn [app] in *.
  rewrite app_nil_r in H5. split; [symmetry; exact H5|]. split; [|exact H1].
  rewrite H4, H6. cbn. rewrite <- H5. reflexivity.
Qed.

(* ---------- bytes 0x80..0xFF are ordinary characters ---------- *)

(* a byte >= 128 is never end-of-input (peek answers Some), never a space or newline, never an identifier char *)
Theorem high_byte_classes b : 128 <= b ->
  is_space b = false /\ is_nn_space b = false /\ is_nl b = false /\
  is_ident_char b = false /\ is_simple_ident_char b = false /\
  forall r pos line col, peek (mkL (b :: r) pos line col) = Some b /\
                         fst (getc (mkL (b :: r) pos line col)) = Some b.
Proof.
  intros H. split; [apply high_not_space; exact H|]. split; [apply high_not_nn_space; exact H|].
  split; [apply high_not_nl; exact H|]. split; [apply high_not_ident; exact H|].
  split; [apply high_not_simple_ident; exact H|]. intros r pos line col. split; [reflexivity|].
  rewrite getc_plain by (apply high_not_nl; exact H). reflexivity.
Qed.

Lemma high_ws_loop b r pos line col f : 128 <= b ->
  ws_loop (S f) (mkL (b :: r) pos line col) = Ok (mkL (b :: r) pos line col).
Proof.
  intros H. cbn [ws_loop peek l_rest l_col].
  replace (b =? 36) with false by (symmetry; apply N.eqb_neq; lia). cbn [andb].
  rewrite (high_not_nn_space b H). reflexivity.
Qed.

(* In the modes without strings a byte >= 128 at the cursor is lexed as an Unknown token of length 1. *)
Theorem lex_high_byte_regular m (b : byte) (r : bytes) pos line col : 128 <= b -> regular_mode m ->
  lex m (mkL (b :: r) pos line col) = Ok (mkTok TkUnknown pos 1 line col, mkL r (S pos) line (col + 1)).
Proof.
  intros H Hm. unfold lex. cbn [peek l_rest opt_test l_col].
  rewrite (high_not_nn_space b H). cbn [andb].
  rewrite high_ws_loop by exact H. cbn [peek l_rest]. rewrite (high_not_nl b H).
  assert (R : lex_regular m (S (length (b :: r))) (mkL (b :: r) pos line col) b =
              Ok (mkTok TkUnknown pos 1 line col, mkL r (S pos) line (col + 1))).
  { unfold lex_regular. rewrite skipc_plain by (apply high_not_nl; exact H).
    replace (b =? 58) with false by (symmetry; apply N.eqb_neq; lia).
    replace (b =? 61) with false by (symmetry; apply N.eqb_neq; lia).
    replace (b =? 35) with false by (symmetry; apply N.eqb_neq; lia).
    replace (b =? 124) with false by (symmetry; apply N.eqb_neq; lia).
    rewrite (high_not_ident b H). unfold mk_token. cbn [l_pos l_line l_col].
    replace (S pos - pos)%nat with 1%nat by lia. reflexivity. }
  destruct Hm as [->| ->]; exact R.
Qed.

(* In the string modes a byte >= 128 at the cursor starts a String token that contains it. *)
Theorem lex_high_byte_string m (b : byte) (r : bytes) pos line col : 128 <= b -> m = MPathString \/ m = MVariableString ->
  exists n s', lex m (mkL (b :: r) pos line col) = Ok (mkTok TkString pos (S n) line col, s').
Proof.
  intros H Hm.
  unfold lex. cbn [peek l_rest opt_test l_col].
  rewrite (high_not_nn_space b H). cbn [andb].
  rewrite high_ws_loop by exact H. cbn [peek l_rest]. rewrite (high_not_nl b H).
  replace (b =? 58) with false by (symmetry; apply N.eqb_neq; lia).
  replace (b =? 124) with false by (symmetry; apply N.eqb_neq; lia). cbn [negb andb].
  assert (Hlen : forall s1 body, adv (mkL (b :: r) pos line col) s1 body -> body <> [] ->
            exists n, mk_token TkString (mkL (b :: r) pos line col) s1 = mkTok TkString pos (S n) line col).
  { intros s1 body [A1 A2] Hb. destruct body as [|b0 body']; [congruence|].
    exists (length body'). unfold mk_token. rewrite A2. cbn [l_pos l_line l_col length]. f_equal. lia. }
  destruct Hm as [->| ->].
  - match goal with |- context [path_loop ?f ?x] =>
      destruct (path_loop_spec f x) as [s1 [body [E1 [A1 [_ Hne]]]]]; [cbn [l_rest length]; apply Nat.lt_succ_diag_r|] end.
    rewrite E1.
    destruct (Hlen s1 body A1) as [n Hn].
    { apply (Hne b r eq_refl). right. unfold path_stop. rewrite (high_not_space b H).
      replace (b =? 58) with false by (symmetry; apply N.eqb_neq; lia).
      replace (b =? 124) with false by (symmetry; apply N.eqb_neq; lia). reflexivity. }
    exists n, s1. apply f_equal. apply (f_equal (fun t => (t, s1))). exact Hn.
  - match goal with |- context [var_loop ?f ?x] =>
      destruct (var_loop_spec f x) as [s1 [body [E1 [A1 [_ Hne]]]]]; [cbn [l_rest length]; apply Nat.lt_succ_diag_r|] end.
    rewrite E1.
    destruct (Hlen s1 body A1) as [n Hn].
    { apply (Hne b r eq_refl). apply high_not_nl. exact H. }
    exists n, s1. apply f_equal. apply (f_equal (fun t => (t, s1))). exact Hn.
Qed.

(* which tokens can contain a byte >= 128 *)
Lemma kind_facts_high m k body rest' b off :
  kind_facts m k body rest' -> nth_error body off = Some b -> 128 <= b ->
  (k = TkString /\ (m = MPathString \/ m = MVariableString)) \/
  (k = TkComment /\ regular_mode m /\ (0 < off)%nat) \/
  (k = TkUnknown /\ regular_mode m /\ body = [b] /\ off = 0%nat).
Proof.
  intros Hk Hn Hb.
  assert (Hin : In b body) by (eapply nth_error_In; exact Hn).
  assert (Hid : Forall (fun x => is_ident_char x = true) body -> False).
  { intros F. rewrite Forall_forall in F. specialize (F b Hin). rewrite (high_not_ident b Hb) in F. discriminate. }
  assert (Hone : forall x, body = [x] -> x < 128 -> False).
  { intros x -> Hx. destruct Hin as [<-|[]]. lia. }
  destruct k; cbn [kind_facts] in Hk.
  - (* Colon *) exfalso. destruct Hk as [Hk _]. apply (Hone 58 Hk). lia.
  - (* Comment *) destruct Hk as [c [Hc [_ [_ Hr]]]]. right. left. split; [reflexivity|]. split; [exact Hr|].
    destruct off as [|off']; [|lia]. subst body. cbn in Hn. inversion Hn. lia.
  - (* EndOfFile *) destruct Hk as [-> _]. destruct Hin.
  - (* Equals *) exfalso. destruct Hk as [Hk _]. apply (Hone 61 Hk). lia.
  - (* Indentation *) exfalso. destruct Hk as [_ [F _]]. rewrite Forall_forall in F. specialize (F b Hin).
    rewrite (high_not_nn_space b Hb) in F. discriminate.
  - exfalso. apply Hid. tauto.
  - exfalso. apply Hid. tauto.
  - exfalso. apply Hid. tauto.
  - exfalso. apply Hid. tauto.
  - exfalso. apply Hid. tauto.
  - exfalso. apply Hid. tauto.
  - exfalso. apply Hid. tauto.
  - (* Newline *) exfalso.
    destruct Hk as [-> |[-> |[-> | -> ]]]; cbn in Hin; repeat (destruct Hin as [<-|Hin]; [lia|]); destruct Hin.
  - (* Pipe *) exfalso. destruct Hk as [Hk _]. apply (Hone 124 Hk). lia.
  - (* PipePipe *) exfalso. destruct Hk as [-> _]. cbn in Hin. repeat (destruct Hin as [<-|Hin]; [lia|]). destruct Hin.
  - (* String *) left. split; [reflexivity|]. destruct Hk as [_ [[-> _]|[-> _]]]; auto.
  - (* Unknown *) right. right. destruct Hk as [x [Hx [_ [_ [_ [_ [_ [_ [_ Hr]]]]]]]]].
    split; [reflexivity|]. split; [exact Hr|]. subst body. destruct Hin as [->|[]].
    split; [reflexivity|]. destruct off as [|off']; [reflexivity|]. cbn in Hn. destruct off'; discriminate.
Qed.

(* lex_high_bytes_ordinary, stream form: whatever the mode sequence, a byte >= 128 that the calls went over lies
   inside a String token (string modes), or is an Unknown token of length 1 on its own, or lies inside a comment
   (modes without strings).  It is never part of a gap, a keyword, an identifier, a newline or EndOfFile. *)
Theorem lex_high_bytes_ordinary modes data toks i b :
  lex_stream modes data = Ok toks -> nth_error data i = Some b -> 128 <= b -> (i < toks_end 0 toks)%nat ->
  exists m t, In (m, t) (combine modes toks) /\ (tk_start t <= i < tk_start t + tk_len t)%nat /\
    ((tk_kind t = TkString /\ (m = MPathString \/ m = MVariableString)) \/
     (tk_kind t = TkComment /\ regular_mode m /\ (tk_start t < i)%nat) \/
     (tk_kind t = TkUnknown /\ regular_mode m /\ tk_start t = i /\ tk_len t = 1%nat)).
Proof.
  intros E Hn Hb Hi. destruct (lex_stream_spec modes data toks E) as [pe [re SS]].
  destruct (stream_data _ _ _ _ _ _ SS [] eq_refl) as [_ [_ [_ [H4 _]]]].
  destruct (stream_index _ _ _ _ _ _ SS i b Hn) as [G|[m [t [body [rest' [off [Hin [Hk [Ho [Hp Hl]]]]]]]]]].
  - rewrite <- H4. exact Hi.
  - exfalso. pose proof (high_not_nn_space b Hb) as Q. destruct G as [G|[G|[G|G]]]; [congruence | lia | lia | lia].
  - exists m, t. split; [exact Hin|].
    assert (Hoff : (off < length body)%nat) by (apply nth_error_Some; congruence).
    split; [lia|].
    destruct (kind_facts_high m _ body rest' b off Hk Ho Hb) as [[K Hm]|[[K [Hm Hoff']]|[K [Hm [Hbody Hoff']]]]].
    + left. tauto.
    + right. left. split; [exact K|]. split; [exact Hm | lia].
    + right. right. split; [exact K|]. split; [exact Hm|]. subst body. cbn [length] in Hl. lia.
Qed.

Lemma in_combine_repeat (m m' : mode) n (t : token) toks : In (m', t) (combine (repeat m n) toks) -> m' = m /\ In t toks.
Proof.
  intros H. split.
  - apply in_combine_l in H. apply repeat_spec in H. exact H.
  - apply in_combine_r in H. exact H.
Qed.

(* constant string mode until EndOfFile: EVERY byte >= 128 of the input lies inside a String token *)
Theorem lex_all_high_bytes_in_strings m data toks i b :
  lex_all m data = Ok toks -> m = MPathString \/ m = MVariableString -> nth_error data i = Some b -> 128 <= b ->
  exists t, In t toks /\ tk_kind t = TkString /\ (tk_start t <= i < tk_start t + tk_len t)%nat.
Proof.
  intros E Hm Hn Hb. destruct (lex_all_stream m data toks E) as [E1 _].
  destruct (lex_all_tiles m data toks E) as [_ [He _]].
  destruct (lex_high_bytes_ordinary _ data toks i b E1 Hn Hb) as [m' [t [Hin [Hr Hc]]]].
  { rewrite He. apply nth_error_Some. congruence. }
  apply in_combine_repeat in Hin. destruct Hin as [-> Hin].
  exists t. split; [exact Hin|]. split; [|exact Hr].
  destruct Hc as [[K _]|[[_ [Hreg _]]|[_ [Hreg _]]]]; [exact K | |];
    destruct Hreg as [Hreg|Hreg]; destruct Hm as [Hm|Hm]; congruence.
Qed.

(* constant mode without strings: every byte >= 128 is an Unknown token of length 1, or lies inside a comment *)
Theorem lex_all_high_bytes_unknown m data toks i b :
  lex_all m data = Ok toks -> regular_mode m -> nth_error data i = Some b -> 128 <= b ->
  exists t, In t toks /\ (tk_start t <= i < tk_start t + tk_len t)%nat /\
            ((tk_kind t = TkUnknown /\ tk_start t = i /\ tk_len t = 1%nat) \/ (tk_kind t = TkComment /\ (tk_start t < i)%nat)).
Proof.
  intros E Hm Hn Hb. destruct (lex_all_stream m data toks E) as [E1 _].
  destruct (lex_all_tiles m data toks E) as [_ [He _]].
  destruct (lex_high_bytes_ordinary _ data toks i b E1 Hn Hb) as [m' [t [Hin [Hr Hc]]]].
  { rewrite He. apply nth_error_Some. congruence. }
  apply in_combine_repeat in Hin. destruct Hin as [-> Hin].
  exists t. split; [exact Hin|]. split; [exact Hr|].
  destruct Hc as [[_ Hs]|[[K [_ Hlt]]|[K [_ Hrest]]]].
  - exfalso. destruct Hm as [Hm|Hm]; destruct Hs as [Hs|Hs]; congruence.
  - right. tauto.
  - left. tauto.
Qed.

(* ---------- keywords are recognised only as whole words ---------- *)

Lemma ident_kind_of_keyword w k : In (w, k) keyword_table -> ident_kind w = k.
Proof.
  intros H. cbn in H.
  repeat (destruct H as [H|H]; [inversion H; subst; vm_compute; reflexivity|]). destruct H.
Qed.

Lemma ident_kind_keyword w : is_keyword (ident_kind w) = true -> In (w, ident_kind w) keyword_table.
Proof.
  unfold ident_kind.
  destruct (length w) as [|[|[|[|[|[|[|[|[|n]]]]]]]]]; try (cbn; discriminate).
  - destruct (bytes_eqb w kw_rule) eqn:E1; [apply bytes_eqb_eq in E1; subst w; intros _; cbn; tauto|].
    destruct (bytes_eqb w kw_pool) eqn:E2; [apply bytes_eqb_eq in E2; subst w; intros _; cbn; tauto|].
    cbn; discriminate.
  - destruct (bytes_eqb w kw_build) eqn:E1; [apply bytes_eqb_eq in E1; subst w; intros _; cbn; tauto|].
    cbn; discriminate.
  - destruct (bytes_eqb w kw_default) eqn:E1; [apply bytes_eqb_eq in E1; subst w; intros _; cbn; tauto|].
    destruct (bytes_eqb w kw_include) eqn:E2; [apply bytes_eqb_eq in E2; subst w; intros _; cbn; tauto|].
    cbn; discriminate.
  - destruct (bytes_eqb w kw_subninja) eqn:E1; [apply bytes_eqb_eq in E1; subst w; intros _; cbn; tauto|].
    cbn; discriminate.
Qed.

Lemma keyword_table_kinds w k : In (w, k) keyword_table -> is_keyword k = true /\ w <> [] /\ Forall (fun b => is_ident_char b = true) w.
Proof.
  intros H. cbn in H.
  repeat (destruct H as [H|H]; [inversion H; subst; split; [reflexivity|]; split; [discriminate|];
                                repeat constructor|]). destruct H.
Qed.

Lemma nn_space_not_ident b : is_nn_space b = true -> is_ident_char b = false.
Proof.
  intros Es. destruct (is_ident_char b) eqn:Hid0; [|reflexivity]. exfalso.
  unfold is_nn_space in Es. unfold is_ident_char in Hid0.
  apply andb_true_iff in Es. destruct Es as [Es _]. apply andb_true_iff in Es. destruct Es as [Es _].
  unfold is_space in Es. apply orb_true_iff in Es.
  assert (Q : b <= 32).
  { destruct Es as [Es|Es]; [apply andb_true_iff in Es; destruct Es as [_ Es]; apply N.leb_le in Es; lia
                            | apply N.eqb_eq in Es; lia]. }
  repeat (apply orb_true_iff in Hid0; destruct Hid0 as [Hid0|Hid0]);
    try (apply andb_true_iff in Hid0; destruct Hid0 as [Hid0 _]; apply N.leb_le in Hid0; lia);
    apply N.eqb_eq in Hid0; lia.
Qed.

(* a token that starts with an identifier character is an identifier, a keyword or a string *)
Lemma kind_facts_head_ident m k body rest' b0 body' :
  kind_facts m k body rest' -> body = b0 :: body' -> is_ident_char b0 = true ->
  is_identlike k = true \/ k = TkString.
Proof.
  intros Hk Hb0 Hid0.
  destruct k; cbn [kind_facts] in Hk; try (left; reflexivity); try (right; reflexivity); exfalso.
  - destruct Hk as [Hk _]. rewrite Hk in Hb0. inversion Hb0; subst. discriminate.
  - destruct Hk as [c [Hk _]]. rewrite Hk in Hb0. inversion Hb0; subst. discriminate.
  - destruct Hk as [Hk _]. congruence.
  - destruct Hk as [Hk _]. rewrite Hk in Hb0. inversion Hb0; subst. discriminate.
  - destruct Hk as [_ [F _]]. rewrite Hb0 in F. inversion F as [|x l Hx]; subst.
    rewrite (nn_space_not_ident b0 Hx) in Hid0. discriminate.
  - destruct Hk as [Hk|[Hk|[Hk|Hk]]]; rewrite Hk in Hb0; inversion Hb0; subst; discriminate.
  - destruct Hk as [Hk _]. rewrite Hk in Hb0. inversion Hb0; subst. discriminate.
  - destruct Hk as [Hk _]. rewrite Hk in Hb0. inversion Hb0; subst. discriminate.
  - destruct Hk as [x [Hk [Hx _]]]. rewrite Hk in Hb0. inversion Hb0; subst. congruence.
Qed.

(* a token kind, its bytes and what follows it - independent of the buffer representation *)
Lemma kind_facts_keywords m k body rest' : kind_facts m k body rest' ->
  (is_keyword k = true -> m = MNone /\ In (body, k) keyword_table) /\
  (m = MNone -> forall k', In (body, k') keyword_table -> k = k') /\
  (is_identlike k = true ->
     body <> [] /\ Forall (fun b => is_ident_char b = true) body /\ ends_with (fun b => negb (is_ident_char b)) rest').
Proof.
  intros Hk.
  assert (Hident : is_identlike k = true ->
            body <> [] /\ Forall (fun b => is_ident_char b = true) body /\
            ends_with (fun b => negb (is_ident_char b)) rest' /\ regular_mode m /\
            k = match m with MIdentifierSpecific => TkIdentifier | _ => ident_kind body end).
  { intros Hi. destruct k; try discriminate Hi; exact Hk. }
  split; [|split].
  - intros Kw. assert (Hi : is_identlike k = true) by (destruct k; try discriminate Kw; reflexivity).
    destruct (Hident Hi) as [_ [_ [_ [Hreg Hkk]]]].
    destruct m.
    + split; [reflexivity|]. rewrite Hkk in Kw |- *. apply ident_kind_keyword. exact Kw.
    + destruct Hreg; discriminate.
    + destruct Hreg; discriminate.
    + rewrite Hkk in Kw. discriminate.
  - intros -> k' Hin. destruct (keyword_table_kinds body k' Hin) as [Kw' [Hne Hall]].
    pose proof (ident_kind_of_keyword body k' Hin) as Hik.
    destruct body as [|b0 body']; [congruence|]. inversion Hall as [|x l Hid0 _]; subst x l.
    destruct (kind_facts_head_ident _ _ _ _ _ _ Hk eq_refl Hid0) as [Hi|Hs].
    + destruct (Hident Hi) as [_ [_ [_ [_ Hkk]]]]. rewrite Hkk. exact Hik.
    + rewrite Hs in Hk. cbn in Hk. destruct Hk as [_ [[Hm _]|[Hm _]]]; discriminate.
  - intros Hi. destruct (Hident Hi) as [H1 [H2 [H3 _]]]. auto.
Qed.

(* lex_keywords_whole.  For one lex call from any cursor, in any mode, w = the bytes of the token:
   (1) a keyword kind is produced only in mode None and only when w is exactly the spelling of that keyword;
   (2) in mode None a token spelled exactly as a keyword always gets that keyword's kind;
   (3) an identifier or keyword token is a maximal run of identifier characters to the right: it is non-empty, made
       of identifier characters, and the byte behind it (if any) is not an identifier character.
   Hence in the modes IdentifierSpecific, PathString and VariableString no keyword kind is ever produced. *)
Theorem lex_keywords_whole data m s t s' : at_data data s -> lex m s = Ok (t, s') ->
  (is_keyword (tk_kind t) = true -> m = MNone /\ In (token_slice data t, tk_kind t) keyword_table) /\
  (m = MNone -> forall k, In (token_slice data t, k) keyword_table -> tk_kind t = k) /\
  (is_identlike (tk_kind t) = true ->
     token_slice data t <> [] /\ Forall (fun b => is_ident_char b = true) (token_slice data t) /\
     ends_with (fun b => negb (is_ident_char b)) (token_after data t)).
Proof.
  intros A E. destruct (lex_call_facts data m s t s' A E) as [_ [_ [_ [_ [_ Hf]]]]].
  exact (kind_facts_keywords m _ _ _ Hf).
Qed.

Corollary lex_no_keywords_outside_none data m s t s' : at_data data s -> lex m s = Ok (t, s') ->
  m <> MNone -> is_keyword (tk_kind t) = false.
Proof.
  intros A E Hm. destruct (lex_keywords_whole data m s t s' A E) as [H _].
  destruct (is_keyword (tk_kind t)); [|reflexivity]. destruct (H eq_refl). congruence.
Qed.

(* ---------- the keyword property over a probed table ---------- *)

Lemma all_bytes_In b : In b all_bytes <-> b < 256.
Proof.
  unfold all_bytes. rewrite in_map_iff. split.
  - intros [n [Hn Hi]]. apply in_seq in Hi. lia.
  - intros H. exists (N.to_nat b). split; [apply N2Nat.id|]. apply in_seq. lia.
Qed.

Lemma mem_N_In b l : mem_N b l = true <-> In b l.
Proof.
  unfold mem_N. rewrite existsb_exists. split.
  - intros [x [Hx He]]. apply N.eqb_eq in He. subst x. exact Hx.
  - intros H. exists b. split; [exact H | apply N.eqb_refl].
Qed.

(* a probed character class that matches f on 0..255 is f, for a class f without members above 255 *)
Lemma charclass_all f ic : charclass_matches f ic = true -> (forall b, 256 <= b -> f b = false) ->
  forall b, mem_N b ic = f b.
Proof.
  unfold charclass_matches. intros H Hf b. apply andb_true_iff in H. destruct H as [H1 H2].
  rewrite forallb_forall in H1, H2.
  destruct (N.lt_ge_cases b 256) as [L|L].
  - assert (Hin : In b all_bytes) by (apply all_bytes_In; exact L).
    specialize (H1 b Hin). apply Bool.eqb_prop in H1. symmetry. exact H1.
  - rewrite (Hf b L). destruct (mem_N b ic) eqn:E; [|reflexivity].
    apply mem_N_In in E. specialize (H2 b E). apply N.ltb_lt in H2. lia.
Qed.

Lemma ident_char_small b : 256 <= b -> is_ident_char b = false.
Proof. intros H. apply high_not_ident. lia. Qed.

Lemma ident_prefix_unique ic (Hic : forall b, mem_N b ic = is_ident_char b) body : forall rest',
  Forall (fun b => is_ident_char b = true) body -> ends_with (fun b => negb (is_ident_char b)) rest' ->
  ident_prefix ic (body ++ rest') = body.
Proof.
  induction body as [|b body IH]; intros rest' F He.
  - cbn [app]. destruct rest' as [|c r]; [reflexivity|]. cbn [ident_prefix]. rewrite Hic.
    cbn in He. apply negb_true_iff in He. rewrite He. reflexivity.
  - inversion F as [|x l Hb F']; subst. cbn [app ident_prefix]. rewrite Hic, Hb. f_equal. apply IH; assumption.
Qed.

Lemma ident_prefix_nil ic (Hic : forall b, mem_N b ic = is_ident_char b) w :
  ident_prefix ic w = [] -> ends_with (fun b => negb (is_ident_char b)) w.
Proof.
  destruct w as [|b r]; [intros _; exact I|]. cbn [ident_prefix]. rewrite Hic.
  destruct (is_ident_char b) eqn:E; [discriminate|]. intros _. cbn. rewrite E. reflexivity.
Qed.

Lemma is_keyword_code_kind k : is_keyword_code (kind_code k) = is_keyword k.
Proof. destruct k; reflexivity. Qed.

Lemma ident_kind_lookup p :
  kind_code (ident_kind p) = match lookup_bytes p keyword_codes with Some kc => kc | None => 5 end.
Proof.
  change keyword_codes with [(kw_rule, 10); (kw_pool, 9); (kw_build, 6); (kw_default, 7); (kw_include, 8); (kw_subninja, 11)].
  cbn [lookup_bytes].
  destruct (bytes_eqb p kw_rule) eqn:E1; [apply bytes_eqb_eq in E1; subst p; reflexivity|].
  destruct (bytes_eqb p kw_pool) eqn:E2; [apply bytes_eqb_eq in E2; subst p; reflexivity|].
  destruct (bytes_eqb p kw_build) eqn:E3; [apply bytes_eqb_eq in E3; subst p; reflexivity|].
  destruct (bytes_eqb p kw_default) eqn:E4; [apply bytes_eqb_eq in E4; subst p; reflexivity|].
  destruct (bytes_eqb p kw_include) eqn:E5; [apply bytes_eqb_eq in E5; subst p; reflexivity|].
  destruct (bytes_eqb p kw_subninja) eqn:E6; [apply bytes_eqb_eq in E6; subst p; reflexivity|].
  unfold ident_kind. rewrite E1, E2, E3, E4, E5, E6.
  destruct (length p) as [|[|[|[|[|[|[|[|[|n]]]]]]]]]; reflexivity.
Qed.

(* at the start of a line, leading whitespace is an Indentation token and '$' is not a continuation *)
Lemma lex_col0_space m (b : byte) (r : bytes) pos line t s' : is_nn_space b = true ->
  lex m (mkL (b :: r) pos line 0) = Ok (t, s') -> tk_kind t = TkIndentation.
Proof.
  intros Hb. unfold lex. cbn [peek l_rest opt_test l_col]. rewrite Hb. cbn [andb N.eqb].
  destruct (nn_space_loop _ _); [|discriminate]. intros E. inversion E. reflexivity.
Qed.

Lemma lex_col0_dollar (r : bytes) pos line t s' :
  lex MNone (mkL (36 :: r) pos line 0) = Ok (t, s') -> tk_kind t = TkUnknown.
Proof.
  unfold lex. cbn [peek l_rest opt_test l_col]. change (is_nn_space 36) with false. cbn [andb].
  cbn [ws_loop peek l_rest l_col]. change (36 =? 36) with true. change (0 =? 0) with true. cbn [negb andb].
  change (is_nn_space 36) with false. cbn [peek l_rest]. change (is_nl 36) with false. cbv iota.
  unfold lex_regular. rewrite (skipc_plain 36) by reflexivity.
  change (36 =? 58) with false. change (36 =? 61) with false. change (36 =? 35) with false.
  change (36 =? 124) with false. change (is_ident_char 36) with false. cbv iota.
  intros E. inversion E. reflexivity.
Qed.

(* The model's lexer satisfies the probe-table property on EVERY input, for every probed identifier-character
   class that coincides with the model's on 0..255: so a probed table that the model reproduces
   (keywords_match_model) is known to satisfy keywords_ok without looking at it - and a table from a lexer with
   a different keyword decision fails keywords_ok or keywords_match_model by computation. *)
Theorem lex_first_token_kw_ok ic : charclass_matches is_ident_char ic = true ->
  forall mc w t s', mc < 4 -> lex (mode_of_code mc) (init w) = Ok (t, s') ->
    kw_entry_ok ic (mc, w, kind_code (tk_kind t), N.of_nat (tk_len t)) = true.
Proof.
  intros Hc mc w t s' Hmc E.
  pose proof (charclass_all _ _ Hc ident_char_small) as Hic.
  destruct (lex_call _ _ _ _ E) as [gap [body [Hr [Hg [_ [Hl [_ [Hk Hne]]]]]]]].
  cbn [init l_rest] in Hr.
  destruct (kind_facts_keywords _ _ _ _ Hk) as [K1 [K2 K3]].
  unfold kw_entry_ok.
  destruct (ident_prefix ic w) as [|p0 p'] eqn:Ep.
  - (* the input does not start with an identifier character: no keyword kind *)
    rewrite is_keyword_code_kind. apply negb_true_iff.
    destruct (is_keyword (tk_kind t)) eqn:Kw; [exfalso|reflexivity].
    destruct (K1 eq_refl) as [Hm Hin]. destruct (keyword_table_kinds _ _ Hin) as [_ [Hbne Hball]].
    pose proof (ident_prefix_nil ic Hic w Ep) as Hw.
    destruct gap as [|g gap'].
    + cbn [app] in Hr. destruct body as [|b0 body']; [congruence|]. inversion Hball as [|x l Hb0 _]; subst.
      cbn in Hw. rewrite Hb0 in Hw. discriminate.
    + destruct (gap_units_head g gap' Hg) as [Hsp| ->].
      * rewrite Hr in E. cbn [app init] in E. rewrite (lex_col0_space _ _ _ _ _ _ _ Hsp E) in Kw. discriminate.
      * rewrite Hr, Hm in E. cbn [app init] in E. rewrite (lex_col0_dollar _ _ _ _ _ E) in Kw. discriminate.
  - (* the input starts with an identifier character *)
    assert (Hw0 : exists r0, w = p0 :: r0 /\ is_ident_char p0 = true).
    { destruct w as [|b r0]; [discriminate Ep|]. cbn [ident_prefix] in Ep. rewrite Hic in Ep.
      destruct (is_ident_char b) eqn:Eb; [|discriminate Ep]. inversion Ep; subst. eauto. }
    destruct Hw0 as [r0 [Hw0 Hp0]].
    assert (Hgap : gap = []).
    { destruct gap as [|g gap']; [reflexivity|]. exfalso. rewrite Hw0 in Hr. cbn [app] in Hr. inversion Hr; subst g.
      destruct (gap_units_head p0 gap' Hg) as [Hsp| ->].
      - rewrite (nn_space_not_ident p0 Hsp) in Hp0. discriminate.
      - discriminate Hp0. }
    subst gap. cbn [app] in Hr.
    assert (Hbody : exists body', body = p0 :: body').
    { destruct body as [|b0 body'].
      - assert (Ke : tk_kind t = TkEndOfFile).
        { destruct (tk_kind t) eqn:K; try (exfalso; apply Hne; [discriminate | reflexivity]). reflexivity. }
        rewrite Ke in Hk. cbn in Hk. destruct Hk as [_ Hre]. rewrite Hre in Hr. cbn in Hr. congruence.
      - rewrite Hw0 in Hr. cbn [app] in Hr. inversion Hr; subst. eauto. }
    destruct Hbody as [body' Hbody].
    assert (Hidl : is_identlike (tk_kind t) = true -> (p0 :: p') = body).
    { intros Hi. destruct (K3 Hi) as [_ [F He]]. rewrite <- Ep, Hr. apply ident_prefix_unique; assumption. }
    destruct (N.eqb_spec mc 0) as [M0|M0].
    + subst mc. change (mode_of_code 0) with MNone in *.
      destruct (kind_facts_head_ident _ _ _ _ _ _ Hk Hbody Hp0) as [Hi|Hs].
      * rewrite (Hidl Hi). rewrite Hl, N.eqb_refl, andb_true_r. apply N.eqb_eq.
        rewrite <- ident_kind_lookup. f_equal.
        destruct (tk_kind t); try discriminate Hi; cbn [kind_facts] in Hk; tauto.
      * rewrite Hs in Hk. cbn in Hk. destruct Hk as [_ [[Hm _]|[Hm _]]]; discriminate.
    + destruct (N.eqb_spec mc 3) as [M3|M3].
      * subst mc. change (mode_of_code 3) with MIdentifierSpecific in *.
        destruct (kind_facts_head_ident _ _ _ _ _ _ Hk Hbody Hp0) as [Hi|Hs].
        -- rewrite (Hidl Hi). rewrite Hl, N.eqb_refl, andb_true_r. apply N.eqb_eq.
           assert (Kt : tk_kind t = TkIdentifier).
           { destruct (tk_kind t); try discriminate Hi; cbn [kind_facts] in Hk; tauto. }
           rewrite Kt. reflexivity.
        -- rewrite Hs in Hk. cbn in Hk. destruct Hk as [_ [[Hm _]|[Hm _]]]; discriminate.
      * rewrite is_keyword_code_kind. apply negb_true_iff.
        destruct (is_keyword (tk_kind t)) eqn:Kw; [exfalso|reflexivity].
        destruct (K1 eq_refl) as [Hm _].
        assert (Hmc' : mc = 1 \/ mc = 2) by lia.
        destruct Hmc' as [-> | ->]; discriminate Hm.
Qed.

(* hence: every table whose entries the model reproduces satisfies the keyword property *)
Corollary keywords_match_model_ok ic tbl : charclass_matches is_ident_char ic = true ->
  forallb (fun e => let '(m, _, _, _) := e in m <? 4) tbl = true ->
  keywords_match_model tbl = true -> keywords_ok ic tbl = true.
Proof.
  intros Hc Hm Hmm. unfold keywords_ok, keywords_match_model in *. rewrite forallb_forall in *.
  intros [[[mc w] k] n] Hin. specialize (Hm _ Hin). specialize (Hmm _ Hin). cbn in Hm. apply N.ltb_lt in Hm.
  unfold kw_entry_matches_model in Hmm.
  destruct (lex (mode_of_code mc) (init w)) as [[t s']|] eqn:E; [|discriminate].
  apply andb_true_iff in Hmm. destruct Hmm as [H1 H2]. apply N.eqb_eq in H1. apply N.eqb_eq in H2. subst k n.
  exact (lex_first_token_kw_ok ic Hc mc w t s' Hm E).
Qed.

(* ---------- whole words, to the left as well ---------- *)

Definition nonident_head (l : bytes) : Prop := ends_with (fun b => negb (is_ident_char b)) l.

(* l is empty or its last byte is not an identifier character *)
Definition nonident_last (l : bytes) : Prop := l = [] \/ exists l' x, l = l' ++ [x] /\ is_ident_char x = false.

Lemma nonident_last_app a b : b <> [] -> nonident_last b -> nonident_last (a ++ b).
Proof.
  intros Hb [->|[l' [x [-> Hx]]]]; [congruence|]. right. exists (a ++ l'), x. split; [apply app_assoc | exact Hx].
Qed.

Lemma nonident_last_one x : is_ident_char x = false -> nonident_last [x].
Proof. intros H. right. exists [], x. split; [reflexivity | exact H]. Qed.

Lemma gap_units_last c : gap_units c -> nonident_last c.
Proof.
  induction 1 as [|b r Hb _ IH|r _ IH|r _ IH|r _ IH].
  - left. reflexivity.
  - destruct r as [|r0 r1].
    + apply nonident_last_one. apply nn_space_not_ident. exact Hb.
    + apply (nonident_last_app [b]); [discriminate | exact IH].
  - destruct r as [|r0 r1].
    + apply (nonident_last_app [36] [10]); [discriminate | apply nonident_last_one; reflexivity].
    + apply (nonident_last_app [36; 10]); [discriminate | exact IH].
  - destruct r as [|r0 r1].
    + apply (nonident_last_app [36; 10] [13]); [discriminate | apply nonident_last_one; reflexivity].
    + apply (nonident_last_app [36; 10; 13]); [discriminate | exact IH].
  - destruct r as [|r0 r1].
    + apply (nonident_last_app [36; 13] [10]); [discriminate | apply nonident_last_one; reflexivity].
    + apply (nonident_last_app [36; 13; 10]); [discriminate | exact IH].
Qed.

Lemma ends_with_impl (f g : byte -> bool) l : (forall b, f b = true -> g b = true) -> ends_with f l -> ends_with g l.
Proof. intros H. destruct l as [|b r]; [trivial|]. cbn. apply H. Qed.

Lemma nl_not_ident b : is_nl b = true -> negb (is_ident_char b) = true.
Proof. intros H. apply negb_true_iff. destruct (is_ident_char b) eqn:E; [|reflexivity]. apply ident_not_nl in E. congruence. Qed.

Lemma path_stop_not_ident b : path_stop b = true -> negb (is_ident_char b) = true.
Proof.
  unfold path_stop. intros H. apply orb_true_iff in H. destruct H as [H|H]; [apply orb_true_iff in H; destruct H as [H|H]|].
  - apply space_split in H. destruct H as [H|H]; [|apply nl_not_ident; exact H].
    apply negb_true_iff. apply nn_space_not_ident. exact H.
  - apply N.eqb_eq in H. subst b. reflexivity.
  - apply N.eqb_eq in H. subst b. reflexivity.
Qed.

(* behind every token there is a word boundary: its last byte is not an identifier character, or the byte that
   follows it is not one (or there is none) *)
Lemma kind_facts_boundary m k body r' : kind_facts m k body r' ->
  (body <> [] /\ nonident_last body) \/ nonident_head r'.
Proof.
  intros Hk.
  assert (Hident : is_identlike k = true -> nonident_head r').
  { intros Hi. destruct (kind_facts_keywords _ _ _ _ Hk) as [_ [_ K3]]. destruct (K3 Hi) as [_ [_ H]]. exact H. }
  destruct k; cbn [kind_facts] in Hk; try (right; apply Hident; reflexivity).
  - left. destruct Hk as [-> _]. split; [discriminate | apply nonident_last_one; reflexivity].
  - right. destruct Hk as [c [_ [_ [He _]]]]. exact (ends_with_impl _ _ _ nl_not_ident He).
  - right. destruct Hk as [_ ->]. exact I.
  - left. destruct Hk as [-> _]. split; [discriminate | apply nonident_last_one; reflexivity].
  - left. destruct Hk as [Hne [F _]]. split; [exact Hne|].
    destruct (exists_last Hne) as [l' [x Hx]]. right. exists l', x. split; [exact Hx|].
    rewrite Hx in F. apply Forall_app in F. destruct F as [_ F]. inversion F; subst.
    apply nn_space_not_ident. assumption.
  - left. destruct Hk as [-> |[-> |[-> | -> ]]].
    + split; [discriminate | apply nonident_last_one; reflexivity].
    + split; [discriminate | apply nonident_last_one; reflexivity].
    + split; [discriminate | apply (nonident_last_app [10] [13]); [discriminate | apply nonident_last_one; reflexivity]].
    + split; [discriminate | apply (nonident_last_app [13] [10]); [discriminate | apply nonident_last_one; reflexivity]].
  - left. destruct Hk as [-> _]. split; [discriminate | apply nonident_last_one; reflexivity].
  - left. destruct Hk as [-> _].
    split; [discriminate | apply (nonident_last_app [124] [124]); [discriminate | apply nonident_last_one; reflexivity]].
  - right. destruct Hk as [_ [[_ He]|[_ He]]].
    + exact (ends_with_impl _ _ _ nl_not_ident He).
    + exact (ends_with_impl _ _ _ path_stop_not_ident He).
  - left. destruct Hk as [x [-> [Hx _]]]. split; [discriminate | apply nonident_last_one; exact Hx].
Qed.

(* token t starts at offset 0 or the byte in front of it is not an identifier character *)
Definition left_boundary (data : bytes) (t : token) : Prop :=
  tk_start t = 0%nat \/ exists x, nth_error data (tk_start t - 1) = Some x /\ is_ident_char x = false.

Lemma stream_boundary modes pos r toks pos_e r_e : stream_spec modes pos r toks pos_e r_e ->
  forall pre, length pre = pos -> nonident_last pre \/ nonident_head r ->
    Forall (fun t => is_identlike (tk_kind t) = true -> left_boundary (pre ++ r) t) toks.
Proof.
  induction 1 as [pos r | m ms pos gap body r' t ts pos_e r_e Hg Hs Hl Hk Hne SS IH]; intros pre P Hb; [constructor|].
  assert (D2 : pre ++ gap ++ body ++ r' = (pre ++ gap ++ body) ++ r') by (rewrite <- !app_assoc; reflexivity).
  assert (P2 : length (pre ++ gap ++ body) = (pos + length gap + length body)%nat) by (rewrite !app_length; lia).
  constructor.
  - intros Hi. destruct (kind_facts_keywords _ _ _ _ Hk) as [_ [_ K3]]. destruct (K3 Hi) as [Hbne [F _]].
    destruct body as [|b0 body']; [congruence|]. inversion F as [|x l Hb0 _]; subst x l.
    assert (Hpg : nonident_last (pre ++ gap)).
    { destruct gap as [|g gap'].
      - rewrite app_nil_r. destruct Hb as [Hb|Hb]; [exact Hb|]. cbn in Hb. rewrite Hb0 in Hb. discriminate.
      - apply nonident_last_app; [discriminate | apply gap_units_last; exact Hg]. }
    unfold left_boundary. rewrite Hs, <- P, <- app_length.
    destruct Hpg as [Hpg|[l' [x [Hpg Hx]]]].
    + left. rewrite Hpg. reflexivity.
    + right. exists x. split; [|exact Hx]. rewrite app_assoc, Hpg, app_length. cbn [length].
      replace (length l' + 1 - 1)%nat with (length l') by lia.
      rewrite <- app_assoc. rewrite nth_error_app2 by lia. rewrite Nat.sub_diag. reflexivity.
  - rewrite D2. apply (IH _ P2).
    destruct (kind_facts_boundary _ _ _ _ Hk) as [[Hbne Hbl]|Hr]; [left|right; exact Hr].
    rewrite app_assoc. apply nonident_last_app; assumption.
Qed.

(* lex_keywords_whole, left side: for every mode sequence, an identifier or keyword token starts at offset 0 or
   directly behind a byte that is not an identifier character.  With part (3) of lex_keywords_whole: a keyword
   token is a maximal run of identifier characters on both sides - "rule" inside "xrule", "rules", "my.rule" is
   never a keyword token. *)
Theorem lex_identifier_left_boundary modes data toks t : lex_stream modes data = Ok toks -> In t toks ->
  is_identlike (tk_kind t) = true -> left_boundary data t.
Proof.
  intros E Hin Hi. destruct (lex_stream_spec modes data toks E) as [pe [re SS]].
  pose proof (stream_boundary _ _ _ _ _ _ SS [] eq_refl (or_introl (or_introl eq_refl))) as F.
  rewrite Forall_forall in F. exact (F t Hin Hi).
Qed.


(* ---------- non-vacuity: concrete instances that meet the hypotheses ---------- *)

(* "rule cc$\n  x = \xff\r\nbuild a: b $"  (a '$' as the last byte, a byte 0xFF, a CRLF, a "$\n" continuation) *)
Definition ex_manifest : bytes :=
  [114;117;108;101;32;99;99;36;10;32;32;120;32;61;32;255;13;10;98;117;105;108;100;32;97;58;32;98;32;36].

Example ex_lex_all_none :
  lex_all MNone ex_manifest =
  Ok [mkTok TkKWRule 0 4 1 0; mkTok TkIdentifier 5 2 1 5; mkTok TkIdentifier 11 1 2 2; mkTok TkEquals 13 1 2 4;
      mkTok TkUnknown 15 1 2 6; mkTok TkNewline 16 2 2 7; mkTok TkKWBuild 18 5 3 0; mkTok TkIdentifier 24 1 3 6;
      mkTok TkColon 25 1 3 7; mkTok TkIdentifier 27 1 3 9; mkTok TkUnknown 29 1 3 11; mkTok TkEndOfFile 30 0 3 12].
Proof. vm_compute. reflexivity. Qed.

Example ex_lex_all_path :
  lex_all MPathString ex_manifest =
  Ok [mkTok TkString 0 4 1 0; mkTok TkString 5 7 1 5; mkTok TkString 13 1 2 4; mkTok TkString 15 1 2 6;
      mkTok TkNewline 16 2 2 7; mkTok TkString 18 5 3 0; mkTok TkString 24 1 3 6; mkTok TkColon 25 1 3 7;
      mkTok TkString 27 1 3 9; mkTok TkString 29 1 3 11; mkTok TkEndOfFile 30 0 3 12].
Proof. vm_compute. reflexivity. Qed.

Example ex_lex_all_var :
  lex_all MVariableString ex_manifest =
  Ok [mkTok TkString 0 16 1 0; mkTok TkNewline 16 2 2 7; mkTok TkString 18 12 3 0; mkTok TkEndOfFile 30 0 3 12].
Proof. vm_compute. reflexivity. Qed.

(* an adversarial mode sequence (the parser's setMode calls in any order), more calls than tokens: EndOfFile repeats *)
Example ex_lex_stream :
  lex_stream [MIdentifierSpecific; MPathString; MVariableString; MNone; MPathString; MNone; MNone] ex_manifest =
  Ok [mkTok TkIdentifier 0 4 1 0; mkTok TkString 5 7 1 5; mkTok TkString 13 3 2 4; mkTok TkNewline 16 2 2 7;
      mkTok TkString 18 5 3 0; mkTok TkIdentifier 24 1 3 6; mkTok TkColon 25 1 3 7].
Proof. vm_compute. reflexivity. Qed.

(* lex_progress / lex_call_facts / lex_eof_iff_at_end: the initial cursor is a cursor, and both alternatives occur *)
Example ex_progress_token : exists t s', at_data ex_manifest (init ex_manifest) /\
  lex MNone (init ex_manifest) = Ok (t, s') /\ tk_kind t = TkKWRule /\ (l_pos (init ex_manifest) < l_pos s')%nat.
Proof. eexists. eexists. split; [apply at_data_init|]. split; [vm_compute; reflexivity|]. split; [reflexivity | cbn; lia]. Qed.

Example ex_progress_eof : exists t s', at_data [32; 36; 10] (mkL [] 3 2 0) /\
  lex MNone (mkL [] 3 2 0) = Ok (t, s') /\ tk_kind t = TkEndOfFile /\ tk_start t = length [32; 36; 10].
Proof.
  eexists. eexists. split; [exists [32; 36; 10]; split; reflexivity|]. split; [vm_compute; reflexivity|]. split; reflexivity.
Qed.

(* lex_tokens_ordered / lex_first_gap: a gap that is not empty ("$\n  " between cc and x) *)
Example ex_gap : gap_units (slice ex_manifest 7 11).
Proof. vm_compute. apply gu_lf. apply gu_space; [reflexivity|]. apply gu_space; [reflexivity|]. apply gu_nil. Qed.

(* lex_all_tiles *)
Example ex_tiles : forall toks, lex_all MPathString ex_manifest = Ok toks -> rebuild ex_manifest 0 toks = ex_manifest.
Proof. intros toks E. rewrite ex_lex_all_path in E. inversion E; subst. vm_compute. reflexivity. Qed.

(* lex_high_bytes_ordinary: the byte 0xFF at offset 15 *)
Example ex_high_byte : nth_error ex_manifest 15 = Some 255 /\ 128 <= 255 /\
  lex MNone (mkL [255; 13; 10] 15 2 6) = Ok (mkTok TkUnknown 15 1 2 6, mkL [13; 10] 16 2 7) /\
  exists s', lex MPathString (mkL [255; 13; 10] 15 2 6) = Ok (mkTok TkString 15 1 2 6, s').
Proof. split; [reflexivity|]. split; [lia|]. split; [vm_compute; reflexivity|]. eexists. vm_compute. reflexivity. Qed.

(* lex_keywords_whole: "subninja" is the keyword, "subninj" / "subninjas" / "xsubninja" are identifiers, and in
   IdentifierSpecific mode "subninja" is an identifier *)
Example ex_keywords :
  lex_all MNone [115;117;98;110;105;110;106;97] = Ok [mkTok TkKWSubninja 0 8 1 0; mkTok TkEndOfFile 8 0 1 8] /\
  lex_all MNone [115;117;98;110;105;110;106] = Ok [mkTok TkIdentifier 0 7 1 0; mkTok TkEndOfFile 7 0 1 7] /\
  lex_all MNone [115;117;98;110;105;110;106;97;115] = Ok [mkTok TkIdentifier 0 9 1 0; mkTok TkEndOfFile 9 0 1 9] /\
  lex_all MNone [120;115;117;98;110;105;110;106;97] = Ok [mkTok TkIdentifier 0 9 1 0; mkTok TkEndOfFile 9 0 1 9] /\
  lex_all MIdentifierSpecific [115;117;98;110;105;110;106;97] = Ok [mkTok TkIdentifier 0 8 1 0; mkTok TkEndOfFile 8 0 1 8].
Proof. repeat split; vm_compute; reflexivity. Qed.

(* lex_first_token_kw_ok: the model's own identifier characters form a matching class *)
Example ex_charclass : charclass_matches is_ident_char (filter is_ident_char all_bytes) = true /\
  kw_entry_ok (filter is_ident_char all_bytes) (0, [114;117;108;101;58], 10, 4) = true /\
  kw_entry_ok (filter is_ident_char all_bytes) (0, [114;117;108;101;58], 5, 4) = false.
Proof. repeat split; vm_compute; reflexivity. Qed.

Example ex_left_boundary : left_boundary ex_manifest (mkTok TkKWBuild 18 5 3 0).
Proof. right. exists 10. split; reflexivity. Qed.

(* ====================================================================================================== *)
(* EXPORTED LEMMAS (all closed under the global context; restated in Props/Properties_c17lex.v)

   Vocabulary
     at_data data s              exists pre, data = pre ++ l_rest s /\ l_pos s = length pre   (s is a cursor into data)
     slice data a b              firstn (b - a) (skipn a data)
     token_slice data t          slice data (tk_start t) (tk_start t + tk_len t)
     token_after data t          skipn (tk_start t + tk_len t) data
     gap_units c                 c is a sequence of: one non-newline space (9, 11, 12, 32) | 36 10 | 36 10 13 | 36 13 10
     kind_facts m k body rest'   what is known of a token of kind k with bytes body, followed by rest', lexed in mode m
     token_facts data m t        kind_facts m (tk_kind t) (token_slice data t) (token_after data t)
     tok_chain data pos toks     each token starts at or after the end of its predecessor (the first: after pos), ends
                                 inside data, and the bytes skipped in between are gap_units
     toks_end pos toks           offset behind the last token;  rebuild data pos toks = gaps and token bodies in order
     eof_last toks               the last token is EndOfFile and no other is
     regular_mode m              m = MNone \/ m = MIdentifierSpecific
     is_identlike k              k is Identifier or one of the six keyword kinds
     left_boundary data t        tk_start t = 0 \/ the byte at tk_start t - 1 is not an identifier character

   C19 (termination, bounds, tiling, EndOfFile)
     lex_total                 : forall m s, exists t s', lex m s = Ok (t, s')
     lex_progress              : forall data m s t s', at_data data s -> lex m s = Ok (t, s') ->
                                 (tk_kind t = TkEndOfFile /\ tk_len t = 0 /\ tk_start t = length data /\
                                  l_pos s' = length data /\ l_rest s' = []) \/
                                 (tk_kind t <> TkEndOfFile /\ 0 < tk_len t /\ l_pos s < l_pos s' /\ l_pos s' <= length data)
     lex_call_facts            : forall data m s t s', at_data data s -> lex m s = Ok (t, s') ->
                                 at_data data s' /\ l_pos s <= tk_start t /\ l_pos s' = tk_start t + tk_len t /\
                                 l_pos s' <= length data /\ gap_units (slice data (l_pos s) (tk_start t)) /\ token_facts data m t
     lex_eof_iff_at_end        : forall data m s t s', at_data data s -> lex m s = Ok (t, s') ->
                                 (tk_kind t = TkEndOfFile <-> tk_start t = length data)
     lex_all_total             : forall m data, exists toks, lex_all m data = Ok toks
     lex_stream_total          : forall modes data, exists toks, lex_stream modes data = Ok toks
     lex_stream_length         : lex_stream modes data = Ok toks -> length toks = length modes
     lex_all_stream            : lex_all m data = Ok toks -> lex_stream (repeat m (length toks)) data = Ok toks /\ eof_last toks
     lex_stream_chain          : lex_stream modes data = Ok toks -> tok_chain data 0 toks
     lex_in_bounds             : lex_stream modes data = Ok toks -> In t toks -> tk_start t + tk_len t <= length data
     lex_tokens_ordered        : lex_stream modes data = Ok (l1 ++ t1 :: t2 :: l2) ->
                                 tk_start t1 + tk_len t1 <= tk_start t2 /\
                                 gap_units (slice data (tk_start t1 + tk_len t1) (tk_start t2))        (= lex_gaps_blank)
     lex_gaps_blank            : the second conjunct of lex_tokens_ordered on its own
     lex_first_gap             : lex_stream modes data = Ok (t :: ts) -> gap_units (slice data 0 (tk_start t))
     gap_units_inv             : the exact set a gap is made of (inversion of gap_units)
     lex_stream_tiles          : lex_stream modes data = Ok toks ->
                                 data = rebuild data 0 toks ++ skipn (toks_end 0 toks) data /\
                                 toks_end 0 toks = length (rebuild data 0 toks)
     lex_all_tiles             : lex_all m data = Ok toks ->
                                 rebuild data 0 toks = data /\ toks_end 0 toks = length data /\ tok_chain data 0 toks
     lex_eof_only_at_end       : lex_stream modes data = Ok toks -> In t toks ->
                                 (tk_kind t = TkEndOfFile -> tk_start t = length data /\ tk_len t = 0) /\
                                 (tk_kind t <> TkEndOfFile -> 0 < tk_len t)
     lex_stream_token_facts    : lex_stream modes data = Ok toks -> Forall2 (token_facts data) modes toks

   C17 (bytes 0x80-0xFF ordinary; keywords whole words)
     high_byte_classes         : 128 <= b -> is_space b = false /\ is_nn_space b = false /\ is_nl b = false /\
                                 is_ident_char b = false /\ is_simple_ident_char b = false /\
                                 forall r pos line col, peek (mkL (b :: r) pos line col) = Some b /\
                                                        fst (getc (mkL (b :: r) pos line col)) = Some b
     lex_high_byte_regular     : 128 <= b -> regular_mode m ->
                                 lex m (mkL (b :: r) pos line col) = Ok (mkTok TkUnknown pos 1 line col, mkL r (S pos) line (col + 1))
     lex_high_byte_string      : 128 <= b -> m = MPathString \/ m = MVariableString ->
                                 exists n s', lex m (mkL (b :: r) pos line col) = Ok (mkTok TkString pos (S n) line col, s')
     lex_high_bytes_ordinary   : lex_stream modes data = Ok toks -> nth_error data i = Some b -> 128 <= b -> i < toks_end 0 toks ->
                                 exists m t, In (m, t) (combine modes toks) /\ tk_start t <= i < tk_start t + tk_len t /\
                                   ((tk_kind t = TkString /\ (m = MPathString \/ m = MVariableString)) \/
                                    (tk_kind t = TkComment /\ regular_mode m /\ tk_start t < i) \/
                                    (tk_kind t = TkUnknown /\ regular_mode m /\ tk_start t = i /\ tk_len t = 1))
     lex_all_high_bytes_in_strings : lex_all m data = Ok toks -> m = MPathString \/ m = MVariableString ->
                                 nth_error data i = Some b -> 128 <= b ->
                                 exists t, In t toks /\ tk_kind t = TkString /\ tk_start t <= i < tk_start t + tk_len t
     lex_all_high_bytes_unknown : lex_all m data = Ok toks -> regular_mode m -> nth_error data i = Some b -> 128 <= b ->
                                 exists t, In t toks /\ tk_start t <= i < tk_start t + tk_len t /\
                                   ((tk_kind t = TkUnknown /\ tk_start t = i /\ tk_len t = 1) \/ (tk_kind t = TkComment /\ tk_start t < i))
     lex_keywords_whole        : at_data data s -> lex m s = Ok (t, s') ->
                                 (is_keyword (tk_kind t) = true -> m = MNone /\ In (token_slice data t, tk_kind t) keyword_table) /\
                                 (m = MNone -> forall k, In (token_slice data t, k) keyword_table -> tk_kind t = k) /\
                                 (is_identlike (tk_kind t) = true ->
                                    token_slice data t <> [] /\ Forall (fun b => is_ident_char b = true) (token_slice data t) /\
                                    ends_with (fun b => negb (is_ident_char b)) (token_after data t))
     lex_no_keywords_outside_none : at_data data s -> lex m s = Ok (t, s') -> m <> MNone -> is_keyword (tk_kind t) = false
     lex_identifier_left_boundary : lex_stream modes data = Ok toks -> In t toks -> is_identlike (tk_kind t) = true -> left_boundary data t
     lex_first_token_kw_ok     : charclass_matches is_ident_char ic = true -> mc < 4 -> lex (mode_of_code mc) (init w) = Ok (t, s') ->
                                 kw_entry_ok ic (mc, w, kind_code (tk_kind t), N.of_nat (tk_len t)) = true
     keywords_match_model_ok   : charclass_matches is_ident_char ic = true ->
                                 forallb (fun e => let '(m, _, _, _) := e in m <? 4) tbl = true ->
                                 keywords_match_model tbl = true -> keywords_ok ic tbl = true
   Table side conditions (vm_compute in the property file, over coq/gen/Gen_NinjaKeywords.v):
     families_complete, probes_cover, charclass_matches (both classes), keywords_ok, keywords_match_model.
   Non-vacuity: the Examples ex_* above.  No statement had to be weakened or refuted. *)
