(* Proofs about the Ninja lexer model (Parse/NinjaLex.v): totality (no OutOfFuel), progress, tiling of the input by
   the tokens, EndOfFile only at the end, bytes >= 128 are ordinary, keywords are whole words.
   The exported statements are listed in the comment block at the end of the file. *)
From LLB Require Import Base.Bytes Base.BytesFacts Parse.NinjaLex.
Local Open Scope N_scope.

(* ---------- character classes ---------- *)

Lemma nn_space_not_nl b : is_nn_space b = true -> is_nl b = false.
Proof.
  unfold is_nn_space, is_nl. intros H.
  apply andb_true_iff in H. destruct H as [H H3]. apply andb_true_iff in H. destruct H as [_ H2].
  apply negb_true_iff in H2. apply negb_true_iff in H3. rewrite H2, H3. reflexivity.
Qed.

Lemma nl_cases b : is_nl b = true -> b = 10 \/ b = 13.
Proof.
  unfold is_nl. intros H. apply orb_true_iff in H. destruct H as [H|H]; apply N.eqb_eq in H; auto.
Qed.

Lemma ident_not_nl b : is_ident_char b = true -> is_nl b = false.
Proof.
  intros H. destruct (is_nl b) eqn:E; [|reflexivity].
  apply nl_cases in E. destruct E as [->| ->]; vm_compute in H; discriminate.
Qed.

Lemma space_split b : is_space b = true -> is_nn_space b = true \/ is_nl b = true.
Proof.
  unfold is_nn_space, is_nl. intros H. rewrite H.
  destruct (b =? 10); [right; reflexivity|]. destruct (b =? 13); [right; reflexivity|]. left. reflexivity.
Qed.

Lemma nn_space_is_space b : is_nn_space b = true -> is_space b = true.
Proof. unfold is_nn_space. intros H. apply andb_true_iff in H. destruct H as [H _]. apply andb_true_iff in H. tauto. Qed.

Lemma high_not_space b : 128 <= b -> is_space b = false.
Proof.
  intros H. unfold is_space. apply orb_false_iff. split.
  - apply andb_false_iff. right. apply N.leb_gt. lia.
  - apply N.eqb_neq. lia.
Qed.

Lemma high_not_nn_space b : 128 <= b -> is_nn_space b = false.
Proof. intros H. unfold is_nn_space. rewrite (high_not_space b H). reflexivity. Qed.

Lemma high_not_nl b : 128 <= b -> is_nl b = false.
Proof. intros H. unfold is_nl. apply orb_false_iff. split; apply N.eqb_neq; lia. Qed.

Lemma high_not_ident b : 128 <= b -> is_ident_char b = false.
Proof.
  intros H. unfold is_ident_char.
  repeat (apply orb_false_iff; split); try (apply N.eqb_neq; lia);
    apply andb_false_iff; right; apply N.leb_gt; lia.
Qed.

Lemma high_not_simple_ident b : 128 <= b -> is_simple_ident_char b = false.
Proof.
  intros H. unfold is_simple_ident_char.
  repeat (apply orb_false_iff; split); try (apply N.eqb_neq; lia);
    apply andb_false_iff; right; apply N.leb_gt; lia.
Qed.

(* ---------- advancing over bytes ---------- *)

(* s' is s advanced over exactly the bytes c *)
Definition adv (s s' : lstate) (c : bytes) : Prop :=
  l_rest s = c ++ l_rest s' /\ l_pos s' = (l_pos s + length c)%nat.

Lemma adv_refl s : adv s s [].
Proof. split; [reflexivity | cbn; lia]. Qed.

Lemma adv_trans s1 s2 s3 c1 c2 : adv s1 s2 c1 -> adv s2 s3 c2 -> adv s1 s3 (c1 ++ c2).
Proof.
  intros [H1 P1] [H2 P2]. split.
  - rewrite H1, H2. rewrite app_assoc. reflexivity.
  - rewrite P2, P1, app_length. lia.
Qed.

Lemma adv_len s s' c : adv s s' c -> length (l_rest s) = (length c + length (l_rest s'))%nat.
Proof. intros [H _]. rewrite H. apply app_length. Qed.

(* the bytes one getNextChar() consumes from the remaining suffix r *)
Definition getc_chunk (r : bytes) : bytes :=
  match r with
  | [] => []
  | b :: r' =>
    if is_nl b then
      match r' with
      | c :: _ => if c =? 23 - b then [b; c] else [b]
      | [] => [b]
      end
    else [b]
  end.

Lemma skipc_adv s : adv s (skipc s) (getc_chunk (l_rest s)).
Proof.
  destruct s as [rest pos line col]. unfold skipc, getc, getc_chunk. cbn [l_rest l_pos l_line l_col].
  destruct rest as [|b r]; [apply adv_refl|].
  destruct (is_nl b).
  - destruct r as [|c r2].
    + cbn [snd]. split; cbn; [reflexivity | lia].
    + destruct (c =? 23 - b); cbn [snd]; split; cbn; try reflexivity; lia.
  - cbn [snd]. split; cbn; [reflexivity | lia].
Qed.

Lemma skipc_plain b r pos line col :
  is_nl b = false -> skipc (mkL (b :: r) pos line col) = mkL r (S pos) line (col + 1).
Proof. intros H. unfold skipc, getc. cbn [l_rest l_pos l_line l_col]. rewrite H. reflexivity. Qed.

Lemma getc_plain b r pos line col :
  is_nl b = false -> getc (mkL (b :: r) pos line col) = (Some b, mkL r (S pos) line (col + 1)).
Proof. intros H. unfold getc. cbn [l_rest l_pos l_line l_col]. rewrite H. reflexivity. Qed.

Lemma getc_chunk_nonempty b r : getc_chunk (b :: r) <> [].
Proof.
  unfold getc_chunk. destruct (is_nl b); [|discriminate].
  destruct r as [|c r2]; [discriminate|]. destruct (c =? 23 - b); discriminate.
Qed.

Lemma getc_chunk_nl b r : is_nl b = true ->
  getc_chunk (b :: r) = [10] \/ getc_chunk (b :: r) = [13] \/ getc_chunk (b :: r) = [10; 13] \/ getc_chunk (b :: r) = [13; 10].
Proof.
  intros H. unfold getc_chunk. rewrite H. apply nl_cases in H.
  destruct r as [|c r2]; [destruct H as [->| ->]; auto|].
  destruct (N.eqb_spec c (23 - b)) as [E|E].
  - destruct H as [->| ->]; change (23 - 10) with 13 in E; change (23 - 13) with 10 in E; subst c; auto.
  - destruct H as [->| ->]; auto.
Qed.

(* the value returned by getNextChar is '\n' exactly when the byte at the cursor is a newline character *)
Lemma getc_value s : fst (getc s) = match l_rest s with
                                    | [] => None
                                    | b :: _ => if is_nl b then Some 10 else Some b
                                    end.
Proof.
  unfold getc. destruct (l_rest s) as [|b r]; [reflexivity|].
  destruct (is_nl b); [|reflexivity].
  destruct r as [|c r2]; [reflexivity|]. destruct (c =? 23 - b); reflexivity.
Qed.

(* r is empty or its first byte satisfies f *)
Definition ends_with (f : byte -> bool) (r : bytes) : Prop :=
  match r with [] => True | b :: _ => f b = true end.

(* ---------- the simple loops ---------- *)

Lemma nn_space_loop_spec fuel : forall s, (length (l_rest s) < fuel)%nat ->
  exists s' c, nn_space_loop fuel s = Ok s' /\ adv s s' c /\
               Forall (fun b => is_nn_space b = true) c /\ ends_with (fun b => negb (is_nn_space b)) (l_rest s').
Proof.
  induction fuel as [|f IH]; intros s H; [lia|].
  destruct s as [rest pos line col]. destruct rest as [|b r]; cbn [nn_space_loop peek l_rest opt_test].
  - eexists. exists []. split; [reflexivity|]. split; [apply adv_refl|]. split; [constructor | exact I].
  - destruct (is_nn_space b) eqn:Eb.
    + rewrite skipc_plain by (apply nn_space_not_nl; exact Eb).
      destruct (IH (mkL r (S pos) line (col + 1))) as [s' [c [E [[A1 A2] [Hc He]]]]]; [cbn in *; lia|].
      exists s', (b :: c). split; [exact E|]. cbn [l_rest l_pos] in *. split.
      * split; cbn; [rewrite A1; reflexivity | lia].
      * split; [constructor; assumption | exact He].
    + eexists. exists []. split; [reflexivity|]. split; [apply adv_refl|]. split; [constructor|].
      cbn. rewrite Eb. reflexivity.
Qed.

Lemma ident_loop_spec fuel : forall s, (length (l_rest s) < fuel)%nat ->
  exists s' c, ident_loop fuel s = Ok s' /\ adv s s' c /\
               Forall (fun b => is_ident_char b = true) c /\ ends_with (fun b => negb (is_ident_char b)) (l_rest s').
Proof.
  induction fuel as [|f IH]; intros s H; [lia|].
  destruct s as [rest pos line col]. destruct rest as [|b r]; cbn [ident_loop peek l_rest opt_test].
  - eexists. exists []. split; [reflexivity|]. split; [apply adv_refl|]. split; [constructor | exact I].
  - destruct (is_ident_char b) eqn:Eb.
    + rewrite skipc_plain by (apply ident_not_nl; exact Eb).
      destruct (IH (mkL r (S pos) line (col + 1))) as [s' [c [E [[A1 A2] [Hc He]]]]]; [cbn in *; lia|].
      exists s', (b :: c). split; [exact E|]. cbn [l_rest l_pos] in *. split.
      * split; cbn; [rewrite A1; reflexivity | lia].
      * split; [constructor; assumption | exact He].
    + eexists. exists []. split; [reflexivity|]. split; [apply adv_refl|]. split; [constructor|].
      cbn. rewrite Eb. reflexivity.
Qed.

Lemma skip_to_eol_spec fuel : forall s, (length (l_rest s) < fuel)%nat ->
  exists s' c, skip_to_eol fuel s = Ok s' /\ adv s s' c /\
               Forall (fun b => is_nl b = false) c /\ ends_with is_nl (l_rest s').
Proof.
  induction fuel as [|f IH]; intros s H; [lia|].
  destruct s as [rest pos line col]. destruct rest as [|b r]; cbn [skip_to_eol peek l_rest].
  - eexists. exists []. split; [reflexivity|]. split; [apply adv_refl|]. split; [constructor | exact I].
  - destruct (is_nl b) eqn:Eb.
    + eexists. exists []. split; [reflexivity|]. split; [apply adv_refl|]. split; [constructor|].
      cbn. exact Eb.
    + rewrite skipc_plain by exact Eb.
      destruct (IH (mkL r (S pos) line (col + 1))) as [s' [c [E [[A1 A2] [Hc He]]]]]; [cbn in *; lia|].
      exists s', (b :: c). split; [exact E|]. cbn [l_rest l_pos] in *. split.
      * split; cbn; [rewrite A1; reflexivity | lia].
      * split; [constructor; assumption | exact He].
Qed.

(* ---------- the string loops ---------- *)

Definition path_stop (b : byte) : bool := is_space b || (b =? 58) || (b =? 124).

Lemma dollar_not_nl : is_nl 36 = false.
Proof. reflexivity. Qed.

Lemma var_loop_spec fuel : forall s, (length (l_rest s) < fuel)%nat ->
  exists s' c, var_loop fuel s = Ok s' /\ adv s s' c /\ ends_with is_nl (l_rest s') /\
               (forall b r, l_rest s = b :: r -> is_nl b = false -> c <> []).
Proof.
  induction fuel as [|f IH]; intros s H; [lia|].
  destruct s as [rest pos line col]. destruct rest as [|b r]; cbn [var_loop peek l_rest].
  - eexists. exists []. split; [reflexivity|]. split; [apply adv_refl|]. split; [exact I|].
    intros b r Hb. discriminate.
  - destruct (N.eqb_spec b 36) as [->|Hd].
    + rewrite (skipc_plain 36) by reflexivity.
      pose proof (skipc_adv (mkL r (S pos) line (col + 1))) as A. cbn [l_rest] in A.
      destruct (IH (skipc (mkL r (S pos) line (col + 1)))) as [s' [c [E [A' [He _]]]]].
      { apply adv_len in A. cbn [l_rest length] in *. lia. }
      exists s', (36 :: getc_chunk r ++ c). split; [exact E|]. split.
      * pose proof (adv_trans _ _ _ _ _ A A') as [T1 T2]. cbn [l_rest l_pos] in *. split.
        -- cbn [app l_rest]. f_equal. exact T1.
        -- rewrite T2. cbn. lia.
      * split; [exact He | intros; discriminate].
    + destruct (is_nl b) eqn:Eb.
      * eexists. exists []. split; [reflexivity|]. split; [apply adv_refl|]. split; [cbn; exact Eb|].
        intros b' r' Hb Hn. cbn in Hb. inversion Hb; subst. congruence.
      * rewrite skipc_plain by exact Eb.
        destruct (IH (mkL r (S pos) line (col + 1))) as [s' [c [E [[A1 A2] [He _]]]]]; [cbn in *; lia|].
        exists s', (b :: c). split; [exact E|]. cbn [l_rest l_pos] in *. split.
        -- split; cbn; [rewrite A1; reflexivity | lia].
        -- split; [exact He | intros; discriminate].
Qed.

Lemma path_loop_spec fuel : forall s, (length (l_rest s) < fuel)%nat ->
  exists s' c, path_loop fuel s = Ok s' /\ adv s s' c /\ ends_with path_stop (l_rest s') /\
               (forall b r, l_rest s = b :: r -> b = 36 \/ path_stop b = false -> c <> []).
Proof.
  induction fuel as [|f IH]; intros s H; [lia|].
  destruct s as [rest pos line col]. destruct rest as [|b r]; cbn [path_loop peek l_rest].
  - eexists. exists []. split; [reflexivity|]. split; [apply adv_refl|]. split; [exact I|].
    intros b r Hb. discriminate.
  - destruct (N.eqb_spec b 36) as [->|Hd].
    + rewrite (skipc_plain 36) by reflexivity.
      set (s1 := mkL r (S pos) line (col + 1)).
      pose proof (skipc_adv s1) as A. unfold skipc in A.
      destruct (getc s1) as [c2 s2] eqn:Eg. cbn [snd] in A.
      assert (L2 : (length (l_rest s2) < f)%nat).
      { apply adv_len in A. subst s1. cbn [l_rest length] in *. lia. }
      destruct (opt_test (N.eqb 10) c2).
      * destruct (nn_space_loop_spec f s2 L2) as [s3 [c3 [E3 [A3 _]]]]. rewrite E3.
        destruct (IH s3) as [s' [c [E [A' [He _]]]]].
        { apply adv_len in A3. lia. }
        exists s', (36 :: (getc_chunk (l_rest s1) ++ c3) ++ c). split; [exact E|]. split.
        -- pose proof (adv_trans _ _ _ _ _ (adv_trans _ _ _ _ _ A A3) A') as [T1 T2].
           subst s1. cbn [l_rest l_pos] in *. split.
           ++ cbn [app l_rest]. f_equal. exact T1.
           ++ rewrite T2. cbn. lia.
        -- split; [exact He | intros; discriminate].
      * destruct (IH s2 L2) as [s' [c [E [A' [He _]]]]].
        exists s', (36 :: getc_chunk (l_rest s1) ++ c). split; [exact E|]. split.
        -- pose proof (adv_trans _ _ _ _ _ A A') as [T1 T2].
           subst s1. cbn [l_rest l_pos] in *. split.
           ++ cbn [app l_rest]. f_equal. exact T1.
           ++ rewrite T2. cbn. lia.
        -- split; [exact He | intros; discriminate].
    + destruct (is_space b || (b =? 58) || (b =? 124)) eqn:Es.
      * eexists. exists []. split; [reflexivity|]. split; [apply adv_refl|]. split; [cbn; exact Es|].
        intros b' r' Hb Hn. cbn in Hb. inversion Hb; subst. unfold path_stop in Hn. destruct Hn; congruence.
      * assert (Eb : is_nl b = false).
        { destruct (is_nl b) eqn:En; [|reflexivity]. apply nl_cases in En.
          destruct En as [->| ->]; vm_compute in Es; discriminate. }
        rewrite skipc_plain by exact Eb.
        destruct (IH (mkL r (S pos) line (col + 1))) as [s' [c [E [[A1 A2] [He _]]]]]; [cbn in *; lia|].
        exists s', (b :: c). split; [exact E|]. cbn [l_rest l_pos] in *. split.
        -- split; cbn; [rewrite A1; reflexivity | lia].
        -- split; [exact He | intros; discriminate].
Qed.

(* ---------- the whitespace / continuation loop ---------- *)

(* The bytes the lexer may skip between two tokens: any sequence of
     - one non-newline space (9, 11, 12, 32),
     - "$\n", "$\n\r" (a '\r' directly after the '\n' is folded into it), "$\r\n".     *)
Inductive gap_units : bytes -> Prop :=
| gu_nil : gap_units []
| gu_space b r : is_nn_space b = true -> gap_units r -> gap_units (b :: r)
| gu_lf r : gap_units r -> gap_units (36 :: 10 :: r)
| gu_lfcr r : gap_units r -> gap_units (36 :: 10 :: 13 :: r)
| gu_crlf r : gap_units r -> gap_units (36 :: 13 :: 10 :: r).

Lemma ws_escape_chunk c1 r2 : newline_escape_ahead (36 :: c1 :: r2) = true ->
  getc_chunk (c1 :: r2) = [10] \/ getc_chunk (c1 :: r2) = [10; 13] \/ getc_chunk (c1 :: r2) = [13; 10].
Proof.
  cbn [newline_escape_ahead]. intros H. apply orb_true_iff in H. destruct H as [H|H].
  - apply N.eqb_eq in H. subst c1. unfold getc_chunk. change (is_nl 10) with true. cbv iota.
    destruct r2 as [|d r3]; [auto|]. change (23 - 10) with 13.
    destruct (N.eqb_spec d 13) as [->|]; auto.
  - apply andb_true_iff in H. destruct H as [H1 H2]. apply N.eqb_eq in H1. subst c1.
    destruct r2 as [|d r3]; [discriminate|]. apply N.eqb_eq in H2. subst d.
    right. right. reflexivity.
Qed.

Lemma ws_escape_units c1 r2 c : newline_escape_ahead (36 :: c1 :: r2) = true -> gap_units c ->
  gap_units (36 :: getc_chunk (c1 :: r2) ++ c).
Proof.
  intros Ea Hg.
  destruct (ws_escape_chunk c1 r2 Ea) as [Ec|[Ec|Ec]]; rewrite Ec; cbn [app];
    [apply gu_lf | apply gu_lfcr | apply gu_crlf]; exact Hg.
Qed.

Lemma ws_loop_spec fuel : forall s, (length (l_rest s) < fuel)%nat ->
  exists s' c, ws_loop fuel s = Ok s' /\ adv s s' c /\ gap_units c /\
               ends_with (fun b => negb (is_nn_space b)) (l_rest s').
Proof.
  induction fuel as [|f IH]; intros s H; [lia|].
  destruct s as [rest pos line col]. destruct rest as [|b r]; cbn [ws_loop peek l_rest l_col].
  - eexists. exists []. split; [reflexivity|]. split; [apply adv_refl|]. split; [constructor | exact I].
  - destruct ((b =? 36) && negb (col =? 0)) eqn:Ed.
    + apply andb_true_iff in Ed. destruct Ed as [Ed _]. apply N.eqb_eq in Ed. subst b.
      destruct (newline_escape_ahead _) eqn:Ea.
      * rewrite (skipc_plain 36) by reflexivity.
        destruct r as [|c1 r2]; [discriminate|].
        pose proof (skipc_adv (mkL (c1 :: r2) (S pos) line (col + 1))) as A. cbn [l_rest] in A.
        destruct (IH (skipc (mkL (c1 :: r2) (S pos) line (col + 1)))) as [s' [c [E [A' [Hg He]]]]].
        { apply adv_len in A. cbn [l_rest length] in *. lia. }
        exists s', (36 :: getc_chunk (c1 :: r2) ++ c). split; [exact E|]. split.
        -- pose proof (adv_trans _ _ _ _ _ A A') as [T1 T2]. cbn [l_rest l_pos] in *. split.
           ++ cbn [app l_rest]. f_equal. exact T1.
           ++ rewrite T2. cbn [length l_pos]. lia.
        -- split; [|exact He]. apply ws_escape_units; assumption.
      * eexists. exists []. split; [reflexivity|]. split; [apply adv_refl|]. split; [constructor|].
        cbn. reflexivity.
    + destruct (is_nn_space b) eqn:Eb.
      * rewrite skipc_plain by (apply nn_space_not_nl; exact Eb).
        destruct (IH (mkL r (S pos) line (col + 1))) as [s' [c [E [[A1 A2] [Hg He]]]]]; [cbn in *; lia|].
        exists s', (b :: c). split; [exact E|]. cbn [l_rest l_pos] in *. split.
        -- split; cbn; [rewrite A1; reflexivity | lia].
        -- split; [apply gu_space; assumption | exact He].
      * eexists. exists []. split; [reflexivity|]. split; [apply adv_refl|]. split; [constructor|].
        cbn. rewrite Eb. reflexivity.
Qed.

Lemma gap_units_app a b : gap_units a -> gap_units b -> gap_units (a ++ b).
Proof.
  intros Ha Hb. induction Ha; cbn [app]; [exact Hb | apply gu_space; assumption | apply gu_lf; assumption
                                          | apply gu_lfcr; assumption | apply gu_crlf; assumption].
Qed.

(* the first byte of a gap is a non-newline space or '$' *)
Lemma gap_units_head b r : gap_units (b :: r) -> is_nn_space b = true \/ b = 36.
Proof. intros H. inversion H; subst; auto. Qed.

(* ---------- one lex call: the master specification ---------- *)

Lemma token_bytes_adv s0 s1 body : adv s0 s1 body -> token_bytes s0 s1 = body.
Proof.
  intros [H1 H2]. unfold token_bytes. rewrite H1, H2.
  replace (l_pos s0 + length body - l_pos s0)%nat with (length body + 0)%nat by lia.
  rewrite firstn_app_2. cbn. apply app_nil_r.
Qed.

Definition regular_mode (m : mode) : Prop := m = MNone \/ m = MIdentifierSpecific.

(* what is known about a token of kind k with bytes [body], followed in the buffer by [rest'], lexed in mode m *)
Definition kind_facts (m : mode) (k : kind) (body rest' : bytes) : Prop :=
  match k with
  | TkEndOfFile => body = [] /\ rest' = []
  | TkIndentation =>
    body <> [] /\ Forall (fun b => is_nn_space b = true) body /\ ends_with (fun b => negb (is_nn_space b)) rest'
  | TkNewline => body = [10] \/ body = [13] \/ body = [10; 13] \/ body = [13; 10]
  | TkString =>
    body <> [] /\ ((m = MVariableString /\ ends_with is_nl rest') \/ (m = MPathString /\ ends_with path_stop rest'))
  | TkColon => body = [58] /\ m <> MVariableString
  | TkEquals => body = [61] /\ regular_mode m
  | TkComment =>
    exists c, body = 35 :: c /\ Forall (fun b => is_nl b = false) c /\ ends_with is_nl rest' /\ regular_mode m
  | TkPipe => body = [124] /\ ends_with (fun b => negb (b =? 124)) rest' /\ m <> MVariableString
  | TkPipePipe => body = [124; 124] /\ m <> MVariableString
  | TkUnknown =>
    exists b, body = [b] /\ is_ident_char b = false /\ is_nl b = false /\ is_nn_space b = false /\
              b <> 58 /\ b <> 61 /\ b <> 35 /\ b <> 124 /\ regular_mode m
  | _ => (* Identifier and the six keyword kinds *)
    body <> [] /\ Forall (fun b => is_ident_char b = true) body /\
    ends_with (fun b => negb (is_ident_char b)) rest' /\ regular_mode m /\
    k = match m with MIdentifierSpecific => TkIdentifier | _ => ident_kind body end
  end.

Definition is_identlike (k : kind) : bool := match k with TkIdentifier => true | _ => is_keyword k end.

Lemma ident_kind_identlike w : is_identlike (ident_kind w) = true.
Proof.
  unfold ident_kind.
  destruct (length w) as [|[|[|[|[|[|[|[|[|n]]]]]]]]]; try reflexivity.
  - destruct (bytes_eqb w kw_rule); [reflexivity|]. destruct (bytes_eqb w kw_pool); reflexivity.
  - destruct (bytes_eqb w kw_build); reflexivity.
  - destruct (bytes_eqb w kw_default); [reflexivity|]. destruct (bytes_eqb w kw_include); reflexivity.
  - destruct (bytes_eqb w kw_subninja); reflexivity.
Qed.

Lemma identlike_facts m k body rest' : is_identlike k = true ->
  (body <> [] /\ Forall (fun b => is_ident_char b = true) body /\
   ends_with (fun b => negb (is_ident_char b)) rest' /\ regular_mode m /\
   k = match m with MIdentifierSpecific => TkIdentifier | _ => ident_kind body end) ->
  kind_facts m k body rest'.
Proof. intros Hk H. destruct k; try discriminate Hk; exact H. Qed.

Lemma lex_regular_spec m fuel s0 b r :
  l_rest s0 = b :: r -> is_nl b = false -> is_nn_space b = false -> (length (l_rest s0) < fuel)%nat ->
  m <> MVariableString -> (m = MPathString -> b = 58 \/ b = 124) ->
  exists k s1 body, lex_regular m fuel s0 b = Ok (mk_token k s0 s1, s1) /\ adv s0 s1 body /\
                    kind_facts m k body (l_rest s1) /\ k <> TkEndOfFile /\ body <> [].
Proof.
  intros Hr Hnl Hsp Hf Hv Hp.
  assert (Hreg : b <> 58 -> b <> 124 -> regular_mode m).
  { intros H1 H2. destruct m; [left; reflexivity | | congruence | right; reflexivity].
    destruct (Hp eq_refl); congruence. }
  destruct s0 as [rest pos line col]. cbn [l_rest] in Hr. subst rest.
  unfold lex_regular. rewrite skipc_plain by exact Hnl.
  set (s0 := mkL (b :: r) pos line col). set (s1 := mkL r (S pos) line (col + 1)).
  assert (A01 : adv s0 s1 [b]). { split; cbn; [reflexivity | lia]. }
  destruct (N.eqb_spec b 58) as [E58|N58].
  { exists TkColon, s1, [b]. split; [reflexivity|]. split; [exact A01|]. subst b.
    split; [split; [reflexivity | exact Hv]|]. split; discriminate. }
  destruct (N.eqb_spec b 61) as [E61|N61].
  { exists TkEquals, s1, [b]. split; [reflexivity|]. split; [exact A01|]. subst b.
    split; [split; [reflexivity | apply Hreg; lia]|]. split; discriminate. }
  destruct (N.eqb_spec b 35) as [E35|N35].
  { destruct (skip_to_eol_spec fuel s1) as [s2 [c [E [A [Hc He]]]]]; [cbn in *; lia|].
    rewrite E. exists TkComment, s2, ([b] ++ c). split; [reflexivity|]. split; [exact (adv_trans _ _ _ _ _ A01 A)|].
    subst b. split; [|split; discriminate].
    exists c. split; [reflexivity|]. split; [exact Hc|]. split; [exact He | apply Hreg; lia]. }
  destruct (N.eqb_spec b 124) as [E124|N124].
  { subst b. subst s1. unfold peek. cbn [l_rest opt_test]. destruct r as [|d r2].
    - cbn [opt_test]. exists TkPipe, (mkL [] (S pos) line (col + 1)), [124].
      split; [reflexivity|]. split; [exact A01|].
      split; [split; [reflexivity | split; [exact I | exact Hv]]|]. split; discriminate.
    - cbn [opt_test]. destruct (N.eqb_spec 124 d) as [Ed|Nd].
      + subst d. rewrite (skipc_plain 124) by reflexivity.
        exists TkPipePipe, (mkL r2 (S (S pos)) line (col + 1 + 1)), [124; 124].
        split; [reflexivity|]. split; [split; cbn; [reflexivity | lia]|].
        split; [split; [reflexivity | exact Hv]|]. split; discriminate.
      + exists TkPipe, (mkL (d :: r2) (S pos) line (col + 1)), [124].
        split; [reflexivity|]. split; [exact A01|].
        split; [|split; discriminate]. split; [reflexivity|]. split; [|exact Hv].
        cbn. apply negb_true_iff. apply N.eqb_neq. congruence. }
  destruct (is_ident_char b) eqn:Eid.
  { unfold lex_identifier.
    destruct (ident_loop_spec fuel s1) as [s2 [c [E [A [Hc He]]]]]; [cbn in *; lia|].
    rewrite E. pose proof (adv_trans _ _ _ _ _ A01 A) as A02.
    assert (Hb : Forall (fun x => is_ident_char x = true) ([b] ++ c)).
    { cbn. constructor; assumption. }
    assert (Hne : [b] ++ c <> []) by discriminate.
    destruct m.
    - exists (ident_kind (token_bytes s0 s2)), s2, ([b] ++ c). split; [reflexivity|]. split; [exact A02|].
      rewrite (token_bytes_adv _ _ _ A02).
      split; [|split; [|exact Hne]].
      + apply identlike_facts; [apply ident_kind_identlike|].
        split; [exact Hne|]. split; [exact Hb|]. split; [exact He|]. split; [left; reflexivity | reflexivity].
      + intros Hk. pose proof (ident_kind_identlike ([b] ++ c)) as Hi. rewrite Hk in Hi. discriminate.
    - exfalso. destruct (Hp eq_refl); congruence.
    - congruence.
    - exists TkIdentifier, s2, ([b] ++ c). split; [reflexivity|]. split; [exact A02|].
      split; [|split; [discriminate | exact Hne]].
      cbn. split; [exact Hne|]. split; [exact Hb|]. split; [exact He|]. split; [right; reflexivity | reflexivity]. }
  exists TkUnknown, s1, [b]. split; [reflexivity|]. split; [exact A01|].
  split; [|split; discriminate].
  exists b. split; [reflexivity|]. split; [exact Eid|]. split; [exact Hnl|]. split; [exact Hsp|].
  split; [exact N58|]. split; [exact N61|]. split; [exact N35|]. split; [exact N124|]. apply Hreg; assumption.
Qed.

(* Every lex call succeeds; it skips a gap, then produces a token whose bytes are [body]. *)
Lemma lex_spec m s :
  exists k s0 s1 gap body,
    lex m s = Ok (mk_token k s0 s1, s1) /\ adv s s0 gap /\ adv s0 s1 body /\ gap_units gap /\
    kind_facts m k body (l_rest s1) /\ (k <> TkEndOfFile -> body <> []).
Proof.
  unfold lex.
  destruct (opt_test is_nn_space (peek s) && (l_col s =? 0)) eqn:Eind.
  - (* indentation token *)
    apply andb_true_iff in Eind. destruct Eind as [Esp _].
    destruct s as [rest pos line col]. destruct rest as [|b r]; [discriminate Esp|].
    cbn [peek l_rest opt_test] in Esp.
    rewrite skipc_plain by (apply nn_space_not_nl; exact Esp).
    cbn [l_rest].
    destruct (nn_space_loop_spec (S (length (b :: r))) (mkL r (S pos) line (col + 1))) as [s1 [c [E [A [Hc He]]]]];
      [cbn; lia|].
    rewrite E. exists TkIndentation, (mkL (b :: r) pos line col), s1, [], ([b] ++ c).
    split; [reflexivity|]. split; [apply adv_refl|]. split.
    { apply (adv_trans _ (mkL r (S pos) line (col + 1))); [split; cbn; [reflexivity | lia] | exact A]. }
    split; [constructor|]. split; [|intros _; discriminate].
    cbn. split; [discriminate|]. split; [constructor; assumption | exact He].
  - destruct (ws_loop_spec (S (length (l_rest s))) s) as [s0 [gap [E [A [Hg He]]]]]; [lia|].
    rewrite E.
    assert (Hf : (length (l_rest s0) < S (length (l_rest s)))%nat). { apply adv_len in A. lia. }
    remember (S (length (l_rest s))) as fuel eqn:Efuel. clear Efuel.
    destruct (l_rest s0) as [|b r] eqn:Er0; unfold peek; rewrite Er0.
    + (* end of file *)
      exists TkEndOfFile, s0, s0, gap, []. split; [reflexivity|]. split; [exact A|]. split; [apply adv_refl|].
      split; [exact Hg|]. split; [|congruence]. cbn. split; [reflexivity | exact Er0].
    + destruct (is_nl b) eqn:Enl.
      * (* newline token *)
        exists TkNewline, s0, (skipc s0), gap, (getc_chunk (l_rest s0)).
        split; [reflexivity|]. split; [exact A|]. split; [apply skipc_adv|]. split; [exact Hg|].
        rewrite Er0. split; [|intros _; apply getc_chunk_nonempty].
        cbn [kind_facts]. apply getc_chunk_nl. exact Enl.
      * assert (Hsp : is_nn_space b = false).
        { cbn in He. apply negb_true_iff in He. exact He. }
        assert (Hreg : forall m', m' <> MVariableString -> (m' = MPathString -> b = 58 \/ b = 124) ->
                  exists k s0' s1 gap' body,
                    lex_regular m' fuel s0 b = Ok (mk_token k s0' s1, s1) /\ adv s s0' gap' /\ adv s0' s1 body /\
                    gap_units gap' /\ kind_facts m' k body (l_rest s1) /\ (k <> TkEndOfFile -> body <> [])).
        { intros m' Hv Hp.
          destruct (lex_regular_spec m' fuel s0 b r Er0 Enl Hsp) as [k [s1 [body [E1 [A1 [Hk [_ Hne]]]]]]];
            [rewrite Er0; exact Hf | exact Hv | exact Hp |].
          exists k, s0, s1, gap, body. split; [exact E1|]. split; [exact A|]. split; [exact A1|].
          split; [exact Hg|]. split; [exact Hk | intros _; exact Hne]. }
        destruct m.
        -- apply Hreg; congruence.
        -- destruct (negb (b =? 58) && negb (b =? 124)) eqn:Ep.
           ++ destruct (path_loop_spec fuel s0) as [s1 [body [E1 [A1 [He1 Hne]]]]]; [rewrite Er0; exact Hf|].
              rewrite E1. exists TkString, s0, s1, gap, body.
              split; [reflexivity|]. split; [exact A|]. split; [exact A1|]. split; [exact Hg|].
              assert (Hb : body <> []).
              { apply (Hne b r Er0). right. unfold path_stop.
                apply andb_true_iff in Ep. destruct Ep as [E58 E124].
                apply negb_true_iff in E58. apply negb_true_iff in E124. rewrite E58, E124.
                destruct (is_space b) eqn:Es; [|reflexivity].
                apply space_split in Es. destruct Es; congruence. }
              split; [|intros _; exact Hb].
              cbn. split; [exact Hb|]. right. split; [reflexivity | exact He1].
           ++ apply Hreg; [congruence|]. intros _.
              apply andb_false_iff in Ep. destruct Ep as [Ep|Ep]; apply negb_false_iff in Ep; apply N.eqb_eq in Ep; auto.
        -- destruct (var_loop_spec fuel s0) as [s1 [body [E1 [A1 [He1 Hne]]]]]; [rewrite Er0; exact Hf|].
           rewrite E1. exists TkString, s0, s1, gap, body.
           split; [reflexivity|]. split; [exact A|]. split; [exact A1|]. split; [exact Hg|].
           assert (Hb : body <> []) by (apply (Hne b r Er0 Enl)).
           split; [|intros _; exact Hb].
           cbn. split; [exact Hb|]. left. split; [reflexivity | exact He1].
        -- apply Hreg; congruence.
Qed.
