(* Model of llbuild::ninja::Parser (lib/Ninja/Parser.cpp, include/llbuild/Ninja/Parser.h) as the source is NOW.
   Definitions only (no proofs).  (C++ identifiers are quoted with "Param" standing for the longer word, e.g.
   parseParamDecl.)

   Input: the BYTE STRING of one manifest file.  Output: the sequence of ParseActions calls the parser makes, as
   the list of [decl] that Parse/NinjaEval.v consumes (actOnBeginManifest / actOnEndManifest carry no data and are
   not represented).  The lexer is Parse/NinjaLex.v: every `lexer.lex(tok)` of the C++ is a [lex m s] where m is the
   mode the parser last set with `lexer.setMode(...)`.

   Conventions of the transliteration
   * ParserImpl is the record [pstate]: `tok` (the current look-ahead token), the lexer object ([lstate]) and the
     lexer's mode field (Lexer::mode, changed only by setMode);
   * Token values handed to the actions stay tokens in the intermediate result ([tdecl] / [tbitem]: kind, offset of
     Token::start from the start of the buffer, length, line, column); [decl_of data] reads the text
     StringRef(start, length) off the buffer, as ManifestLoader does, giving NinjaEval's [decl];
   * ParseActions::error(message, at): the message is its index in the table of harness/cpp/ninja_driver.cpp
     (parseErrorCode) - see the constants [e_...] below; `at` is kept in [TDPErr] / [TBPErr];
     an error raised between actOnBegin{Build,Pool,Rule}Decl and the matching actOnEnd...Decl is an item of that
     block ([TBPErr]), every other one is a top-level item ([TDPErr]), exactly as the recording driver writes
     "e" / "E" lines;
   * every loop is a Fixpoint on explicit fuel answering [OutOfFuel] when it runs out.  The inner loops are called
     with S (S (length of the unread suffix)) (the loop of getNextNonCommentToken: S (length ...)), the loop of
     Parser::parse with S (S (length data)); NinjaParseProofs.v proves [OutOfFuel] unreachable for every byte
     string;
   * the parser dereferences nothing itself (all buffer access is the lexer's), so there is no OverRead outcome;
   * `assert`s are compiled out (NDEBUG) and are not modelled; NinjaParseProofs.v proves the one about the lexing
     mode at the head of the loop of parse(). *)
From LLB Require Import Base.Bytes Parse.NinjaLex Parse.NinjaEval.
Local Open Scope N_scope.

(* ---------------------------------------------------------------- result monad *)

Definition bind {A B : Type} (r : result A) (f : A -> result B) : result B :=
  match r with Ok a => f a | OutOfFuel => OutOfFuel end.
Notation "'do' x <- r ; k" := (bind r (fun x => k)) (at level 200, x pattern, r at level 100, k at level 200).

(* ---------------------------------------------------------------- parser errors *)

Definition e_unexpected_token : N := 1.        (* unexpected token *)
Definition e_expected_var_name : N := 2.       (* expected variable name *)
Definition e_expected_equals : N := 3.         (* expected '=' token *)
Definition e_expected_var_value : N := 4.      (* expected variable value *)
Definition e_expected_newline : N := 5.        (* expected newline token *)
Definition e_expected_target : N := 6.         (* expected target path string *)
Definition e_expected_path : N := 7.           (* expected path string *)
Definition e_expected_output : N := 8.         (* expected output path string *)
Definition e_expected_colon : N := 9.          (* expected ':' token *)
Definition e_expected_rule_name : N := 10.     (* expected rule name identifier *)
Definition e_expected_pool_name : N := 11.     (* expected pool name identifier *)

(* ---------------------------------------------------------------- what the actions receive (tokens) *)

Inductive tbitem :=
| TBBind (name value : token)
| TBPErr (code : N) (at_tok : token).

Inductive tdecl :=
| TDBinding (name value : token)
| TDDefault (paths : list token)
| TDInclude (is_include : bool) (path : token)
| TDBuild (outs : list token) (rule : token) (explicit implicit orderonly : list token) (binds : list tbitem)
| TDPool (name : token) (binds : list tbitem)
| TDRule (name : token) (binds : list tbitem)
| TDPErr (code : N) (at_tok : token).

(* the text of a token: StringRef(tok.start, tok.length) *)
Definition tok_text (data : bytes) (t : token) : bytes := firstn (tk_len t) (skipn (tk_start t) data).

Definition bitem_of (data : bytes) (b : tbitem) : bitem :=
  match b with
  | TBBind n v => BBind (tok_text data n) (tok_text data v)
  | TBPErr c _ => BPErr c
  end.

Definition decl_of (data : bytes) (d : tdecl) : decl :=
  match d with
  | TDBinding n v => DBinding (tok_text data n) (tok_text data v)
  | TDDefault ps => DDefault (map (tok_text data) ps)
  | TDInclude i p => DInclude i (tok_text data p)
  | TDBuild outs r ex im oo bs =>
    DBuild (map (tok_text data) outs) (tok_text data r) (map (tok_text data) ex) (map (tok_text data) im)
           (map (tok_text data) oo) (map (bitem_of data) bs)
  | TDPool n bs => DPool (tok_text data n) (map (bitem_of data) bs)
  | TDRule n bs => DRule (tok_text data n) (map (bitem_of data) bs)
  | TDPErr c _ => DPErr c
  end.

(* ---------------------------------------------------------------- the parser object *)

Record pstate := mkP { p_tok : token; p_lex : lstate; p_mode : mode }.

(* lexer.setMode(m) *)
Definition set_mode (m : mode) (p : pstate) : pstate := mkP (p_tok p) (p_lex p) m.

Definition cur_kind (p : pstate) : kind := tk_kind (p_tok p).

Definition kind_eqb (a b : kind) : bool := kind_code a =? kind_code b.

(* tok.tokenKind == k *)
Definition at_kind (k : kind) (p : pstate) : bool := kind_eqb (cur_kind p) k.

(* void getNextNonCommentToken() { do { lexer.lex(tok); } while (tok.tokenKind == Token::Kind::Comment); } *)
Fixpoint next_loop (fuel : nat) (m : mode) (s : lstate) : result (token * lstate) :=
  match fuel with
  | O => OutOfFuel
  | S f =>
    match lex m s with
    | OutOfFuel => OutOfFuel
    | Ok (t, s') => if kind_eqb (tk_kind t) TkComment then next_loop f m s' else Ok (t, s')
    end
  end.

Definition get_next (m : mode) (s : lstate) : result pstate :=
  do ts <- next_loop (S (length (l_rest s))) m s;
  Ok (mkP (fst ts) (snd ts) m).

(* consumeToken() / the lexing half of consumeExpectedToken(kind) and of a successful consumeIfToken(kind) *)
Definition next (p : pstate) : result pstate := get_next (p_mode p) (p_lex p).

(* the loop of skipPastEOL: note lexer.lex, not getNextNonCommentToken *)
Fixpoint skip_loop (fuel : nat) (m : mode) (t : token) (s : lstate) : result (token * lstate) :=
  match fuel with
  | O => OutOfFuel
  | S f =>
    if kind_eqb (tk_kind t) TkNewline || kind_eqb (tk_kind t) TkEndOfFile then Ok (t, s)
    else match lex m s with
         | OutOfFuel => OutOfFuel
         | Ok (t', s') => skip_loop f m t' s'
         end
  end.

(* void skipPastEOL(): consume tokens until past the next newline (or end of file); "always consume at least one
   token" *)
Definition skip_past_eol (p : pstate) : result pstate :=
  do ts <- skip_loop (S (S (length (l_rest (p_lex p))))) (p_mode p) (p_tok p) (p_lex p);
  next (mkP (fst ts) (snd ts) (p_mode p)).

(* error(message) [at tok]; skipPastEOL();  - the common tail of the failure paths *)
Definition fail_skip {A : Type} (mk : N -> token -> A) (code : N) (p : pstate) : result (A * pstate) :=
  do p' <- skip_past_eol p; Ok (mk code (p_tok p), p').

(* `while (tok.tokenKind == Token::Kind::String) v.push_back(consumeExpectedToken(Token::Kind::String));` *)
Fixpoint strings_loop (fuel : nat) (p : pstate) : result (list token * pstate) :=
  match fuel with
  | O => OutOfFuel
  | S f =>
    if at_kind TkString p then
      do p1 <- next p;
      do r <- strings_loop f p1;
      Ok (p_tok p :: fst r, snd r)
    else Ok ([], p)
  end.
Definition strings (p : pstate) : result (list token * pstate) :=
  strings_loop (S (S (length (l_rest (p_lex p))))) p.

(* ---------------------------------------------------------------- bindings *)

(* what parseBindingInternal reports: true with name_out and value_out filled in, or false after one error call *)
Inductive bres :=
| BROk (name value : token)
| BRErr (code : N) (at_tok : token).

(* "Derive an empty string token from the newline": value_out->tokenKind = String; value_out->length = 0 *)
Definition empty_string_of (t : token) : token := mkTok TkString (tk_start t) 0 (tk_line t) (tk_col t).

(* bool parseBindingInternal(Token* name_out, Token* value_out).  The lexing mode on entry is whatever the caller
   left: None for a top-level binding, IdentifierSpecific for an indented one (the identifier's successor, which
   must be '=', is lexed in that mode). *)
Definition parse_binding_internal (p : pstate) : result (bres * pstate) :=
  if negb (at_kind TkIdentifier p) then fail_skip BRErr e_expected_var_name (set_mode MNone p)
  else
    let name := p_tok p in
    do p1 <- next p;
    if negb (at_kind TkEquals p1) then fail_skip BRErr e_expected_equals (set_mode MNone p1)
    else
      do p2 <- next (set_mode MVariableString p1);
      let p3 := set_mode MNone p2 in
      if at_kind TkNewline p3 then
        do p4 <- next p3; Ok (BROk name (empty_string_of (p_tok p3)), p4)
      else if negb (at_kind TkString p3) then fail_skip BRErr e_expected_var_value p3
      else
        let value := p_tok p3 in
        do p4 <- next p3;
        if at_kind TkNewline p4 then do p5 <- next p4; Ok (BROk name value, p5)
        else fail_skip BRErr e_expected_newline p4.

Definition tdecl_of_bres (r : bres) : tdecl :=
  match r with BROk n v => TDBinding n v | BRErr c a => TDPErr c a end.
Definition tbitem_of_bres (r : bres) : tbitem :=
  match r with BROk n v => TBBind n v | BRErr c a => TBPErr c a end.

(* void parseBindingDecl() *)
Definition parse_binding_decl (p : pstate) : result (tdecl * pstate) :=
  do r <- parse_binding_internal p; Ok (tdecl_of_bres (fst r), snd r).

(* ---------------------------------------------------------------- default, include / subninja *)

(* void parseDefaultDecl() *)
Definition parse_default_decl (p : pstate) : result (tdecl * pstate) :=
  do p1 <- next (set_mode MPathString p);
  do r <- strings p1;
  let names := fst r in
  let p2 := set_mode MNone (snd r) in
  match names with
  | [] => fail_skip TDPErr e_expected_target p2
  | _ :: _ =>
    if at_kind TkNewline p2 then do p3 <- next p2; Ok (TDDefault names, p3)
    else fail_skip TDPErr e_expected_newline p2
  end.

(* void parseIncludeDecl() *)
Definition parse_include_decl (p : pstate) : result (tdecl * pstate) :=
  let is_include := at_kind TkKWInclude p in
  do p1 <- next (set_mode MPathString p);
  let p2 := set_mode MNone p1 in
  if negb (at_kind TkString p2) then fail_skip TDPErr e_expected_path p2
  else
    let path := p_tok p2 in
    do p3 <- next p2;
    if at_kind TkNewline p3 then do p4 <- next p3; Ok (TDInclude is_include path, p4)
    else fail_skip TDPErr e_expected_newline p3.

(* ---------------------------------------------------------------- build / pool / rule blocks *)

(* what a parse*Specifier function reports: true + the arguments of the actOnBegin*Decl call it made, or false
   after one error call *)
Inductive spec_res :=
| SBuild (rule : token) (outs explicit implicit orderonly : list token)
| SPool (name : token)
| SRule (name : token)
| SErr (code : N) (at_tok : token).

(* `if (consumeIfToken(k)) { while (String) push_back }` *)
Definition opt_strings (k : kind) (p : pstate) : result (list token * pstate) :=
  if at_kind k p then do p1 <- next p; strings p1 else Ok ([], p).

(* bool parseBuildSpecifier(ParseActions::BuildResult* decl_out) *)
Definition parse_build_specifier (p : pstate) : result (spec_res * pstate) :=
  do p1 <- next (set_mode MPathString p);
  if negb (at_kind TkString p1) then Ok (SErr e_expected_output (p_tok p1), set_mode MNone p1)
  else
    do ro <- strings p1;                      (* do { push_back } while (String): the first test has just succeeded *)
    let outs := fst ro in
    let p2 := snd ro in
    if negb (at_kind TkColon p2) then Ok (SErr e_expected_colon (p_tok p2), set_mode MNone p2)
    else
      do p3 <- next (set_mode MIdentifierSpecific p2);
      let p4 := set_mode MPathString p3 in
      if negb (at_kind TkIdentifier p4) then Ok (SErr e_expected_rule_name (p_tok p4), set_mode MNone p4)
      else
        let name := p_tok p4 in
        do p5 <- next p4;
        do re <- strings p5;
        do ri <- opt_strings TkPipe (snd re);
        do rq <- opt_strings TkPipePipe (snd ri);
        let p6 := set_mode MNone (snd rq) in
        if at_kind TkNewline p6 then
          do p7 <- next p6; Ok (SBuild name outs (fst re) (fst ri) (fst rq), p7)
        else Ok (SErr e_expected_newline (p_tok p6), p6).

(* bool parsePoolSpecifier(...) / bool parseRuleSpecifier(...): identical but for the message and the action *)
Definition parse_name_specifier (mk : token -> spec_res) (code : N) (p : pstate) : result (spec_res * pstate) :=
  do p1 <- next (set_mode MIdentifierSpecific p);
  let p2 := set_mode MNone p1 in
  if negb (at_kind TkIdentifier p2) then Ok (SErr code (p_tok p2), p2)
  else
    let name := p_tok p2 in
    do p3 <- next p2;
    if at_kind TkNewline p3 then do p4 <- next p3; Ok (mk name, p4)
    else Ok (SErr e_expected_newline (p_tok p3), p3).

(* `do { skipPastEOL(); } while (tok.tokenKind == Token::Kind::Indentation);` *)
Fixpoint fail_loop (fuel : nat) (p : pstate) : result pstate :=
  match fuel with
  | O => OutOfFuel
  | S f =>
    do p1 <- skip_past_eol p;
    if at_kind TkIndentation p1 then fail_loop f p1 else Ok p1
  end.

(* `while (tok.tokenKind == Token::Kind::Indentation) { ... }`: the indented bindings of a block *)
Fixpoint block_loop (fuel : nat) (p : pstate) : result (list tbitem * pstate) :=
  match fuel with
  | O => OutOfFuel
  | S f =>
    if at_kind TkIndentation p then
      do p1 <- next (set_mode MIdentifierSpecific p);
      if at_kind TkNewline p1 then               (* "Allow blank lines in [such] decls" *)
        do p2 <- next (set_mode MNone p1); block_loop f p2
      else
        do rb <- parse_binding_internal p1;
        do r <- block_loop f (snd rb);
        Ok (tbitem_of_bres (fst rb) :: fst r, snd r)
    else Ok ([], p)
  end.

(* void parseParamDecl(): specifier, then either the recovery loop or the indented bindings and the actOnEnd*Decl
   call (whose startTok argument no action uses) *)
Definition parse_block_decl (p : pstate) : result (tdecl * pstate) :=
  do rs <-
    (if at_kind TkKWBuild p then parse_build_specifier p
     else if at_kind TkKWPool p then parse_name_specifier SPool e_expected_pool_name p
     else parse_name_specifier SRule e_expected_rule_name p);
  let p1 := snd rs in
  match fst rs with
  | SErr c a => do p2 <- fail_loop (S (S (length (l_rest (p_lex p1))))) p1; Ok (TDPErr c a, p2)
  | SBuild r outs ex im oo =>
    do rb <- block_loop (S (S (length (l_rest (p_lex p1))))) p1; Ok (TDBuild outs r ex im oo (fst rb), snd rb)
  | SPool n => do rb <- block_loop (S (S (length (l_rest (p_lex p1))))) p1; Ok (TDPool n (fst rb), snd rb)
  | SRule n => do rb <- block_loop (S (S (length (l_rest (p_lex p1))))) p1; Ok (TDRule n (fst rb), snd rb)
  end.

(* ---------------------------------------------------------------- declarations, the file *)

(* void parseDecl(): the actions of one declaration (none for a blank line), and the parser afterwards *)
Definition parse_decl (p : pstate) : result (list tdecl * pstate) :=
  match cur_kind p with
  | TkNewline => do p1 <- next p; Ok ([], p1)
  | TkKWBuild | TkKWRule | TkKWPool => do r <- parse_block_decl p; Ok ([fst r], snd r)
  | TkKWDefault => do r <- parse_default_decl p; Ok ([fst r], snd r)
  | TkKWInclude | TkKWSubninja => do r <- parse_include_decl p; Ok ([fst r], snd r)
  | TkIdentifier => do r <- parse_binding_decl p; Ok ([fst r], snd r)
  | _ => do r <- fail_skip TDPErr e_unexpected_token p; Ok ([fst r], snd r)
  end.

(* `while (tok.tokenKind != Token::Kind::EndOfFile) parseDecl();` *)
Fixpoint decls_loop (fuel : nat) (p : pstate) : result (list tdecl) :=
  match fuel with
  | O => OutOfFuel
  | S f =>
    if at_kind TkEndOfFile p then Ok []
    else
      do r <- parse_decl p;
      do ds <- decls_loop f (snd r);
      Ok (fst r ++ ds)
  end.

(* the fuel of the loop of Parser::parse: linear in the size of the buffer *)
Definition parse_fuel (data : bytes) : nat := S (S (length data)).

(* void ParserImpl::parse(): "Initialize the Lexer" = getNextNonCommentToken() in mode None on the fresh lexer *)
Definition parse_tokens (data : bytes) : result (list tdecl) :=
  do p <- get_next MNone (init data);
  decls_loop (parse_fuel data) p.

(* the parse actions with the token texts read off the buffer: the input of NinjaEval's loader model *)
Definition parse (data : bytes) : result (list decl) :=
  do ds <- parse_tokens data; Ok (map (decl_of data) ds).

(* ---------------------------------------------------------------- parser + loader *)

(* a file system of raw manifests: absolute path -> contents *)
Definition raw_files := list (bytes * bytes).

(* ManifestLoader parses a file when it enters it; the result depends on the bytes only, so the model parses every
   file of the map once, up front *)
Fixpoint parse_files (raw : raw_files) : result files :=
  match raw with
  | [] => Ok []
  | (path, data) :: r =>
    do ds <- parse data;
    do fs <- parse_files r;
    Ok ((path, ds) :: fs)
  end.

(* ManifestLoader::load over raw bytes: Parser (this file) composed with the loader model (NinjaEval.load) *)
Definition parse_load (fuel : nat) (wd : bytes) (raw : raw_files) (main : bytes) : result manifest :=
  do fs <- parse_files raw; Ok (load fuel wd fs main).
