(* Model of the glue that turns dependency-file parser callbacks into discovered-dependency keys and a success
   flag: ShellCommand::processDiscoveredDependencies / processMakefileDiscoveredDependencies /
   processDependencyInfoDiscoveredDependencies (lib/BuildSystem/ShellCommand.cpp) and of the POSIX branch of
   the llvm::sys::path functions they use (lib/llvm/Support/Path.cpp: is_absolute, append, make_absolute).
   Definitions only (proofs: DepsGlueProofs.v).

   Outside world: `cwd` = what llvm::sys::fs::current_path returns in the llbuild process ($PWD if it names
   ".", else getcwd()); it is an explicit argument everywhere. *)
From LLB Require Import Base.Bytes Parse.MakeDeps Parse.DepInfo.
Local Open Scope N_scope.

(* ---------- llvm::sys::path, Style::posix ---------- *)

Definition psep (c : byte) : bool := c =? 47.

Definition head_sep (p : bytes) : bool := match p with [] => false | c :: _ => psep c end.

Fixpoint take_nonsep (l : bytes) : bytes :=
  match l with [] => [] | c :: r => if psep c then [] else c :: take_nonsep r end.

(* root_name: the "//net" form (exactly two leading separators followed by a non-separator) *)
Definition root_name (p : bytes) : bytes :=
  match p with
  | a :: b :: c :: r => if psep a && psep b && negb (psep c) then a :: b :: c :: take_nonsep r else []
  | _ => []
  end.

Definition root_directory (p : bytes) : bytes :=
  match root_name p with
  | [] => if head_sep p then [47] else []
  | _ :: _ => if head_sep (skipn (length (root_name p)) p) then [47] else []
  end.

Definition root_path (p : bytes) : bytes := root_name p ++ root_directory p.
Definition relative_path (p : bytes) : bytes := skipn (length (root_path p)) p.

(* is_absolute = has_root_directory && (style != windows || has_root_name) *)
Definition is_absolute (p : bytes) : bool :=
  match root_directory p with [] => false | _ :: _ => true end.

Fixpoint strip_leading_seps (l : bytes) : bytes :=
  match l with [] => [] | c :: r => if psep c then strip_leading_seps r else l end.

Definition last_is_sep (p : bytes) : bool :=
  match p with [] => false | _ :: _ => psep (last p 0) end.

Definition is_nil (p : bytes) : bool := match p with [] => true | _ :: _ => false end.

(* one round of the loop in path::append(path, style, a, b, c, d) *)
Definition path_append (path comp : bytes) : bytes :=
  if last_is_sep path then path ++ strip_leading_seps comp
  else if head_sep comp then path ++ comp
  else if is_nil path || negb (is_nil (root_name comp)) then path ++ comp
  else path ++ 47 :: comp.

(* llvm::sys::fs::make_absolute(SmallVectorImpl<char>&): on POSIX `rootName` is constantly true, so a path
   without root directory takes the LAST branch of the C++:
   append(res, root_name(p), root_directory(cwd), relative_path(cwd), relative_path(p)) *)
Definition make_absolute (cwd p : bytes) : bytes :=
  if is_absolute p then p
  else path_append (path_append (path_append (path_append [] (root_name p)) (root_directory cwd))
                                (relative_path cwd)) (relative_path p).

(* DepsActions::actOnRuleDependency: the node key made from one unescaped dependency word;
   wd = command->workingDirectory *)
Definition glue_path (cwd wd word : bytes) : bytes :=
  if is_absolute word then word
  else make_absolute cwd (path_append wd word).

(* the `working-directory` attribute is made absolute when the command is configured *)
Definition configure_wd (cwd value : bytes) : bytes := make_absolute cwd value.

(* ---------- processDiscoveredDependencies ---------- *)

Inductive deps_style := StyleUnused | StyleMakefile | StyleDependencyInfo | StyleMakefileIgnoringSubsequent.

(* one dependency file: (keys given to ti.discoveredDependency, numErrors == 0) *)
Definition process_makefile (cwd wd : bytes) (ign : bool) (data : bytes) : list bytes * bool :=
  let evs := md_parse ign data in
  (map (glue_path cwd wd) (md_deps evs), negb (md_has_error evs)).

(* dependency-info inputs are resolved like Makefile-style words: DepsActions::actOnInput performs the same
   statements as actOnRuleDependency (since /repo commit ba34c0a) *)
Definition process_depinfo (cwd wd : bytes) (data : bytes) : list bytes * bool :=
  let evs := di_parse data in
  (map (glue_path cwd wd) (di_inputs evs), negb (di_has_error evs)).

(* the glue as it was BEFORE ba34c0a: the inputs were used verbatim as node keys (no resolution against the
   working directory); kept with its refutation witness (DepsGlueProofs.depinfo_v0_relative_resolution_refuted) *)
Definition process_depinfo_v0 (data : bytes) : list bytes * bool :=
  let evs := di_parse data in
  (di_inputs evs, negb (di_has_error evs)).

Definition process_one (style : deps_style) (cwd wd data : bytes) : list bytes * bool :=
  match style with
  | StyleUnused => ([], false)
  | StyleMakefile => process_makefile cwd wd false data
  | StyleMakefileIgnoringSubsequent => process_makefile cwd wd true data
  | StyleDependencyInfo => process_depinfo cwd wd data
  end.

(* the loop over depsPaths; a file that cannot be read is None; the first failing file ends the loop *)
Fixpoint process_files (style : deps_style) (cwd wd : bytes) (files : list (option bytes)) : list bytes * bool :=
  match files with
  | [] => ([], true)
  | None :: _ => ([], false)
  | Some data :: rest =>
    let '(keys, ok) := process_one style cwd wd data in
    if ok then let '(keys2, ok2) := process_files style cwd wd rest in (keys ++ keys2, ok2)
    else (keys, false)
  end.

Definition process_discovered (style : deps_style) (cwd wd : bytes) (files : list (option bytes)) : list bytes * bool :=
  match style with
  | StyleUnused => ([], false)      (* "missing required 'deps-style' specifier" *)
  | _ => process_files style cwd wd files
  end.

(* executeExternalCommand: the process succeeded; the completion is Failed iff the dependencies could not be
   processed *)
Inductive cmd_result := CmdSucceeded | CmdFailed.

Definition command_result (style : deps_style) (cwd wd : bytes) (files : list (option bytes)) : cmd_result :=
  match files with
  | [] => CmdSucceeded               (* depsPaths.empty(): nothing to collect *)
  | _ :: _ => if snd (process_discovered style cwd wd files) then CmdSucceeded else CmdFailed
  end.
