(* Model of the build-description loader of lib/BuildSystem/BuildFile.cpp: BuildFileImpl::load, parseRootNode and the
   section parsers parseClientMapping, parseToolsMapping, parseTargetsMapping, parseDefaultTarget, parseNodesMapping,
   parseCommandsMapping, over the abstract node tree that llvm's YAML parser hands over.  Definitions only.

   - [ynode] has one constructor per llvm::yaml::Node kind that can reach the loader, plus [YAbsent] for the null
     pointer that KeyValueNode::getKey()/getValue() and Document::getRoot() return once the scanner has failed
     (YAMLParser.h: "returns The key, or nullptr if failed() == true").
   - An iterator over a mapping is the list of the remaining entries; dereferencing the end iterator, or calling
     getType()/getSourceRange() on a null node, is the explicit outcome [Crash].
   - [guarded] selects the code after the repair (a null check of key and value before an entry is used, and of the
     root of an additional document) or the code before it.
   - What the delegate decides (client configuration, tool lookup, command creation, attribute acceptance by tools,
     nodes and commands, ownership analysis) is abstract: Section variables. *)
From LLB Require Import Base.Bytes.
Local Open Scope N_scope.

Inductive ynode : Type :=
| YScalar (v : bytes)                       (* NK_Scalar: plain / quoted scalar, value after unescaping *)
| YBlockScalar (v : bytes)                  (* NK_BlockScalar *)
| YAlias (name : bytes)                     (* NK_Alias *)
| YNull                                     (* NK_Null *)
| YMapping (kvs : list (ynode * ynode))     (* NK_Mapping, entries in document order (NK_KeyValue) *)
| YSequence (xs : list ynode)               (* NK_Sequence *)
| YAbsent.                                  (* nullptr *)

Definition entry := (ynode * ynode)%type.

(* the three kinds BuildFile.cpp compares getType() with; everything else only ever fails those comparisons *)
Inductive nkind := KScalar | KMapping | KSequence | KOther.

(* node->getType(): None = the call is made on a null pointer *)
Definition ntype (n : ynode) : option nkind :=
  match n with
  | YScalar _ => Some KScalar
  | YMapping _ => Some KMapping
  | YSequence _ => Some KSequence
  | YBlockScalar _ | YAlias _ | YNull => Some KOther
  | YAbsent => None
  end.

(* static_cast<...Node*>(node) after the kind check *)
Definition scalar_of (n : ynode) : bytes := match n with YScalar v => v | _ => [] end.
Definition mapping_of (n : ynode) : list entry := match n with YMapping kvs => kvs | _ => [] end.
Definition sequence_of (n : ynode) : list ynode := match n with YSequence xs => xs | _ => [] end.

(* a document without null nodes: what the parser delivers as long as its scanner has not failed *)
Inductive wf_node : ynode -> Prop :=
| wf_scalar v : wf_node (YScalar v)
| wf_block v : wf_node (YBlockScalar v)
| wf_alias a : wf_node (YAlias a)
| wf_null : wf_node YNull
| wf_mapping kvs : Forall (fun kv => wf_node (fst kv) /\ wf_node (snd kv)) kvs -> wf_node (YMapping kvs)
| wf_sequence xs : Forall wf_node xs -> wf_node (YSequence xs).

(* node->getType() can be called *)
Definition present (n : ynode) : Prop := ntype n <> None.

(* What the YAML parser can deliver.  With [absent_ok = true] keys, values and document roots may be null (a failed
   scanner); with [absent_ok = false] they may not.  The elements of a sequence are never null in either case: the
   sequence iterator ends the iteration instead (SequenceNode::increment: `if (!CurrentEntry) IsAtEnd = true`), and
   BuildFile.cpp takes them by reference (`for (auto& node: *sequence)`). *)
Inductive tree_ok (absent_ok : bool) : ynode -> Prop :=
| to_scalar v : tree_ok absent_ok (YScalar v)
| to_block v : tree_ok absent_ok (YBlockScalar v)
| to_alias a : tree_ok absent_ok (YAlias a)
| to_null : tree_ok absent_ok YNull
| to_absent : absent_ok = true -> tree_ok absent_ok YAbsent
| to_mapping kvs : Forall (fun kv => tree_ok absent_ok (fst kv) /\ tree_ok absent_ok (snd kv)) kvs -> tree_ok absent_ok (YMapping kvs)
| to_sequence xs : Forall (fun x => present x /\ tree_ok absent_ok x) xs -> tree_ok absent_ok (YSequence xs).

(* ---- string constants ---- *)
Definition s_client : bytes := [99; 108; 105; 101; 110; 116].
Definition s_tools : bytes := [116; 111; 111; 108; 115].
Definition s_targets : bytes := [116; 97; 114; 103; 101; 116; 115].
Definition s_default : bytes := [100; 101; 102; 97; 117; 108; 116].
Definition s_nodes : bytes := [110; 111; 100; 101; 115].
Definition s_commands : bytes := [99; 111; 109; 109; 97; 110; 100; 115].
Definition s_tool : bytes := [116; 111; 111; 108].
Definition s_inputs : bytes := [105; 110; 112; 117; 116; 115].
Definition s_outputs : bytes := [111; 117; 116; 112; 117; 116; 115].
Definition s_description : bytes := [100; 101; 115; 99; 114; 105; 112; 116; 105; 111; 110].
Definition s_name : bytes := [110; 97; 109; 101].
Definition s_version : bytes := [118; 101; 114; 115; 105; 111; 110].
Definition s_perform_ownership_analysis : bytes :=
  [112; 101; 114; 102; 111; 114; 109; 45; 111; 119; 110; 101; 114; 115; 104; 105; 112; 45; 97; 110; 97; 108; 121; 115; 105; 115].
Definition s_yes : bytes := [121; 101; 115].

(* ---- error codes: one per message text of BuildFile.cpp (harness/cpp/bfile_driver.cpp maps messages to these) ---- *)
Definition E_top_level : N := 1.          (* unexpected top-level node *)
Definition E_initial_client : N := 2.     (* expected initial mapping key 'client' *)
Definition E_client_value : N := 3.       (* unexpected 'client' value (expected map) *)
Definition E_tools_value : N := 4.
Definition E_targets_value : N := 5.
Definition E_default_value : N := 6.      (* unexpected 'default' target value (expected scalar) *)
Definition E_nodes_value : N := 7.
Definition E_commands_value : N := 8.
Definition E_trailing : N := 9.           (* unexpected trailing top-level section *)
Definition E_missing_document : N := 10.
Definition E_additional_document : N := 11.
Definition E_malformed : N := 13.         (* repaired code only: unable to parse the build file (malformed YAML) *)
Definition E_client_key : N := 20.
Definition E_client_val : N := 21.
Definition E_client_version : N := 22.    (* not fatal *)
Definition E_client_configure : N := 23.
Definition E_tools_key : N := 30.
Definition E_tools_val : N := 31.
Definition E_invalid_tool : N := 32.      (* invalid tool (NAME) type in 'tools' map; also from a command's tool *)
Definition E_tools_attr_key : N := 33.
Definition E_targets_key : N := 40.
Definition E_targets_val : N := 41.
Definition E_targets_node : N := 42.
Definition E_default_unknown : N := 45.
Definition E_nodes_key : N := 50.
Definition E_nodes_val : N := 51.
Definition E_nodes_attr_key : N := 53.
Definition E_commands_key : N := 60.      (* entry key and attribute key *)
Definition E_commands_val : N := 61.
Definition E_commands_duplicate : N := 62.
Definition E_commands_no_tool : N := 63.
Definition E_commands_tool_first : N := 64.
Definition E_commands_tool_value : N := 65.
Definition E_commands_create : N := 66.
Definition E_inputs_value : N := 67.
Definition E_inputs_node : N := 68.
Definition E_outputs_value : N := 69.
Definition E_outputs_node : N := 70.
Definition E_description_value : N := 71.

(* the three messages of the shared attribute-value code, per section *)
Record attr_codes := { c_pair_key : N; c_pair_val : N; c_value : N }.
Definition tools_codes := {| c_pair_key := 34; c_pair_val := 35; c_value := 36 |}.
Definition nodes_codes := {| c_pair_key := 54; c_pair_val := 55; c_value := 56 |}.
Definition commands_codes := {| c_pair_key := 74; c_pair_val := 75; c_value := 76 |}.

(* ---- loader state ---- *)
Record bstate := mk_state {
  st_errs : list N;            (* codes passed to delegate.error, most recent first *)
  st_tools : list bytes;       (* keys of the tools map *)
  st_targets : list bytes;
  st_default : bytes;
  st_nodes : list bytes;
  st_commands : list bytes;
  st_own : bool                (* performOwnershipAnalysis *)
}.
Definition init_state := mk_state [] [] [] [] [] [] false.

Definition add_err (c : N) (s : bstate) : bstate :=
  mk_state (c :: st_errs s) (st_tools s) (st_targets s) (st_default s) (st_nodes s) (st_commands s) (st_own s).
Definition set_insert (x : bytes) (l : list bytes) : list bytes := if mem_bytes x l then l else l ++ [x].
Definition add_tool (x : bytes) (s : bstate) : bstate :=
  mk_state (st_errs s) (set_insert x (st_tools s)) (st_targets s) (st_default s) (st_nodes s) (st_commands s) (st_own s).
Definition add_target (x : bytes) (s : bstate) : bstate :=
  mk_state (st_errs s) (st_tools s) (set_insert x (st_targets s)) (st_default s) (st_nodes s) (st_commands s) (st_own s).
Definition set_default (x : bytes) (s : bstate) : bstate :=
  mk_state (st_errs s) (st_tools s) (st_targets s) x (st_nodes s) (st_commands s) (st_own s).
Definition add_node (x : bytes) (s : bstate) : bstate :=          (* getOrCreateNode *)
  mk_state (st_errs s) (st_tools s) (st_targets s) (st_default s) (set_insert x (st_nodes s)) (st_commands s) (st_own s).
Definition add_command (x : bytes) (s : bstate) : bstate :=
  mk_state (st_errs s) (st_tools s) (st_targets s) (st_default s) (st_nodes s) (set_insert x (st_commands s)) (st_own s).
Definition set_own (s : bstate) : bstate :=
  mk_state (st_errs s) (st_tools s) (st_targets s) (st_default s) (st_nodes s) (st_commands s) true.

(* ---- outcome of a piece of loader code ---- *)
Inductive res (A : Type) : Type :=
| Go (s : bstate) (a : A)      (* control reaches the end of the piece (incl. `continue`) *)
| Stop (s : bstate)            (* `return false` / `return nullptr` *)
| Crash.                       (* end iterator or null pointer dereferenced *)
Arguments Go {A}. Arguments Stop {A}. Arguments Crash {A}.

Definition bind {A B} (r : res A) (f : bstate -> A -> res B) : res B :=
  match r with Go s a => f s a | Stop s => Stop s | Crash => Crash end.

(* for (auto& x : collection) body   -- the body sees the state and a loop-carried value *)
Fixpoint each {X A} (f : X -> bstate -> A -> res A) (l : list X) (s : bstate) (a : A) : res A :=
  match l with
  | [] => Go s a
  | x :: l' => bind (f x s a) (each f l')
  end.

(* node->getType() *)
Definition with_type {A} (n : ynode) (k : nkind -> res A) : res A :=
  match ntype n with None => Crash | Some t => k t end.

(* nodeIsScalarString(node, name) *)
Definition is_scalar_string {A} (n : ynode) (name : bytes) (k : bool -> res A) : res A :=
  with_type n (fun t => match t with KScalar => k (bytes_eqb (scalar_of n) name) | _ => k false end).

(* *it / it->  on a mapping iterator *)
Definition deref {A} (it : list entry) (k : entry -> res A) : res A :=
  match it with [] => Crash | e :: _ => k e end.
Definition at_end (it : list entry) : bool := match it with [] => true | _ => false end.

(* StringRef::getAsInteger(10, uint32_t&): true = accepted *)
Fixpoint dec_value (l : bytes) (acc : N) : option N :=
  match l with
  | [] => Some acc
  | c :: l' => if (48 <=? c) && (c <=? 57) then dec_value l' (acc * 10 + (c - 48)) else None
  end.
Definition parse_u32 (l : bytes) : option N :=
  match l with
  | [] => None
  | _ => match dec_value l 0 with
         | Some n => if n <? 4294967296 then Some n else None
         | None => None
         end
  end.

(* what an attribute is configured on, and the three overloads of configureAttribute *)
Inductive owner := OTool (name : bytes) | ONode (name : bytes) | OCommand (tool name : bytes).
Inductive attr_val := AScalar (v : bytes) | AList (vs : list bytes) | APairs (kvs : list (bytes * bytes)).

Record client_acc := { ca_name : bytes; ca_version : N; ca_props : list (bytes * bytes) }.

Section Loader.
  Variable guarded : bool.                                            (* true: code after the null-node repair *)
  Variable client_ok : bytes -> N -> list (bytes * bytes) -> bool.    (* delegate.configureClient *)
  Variable tool_known : bytes -> bool.                                (* delegate.lookupTool(name) != nullptr *)
  Variable tool_creates : bytes -> bytes -> bool.                     (* tool->createCommand(name) != nullptr *)
  Variable attr_ok : owner -> bytes -> attr_val -> bool.              (* configureAttribute(...) *)
  Variable ownership_ok : list bytes -> bool.                         (* OwnershipAnalysis::establishOwnerships *)

  (* repaired code: `if (!checkEntry(entry)) return false;` *)
  Definition check_entry {A} (e : entry) (s : bstate) (k : res A) : res A :=
    if guarded then
      match ntype (fst e), ntype (snd e) with
      | Some _, Some _ => k
      | _, _ => Stop (add_err E_malformed s)
      end
    else k.

  (* getOrCreateTool *)
  Definition get_tool {A} (name : bytes) (s : bstate) (k : bstate -> res A) : res A :=
    if mem_bytes name (st_tools s) then k s
    else if tool_known name then k (add_tool name s)
    else Stop (add_err E_invalid_tool s).

  (* the scalar elements of a sequence; other elements are diagnosed with [code] and skipped
     (values.push_back: the loop-carried list is kept most recent first and reversed at the end; rev_append is the linear-time reversal) *)
  Definition collect_scalars (code : N) (xs : list ynode) (s : bstate) : res (list bytes) :=
    bind (each (fun x s acc => with_type x (fun t => match t with
                                                     | KScalar => Go s (scalar_of x :: acc)
                                                     | _ => Go (add_err code s) acc
                                                     end)) xs s [])
         (fun s acc => Go s (rev_append acc [])).

  Definition collect_pairs (cs : attr_codes) (kvs : list entry) (s : bstate) : res (list (bytes * bytes)) :=
    bind (each (fun e s acc =>
            check_entry e s
              (with_type (fst e) (fun tk => match tk with
                | KScalar => with_type (snd e) (fun tv => match tv with
                    | KScalar => Go s ((scalar_of (fst e), scalar_of (snd e)) :: acc)
                    | _ => Go (add_err (c_pair_val cs) s) acc
                    end)
                | _ => Go (add_err (c_pair_key cs) s) acc
                end))) kvs s [])
         (fun s acc => Go s (rev_append acc [])).

  (* the attribute-value code shared (textually) by tools, nodes and commands *)
  Definition configure_attr (cs : attr_codes) (o : owner) (attribute : bytes) (value : ynode) (s : bstate) : res unit :=
    with_type value (fun tv => match tv with
      | KMapping => bind (collect_pairs cs (mapping_of value) s)
                         (fun s vals => if attr_ok o attribute (APairs vals) then Go s tt else Stop s)
      | KSequence => bind (collect_scalars (c_value cs) (sequence_of value) s)
                          (fun s vals => if attr_ok o attribute (AList vals) then Go s tt else Stop s)
      | KScalar => if attr_ok o attribute (AScalar (scalar_of value)) then Go s tt else Stop s
      | KOther => Go (add_err (c_value cs) s) tt
      end).

  (* `for (auto& valueEntry: *attrs)` of a tool or a node *)
  Definition configure_attrs (cs : attr_codes) (key_code : N) (o : owner) (attrs : list entry) (s : bstate) : res unit :=
    each (fun ve s _ =>
            check_entry ve s
              (with_type (fst ve) (fun tk => match tk with
                | KScalar => configure_attr cs o (scalar_of (fst ve)) (snd ve) s
                | _ => Go (add_err key_code s) tt
                end))) attrs s tt.

  Definition parse_client (map : list entry) (s : bstate) : res unit :=
    bind (each (fun e s (acc : client_acc) =>
                  check_entry e s
                    (with_type (fst e) (fun tk => match tk with
                      | KScalar => with_type (snd e) (fun tv => match tv with
                          | KScalar =>
                              let key := scalar_of (fst e) in
                              let value := scalar_of (snd e) in
                              (* if (name) .. else if (version) .. *)
                              let '(s1, acc1) :=
                                if bytes_eqb key s_name
                                then (s, {| ca_name := value; ca_version := ca_version acc; ca_props := ca_props acc |})
                                else if bytes_eqb key s_version
                                     then match parse_u32 value with
                                          | Some v => (s, {| ca_name := ca_name acc; ca_version := v; ca_props := ca_props acc |})
                                          | None => (add_err E_client_version s, acc)
                                          end
                                     else (s, acc) in
                              (* if (perform-ownership-analysis) .. else properties.push_back *)
                              if bytes_eqb key s_perform_ownership_analysis
                              then Go (if bytes_eqb value s_yes then set_own s1 else s1) acc1
                              else Go s1 {| ca_name := ca_name acc1; ca_version := ca_version acc1;
                                            ca_props := ca_props acc1 ++ [(key, value)] |}
                          | _ => Stop (add_err E_client_val s)
                          end)
                      | _ => Stop (add_err E_client_key s)
                      end))) map s {| ca_name := []; ca_version := 0; ca_props := [] |})
         (fun s acc => if client_ok (ca_name acc) (ca_version acc) (ca_props acc) then Go s tt
                       else Stop (add_err E_client_configure s)).

  Definition parse_tools (map : list entry) (s : bstate) : res unit :=
    each (fun e s _ =>
            check_entry e s
              (with_type (fst e) (fun tk => match tk with
                | KScalar => with_type (snd e) (fun tv => match tv with
                    | KMapping =>
                        let name := scalar_of (fst e) in
                        get_tool name s (fun s => configure_attrs tools_codes E_tools_attr_key (OTool name) (mapping_of (snd e)) s)
                    | _ => Go (add_err E_tools_val s) tt
                    end)
                | _ => Go (add_err E_tools_key s) tt
                end))) map s tt.

  (* the scalar elements of a node-name list are created as nodes *)
  Definition add_nodes (code : N) (xs : list ynode) (s : bstate) : res unit :=
    each (fun x s _ => with_type x (fun t => match t with
                                            | KScalar => Go (add_node (scalar_of x) s) tt
                                            | _ => Go (add_err code s) tt
                                            end)) xs s tt.

  Definition parse_targets (map : list entry) (s : bstate) : res unit :=
    each (fun e s _ =>
            check_entry e s
              (with_type (fst e) (fun tk => match tk with
                | KScalar => with_type (snd e) (fun tv => match tv with
                    | KSequence => bind (add_nodes E_targets_node (sequence_of (snd e)) s)
                                        (fun s _ => Go (add_target (scalar_of (fst e)) s) tt)
                    | _ => Go (add_err E_targets_val s) tt
                    end)
                | _ => Go (add_err E_targets_key s) tt
                end))) map s tt.

  Definition parse_default (v : ynode) (s : bstate) : res unit :=
    let target := scalar_of v in
    if mem_bytes target (st_targets s) then Go (set_default target s) tt
    else Stop (add_err E_default_unknown s).

  Definition parse_nodes (map : list entry) (s : bstate) : res unit :=
    each (fun e s _ =>
            check_entry e s
              (with_type (fst e) (fun tk => match tk with
                | KScalar => with_type (snd e) (fun tv => match tv with
                    | KMapping =>
                        let name := scalar_of (fst e) in
                        configure_attrs nodes_codes E_nodes_attr_key (ONode name) (mapping_of (snd e)) (add_node name s)
                    | _ => Go (add_err E_nodes_val s) tt
                    end)
                | _ => Go (add_err E_nodes_key s) tt
                end))) map s tt.

  (* one attribute of a command after the initial 'tool' *)
  Definition command_attr (tool name : bytes) (e : entry) (s : bstate) : res unit :=
    check_entry e s
      (let key := fst e in
       let value := snd e in
       is_scalar_string key s_inputs (fun b1 =>
         if b1 then
           with_type value (fun tv => match tv with
             | KSequence => add_nodes E_inputs_node (sequence_of value) s
             | _ => Go (add_err E_inputs_value s) tt
             end)
         else is_scalar_string key s_outputs (fun b2 =>
           if b2 then
             with_type value (fun tv => match tv with
               | KSequence => add_nodes E_outputs_node (sequence_of value) s
               | _ => Go (add_err E_outputs_value s) tt
               end)
           else is_scalar_string key s_description (fun b3 =>
             if b3 then
               with_type value (fun tv => match tv with
                 | KScalar => Go s tt
                 | _ => Go (add_err E_description_value s) tt
                 end)
             else
               with_type key (fun tk => match tk with
                 | KScalar => configure_attr commands_codes (OCommand tool name) (scalar_of key) value s
                 | _ => Go (add_err E_commands_key s) tt
                 end))))).

  Definition parse_commands (map : list entry) (s : bstate) : res unit :=
    each (fun e s _ =>
            check_entry e s
              (with_type (fst e) (fun tk => match tk with
                | KScalar => with_type (snd e) (fun tv => match tv with
                    | KMapping =>
                        let name := scalar_of (fst e) in
                        let attrs := mapping_of (snd e) in
                        if mem_bytes name (st_commands s) then Go (add_err E_commands_duplicate s) tt
                        else
                          (* auto it = attrs->begin(); *)
                          let it := attrs in
                          if at_end it then Go (add_err E_commands_no_tool s) tt
                          else
                            deref it (fun first =>
                              check_entry first s
                                (is_scalar_string (fst first) s_tool (fun is_tool =>
                                   if negb is_tool then Go (add_err E_commands_tool_first s) tt
                                   else with_type (snd first) (fun tt_ => match tt_ with
                                     | KScalar =>
                                         let tool := scalar_of (snd first) in
                                         get_tool tool s (fun s =>
                                           if tool_creates tool name then
                                             (* ++it; for (; it != attrs->end(); ++it) *)
                                             bind (each (fun a s _ => command_attr tool name a s) (tl it) s tt)
                                                  (fun s _ => Go (add_command name s) tt)
                                           else Stop (add_err E_commands_create s))
                                     | _ => Go (add_err E_commands_tool_value s) tt
                                     end))))
                    | _ => Go (add_err E_commands_val s) tt
                    end)
                | _ => Go (add_err E_commands_key s) tt
                end))) map s tt.

  (* one optional section of parseRootNode:
       if (it != mapping->end() && nodeIsScalarString(it->getKey(), NAME)) { kind check; parse; ++it; [checkEntry] } *)
  Definition section (name : bytes) (want : nkind) (code : N) (parse : ynode -> bstate -> res unit)
             (it : list entry) (s : bstate) : res (list entry) :=
    if at_end it then Go s it
    else deref it (fun e =>
      is_scalar_string (fst e) name (fun here =>
        if here then
          with_type (snd e) (fun tv =>
            if match tv, want with
               | KScalar, KScalar | KMapping, KMapping | KSequence, KSequence | KOther, KOther => true
               | _, _ => false
               end
            then bind (parse (snd e) s) (fun s _ =>
                   let it' := tl it in
                   if at_end it' then Go s it' else deref it' (fun e' => check_entry e' s (Go s it')))
            else Stop (add_err code s))
        else Go s it)).

  Definition parse_root (node : ynode) (s : bstate) : res unit :=
    with_type node (fun t => match t with
      | KMapping =>
          let it := mapping_of node in
          if at_end it then Stop (add_err E_initial_client s)
          else deref it (fun e =>
            check_entry e s
              (is_scalar_string (fst e) s_client (fun is_client =>
                 if negb is_client then Stop (add_err E_initial_client s)
                 else with_type (snd e) (fun tv => match tv with
                   | KMapping =>
                       bind (parse_client (mapping_of (snd e)) s) (fun s _ =>
                       let it1 := tl it in
                       bind (if at_end it1 then Go s it1 else deref it1 (fun e' => check_entry e' s (Go s it1))) (fun s it1 =>
                       bind (section s_tools KMapping E_tools_value (fun v => parse_tools (mapping_of v)) it1 s) (fun s it2 =>
                       bind (section s_targets KMapping E_targets_value (fun v => parse_targets (mapping_of v)) it2 s) (fun s it3 =>
                       bind (section s_default KScalar E_default_value parse_default it3 s) (fun s it4 =>
                       bind (section s_nodes KMapping E_nodes_value (fun v => parse_nodes (mapping_of v)) it4 s) (fun s it5 =>
                       bind (section s_commands KMapping E_commands_value (fun v => parse_commands (mapping_of v)) it5 s) (fun s it6 =>
                       if at_end it6 then Go s tt else Stop (add_err E_trailing s))))))))
                   | _ => Stop (add_err E_client_value s)
                   end))))
      | _ => Stop (add_err E_top_level s)
      end).

  Inductive load_result := LoadOk (s : bstate) | LoadError (s : bstate) | LoadCrash.

  (* BuildFileImpl::load on the documents of the stream (llvm's Stream always has a first document) *)
  Definition load (docs : list ynode) : load_result :=
    match docs with
    | [] => LoadError (add_err E_missing_document init_state)
    | root :: more =>
        match root with
        | YAbsent => LoadError (add_err E_missing_document init_state)        (* if (!root) *)
        | _ =>
            match parse_root root init_state with
            | Crash => LoadCrash
            | Stop s => LoadError s
            | Go s _ =>
                match more with
                | extra :: _ =>                                                (* ++it != stream.end() *)
                    match ntype extra with
                    | None => if guarded then LoadError (add_err E_additional_document s)
                              else LoadCrash                                   (* error(it->getRoot(), ...) on nullptr *)
                    | Some _ => LoadError (add_err E_additional_document s)
                    end
                | [] =>
                    if st_own s then
                      if ownership_ok (st_commands s) then LoadOk s else LoadError s
                    else LoadOk s
                end
            end
        end
    end.
End Loader.

(* the delegate of `llbuild buildsystem parse` (and of the driver's `load`): every tool exists, everything is accepted *)
Definition yes3 {A B C} (_ : A) (_ : B) (_ : C) : bool := true.
Definition yes2 {A B} (_ : A) (_ : B) : bool := true.
Definition yes1 {A} (_ : A) : bool := true.
Definition load_parse_cmd (guarded : bool) (docs : list ynode) : load_result :=
  load guarded yes3 yes1 yes2 yes3 yes1 docs.

(* ---- specification vocabulary ---- *)

(* the keys [ks] are scalars spelling a subsequence of [canon] (same relative order, no repetition) *)
Fixpoint keys_subseq (canon : list bytes) (ks : list ynode) : bool :=
  match canon with
  | [] => match ks with [] => true | _ => false end
  | c :: canon' =>
      match ks with
      | [] => true
      | k :: ks' =>
          if match k with YScalar v => bytes_eqb v c | _ => false end
          then keys_subseq canon' ks'
          else keys_subseq canon' ks
      end
  end.

Definition section_order : list bytes := [s_tools; s_targets; s_default; s_nodes; s_commands].

Definition is_crash (r : load_result) : bool := match r with LoadCrash => true | _ => false end.
Definition is_ok (r : load_result) : bool := match r with LoadOk _ => true | _ => false end.
Definition doc_count (docs : list ynode) : nat := length docs.
Definition errors_of (r : load_result) : list N :=
  match r with LoadOk s | LoadError s => rev_append (st_errs s) [] | LoadCrash => [] end.
