(* Proofs about the Makefile-style dependency-file parser model (Parse/MakeDeps.v).

   In-bounds reads: the model's cursor is the remaining suffix of the buffer and every read is a pattern
   match on that suffix, so "no read outside [data, end)" holds BY CONSTRUCTION of the suffix model (there is
   no way to express a read at `end`); what remains to be proved is termination within the stated fuel
   (md_parse_total) and that reported positions lie inside the buffer (md_positions_in_bounds). *)
From LLB Require Import Base.Bytes Base.BytesFacts Parse.MakeDeps.
Local Open Scope N_scope.

(* ---------- unfolding equations ---------- *)

Lemma skip_ws_cons c r :
  skip_ws (c :: r) =
  if c =? 35 then skip_ws (skip_newlines r)
  else if (c =? 32) || (c =? 9) || (c =? 10) || (c =? 13) then skip_ws r
  else c :: r.
Proof.
  cbn [skip_ws]. destruct (c =? 35) eqn:E35; [|reflexivity].
  induction r as [|d r' IH]; [reflexivity|].
  cbn [skip_newlines]. destruct (d =? 10) eqn:E10; [exact IH | reflexivity].
Qed.

Lemma skip_ws_newlines r : skip_ws (skip_newlines r) = skip_ws r.
Proof.
  induction r as [|d r IH]; [reflexivity|].
  cbn [skip_newlines]. destruct (d =? 10) eqn:E10; [|reflexivity].
  apply N.eqb_eq in E10. subst d. rewrite IH, (skip_ws_cons 10 r). reflexivity.
Qed.

(* a '#' acts as one blank *)
Lemma skip_ws_cons' c r :
  skip_ws (c :: r) =
  if (c =? 35) || (c =? 32) || (c =? 9) || (c =? 10) || (c =? 13) then skip_ws r else c :: r.
Proof.
  rewrite skip_ws_cons, skip_ws_newlines.
  destruct (c =? 35); [reflexivity|]. reflexivity.
Qed.

(* ---------- lengths: every helper returns a suffix that is no longer than its argument ---------- *)

Lemma skip_ws_len l : (length (skip_ws l) <= length l)%nat.
Proof.
  induction l as [|c r IH]; [cbn; lia|].
  rewrite skip_ws_cons'. destruct ((c =? 35) || (c =? 32) || (c =? 9) || (c =? 10) || (c =? 13)); cbn [length]; lia.
Qed.

Lemma skip_nnws_len_aux n : forall l, (length l <= n)%nat -> (length (skip_nnws l) <= length l)%nat.
Proof.
  induction n as [|n IH]; intros l Hn.
  - destruct l; [cbn; lia | cbn in Hn; lia].
  - destruct l as [|c r]; [cbn; lia|]. cbn [length] in Hn. cbn [skip_nnws].
    destruct ((c =? 32) || (c =? 9) || (c =? 13)).
    + pose proof (IH r ltac:(lia)). cbn [length]. lia.
    + destruct (c =? 92); [|lia]. destruct r as [|d r']; [lia|]. cbn [length] in Hn.
      destruct (d =? 10).
      * pose proof (IH r' ltac:(lia)). cbn [length]. lia.
      * destruct (d =? 13); [|lia]. destruct r' as [|e r'']; [lia|]. cbn [length] in Hn.
        destruct (e =? 10); [|lia]. pose proof (IH r'' ltac:(lia)). cbn [length]. lia.
Qed.

Lemma skip_nnws_len l : (length (skip_nnws l) <= length l)%nat.
Proof. apply (skip_nnws_len_aux (length l)). lia. Qed.

Lemma skip_eol_len l : (length (skip_eol l) <= length l)%nat.
Proof.
  induction l as [|c r IH]; [cbn; lia|]. cbn [skip_eol]. destruct (c =? 10); cbn [length]; lia.
Qed.

Lemma skip_eol_lt l : l <> [] -> (length (skip_eol l) < length l)%nat.
Proof.
  destruct l as [|c r]; [congruence|]. intros _. cbn [skip_eol].
  destruct (c =? 10); [cbn; lia|]. pose proof (skip_eol_len r). cbn [length]. lia.
Qed.

Lemma lex_word_len_aux n : forall l, (length l <= n)%nat -> (length (snd (lex_word l)) <= length l)%nat.
Proof.
  induction n as [|n IH]; intros l Hn.
  - destruct l; [cbn; lia | cbn in Hn; lia].
  - destruct l as [|c r]; [cbn; lia|]. cbn [length] in Hn. cbn [lex_word].
    destruct (c =? 92).
    + destruct r as [|d r']; [cbn; lia|]. cbn [length] in Hn.
      destruct (d =? 10); [cbn [snd]; lia|].
      pose proof (IH r' ltac:(lia)) as H.
      destruct ((d =? 32) || (d =? 35) || (d =? 92)); destruct (lex_word r') as [u rest]; cbn [snd length] in *; lia.
    + destruct (c =? 36).
      * destruct r as [|d r']; [cbn [snd]; lia|]. cbn [length] in Hn.
        destruct (d =? 36); [|cbn [snd]; lia].
        pose proof (IH r' ltac:(lia)) as H. destruct (lex_word r') as [u rest]; cbn [snd length] in *; lia.
      * destruct (is_word_char c); [|cbn [snd]; lia].
        pose proof (IH r ltac:(lia)) as H. destruct (lex_word r) as [u rest]; cbn [snd length] in *; lia.
Qed.

Lemma lex_word_len l : (length (snd (lex_word l)) <= length l)%nat.
Proof. apply (lex_word_len_aux (length l)). lia. Qed.

Lemma colon_loop_some fuel cur :
  (length cur < fuel)%nat ->
  exists u rest, colon_loop fuel cur = Some (u, rest) /\ (length rest <= length cur)%nat.
Proof.
  revert cur. induction fuel as [|f IH]; intros cur Hf; [lia|].
  cbn [colon_loop]. destruct cur as [|c r]; [exists [], []; split; [reflexivity | lia]|].
  destruct (c =? 58); [|exists [], (c :: r); split; [reflexivity | lia]].
  pose proof (lex_word_len r) as Hl. destruct (lex_word r) as [u rest]. cbn [snd] in Hl.
  cbn [length] in Hf. destruct (IH rest ltac:(lia)) as [u2 [rest2 [E Hr]]].
  rewrite E. exists (58 :: u ++ u2), rest2. split; [reflexivity | cbn [length]; lia].
Qed.

Lemma progressed_false a b : progressed a b = false -> length a = length b.
Proof. unfold progressed. intros H. apply negb_false_iff, Nat.eqb_eq in H. exact H. Qed.

Lemma progressed_true a b : progressed a b = true -> length a <> length b.
Proof. unfold progressed. intros H. apply negb_true_iff, Nat.eqb_neq in H. exact H. Qed.

(* ---------- termination within the fuel ---------- *)

Lemma deps_loop_ok fuel dlen cur :
  (length cur < fuel)%nat ->
  ~ In OutOfFuel (fst (deps_loop fuel dlen cur)) /\ (length (snd (deps_loop fuel dlen cur)) <= length cur)%nat.
Proof.
  revert cur. induction fuel as [|f IH]; intros cur Hf; [lia|].
  cbn [deps_loop].
  pose proof (skip_nnws_len cur) as H1. destruct (skip_nnws cur) as [|c t] eqn:E1.
  - cbn. split; [tauto | lia].
  - destruct (c =? 10); [cbn [fst snd]; split; [cbn; tauto | lia]|].
    pose proof (lex_word_len (c :: t)) as H2. destruct (lex_word (c :: t)) as [u c2]. cbn [snd] in H2.
    destruct (progressed (c :: t) c2) eqn:Ep; cbn [negb].
    + apply progressed_true in Ep.
      destruct (colon_loop_some (S (length c2)) c2 ltac:(lia)) as [u2 [c3 [E3 H3]]]. rewrite E3.
      destruct (IH c3 ltac:(lia)) as [Ha Hb].
      destruct (deps_loop f dlen c3) as [evs c4]. cbn [fst snd] in *.
      split; [intros [H|H]; [discriminate | tauto] | lia].
    + apply progressed_false in Ep.
      assert (Hne : c2 <> []) by (intros ->; cbn in Ep; lia).
      pose proof (skip_eol_lt c2 Hne) as H3.
      destruct (IH (skip_eol c2) ltac:(lia)) as [Ha Hb].
      destruct (deps_loop f dlen (skip_eol c2)) as [evs c3]. cbn [fst snd] in *.
      split; [intros [H|H]; [discriminate | tauto] | lia].
Qed.

Lemma rules_loop_ok fuel ign dlen cur :
  (length cur < fuel)%nat -> ~ In OutOfFuel (rules_loop fuel ign dlen cur).
Proof.
  revert cur. induction fuel as [|f IH]; intros cur Hf; [lia|].
  cbn [rules_loop].
  pose proof (skip_ws_len cur) as H1. destruct (skip_ws cur) as [|c t] eqn:E1; [cbn; tauto|].
  pose proof (lex_word_len (c :: t)) as H2. destruct (lex_word (c :: t)) as [u c2]. cbn [snd] in H2.
  destruct (progressed (c :: t) c2) eqn:Ep; cbn [negb].
  - apply progressed_true in Ep.
    pose proof (skip_nnws_len c2) as H3.
    intros [H|H]; [discriminate|]. revert H.
    destruct (head_is (skip_nnws c2) 58) eqn:Eh; cbn [negb].
    + destruct (skip_nnws c2) as [|x c3'] eqn:E3; [discriminate|]. cbn [tl].
      destruct (deps_loop_ok (S (length c3')) dlen c3' ltac:(lia)) as [Ha Hb].
      destruct (deps_loop (S (length c3')) dlen c3') as [evs c4]. cbn [fst snd] in *.
      intros H. apply in_app_or in H. destruct H as [H|[H|H]]; [tauto | discriminate |].
      destruct ign; [exact H|]. cbn [length] in H3. apply (IH c4); [lia | exact H].
    + intros [H|[H|H]]; [discriminate | discriminate |].
      pose proof (skip_eol_len (skip_nnws c2)) as H4. apply (IH (skip_eol (skip_nnws c2))); [lia | exact H].
  - apply progressed_false in Ep.
    assert (Hne : c2 <> []) by (intros ->; cbn in Ep; lia).
    pose proof (skip_eol_lt c2 Hne) as H3.
    intros [H|H]; [discriminate|]. apply (IH (skip_eol c2)); [lia | exact H].
Qed.

(* C19 (termination): for EVERY byte string, both loops finish within the fuel md_parse supplies. *)
Theorem md_parse_total : forall b data, ~ In OutOfFuel (md_parse b data).
Proof. intros b data. unfold md_parse. apply rules_loop_ok. lia. Qed.

(* ---------- reported positions lie inside the buffer ---------- *)

Lemma pos_of_le dlen cur : pos_of dlen cur <= N.of_nat dlen.
Proof. unfold pos_of. lia. Qed.

Lemma deps_loop_pos fuel dlen cur c p :
  In (Err c p) (fst (deps_loop fuel dlen cur)) -> p <= N.of_nat dlen.
Proof.
  revert cur. induction fuel as [|f IH]; intros cur; cbn [deps_loop].
  - cbn. intros [H|H]; [discriminate | tauto].
  - destruct (skip_nnws cur) as [|x t]; [cbn; tauto|].
    destruct (x =? 10); [cbn; tauto|].
    destruct (lex_word (x :: t)) as [u c2].
    destruct (progressed (x :: t) c2); cbn [negb].
    + destruct (colon_loop (S (length c2)) c2) as [[u2 c3]|]; [|cbn; intros [H|H]; [discriminate | tauto]].
      specialize (IH c3). destruct (deps_loop f dlen c3) as [evs c4]. cbn [fst] in *.
      intros [H|H]; [discriminate | exact (IH H)].
    + specialize (IH (skip_eol c2)). destruct (deps_loop f dlen (skip_eol c2)) as [evs c3]. cbn [fst] in *.
      intros [H|H]; [|exact (IH H)]. inversion H. apply pos_of_le.
Qed.

Lemma rules_loop_pos fuel ign dlen cur c p :
  In (Err c p) (rules_loop fuel ign dlen cur) -> p <= N.of_nat dlen.
Proof.
  revert cur. induction fuel as [|f IH]; intros cur; cbn [rules_loop].
  - cbn. intros [H|H]; [discriminate | tauto].
  - destruct (skip_ws cur) as [|x t]; [cbn; tauto|].
    destruct (lex_word (x :: t)) as [u c2].
    destruct (progressed (x :: t) c2); cbn [negb].
    + intros [H|H]; [discriminate|]. revert H.
      destruct (head_is (skip_nnws c2) 58); cbn [negb].
      * pose proof (deps_loop_pos (S (length (tl (skip_nnws c2)))) dlen (tl (skip_nnws c2)) c p) as Hd.
        destruct (deps_loop (S (length (tl (skip_nnws c2)))) dlen (tl (skip_nnws c2))) as [evs c4]. cbn [fst] in Hd.
        intros H. apply in_app_or in H. destruct H as [H|[H|H]]; [exact (Hd H) | discriminate |].
        destruct ign; [destruct H | exact (IH _ H)].
      * intros [H|[H|H]]; [inversion H; apply pos_of_le | discriminate | exact (IH _ H)].
    + intros [H|H]; [inversion H; apply pos_of_le | exact (IH _ H)].
Qed.

(* C19: every reported error position is an offset into (or just past) the supplied buffer. *)
Theorem md_positions_in_bounds : forall b data c p,
  In (Err c p) (md_parse b data) -> p <= N.of_nat (length data).
Proof. intros b data c p. unfold md_parse. apply rules_loop_pos. Qed.

(* ---------- the writer's output is read back byte for byte ---------- *)

Ltac neqb :=
  repeat match goal with
         | H : ?c <> ?k |- context [?c =? ?k] => rewrite (proj2 (N.eqb_neq c k) H)
         end.

Lemma path_byte_ok_spec c : path_byte_ok c = true <-> c <> 0 /\ c <> 9 /\ c <> 10 /\ c <> 13.
Proof.
  unfold path_byte_ok. rewrite negb_true_iff, !orb_false_iff, !N.eqb_neq. tauto.
Qed.

(* one escaped byte is lexed back to itself, whatever follows *)
Lemma lex_word_esc_byte c rest :
  path_byte_ok c = true -> c <> 58 ->
  lex_word (esc_byte c ++ rest) = (c :: fst (lex_word rest), snd (lex_word rest)).
Proof.
  intros Hok H58. apply path_byte_ok_spec in Hok. destruct Hok as [H0 [H9 [H10 H13]]].
  unfold esc_byte.
  destruct (N.eqb_spec c 32) as [->|H32];
    [cbn [orb app lex_word]; change (92 =? 92) with true; cbv iota;
     change (32 =? 10) with false; change (32 =? 32) with true; cbn [orb]; destruct (lex_word rest); reflexivity|].
  destruct (N.eqb_spec c 35) as [->|H35];
    [cbn [orb app lex_word]; change (92 =? 92) with true; cbv iota;
     change (35 =? 10) with false; change (35 =? 32) with false; change (35 =? 35) with true; cbn [orb];
     destruct (lex_word rest); reflexivity|].
  destruct (N.eqb_spec c 92) as [->|H92];
    [cbn [orb app lex_word]; change (92 =? 92) with true; cbv iota;
     change (92 =? 10) with false; change (92 =? 32) with false; change (92 =? 35) with false; cbn [orb];
     destruct (lex_word rest); reflexivity|].
  cbn [orb].
  destruct (N.eqb_spec c 36) as [->|H36];
    [cbn [app lex_word]; change (36 =? 92) with false; change (36 =? 36) with true; cbv iota;
     destruct (lex_word rest); reflexivity|].
  cbn [app lex_word]. unfold is_word_char. neqb. cbn [orb negb].
  destruct (lex_word rest); reflexivity.
Qed.

Definition target_byte_ok (c : byte) : bool := path_byte_ok c && negb (c =? 58).

Lemma md_escape_cons c p : md_escape (c :: p) = esc_byte c ++ md_escape p.
Proof. reflexivity. Qed.

Lemma lex_word_escape p rest :
  forallb target_byte_ok p = true ->
  lex_word (md_escape p ++ rest) = (p ++ fst (lex_word rest), snd (lex_word rest)).
Proof.
  induction p as [|c p IH]; intros Hp.
  - cbn. destruct (lex_word rest); reflexivity.
  - cbn [forallb] in Hp. apply andb_true_iff in Hp. destruct Hp as [Hc Hp].
    unfold target_byte_ok in Hc. apply andb_true_iff in Hc. destruct Hc as [Hok H58].
    apply negb_true_iff, N.eqb_neq in H58.
    rewrite md_escape_cons, <- app_assoc, lex_word_esc_byte by assumption.
    rewrite (IH Hp). reflexivity.
Qed.

(* the first byte of an escaped path is never one that the skipping functions consume *)
Lemma esc_head c rest :
  path_byte_ok c = true ->
  exists x y, esc_byte c ++ rest = x :: y /\ x <> 32 /\ x <> 9 /\ x <> 10 /\ x <> 13 /\ x <> 35 /\
              (x = 92 -> exists d z, y = d :: z /\ d <> 10 /\ d <> 13).
Proof.
  intros Hok. apply path_byte_ok_spec in Hok. destruct Hok as [H0 [H9 [H10 H13]]].
  unfold esc_byte.
  destruct (N.eqb_spec c 32) as [->|H32];
    [exists 92, (32 :: rest); repeat split; try discriminate; intros _; exists 32, rest; repeat split; discriminate|].
  destruct (N.eqb_spec c 35) as [->|H35];
    [exists 92, (35 :: rest); repeat split; try discriminate; intros _; exists 35, rest; repeat split; discriminate|].
  destruct (N.eqb_spec c 92) as [->|H92];
    [exists 92, (92 :: rest); repeat split; try discriminate; intros _; exists 92, rest; repeat split; discriminate|].
  cbn [orb].
  destruct (N.eqb_spec c 36) as [->|H36];
    [exists 36, (36 :: rest); repeat split; discriminate|].
  exists c, rest. repeat split; try assumption. intros ->. congruence.
Qed.

Lemma skip_nnws_stop x y :
  x <> 32 -> x <> 9 -> x <> 13 -> (x = 92 -> exists d z, y = d :: z /\ d <> 10 /\ d <> 13) ->
  skip_nnws (x :: y) = x :: y.
Proof.
  intros H32 H9 H13 H92. cbn [skip_nnws]. neqb. cbn [orb].
  destruct (N.eqb_spec x 92) as [E|_]; [|reflexivity].
  destruct (H92 E) as [d [z [-> [Hd10 Hd13]]]]. neqb. reflexivity.
Qed.

Lemma skip_ws_stop x y :
  x <> 35 -> x <> 32 -> x <> 9 -> x <> 10 -> x <> 13 -> skip_ws (x :: y) = x :: y.
Proof. intros. rewrite skip_ws_cons'. neqb. reflexivity. Qed.

Lemma skip_nnws_sep sep X : skip_nnws (sep_bytes sep ++ X) = skip_nnws X.
Proof. destruct sep; reflexivity. Qed.

Lemma wf_path_spec p :
  wf_path p = true <-> exists c p', p = c :: p' /\ c <> 58 /\ forallb path_byte_ok p = true.
Proof.
  unfold wf_path. destruct p as [|c p'].
  - split; [discriminate | intros [c [p' [H _]]]; discriminate].
  - rewrite andb_true_iff, negb_true_iff, N.eqb_neq. split.
    + intros [H1 H2]. exists c, p'. auto.
    + intros [c' [p'' [E [H1 H2]]]]. inversion E. subst. auto.
Qed.

Lemma wf_target_spec t :
  wf_target t = true <-> t <> [] /\ forallb target_byte_ok t = true.
Proof.
  unfold wf_target. destruct t as [|c t'].
  - split; [discriminate | intros [H _]; congruence].
  - split; [intros H; split; [discriminate | exact H] | intros [_ H]; exact H].
Qed.

(* where a dependency word may end: end of input, a blank, or a newline *)
Definition dep_tail (t : bytes) : bool :=
  match t with [] => true | c :: _ => (c =? 32) || (c =? 10) end.

Lemma dep_tail_lex t : dep_tail t = true -> lex_word t = ([], t).
Proof.
  destruct t as [|c r]; [reflexivity|]. cbn [dep_tail]. intros H. apply orb_true_iff in H.
  destruct H as [H|H]; apply N.eqb_eq in H; subst c; reflexivity.
Qed.

Lemma dep_tail_colon t F : dep_tail t = true -> colon_loop (S F) t = Some ([], t).
Proof.
  destruct t as [|c r]; [reflexivity|]. cbn [dep_tail]. intros H. apply orb_true_iff in H.
  destruct H as [H|H]; apply N.eqb_eq in H; subst c; reflexivity.
Qed.

(* lexWord followed by the "push ':' and continue lexing" loop recovers a whole path, interior and
   trailing colons included *)
Lemma lex_dep_spec p t :
  forallb path_byte_ok p = true -> dep_tail t = true ->
  exists u c2 u2,
    lex_word (md_escape p ++ t) = (u, c2) /\
    (forall F, (length c2 < F)%nat -> colon_loop F c2 = Some (u2, t)) /\
    u ++ u2 = p /\
    (forall c p', p = c :: p' -> c <> 58 -> (length c2 < length (md_escape p ++ t))%nat).
Proof.
  intros Hp Ht. induction p as [|c p IH].
  - exists [], t, []. cbn [md_escape flat_map app]. split; [apply dep_tail_lex; exact Ht|].
    split; [|split; [reflexivity | intros c p' H; discriminate]].
    intros F HF. destruct F as [|F]; [lia|]. apply dep_tail_colon. exact Ht.
  - cbn [forallb] in Hp. apply andb_true_iff in Hp. destruct Hp as [Hc Hp].
    destruct (IH Hp) as [u [c2 [u2 [E [Hcl [Hu Hlen]]]]]]. clear IH.
    rewrite md_escape_cons, <- app_assoc.
    pose proof (lex_word_len (md_escape p ++ t)) as Hl. rewrite E in Hl. cbn [snd] in Hl.
    destruct (N.eqb_spec c 58) as [->|H58].
    + (* a colon: lexWord stops here with no progress, the loop pushes it and lexes on *)
      change (esc_byte 58) with [58]. cbn [app].
      exists [], (58 :: md_escape p ++ t), (58 :: u ++ u2).
      split; [reflexivity|]. split; [|split].
      * intros F HF. destruct F as [|F]; [lia|]. cbn [length] in HF.
        cbn [colon_loop]. change (58 =? 58) with true. cbv iota. rewrite E.
        rewrite (Hcl F ltac:(lia)). reflexivity.
      * cbn [app]. rewrite Hu. reflexivity.
      * intros c p' Hcp Hne. inversion Hcp. congruence.
    + rewrite lex_word_esc_byte, E by assumption. cbn [fst snd].
      exists (c :: u), c2, u2. split; [reflexivity|]. split; [exact Hcl|]. split; [cbn [app]; rewrite Hu; reflexivity|].
      intros c' p' _ _. rewrite app_length.
      assert (1 <= length (esc_byte c))%nat.
      { unfold esc_byte. destruct ((c =? 32) || (c =? 35) || (c =? 92)); [cbn; lia|]. destruct (c =? 36); cbn; lia. }
      lia.
Qed.

Lemma raw_of_app a t : raw_of (a ++ t) t = a.
Proof.
  unfold raw_of. rewrite app_length.
  replace (length a + length t - length t)%nat with (length a + 0)%nat by lia.
  rewrite firstn_app_2. cbn. apply app_nil_r.
Qed.

Lemma progressed_lt a b : (length b < length a)%nat -> progressed a b = true.
Proof. unfold progressed. intros H. apply negb_true_iff, Nat.eqb_neq. lia. Qed.

Definition dep_events (ps : list bytes) : list md_event := map (fun p => Dep (md_escape p) p) ps.
Definition deps_text (sep : sepchoice) (ps : list bytes) : bytes :=
  flat_map (fun p => sep_bytes sep ++ md_escape p) ps.

Lemma deps_text_tail sep ps (rest : bytes) : dep_tail (deps_text sep ps ++ 10 :: rest) = true.
Proof. destruct ps as [|p ps]; [reflexivity|]. destruct sep; reflexivity. Qed.

(* the prerequisites loop on "sep path sep path ... Z" where Z is any continuation at which a word may end *)
Lemma deps_loop_write_gen sep ps : forall F dlen (Z : bytes),
  forallb wf_path ps = true -> dep_tail Z = true ->
  deps_loop (length ps + F) dlen (deps_text sep ps ++ Z) =
  (dep_events ps ++ fst (deps_loop F dlen Z), snd (deps_loop F dlen Z)).
Proof.
  induction ps as [|p ps IH]; intros F dlen Z Hps HZ.
  - cbn [length plus deps_text flat_map app dep_events map]. destruct (deps_loop F dlen Z); reflexivity.
  - cbn [length plus].
    cbn [forallb] in Hps. apply andb_true_iff in Hps. destruct Hps as [Hp Hps].
    apply wf_path_spec in Hp. destruct Hp as [c [p' [Ep [H58 Hok]]]].
    unfold deps_text. cbn [flat_map]. fold (deps_text sep ps).
    set (T := deps_text sep ps ++ Z).
    assert (HT : dep_tail T = true).
    { unfold T. destruct ps as [|q ps']; [exact HZ|]. destruct sep; reflexivity. }
    replace (((sep_bytes sep ++ md_escape p) ++ deps_text sep ps) ++ Z)
      with (sep_bytes sep ++ md_escape p ++ T) by (unfold T; rewrite <- !app_assoc; reflexivity).
    cbn [deps_loop]. rewrite skip_nnws_sep.
    assert (Hc : path_byte_ok c = true).
    { rewrite Ep in Hok. cbn [forallb] in Hok. apply andb_true_iff in Hok. tauto. }
    destruct (esc_head c (md_escape p' ++ T) Hc) as [x [y [Ex [Hx32 [Hx9 [Hx10 [Hx13 [Hx35 Hx92]]]]]]]].
    assert (Ext : md_escape p ++ T = x :: y).
    { rewrite Ep, md_escape_cons, <- app_assoc. exact Ex. }
    replace (skip_nnws (md_escape p ++ T)) with (md_escape p ++ T)
      by (rewrite Ext; symmetry; apply skip_nnws_stop; assumption).
    rewrite Ext at 1. neqb.
    destruct (lex_dep_spec p T Hok HT) as [u [c2 [u2 [E [Hcl [Hu Hlen]]]]]].
    rewrite E. rewrite (progressed_lt _ _ (Hlen c p' Ep H58)). cbn [negb].
    rewrite (Hcl (S (length c2)) ltac:(lia)).
    unfold T at 1. rewrite (IH F dlen Z Hps HZ).
    fold T. rewrite raw_of_app, Hu. reflexivity.
Qed.

Lemma deps_loop_write sep ps : forall F dlen (rest : bytes),
  forallb wf_path ps = true -> (length ps < F)%nat ->
  deps_loop F dlen (deps_text sep ps ++ 10 :: rest) = (dep_events ps, 10 :: rest).
Proof.
  intros F dlen rest Hps HF.
  replace F with (length ps + S (F - length ps - 1))%nat by lia.
  rewrite (deps_loop_write_gen sep ps _ dlen (10 :: rest) Hps eq_refl).
  cbn [deps_loop fst snd]. rewrite app_nil_r. reflexivity.
Qed.

Lemma md_write_split t ps sep (rest : bytes) :
  md_write t ps sep ++ rest = md_escape t ++ 58 :: deps_text sep ps ++ 10 :: rest.
Proof. unfold md_write, deps_text. rewrite <- !app_assoc. reflexivity. Qed.

Lemma rules_loop_nl F ign dlen (rest : bytes) : rules_loop F ign dlen (10 :: rest) = rules_loop F ign dlen rest.
Proof.
  destruct F as [|F]; [reflexivity|]. cbn [rules_loop]. rewrite skip_ws_cons'. reflexivity.
Qed.

(* one written rule followed by anything: the rule's events, then the parse of what follows *)
Lemma rules_loop_write F ign dlen t ps sep (rest : bytes) :
  wf_target t = true -> forallb wf_path ps = true ->
  rules_loop (S F) ign dlen (md_write t ps sep ++ rest) =
  RuleStart (md_escape t) t :: dep_events ps ++ RuleEnd :: (if ign then [] else rules_loop F ign dlen rest).
Proof.
  intros Ht Hps. apply wf_target_spec in Ht. destruct Ht as [Hne Hok].
  rewrite md_write_split. set (T := 58 :: deps_text sep ps ++ 10 :: rest).
  cbn [rules_loop].
  destruct t as [|c t']; [congruence|].
  assert (Hc : path_byte_ok c = true).
  { cbn [forallb] in Hok. apply andb_true_iff in Hok. destruct Hok as [Hok _].
    unfold target_byte_ok in Hok. apply andb_true_iff in Hok. tauto. }
  destruct (esc_head c (md_escape t' ++ T) Hc) as [x [y [Ex [Hx32 [Hx9 [Hx10 [Hx13 [Hx35 Hx92]]]]]]]].
  assert (Ext : md_escape (c :: t') ++ T = x :: y).
  { rewrite md_escape_cons, <- app_assoc. exact Ex. }
  replace (skip_ws (md_escape (c :: t') ++ T)) with (md_escape (c :: t') ++ T)
    by (rewrite Ext; symmetry; apply skip_ws_stop; assumption).
  rewrite Ext at 1.
  rewrite (lex_word_escape (c :: t') T Hok).
  assert (ET : lex_word T = ([], T)) by reflexivity. rewrite ET. cbn [fst snd]. rewrite app_nil_r.
  rewrite progressed_lt.
  2:{ rewrite app_length, md_escape_cons, app_length.
      assert (1 <= length (esc_byte c))%nat.
      { unfold esc_byte. destruct ((c =? 32) || (c =? 35) || (c =? 92)); [cbn; lia|]. destruct (c =? 36); cbn; lia. }
      lia. }
  cbn [negb]. rewrite raw_of_app.
  assert (EN : skip_nnws T = T) by reflexivity. rewrite EN.
  unfold T at 1. cbn [head_is]. change (58 =? 58) with true. cbn [negb].
  unfold T. cbn [tl].
  rewrite (deps_loop_write sep ps _ dlen rest Hps).
  2:{ rewrite app_length. cbn [length].
      assert (length ps <= length (deps_text sep ps))%nat.
      { clear. induction ps as [|p ps IH]; [cbn; lia|]. unfold deps_text in *. cbn [flat_map length].
        assert (1 <= length (sep_bytes sep))%nat by (destruct sep; cbn; lia).
        rewrite !app_length. lia. }
      lia. }
  rewrite rules_loop_nl. reflexivity.
Qed.
