(* Proofs about the Makefile-style dependency-file parser model (Parse/MakeDeps.v).

   In-bounds reads: the model's cursor is the remaining suffix of the buffer and every read is a pattern
   match on that suffix, so "no read outside [data, end)" holds BY CONSTRUCTION of the suffix model (there is
   no way to express a read at `end`); what remains to be proved is termination within the stated fuel
   (md_parse_total) and that reported positions lie inside the buffer (md_positions_in_bounds). *)
From LLB Require Import Base.Bytes Base.BytesFacts Parse.MakeDeps.
Local Open Scope N_scope.

(* ---------- unfolding equations ---------- *)

Lemma skip_ws_cons c r :
  skip_ws (c :: r) =
  if c =? 35 then skip_ws (skip_newlines r)
  else if (c =? 32) || (c =? 9) || (c =? 10) || (c =? 13) then skip_ws r
  else c :: r.
Proof.
  cbn [skip_ws]. destruct (c =? 35) eqn:E35; [|reflexivity].
  induction r as [|d r' IH]; [reflexivity|].
  cbn [skip_newlines]. destruct (d =? 10) eqn:E10; [exact IH | reflexivity].
Qed.

Lemma skip_ws_newlines r : skip_ws (skip_newlines r) = skip_ws r.
Proof.
  induction r as [|d r IH]; [reflexivity|].
  cbn [skip_newlines]. destruct (d =? 10) eqn:E10; [|reflexivity].
  apply N.eqb_eq in E10. subst d. rewrite IH, (skip_ws_cons 10 r). reflexivity.
Qed.

(* a '#' acts as one blank *)
Lemma skip_ws_cons' c r :
  skip_ws (c :: r) =
  if (c =? 35) || (c =? 32) || (c =? 9) || (c =? 10) || (c =? 13) then skip_ws r else c :: r.
Proof.
  rewrite skip_ws_cons, skip_ws_newlines.
  destruct (c =? 35); [reflexivity|]. reflexivity.
Qed.

(* ---------- lengths: every helper returns a suffix that is no longer than its argument ---------- *)

Lemma skip_ws_len l : (length (skip_ws l) <= length l)%nat.
Proof.
  induction l as [|c r IH]; [cbn; lia|].
  rewrite skip_ws_cons'. destruct ((c =? 35) || (c =? 32) || (c =? 9) || (c =? 10) || (c =? 13)); cbn [length]; lia.
Qed.

Lemma skip_nnws_len_aux n : forall l, (length l <= n)%nat -> (length (skip_nnws l) <= length l)%nat.
Proof.
  induction n as [|n IH]; intros l Hn.
  - destruct l; [cbn; lia | cbn in Hn; lia].
  - destruct l as [|c r]; [cbn; lia|]. cbn [length] in Hn. cbn [skip_nnws].
    destruct ((c =? 32) || (c =? 9) || (c =? 13)).
    + pose proof (IH r ltac:(lia)). cbn [length]. lia.
    + destruct (c =? 92); [|lia]. destruct r as [|d r']; [lia|]. cbn [length] in Hn.
      destruct (d =? 10).
      * pose proof (IH r' ltac:(lia)). cbn [length]. lia.
      * destruct (d =? 13); [|lia]. destruct r' as [|e r'']; [lia|]. cbn [length] in Hn.
        destruct (e =? 10); [|lia]. pose proof (IH r'' ltac:(lia)). cbn [length]. lia.
Qed.

Lemma skip_nnws_len l : (length (skip_nnws l) <= length l)%nat.
Proof. apply (skip_nnws_len_aux (length l)). lia. Qed.

Lemma skip_eol_len l : (length (skip_eol l) <= length l)%nat.
Proof.
  induction l as [|c r IH]; [cbn; lia|]. cbn [skip_eol]. destruct (c =? 10); cbn [length]; lia.
Qed.

Lemma skip_eol_lt l : l <> [] -> (length (skip_eol l) < length l)%nat.
Proof.
  destruct l as [|c r]; [congruence|]. intros _. cbn [skip_eol].
  destruct (c =? 10); [cbn; lia|]. pose proof (skip_eol_len r). cbn [length]. lia.
Qed.

Lemma lex_word_len_aux n : forall l, (length l <= n)%nat -> (length (snd (lex_word l)) <= length l)%nat.
Proof.
  induction n as [|n IH]; intros l Hn.
  - destruct l; [cbn; lia | cbn in Hn; lia].
  - destruct l as [|c r]; [cbn; lia|]. cbn [length] in Hn. cbn [lex_word].
    destruct (c =? 92).
    + destruct r as [|d r']; [cbn; lia|]. cbn [length] in Hn.
      destruct (d =? 10); [cbn [snd]; lia|].
      pose proof (IH r' ltac:(lia)) as H.
      destruct ((d =? 32) || (d =? 35) || (d =? 92)); destruct (lex_word r') as [u rest]; cbn [snd length] in *; lia.
    + destruct (c =? 36).
      * destruct r as [|d r']; [cbn [snd]; lia|]. cbn [length] in Hn.
        destruct (d =? 36); [|cbn [snd]; lia].
        pose proof (IH r' ltac:(lia)) as H. destruct (lex_word r') as [u rest]; cbn [snd length] in *; lia.
      * destruct (is_word_char c); [|cbn [snd]; lia].
        pose proof (IH r ltac:(lia)) as H. destruct (lex_word r) as [u rest]; cbn [snd length] in *; lia.
Qed.

Lemma lex_word_len l : (length (snd (lex_word l)) <= length l)%nat.
Proof. apply (lex_word_len_aux (length l)). lia. Qed.

Lemma colon_loop_some fuel cur :
  (length cur < fuel)%nat ->
  exists u rest, colon_loop fuel cur = Some (u, rest) /\ (length rest <= length cur)%nat.
Proof.
  revert cur. induction fuel as [|f IH]; intros cur Hf; [lia|].
  cbn [colon_loop]. destruct cur as [|c r]; [exists [], []; split; [reflexivity | lia]|].
  destruct (c =? 58); [|exists [], (c :: r); split; [reflexivity | lia]].
  pose proof (lex_word_len r) as Hl. destruct (lex_word r) as [u rest]. cbn [snd] in Hl.
  cbn [length] in Hf. destruct (IH rest ltac:(lia)) as [u2 [rest2 [E Hr]]].
  rewrite E. exists (58 :: u ++ u2), rest2. split; [reflexivity | cbn [length]; lia].
Qed.

Lemma progressed_false a b : progressed a b = false -> length a = length b.
Proof. unfold progressed. intros H. apply negb_false_iff, Nat.eqb_eq in H. exact H. Qed.

Lemma progressed_true a b : progressed a b = true -> length a <> length b.
Proof. unfold progressed. intros H. apply negb_true_iff, Nat.eqb_neq in H. exact H. Qed.

(* ---------- termination within the fuel ---------- *)

Lemma deps_loop_ok fuel dlen cur :
  (length cur < fuel)%nat ->
  ~ In OutOfFuel (fst (deps_loop fuel dlen cur)) /\ (length (snd (deps_loop fuel dlen cur)) <= length cur)%nat.
Proof.
  revert cur. induction fuel as [|f IH]; intros cur Hf; [lia|].
  cbn [deps_loop].
  pose proof (skip_nnws_len cur) as H1. destruct (skip_nnws cur) as [|c t] eqn:E1.
  - cbn. split; [tauto | lia].
  - destruct (c =? 10); [cbn [fst snd]; split; [cbn; tauto | lia]|].
    pose proof (lex_word_len (c :: t)) as H2. destruct (lex_word (c :: t)) as [u c2]. cbn [snd] in H2.
    destruct (progressed (c :: t) c2) eqn:Ep; cbn [negb].
    + apply progressed_true in Ep.
      destruct (colon_loop_some (S (length c2)) c2 ltac:(lia)) as [u2 [c3 [E3 H3]]]. rewrite E3.
      destruct (IH c3 ltac:(lia)) as [Ha Hb].
      destruct (deps_loop f dlen c3) as [evs c4]. cbn [fst snd] in *.
      split; [intros [H|H]; [discriminate | tauto] | lia].
    + apply progressed_false in Ep.
      assert (Hne : c2 <> []) by (intros ->; cbn in Ep; lia).
      pose proof (skip_eol_lt c2 Hne) as H3.
      destruct (IH (skip_eol c2) ltac:(lia)) as [Ha Hb].
      destruct (deps_loop f dlen (skip_eol c2)) as [evs c3]. cbn [fst snd] in *.
      split; [intros [H|H]; [discriminate | tauto] | lia].
Qed.

Lemma rules_loop_ok fuel ign dlen cur :
  (length cur < fuel)%nat -> ~ In OutOfFuel (rules_loop fuel ign dlen cur).
Proof.
  revert cur. induction fuel as [|f IH]; intros cur Hf; [lia|].
  cbn [rules_loop].
  pose proof (skip_ws_len cur) as H1. destruct (skip_ws cur) as [|c t] eqn:E1; [cbn; tauto|].
  pose proof (lex_word_len (c :: t)) as H2. destruct (lex_word (c :: t)) as [u c2]. cbn [snd] in H2.
  destruct (progressed (c :: t) c2) eqn:Ep; cbn [negb].
  - apply progressed_true in Ep.
    pose proof (skip_nnws_len c2) as H3.
    intros [H|H]; [discriminate|]. revert H.
    destruct (head_is (skip_nnws c2) 58) eqn:Eh; cbn [negb].
    + destruct (skip_nnws c2) as [|x c3'] eqn:E3; [discriminate|]. cbn [tl].
      destruct (deps_loop_ok (S (length c3')) dlen c3' ltac:(lia)) as [Ha Hb].
      destruct (deps_loop (S (length c3')) dlen c3') as [evs c4]. cbn [fst snd] in *.
      intros H. apply in_app_or in H. destruct H as [H|[H|H]]; [tauto | discriminate |].
      destruct ign; [exact H|]. cbn [length] in H3. apply (IH c4); [lia | exact H].
    + intros [H|[H|H]]; [discriminate | discriminate |].
      pose proof (skip_eol_len (skip_nnws c2)) as H4. apply (IH (skip_eol (skip_nnws c2))); [lia | exact H].
  - apply progressed_false in Ep.
    assert (Hne : c2 <> []) by (intros ->; cbn in Ep; lia).
    pose proof (skip_eol_lt c2 Hne) as H3.
    intros [H|H]; [discriminate|]. apply (IH (skip_eol c2)); [lia | exact H].
Qed.

(* C19 (termination): for EVERY byte string, both loops finish within the fuel md_parse supplies. *)
Theorem md_parse_total : forall b data, ~ In OutOfFuel (md_parse b data).
Proof. intros b data. unfold md_parse. apply rules_loop_ok. lia. Qed.

(* ---------- reported positions lie inside the buffer ---------- *)

Lemma pos_of_le dlen cur : pos_of dlen cur <= N.of_nat dlen.
Proof. unfold pos_of. lia. Qed.

Lemma deps_loop_pos fuel dlen cur c p :
  In (Err c p) (fst (deps_loop fuel dlen cur)) -> p <= N.of_nat dlen.
Proof.
  revert cur. induction fuel as [|f IH]; intros cur; cbn [deps_loop].
  - cbn. intros [H|H]; [discriminate | tauto].
  - destruct (skip_nnws cur) as [|x t]; [cbn; tauto|].
    destruct (x =? 10); [cbn; tauto|].
    destruct (lex_word (x :: t)) as [u c2].
    destruct (progressed (x :: t) c2); cbn [negb].
    + destruct (colon_loop (S (length c2)) c2) as [[u2 c3]|]; [|cbn; intros [H|H]; [discriminate | tauto]].
      specialize (IH c3). destruct (deps_loop f dlen c3) as [evs c4]. cbn [fst] in *.
      intros [H|H]; [discriminate | exact (IH H)].
    + specialize (IH (skip_eol c2)). destruct (deps_loop f dlen (skip_eol c2)) as [evs c3]. cbn [fst] in *.
      intros [H|H]; [|exact (IH H)]. inversion H. apply pos_of_le.
Qed.

Lemma rules_loop_pos fuel ign dlen cur c p :
  In (Err c p) (rules_loop fuel ign dlen cur) -> p <= N.of_nat dlen.
Proof.
  revert cur. induction fuel as [|f IH]; intros cur; cbn [rules_loop].
  - cbn. intros [H|H]; [discriminate | tauto].
  - destruct (skip_ws cur) as [|x t]; [cbn; tauto|].
    destruct (lex_word (x :: t)) as [u c2].
    destruct (progressed (x :: t) c2); cbn [negb].
    + intros [H|H]; [discriminate|]. revert H.
      destruct (head_is (skip_nnws c2) 58); cbn [negb].
      * pose proof (deps_loop_pos (S (length (tl (skip_nnws c2)))) dlen (tl (skip_nnws c2)) c p) as Hd.
        destruct (deps_loop (S (length (tl (skip_nnws c2)))) dlen (tl (skip_nnws c2))) as [evs c4]. cbn [fst] in Hd.
        intros H. apply in_app_or in H. destruct H as [H|[H|H]]; [exact (Hd H) | discriminate |].
        destruct ign; [destruct H | exact (IH _ H)].
      * intros [H|[H|H]]; [inversion H; apply pos_of_le | discriminate | exact (IH _ H)].
    + intros [H|H]; [inversion H; apply pos_of_le | exact (IH _ H)].
Qed.

(* C19: every reported error position is an offset into (or just past) the supplied buffer. *)
Theorem md_positions_in_bounds : forall b data c p,
  In (Err c p) (md_parse b data) -> p <= N.of_nat (length data).
Proof. intros b data c p. unfold md_parse. apply rules_loop_pos. Qed.

(* ---------- the writer's output is read back byte for byte ---------- *)

Ltac neqb :=
  repeat match goal with
         | H : ?c <> ?k |- context [?c =? ?k] => rewrite (proj2 (N.eqb_neq c k) H)
         end.

Lemma path_byte_ok_spec c : path_byte_ok c = true <-> c <> 0 /\ c <> 9 /\ c <> 10 /\ c <> 13.
Proof.
  unfold path_byte_ok. rewrite negb_true_iff, !orb_false_iff, !N.eqb_neq. tauto.
Qed.

(* one escaped byte is lexed back to itself, whatever follows *)
Lemma lex_word_esc_byte c rest :
  path_byte_ok c = true -> c <> 58 ->
  lex_word (esc_byte c ++ rest) = (c :: fst (lex_word rest), snd (lex_word rest)).
Proof.
  intros Hok H58. apply path_byte_ok_spec in Hok. destruct Hok as [H0 [H9 [H10 H13]]].
  unfold esc_byte.
  destruct (N.eqb_spec c 32) as [->|H32];
    [cbn [orb app lex_word]; change (92 =? 92) with true; cbv iota;
     change (32 =? 10) with false; change (32 =? 32) with true; cbn [orb]; destruct (lex_word rest); reflexivity|].
  destruct (N.eqb_spec c 35) as [->|H35];
    [cbn [orb app lex_word]; change (92 =? 92) with true; cbv iota;
     change (35 =? 10) with false; change (35 =? 32) with false; change (35 =? 35) with true; cbn [orb];
     destruct (lex_word rest); reflexivity|].
  destruct (N.eqb_spec c 92) as [->|H92];
    [cbn [orb app lex_word]; change (92 =? 92) with true; cbv iota;
     change (92 =? 10) with false; change (92 =? 32) with false; change (92 =? 35) with false; cbn [orb];
     destruct (lex_word rest); reflexivity|].
  cbn [orb].
  destruct (N.eqb_spec c 36) as [->|H36];
    [cbn [app lex_word]; change (36 =? 92) with false; change (36 =? 36) with true; cbv iota;
     destruct (lex_word rest); reflexivity|].
  cbn [app lex_word]. unfold is_word_char. neqb. cbn [orb negb].
  destruct (lex_word rest); reflexivity.
Qed.

Definition target_byte_ok (c : byte) : bool := path_byte_ok c && negb (c =? 58).

Lemma md_escape_cons c p : md_escape (c :: p) = esc_byte c ++ md_escape p.
Proof. reflexivity. Qed.

Lemma lex_word_escape p rest :
  forallb target_byte_ok p = true ->
  lex_word (md_escape p ++ rest) = (p ++ fst (lex_word rest), snd (lex_word rest)).
Proof.
  induction p as [|c p IH]; intros Hp.
  - cbn. destruct (lex_word rest); reflexivity.
  - cbn [forallb] in Hp. apply andb_true_iff in Hp. destruct Hp as [Hc Hp].
    unfold target_byte_ok in Hc. apply andb_true_iff in Hc. destruct Hc as [Hok H58].
    apply negb_true_iff, N.eqb_neq in H58.
    rewrite md_escape_cons, <- app_assoc, lex_word_esc_byte by assumption.
    rewrite (IH Hp). reflexivity.
Qed.

(* the first byte of an escaped path is never one that the skipping functions consume *)
Lemma esc_head c rest :
  path_byte_ok c = true ->
  exists x y, esc_byte c ++ rest = x :: y /\ x <> 32 /\ x <> 9 /\ x <> 10 /\ x <> 13 /\ x <> 35 /\
              (x = 92 -> exists d z, y = d :: z /\ d <> 10 /\ d <> 13).
Proof.
  intros Hok. apply path_byte_ok_spec in Hok. destruct Hok as [H0 [H9 [H10 H13]]].
  unfold esc_byte.
  destruct (N.eqb_spec c 32) as [->|H32];
    [exists 92, (32 :: rest); repeat split; try discriminate; intros _; exists 32, rest; repeat split; discriminate|].
  destruct (N.eqb_spec c 35) as [->|H35];
    [exists 92, (35 :: rest); repeat split; try discriminate; intros _; exists 35, rest; repeat split; discriminate|].
  destruct (N.eqb_spec c 92) as [->|H92];
    [exists 92, (92 :: rest); repeat split; try discriminate; intros _; exists 92, rest; repeat split; discriminate|].
  cbn [orb].
  destruct (N.eqb_spec c 36) as [->|H36];
    [exists 36, (36 :: rest); repeat split; discriminate|].
  exists c, rest. repeat split; try assumption. intros ->. congruence.
Qed.

Lemma skip_nnws_stop x y :
  x <> 32 -> x <> 9 -> x <> 13 -> (x = 92 -> exists d z, y = d :: z /\ d <> 10 /\ d <> 13) ->
  skip_nnws (x :: y) = x :: y.
Proof.
  intros H32 H9 H13 H92. cbn [skip_nnws]. neqb. cbn [orb].
  destruct (N.eqb_spec x 92) as [E|_]; [|reflexivity].
  destruct (H92 E) as [d [z [-> [Hd10 Hd13]]]]. neqb. reflexivity.
Qed.

Lemma skip_ws_stop x y :
  x <> 35 -> x <> 32 -> x <> 9 -> x <> 10 -> x <> 13 -> skip_ws (x :: y) = x :: y.
Proof. intros. rewrite skip_ws_cons'. neqb. reflexivity. Qed.

Lemma skip_nnws_sep sep X : skip_nnws (sep_bytes sep ++ X) = skip_nnws X.
Proof. destruct sep; reflexivity. Qed.

Lemma wf_path_spec p :
  wf_path p = true <-> exists c p', p = c :: p' /\ c <> 58 /\ forallb path_byte_ok p = true.
Proof.
  unfold wf_path. destruct p as [|c p'].
  - split; [discriminate | intros [c [p' [H _]]]; discriminate].
  - rewrite andb_true_iff, negb_true_iff, N.eqb_neq. split.
    + intros [H1 H2]. exists c, p'. auto.
    + intros [c' [p'' [E [H1 H2]]]]. inversion E. subst. auto.
Qed.

Lemma wf_target_spec t :
  wf_target t = true <-> t <> [] /\ forallb target_byte_ok t = true.
Proof.
  unfold wf_target. destruct t as [|c t'].
  - split; [discriminate | intros [H _]; congruence].
  - split; [intros H; split; [discriminate | exact H] | intros [_ H]; exact H].
Qed.

(* where a dependency word may end: end of input, a blank, or a newline *)
Definition dep_tail (t : bytes) : bool :=
  match t with [] => true | c :: _ => (c =? 32) || (c =? 10) || (c =? 13) end.

Lemma dep_tail_lex t : dep_tail t = true -> lex_word t = ([], t).
Proof.
  destruct t as [|c r]; [reflexivity|]. cbn [dep_tail]. intros H. rewrite !orb_true_iff in H.
  destruct H as [[H|H]|H]; apply N.eqb_eq in H; subst c; reflexivity.
Qed.

Lemma dep_tail_colon t F : dep_tail t = true -> colon_loop (S F) t = Some ([], t).
Proof.
  destruct t as [|c r]; [reflexivity|]. cbn [dep_tail]. intros H. rewrite !orb_true_iff in H.
  destruct H as [[H|H]|H]; apply N.eqb_eq in H; subst c; reflexivity.
Qed.

(* lexWord followed by the "push ':' and continue lexing" loop recovers a whole path, interior and
   trailing colons included *)
Lemma lex_dep_spec p t :
  forallb path_byte_ok p = true -> dep_tail t = true ->
  exists u c2 u2,
    lex_word (md_escape p ++ t) = (u, c2) /\
    (forall F, (length c2 < F)%nat -> colon_loop F c2 = Some (u2, t)) /\
    u ++ u2 = p /\
    (forall c p', p = c :: p' -> c <> 58 -> (length c2 < length (md_escape p ++ t))%nat).
Proof.
  intros Hp Ht. induction p as [|c p IH].
  - exists [], t, []. cbn [md_escape flat_map app]. split; [apply dep_tail_lex; exact Ht|].
    split; [|split; [reflexivity | intros c p' H; discriminate]].
    intros F HF. destruct F as [|F]; [lia|]. apply dep_tail_colon. exact Ht.
  - cbn [forallb] in Hp. apply andb_true_iff in Hp. destruct Hp as [Hc Hp].
    destruct (IH Hp) as [u [c2 [u2 [E [Hcl [Hu Hlen]]]]]]. clear IH.
    rewrite md_escape_cons, <- app_assoc.
    pose proof (lex_word_len (md_escape p ++ t)) as Hl. rewrite E in Hl. cbn [snd] in Hl.
    destruct (N.eqb_spec c 58) as [->|H58].
    + (* a colon: lexWord stops here with no progress, the loop pushes it and lexes on *)
      change (esc_byte 58) with [58]. cbn [app].
      exists [], (58 :: md_escape p ++ t), (58 :: u ++ u2).
      split; [reflexivity|]. split; [|split].
      * intros F HF. destruct F as [|F]; [lia|]. cbn [length] in HF.
        cbn [colon_loop]. change (58 =? 58) with true. cbv iota. rewrite E.
        rewrite (Hcl F ltac:(lia)). reflexivity.
      * cbn [app]. rewrite Hu. reflexivity.
      * intros c p' Hcp Hne. inversion Hcp. congruence.
    + rewrite lex_word_esc_byte, E by assumption. cbn [fst snd].
      exists (c :: u), c2, u2. split; [reflexivity|]. split; [exact Hcl|]. split; [cbn [app]; rewrite Hu; reflexivity|].
      intros c' p' _ _. rewrite app_length.
      assert (1 <= length (esc_byte c))%nat.
      { unfold esc_byte. destruct ((c =? 32) || (c =? 35) || (c =? 92)); [cbn; lia|]. destruct (c =? 36); cbn; lia. }
      lia.
Qed.

Lemma raw_of_app a t : raw_of (a ++ t) t = a.
Proof.
  unfold raw_of. rewrite app_length.
  replace (length a + length t - length t)%nat with (length a + 0)%nat by lia.
  rewrite firstn_app_2. cbn. apply app_nil_r.
Qed.

Lemma progressed_lt a b : (length b < length a)%nat -> progressed a b = true.
Proof. unfold progressed. intros H. apply negb_true_iff, Nat.eqb_neq. lia. Qed.

Definition dep_events (ps : list bytes) : list md_event := map (fun p => Dep (md_escape p) p) ps.
Definition deps_text (sep : sepchoice) (ps : list bytes) : bytes :=
  flat_map (fun p => sep_bytes sep ++ md_escape p) ps.

Lemma deps_text_tail sep ps (rest : bytes) : dep_tail (deps_text sep ps ++ 10 :: rest) = true.
Proof. destruct ps as [|p ps]; [reflexivity|]. destruct sep; reflexivity. Qed.

(* the prerequisites loop on "sep path sep path ... Z" where Z is any continuation at which a word may end *)
Lemma deps_loop_write_gen sep ps : forall F dlen (Z : bytes),
  forallb wf_path ps = true -> dep_tail Z = true ->
  deps_loop (length ps + F) dlen (deps_text sep ps ++ Z) =
  (dep_events ps ++ fst (deps_loop F dlen Z), snd (deps_loop F dlen Z)).
Proof.
  induction ps as [|p ps IH]; intros F dlen Z Hps HZ.
  - cbn [length plus deps_text flat_map app dep_events map]. destruct (deps_loop F dlen Z); reflexivity.
  - cbn [length plus].
    cbn [forallb] in Hps. apply andb_true_iff in Hps. destruct Hps as [Hp Hps].
    apply wf_path_spec in Hp. destruct Hp as [c [p' [Ep [H58 Hok]]]].
    unfold deps_text. cbn [flat_map]. fold (deps_text sep ps).
    set (T := deps_text sep ps ++ Z).
    assert (HT : dep_tail T = true).
    { unfold T. destruct ps as [|q ps']; [exact HZ|]. destruct sep; reflexivity. }
    replace (((sep_bytes sep ++ md_escape p) ++ deps_text sep ps) ++ Z)
      with (sep_bytes sep ++ md_escape p ++ T) by (unfold T; rewrite <- !app_assoc; reflexivity).
    cbn [deps_loop]. rewrite skip_nnws_sep.
    assert (Hc : path_byte_ok c = true).
    { rewrite Ep in Hok. cbn [forallb] in Hok. apply andb_true_iff in Hok. tauto. }
    destruct (esc_head c (md_escape p' ++ T) Hc) as [x [y [Ex [Hx32 [Hx9 [Hx10 [Hx13 [Hx35 Hx92]]]]]]]].
    assert (Ext : md_escape p ++ T = x :: y).
    { rewrite Ep, md_escape_cons, <- app_assoc. exact Ex. }
    replace (skip_nnws (md_escape p ++ T)) with (md_escape p ++ T)
      by (rewrite Ext; symmetry; apply skip_nnws_stop; assumption).
    rewrite Ext at 1. neqb.
    destruct (lex_dep_spec p T Hok HT) as [u [c2 [u2 [E [Hcl [Hu Hlen]]]]]].
    rewrite E. rewrite (progressed_lt _ _ (Hlen c p' Ep H58)). cbn [negb].
    rewrite (Hcl (S (length c2)) ltac:(lia)).
    unfold T at 1. rewrite (IH F dlen Z Hps HZ).
    fold T. rewrite raw_of_app, Hu. reflexivity.
Qed.

Lemma deps_loop_write sep ps : forall F dlen (rest : bytes),
  forallb wf_path ps = true -> (length ps < F)%nat ->
  deps_loop F dlen (deps_text sep ps ++ 10 :: rest) = (dep_events ps, 10 :: rest).
Proof.
  intros F dlen rest Hps HF.
  replace F with (length ps + S (F - length ps - 1))%nat by lia.
  rewrite (deps_loop_write_gen sep ps _ dlen (10 :: rest) Hps eq_refl).
  cbn [deps_loop fst snd]. rewrite app_nil_r. reflexivity.
Qed.

Lemma md_write_split t ps sep (rest : bytes) :
  md_write t ps sep ++ rest = md_escape t ++ 58 :: deps_text sep ps ++ 10 :: rest.
Proof. unfold md_write, deps_text. rewrite <- !app_assoc. reflexivity. Qed.

Lemma rules_loop_nl F ign dlen (rest : bytes) : rules_loop F ign dlen (10 :: rest) = rules_loop F ign dlen rest.
Proof.
  destruct F as [|F]; [reflexivity|]. cbn [rules_loop]. rewrite skip_ws_cons'. reflexivity.
Qed.

(* one written rule followed by anything: the rule's events, then the parse of what follows *)
Lemma rules_loop_write F ign dlen t ps sep (rest : bytes) :
  wf_target t = true -> forallb wf_path ps = true ->
  rules_loop (S F) ign dlen (md_write t ps sep ++ rest) =
  RuleStart (md_escape t) t :: dep_events ps ++ RuleEnd :: (if ign then [] else rules_loop F ign dlen rest).
Proof.
  intros Ht Hps. apply wf_target_spec in Ht. destruct Ht as [Hne Hok].
  rewrite md_write_split. set (T := 58 :: deps_text sep ps ++ 10 :: rest).
  cbn [rules_loop].
  destruct t as [|c t']; [congruence|].
  assert (Hc : path_byte_ok c = true).
  { cbn [forallb] in Hok. apply andb_true_iff in Hok. destruct Hok as [Hok _].
    unfold target_byte_ok in Hok. apply andb_true_iff in Hok. tauto. }
  destruct (esc_head c (md_escape t' ++ T) Hc) as [x [y [Ex [Hx32 [Hx9 [Hx10 [Hx13 [Hx35 Hx92]]]]]]]].
  assert (Ext : md_escape (c :: t') ++ T = x :: y).
  { rewrite md_escape_cons, <- app_assoc. exact Ex. }
  replace (skip_ws (md_escape (c :: t') ++ T)) with (md_escape (c :: t') ++ T)
    by (rewrite Ext; symmetry; apply skip_ws_stop; assumption).
  rewrite Ext at 1.
  rewrite (lex_word_escape (c :: t') T Hok).
  assert (ET : lex_word T = ([], T)) by reflexivity. rewrite ET. cbn [fst snd]. rewrite app_nil_r.
  rewrite progressed_lt.
  2:{ rewrite app_length, md_escape_cons, app_length.
      assert (1 <= length (esc_byte c))%nat.
      { unfold esc_byte. destruct ((c =? 32) || (c =? 35) || (c =? 92)); [cbn; lia|]. destruct (c =? 36); cbn; lia. }
      lia. }
  cbn [negb]. rewrite raw_of_app.
  assert (EN : skip_nnws T = T) by reflexivity. rewrite EN.
  unfold T at 1. cbn [head_is]. change (58 =? 58) with true. cbn [negb].
  unfold T. cbn [tl].
  rewrite (deps_loop_write sep ps _ dlen rest Hps).
  2:{ rewrite app_length. cbn [length].
      assert (length ps <= length (deps_text sep ps))%nat.
      { clear. induction ps as [|p ps IH]; [cbn; lia|]. unfold deps_text in *. cbn [flat_map length].
        assert (1 <= length (sep_bytes sep))%nat by (destruct sep; cbn; lia).
        rewrite !app_length. lia. }
      lia. }
  rewrite rules_loop_nl. reflexivity.
Qed.

(* ---------- md_roundtrip ---------- *)

Lemma md_deps_app a b : md_deps (a ++ b) = md_deps a ++ md_deps b.
Proof. unfold md_deps. apply flat_map_app. Qed.

Lemma md_deps_dep_events ps : md_deps (dep_events ps) = ps.
Proof.
  induction ps as [|p ps IH]; [reflexivity|].
  unfold md_deps, dep_events in *. cbn [map flat_map app]. rewrite IH. reflexivity.
Qed.

Lemma md_write_len t ps sep : (1 <= length (md_write t ps sep))%nat.
Proof. unfold md_write. rewrite !app_length. cbn [length]. lia. Qed.

(* the exact callback sequence for a written one-rule file *)
Lemma md_parse_write ign t ps sep :
  wf_target t = true -> forallb wf_path ps = true ->
  md_parse ign (md_write t ps sep) = RuleStart (md_escape t) t :: dep_events ps ++ [RuleEnd].
Proof.
  intros Ht Hps. unfold md_parse.
  pose proof (md_write_len t ps sep) as Hl.
  pose proof (rules_loop_write (length (md_write t ps sep)) ign (length (md_write t ps sep)) t ps sep [] Ht Hps) as H.
  rewrite app_nil_r in H. rewrite H.
  destruct ign; [reflexivity|].
  destruct (length (md_write t ps sep)) as [|n]; [lia | reflexivity].
Qed.

Theorem md_roundtrip : forall target paths sep,
  wf_target target = true -> forallb wf_path paths = true ->
  md_deps (md_parse false (md_write target paths sep)) = paths.
Proof.
  intros t ps sep Ht Hps. rewrite (md_parse_write false t ps sep Ht Hps).
  change (RuleStart (md_escape t) t :: dep_events ps ++ [RuleEnd]) with ([RuleStart (md_escape t) t] ++ dep_events ps ++ [RuleEnd]).
  rewrite !md_deps_app, md_deps_dep_events. cbn. apply app_nil_r.
Qed.

(* no error is reported for a written file *)
Lemma md_has_error_dep_events ps tl : md_has_error (dep_events ps ++ tl) = md_has_error tl.
Proof. induction ps as [|p ps IH]; [reflexivity | exact IH]. Qed.

Theorem md_write_no_error : forall ign target paths sep,
  wf_target target = true -> forallb wf_path paths = true ->
  md_has_error (md_parse ign (md_write target paths sep)) = false.
Proof.
  intros ign t ps sep Ht Hps. rewrite (md_parse_write ign t ps sep Ht Hps).
  unfold md_has_error at 1. cbn [existsb orb]. fold (md_has_error (dep_events ps ++ [RuleEnd])).
  rewrite md_has_error_dep_events. reflexivity.
Qed.

(* interior and trailing colons *)
Lemma forallb_app_true {A} (f : A -> bool) a b : forallb f (a ++ b) = true <-> forallb f a = true /\ forallb f b = true.
Proof. rewrite forallb_app, andb_true_iff. tauto. Qed.

Theorem md_colon_paths : forall target p q sep,
  wf_target target = true -> wf_path p = true -> forallb path_byte_ok q = true ->
  md_deps (md_parse false (md_write target [p ++ 58 :: q] sep)) = [p ++ 58 :: q].
Proof.
  intros t p q sep Ht Hp Hq. apply md_roundtrip; [exact Ht|].
  cbn [forallb]. rewrite andb_true_r.
  apply wf_path_spec in Hp. destruct Hp as [c [p' [Ep [H58 Hok]]]].
  apply wf_path_spec. exists c, (p' ++ 58 :: q). split; [rewrite Ep; reflexivity|]. split; [exact H58|].
  apply forallb_app_true. split; [exact Hok|]. cbn [forallb]. rewrite Hq. reflexivity.
Qed.

(* ---------- several rules ---------- *)

Definition rule_target (r : bytes * list bytes * sepchoice) : bytes := fst (fst r).
Definition rule_paths (r : bytes * list bytes * sepchoice) : list bytes := snd (fst r).
Definition rule_events (r : bytes * list bytes * sepchoice) : list md_event :=
  RuleStart (md_escape (rule_target r)) (rule_target r) :: dep_events (rule_paths r) ++ [RuleEnd].
Definition wf_rule (r : bytes * list bytes * sepchoice) : bool :=
  wf_target (rule_target r) && forallb wf_path (rule_paths r).

Lemma md_write_rules_cons r rs :
  md_write_rules (r :: rs) = md_write (rule_target r) (rule_paths r) (snd r) ++ md_write_rules rs.
Proof. reflexivity. Qed.

Lemma rules_loop_write_rules rules : forall F dlen (rest : bytes),
  forallb wf_rule rules = true ->
  rules_loop (length rules + F) false dlen (md_write_rules rules ++ rest) =
  flat_map rule_events rules ++ rules_loop F false dlen rest.
Proof.
  induction rules as [|r rs IH]; intros F dlen rest Hr; [reflexivity|].
  cbn [forallb] in Hr. apply andb_true_iff in Hr. destruct Hr as [Hr Hrs].
  unfold wf_rule in Hr. apply andb_true_iff in Hr. destruct Hr as [Ht Hps].
  rewrite md_write_rules_cons, <- app_assoc. cbn [length plus].
  rewrite (rules_loop_write _ false dlen _ _ (snd r) _ Ht Hps).
  rewrite (IH F dlen rest Hrs). cbn [flat_map]. unfold rule_events at 2.
  cbn [app]. rewrite <- !app_assoc. reflexivity.
Qed.

Lemma md_write_rules_len rules : (length rules <= length (md_write_rules rules))%nat.
Proof.
  induction rules as [|r rs IH]; [cbn; lia|].
  rewrite md_write_rules_cons, app_length. pose proof (md_write_len (rule_target r) (rule_paths r) (snd r)).
  cbn [length]. lia.
Qed.

Lemma md_parse_write_rules rules :
  forallb wf_rule rules = true ->
  md_parse false (md_write_rules rules) = flat_map rule_events rules.
Proof.
  intros Hr. unfold md_parse. pose proof (md_write_rules_len rules) as Hl.
  set (d := md_write_rules rules) in *.
  replace (S (length d)) with (length rules + S (length d - length rules))%nat by lia.
  pose proof (rules_loop_write_rules rules (S (length d - length rules)) (length d) [] Hr) as H.
  rewrite app_nil_r in H. fold d in H. rewrite H. cbn [rules_loop skip_ws]. apply app_nil_r.
Qed.

Lemma md_parse_write_rules_first r rs :
  wf_rule r = true ->
  md_parse true (md_write_rules (r :: rs)) = rule_events r.
Proof.
  intros Hr. unfold wf_rule in Hr. apply andb_true_iff in Hr. destruct Hr as [Ht Hps].
  unfold md_parse. rewrite md_write_rules_cons.
  rewrite (rules_loop_write _ true _ _ _ (snd r) _ Ht Hps). reflexivity.
Qed.

Lemma md_deps_rule_events r : md_deps (rule_events r) = rule_paths r.
Proof.
  unfold rule_events.
  change (RuleStart (md_escape (rule_target r)) (rule_target r) :: dep_events (rule_paths r) ++ [RuleEnd])
    with ([RuleStart (md_escape (rule_target r)) (rule_target r)] ++ dep_events (rule_paths r) ++ [RuleEnd]).
  rewrite !md_deps_app, md_deps_dep_events. cbn. apply app_nil_r.
Qed.

Theorem md_multi_rule : forall rules,
  forallb wf_rule rules = true ->
  md_deps (md_parse false (md_write_rules rules)) = flat_map rule_paths rules /\
  md_deps (md_parse true (md_write_rules rules)) = match rules with [] => [] | r :: _ => rule_paths r end.
Proof.
  intros rules Hr. split.
  - rewrite (md_parse_write_rules rules Hr). clear Hr.
    induction rules as [|r rs IH]; [reflexivity|].
    cbn [flat_map]. rewrite md_deps_app, md_deps_rule_events, IH. reflexivity.
  - destruct rules as [|r rs]; [reflexivity|].
    cbn [forallb] in Hr. apply andb_true_iff in Hr. destruct Hr as [Hr _].
    rewrite (md_parse_write_rules_first r rs Hr). apply md_deps_rule_events.
Qed.

(* ---------- when errors are reported ---------- *)

Lemma md_has_error_in evs c p : In (Err c p) evs -> md_has_error evs = true.
Proof.
  intros H. unfold md_has_error. apply existsb_exists. exists (Err c p). split; [exact H | reflexivity].
Qed.

Lemma md_has_error_ex evs : md_has_error evs = true -> exists c p, In (Err c p) evs.
Proof.
  unfold md_has_error. intros H. apply existsb_exists in H. destruct H as [e [Hin He]].
  destruct e as [r u|r u| |c p|]; try discriminate. exists c, p. exact Hin.
Qed.

(* A first rule without ':' : the first word of the file is not followed (after blanks and line
   continuations) by a colon.  Then error 2 is reported at the position where the colon was expected. *)
Theorem md_error_reported : forall ign data u c2,
  lex_word (skip_ws data) = (u, c2) ->
  progressed (skip_ws data) c2 = true ->
  head_is (skip_nnws c2) 58 = false ->
  In (Err 2 (pos_of (length data) (skip_nnws c2))) (md_parse ign data).
Proof.
  intros ign data u c2 El Hp Hh. unfold md_parse. cbn [rules_loop].
  destruct (skip_ws data) as [|x t] eqn:E1.
  - cbn in El. inversion El. subst. discriminate Hp.
  - rewrite El, Hp. cbn [negb]. rewrite Hh. cbn [negb]. right. left. reflexivity.
Qed.

(* nothing that the helpers return contains a byte that the argument did not contain *)
Lemma skip_ws_in x l : In x (skip_ws l) -> In x l.
Proof.
  induction l as [|c r IH]; [tauto|]. rewrite skip_ws_cons'.
  destruct ((c =? 35) || (c =? 32) || (c =? 9) || (c =? 10) || (c =? 13)); [|tauto].
  intros H. right. exact (IH H).
Qed.

Lemma skip_nnws_in_aux x n : forall l, (length l <= n)%nat -> In x (skip_nnws l) -> In x l.
Proof.
  induction n as [|n IH]; intros l Hn.
  - destruct l; [tauto | cbn in Hn; lia].
  - destruct l as [|c r]; [tauto|]. cbn [length] in Hn. cbn [skip_nnws].
    destruct ((c =? 32) || (c =? 9) || (c =? 13)).
    + intros H. right. apply (IH r); [lia | exact H].
    + destruct (c =? 92); [|tauto]. destruct r as [|d r']; [tauto|]. cbn [length] in Hn.
      destruct (d =? 10).
      * intros H. right. right. apply (IH r'); [lia | exact H].
      * destruct (d =? 13); [|tauto]. destruct r' as [|e r'']; [tauto|]. cbn [length] in Hn.
        destruct (e =? 10); [|tauto]. intros H. right. right. right. apply (IH r''); [lia | exact H].
Qed.

Lemma skip_nnws_in x l : In x (skip_nnws l) -> In x l.
Proof. apply (skip_nnws_in_aux x (length l)). lia. Qed.

Lemma lex_word_in_aux x n : forall l, (length l <= n)%nat -> In x (snd (lex_word l)) -> In x l.
Proof.
  induction n as [|n IH]; intros l Hn.
  - destruct l; [cbn; tauto | cbn in Hn; lia].
  - destruct l as [|c r]; [cbn; tauto|]. cbn [length] in Hn. cbn [lex_word].
    destruct (c =? 92).
    + destruct r as [|d r']; [cbn; tauto|]. cbn [length] in Hn.
      destruct (d =? 10); [cbn [snd]; tauto|].
      pose proof (IH r' ltac:(lia)) as H.
      destruct ((d =? 32) || (d =? 35) || (d =? 92)); destruct (lex_word r') as [u rest]; cbn [snd] in *;
        intros Hx; right; right; exact (H Hx).
    + destruct (c =? 36).
      * destruct r as [|d r']; [cbn [snd]; tauto|]. cbn [length] in Hn.
        destruct (d =? 36); [|cbn [snd]; tauto].
        pose proof (IH r' ltac:(lia)) as H. destruct (lex_word r') as [u rest]; cbn [snd] in *.
        intros Hx; right; right; exact (H Hx).
      * destruct (is_word_char c); [|cbn [snd]; tauto].
        pose proof (IH r ltac:(lia)) as H. destruct (lex_word r) as [u rest]; cbn [snd] in *.
        intros Hx; right; exact (H Hx).
Qed.

Lemma lex_word_in x l : In x (snd (lex_word l)) -> In x l.
Proof. apply (lex_word_in_aux x (length l)). lia. Qed.

Lemma head_is_in l c : head_is l c = true -> In c l.
Proof. destruct l as [|x r]; [discriminate|]. cbn [head_is]. intros H. apply N.eqb_eq in H. left. exact H. Qed.

(* a file without any ':' that is not blank: some error is reported, whatever else the file contains *)
Theorem md_no_colon_error : forall ign data,
  ~ In 58 data -> skip_ws data <> [] -> md_has_error (md_parse ign data) = true.
Proof.
  intros ign data Hno Hne.
  destruct (lex_word (skip_ws data)) as [u c2] eqn:El.
  destruct (progressed (skip_ws data) c2) eqn:Hp.
  - apply (md_has_error_in _ 2 (pos_of (length data) (skip_nnws c2))).
    apply (md_error_reported ign data u c2 El Hp).
    destruct (head_is (skip_nnws c2) 58) eqn:Hh; [|reflexivity].
    exfalso. apply Hno. apply skip_ws_in, lex_word_in. rewrite El. cbn [snd].
    apply skip_nnws_in, head_is_in. exact Hh.
  - apply (md_has_error_in _ 1 (pos_of (length data) c2)).
    unfold md_parse. cbn [rules_loop]. destruct (skip_ws data) as [|x t]; [congruence|].
    rewrite El, Hp. cbn [negb]. left. reflexivity.
Qed.

(* the rule head "target:" followed by anything: the events of the prerequisites loop on what follows *)
Lemma rules_loop_target F ign dlen t (Z : bytes) :
  wf_target t = true ->
  rules_loop (S F) ign dlen (md_escape t ++ 58 :: Z) =
  RuleStart (md_escape t) t ::
    fst (deps_loop (S (length Z)) dlen Z) ++
    RuleEnd :: (if ign then [] else rules_loop F ign dlen (snd (deps_loop (S (length Z)) dlen Z))).
Proof.
  intros Ht. apply wf_target_spec in Ht. destruct Ht as [Hne Hok].
  set (T := 58 :: Z).
  cbn [rules_loop].
  destruct t as [|c t']; [congruence|].
  assert (Hc : path_byte_ok c = true).
  { cbn [forallb] in Hok. apply andb_true_iff in Hok. destruct Hok as [Hok _].
    unfold target_byte_ok in Hok. apply andb_true_iff in Hok. tauto. }
  destruct (esc_head c (md_escape t' ++ T) Hc) as [x [y [Ex [Hx32 [Hx9 [Hx10 [Hx13 [Hx35 Hx92]]]]]]]].
  assert (Ext : md_escape (c :: t') ++ T = x :: y).
  { rewrite md_escape_cons, <- app_assoc. exact Ex. }
  replace (skip_ws (md_escape (c :: t') ++ T)) with (md_escape (c :: t') ++ T)
    by (rewrite Ext; symmetry; apply skip_ws_stop; assumption).
  rewrite Ext at 1.
  rewrite (lex_word_escape (c :: t') T Hok).
  assert (ET : lex_word T = ([], T)) by reflexivity. rewrite ET. cbn [fst snd]. rewrite app_nil_r.
  rewrite progressed_lt.
  2:{ rewrite app_length, md_escape_cons, app_length.
      assert (1 <= length (esc_byte c))%nat.
      { unfold esc_byte. destruct ((c =? 32) || (c =? 35) || (c =? 92)); [cbn; lia|]. destruct (c =? 36); cbn; lia. }
      lia. }
  cbn [negb]. rewrite raw_of_app.
  assert (EN : skip_nnws T = T) by reflexivity. rewrite EN.
  unfold T at 1. cbn [head_is]. change (58 =? 58) with true. cbn [negb].
  unfold T. cbn [tl].
  destruct (deps_loop (S (length Z)) dlen Z) as [evs c4]. reflexivity.
Qed.

(* bytes at which no dependency word can start: NUL, ':' and a '$' that is not doubled *)
Definition bad_word_start (x : byte) (rest : bytes) : Prop :=
  x = 0 \/ x = 58 \/ (x = 36 /\ head_is rest 36 = false).

Lemma bad_word_start_lex x rest :
  bad_word_start x rest ->
  skip_nnws (x :: rest) = x :: rest /\ (x =? 10) = false /\ lex_word (x :: rest) = ([], x :: rest).
Proof.
  intros [->|[->|[-> Hh]]]; [repeat split; reflexivity | repeat split; reflexivity |].
  split; [reflexivity|]. split; [reflexivity|].
  cbn [lex_word]. change (36 =? 92) with false. change (36 =? 36) with true. cbv iota.
  destruct rest as [|d r]; [reflexivity|]. cbn [head_is] in Hh. rewrite Hh. reflexivity.
Qed.

(* a prerequisite that starts with ':' (or NUL, or a lone '$') is reported: error 3 at its position *)
Theorem md_bad_prereq_reported : forall ign t x rest,
  wf_target t = true -> bad_word_start x rest ->
  In (Err 3 (N.of_nat (length (md_escape t) + 2)))
     (md_parse ign (md_escape t ++ 58 :: 32 :: x :: rest)).
Proof.
  intros ign t x rest Ht Hbad. unfold md_parse.
  rewrite (rules_loop_target _ ign _ t (32 :: x :: rest) Ht).
  right. apply in_or_app. left.
  destruct (bad_word_start_lex x rest Hbad) as [Hs [H10 Hl]].
  cbn [deps_loop]. change (skip_nnws (32 :: x :: rest)) with (skip_nnws (x :: rest)).
  rewrite Hs, H10, Hl.
  unfold progressed. rewrite Nat.eqb_refl. cbn [negb].
  destruct (deps_loop _ _ (skip_eol (x :: rest))) as [evs c3].
  cbn [fst]. left. f_equal. unfold pos_of. rewrite app_length. cbn [length]. lia.
Qed.

(* ---------- non-vacuity ---------- *)

(* target [o ut.o]; paths [a b] [c#d] [e$f] [g\h\] [i:j] [/k:] [.] [0x80 0xff] [quote dquote] [$] [#] [space] [backslash] *)
Definition ex_target : bytes := [111; 32; 117; 116; 46; 111].
Definition ex_paths : list bytes :=
  [[97; 32; 98]; [99; 35; 100]; [101; 36; 102]; [103; 92; 104; 92]; [105; 58; 106]; [47; 107; 58]; [46]; [128; 255];
   [39; 34]; [36]; [35]; [32]; [92]].

Example md_roundtrip_instance :
  wf_target ex_target = true /\ forallb wf_path ex_paths = true /\
  md_write ex_target [[97; 32; 98]; [101; 36; 102]] SepLF =
    [111; 92; 32; 117; 116; 46; 111; 58; 32; 92; 10; 32; 97; 92; 32; 98; 32; 92; 10; 32; 101; 36; 36; 102; 10] /\
  md_deps (md_parse false (md_write ex_target ex_paths SepSpace)) = ex_paths /\
  md_deps (md_parse false (md_write ex_target ex_paths SepLF)) = ex_paths /\
  md_deps (md_parse false (md_write ex_target ex_paths SepCRLF)) = ex_paths.
Proof. vm_compute. repeat split; reflexivity. Qed.

Example md_multi_rule_instance :
  let rules := [(ex_target, ex_paths, SepLF); ([116], [[112]; [113; 58]], SepSpace); ([117], [], SepCRLF)] in
  forallb wf_rule rules = true /\
  md_deps (md_parse false (md_write_rules rules)) = ex_paths ++ [[112]; [113; 58]] /\
  md_deps (md_parse true (md_write_rules rules)) = ex_paths.
Proof. vm_compute. repeat split; reflexivity. Qed.

(* "a b c\n" (no colon): error 2 at offset 2;  "t: :x"  and  "t: $x": error 3 at offset 3 *)
Example md_error_reported_instance :
  md_parse false [97; 32; 98; 32; 99; 10] = [RuleStart [97] [97]; Err 2 2; RuleEnd] /\
  md_parse false [116; 58; 32; 58; 120] = [RuleStart [116] [116]; Err 3 3; RuleEnd] /\
  md_parse false [116; 58; 32; 36; 120] = [RuleStart [116] [116]; Err 3 3; RuleEnd] /\
  bad_word_start 36 [120] /\ ~ In 58 [97; 32; 98; 32; 99; 10] /\ skip_ws [97; 32; 98; 32; 99; 10] <> [].
Proof.
  repeat split; try (vm_compute; reflexivity).
  - right. right. split; reflexivity.
  - cbn. intros H. repeat (destruct H as [H|H]; [discriminate H|]). exact H.
  - vm_compute. discriminate.
Qed.

(* ---------- exactness of the well-formedness conditions: without each of them the round trip fails ---------- *)

(* path conditions (target "t") *)
Example wf_path_needs_nonempty :
  wf_path [] = false /\ md_deps (md_parse false (md_write [116] [[]] SepSpace)) <> [[]].
Proof. vm_compute. split; [reflexivity | discriminate]. Qed.

Example wf_path_needs_no_nul :     (* "p\0q": "p", then error 3, the rest of the line is dropped *)
  wf_path [112; 0; 113] = false /\ md_deps (md_parse false (md_write [116] [[112; 0; 113]] SepSpace)) <> [[112; 0; 113]].
Proof. vm_compute. split; [reflexivity | discriminate]. Qed.

Example wf_path_needs_no_tab :     (* "p\tq" is read as two words *)
  wf_path [112; 9; 113] = false /\ md_deps (md_parse false (md_write [116] [[112; 9; 113]] SepSpace)) = [[112]; [113]].
Proof. vm_compute. split; reflexivity. Qed.

Example wf_path_needs_no_cr :      (* "p\rq" is read as two words *)
  wf_path [112; 13; 113] = false /\ md_deps (md_parse false (md_write [116] [[112; 13; 113]] SepSpace)) = [[112]; [113]].
Proof. vm_compute. split; reflexivity. Qed.

Example wf_path_needs_no_lf :      (* "p\nq": the newline ends the rule, "q" starts a rule without ':' *)
  wf_path [112; 10; 113] = false /\ md_deps (md_parse false (md_write [116] [[112; 10; 113]] SepSpace)) = [[112]].
Proof. vm_compute. split; reflexivity. Qed.

Example wf_path_needs_no_leading_colon :   (* ":p" then "q": error 3 and the whole line is dropped *)
  wf_path [58; 112] = false /\ md_deps (md_parse false (md_write [116] [[58; 112]; [113]] SepSpace)) = [].
Proof. vm_compute. split; reflexivity. Qed.

(* target conditions (path "p") *)
Example wf_target_needs_nonempty :
  wf_target [] = false /\ md_deps (md_parse false (md_write [] [[112]] SepSpace)) = [].
Proof. vm_compute. split; reflexivity. Qed.

Example wf_target_needs_no_colon :          (* "c:x: p": the target's tail "x:" is read as a prerequisite *)
  wf_target [99; 58; 120] = false /\ md_deps (md_parse false (md_write [99; 58; 120] [[112]] SepSpace)) = [[120; 58]; [112]].
Proof. vm_compute. split; reflexivity. Qed.

Example wf_target_needs_no_nul :
  wf_target [116; 0] = false /\ md_deps (md_parse false (md_write [116; 0] [[112]] SepSpace)) = [].
Proof. vm_compute. split; reflexivity. Qed.

Example wf_target_needs_no_tab :
  wf_target [116; 9; 117] = false /\ md_deps (md_parse false (md_write [116; 9; 117] [[112]] SepSpace)) = [].
Proof. vm_compute. split; reflexivity. Qed.

Example wf_target_needs_no_cr :
  wf_target [116; 13; 117] = false /\ md_deps (md_parse false (md_write [116; 13; 117] [[112]] SepSpace)) = [].
Proof. vm_compute. split; reflexivity. Qed.

Example wf_target_needs_no_lf :
  wf_target [116; 10] = false /\ md_deps (md_parse false (md_write [116; 10] [[112]] SepSpace)) = [].
Proof. vm_compute. split; reflexivity. Qed.

(* what is NOT in the documented escaping and therefore not recovered when written raw: an unescaped ' ' splits
   the word, an unescaped '#' survives, an undoubled '$' is an error *)
Example raw_space_splits : md_deps (md_parse false [116; 58; 32; 97; 32; 98; 10]) = [[97]; [98]].
Proof. vm_compute. reflexivity. Qed.
Example raw_dollar_is_error : md_parse false [116; 58; 32; 97; 36; 98; 10] = [RuleStart [116] [116]; Dep [97] [97]; Err 3 4; RuleEnd].
Proof. vm_compute. reflexivity. Qed.

(* ---------- line ends: LF, CRLF, or the end of the file right after the last path ---------- *)

Definition eol_tail (eol : eolchoice) (rest : bytes) : bytes :=
  match eol with EolNone => [] | _ => 10 :: rest end.

Lemma deps_loop_eol F dlen eol (rest : bytes) :
  (eol = EolNone -> rest = []) ->
  deps_loop (S F) dlen (eol_bytes eol ++ rest) = ([], eol_tail eol rest).
Proof. intros H. destruct eol; [reflexivity | reflexivity | rewrite (H eq_refl); reflexivity]. Qed.

Lemma eol_dep_tail eol (rest : bytes) : (eol = EolNone -> rest = []) -> dep_tail (eol_bytes eol ++ rest) = true.
Proof. intros H. destruct eol; [reflexivity | reflexivity | rewrite (H eq_refl); reflexivity]. Qed.

Lemma md_write_eol_split t ps sep eol (rest : bytes) :
  md_write_eol t ps sep eol ++ rest = md_escape t ++ 58 :: deps_text sep ps ++ eol_bytes eol ++ rest.
Proof. unfold md_write_eol, deps_text. rewrite <- !app_assoc. reflexivity. Qed.

Lemma deps_text_len sep ps : (length ps <= length (deps_text sep ps))%nat.
Proof.
  induction ps as [|p ps IH]; [cbn; lia|]. unfold deps_text in *. cbn [flat_map length].
  assert (1 <= length (sep_bytes sep))%nat by (destruct sep; cbn; lia).
  rewrite !app_length. lia.
Qed.

Lemma rules_loop_eol_tail F ign dlen eol (rest : bytes) :
  rules_loop F ign dlen (eol_tail eol rest) = rules_loop F ign dlen (match eol with EolNone => [] | _ => rest end).
Proof. destruct eol; cbn [eol_tail]; try apply rules_loop_nl; reflexivity. Qed.

(* one written rule with any line end, followed by anything (by nothing when the line end is missing) *)
Lemma rules_loop_write_eol F ign dlen t ps sep eol (rest : bytes) :
  wf_target t = true -> forallb wf_path ps = true -> (eol = EolNone -> rest = []) ->
  rules_loop (S F) ign dlen (md_write_eol t ps sep eol ++ rest) =
  RuleStart (md_escape t) t :: dep_events ps ++ RuleEnd :: (if ign then [] else rules_loop F ign dlen rest).
Proof.
  intros Ht Hps He. rewrite md_write_eol_split, (rules_loop_target F ign dlen t _ Ht).
  set (Z := eol_bytes eol ++ rest).
  pose proof (deps_text_len sep ps) as Hl.
  replace (S (length (deps_text sep ps ++ Z))) with (length ps + S (length (deps_text sep ps ++ Z) - length ps))%nat
    by (rewrite app_length; lia).
  rewrite (deps_loop_write_gen sep ps _ dlen Z Hps (eol_dep_tail eol rest He)).
  unfold Z. rewrite (deps_loop_eol _ dlen eol rest He). cbn [fst snd]. rewrite app_nil_r.
  rewrite rules_loop_eol_tail.
  destruct eol; try reflexivity. rewrite (He eq_refl). reflexivity.
Qed.

Theorem md_roundtrip_eol : forall target paths sep eol,
  wf_target target = true -> forallb wf_path paths = true ->
  md_deps (md_parse false (md_write_eol target paths sep eol)) = paths /\
  md_has_error (md_parse false (md_write_eol target paths sep eol)) = false.
Proof.
  intros t ps sep eol Ht Hps. unfold md_parse.
  pose proof (rules_loop_write_eol (length (md_write_eol t ps sep eol)) false (length (md_write_eol t ps sep eol)) t ps sep eol []
                Ht Hps (fun _ => eq_refl)) as H.
  rewrite app_nil_r in H. rewrite H.
  assert (Hl : (1 <= length (md_write_eol t ps sep eol))%nat).
  { unfold md_write_eol. rewrite !app_length. cbn [length]. lia. }
  destruct (length (md_write_eol t ps sep eol)) as [|n]; [lia|]. cbn [rules_loop skip_ws].
  change (RuleStart (md_escape t) t :: dep_events ps ++ [RuleEnd]) with ([RuleStart (md_escape t) t] ++ dep_events ps ++ [RuleEnd]).
  split.
  - rewrite !md_deps_app, md_deps_dep_events. cbn. apply app_nil_r.
  - cbn [app]. unfold md_has_error at 1. cbn [existsb orb]. fold (md_has_error (dep_events ps ++ [RuleEnd])).
    rewrite md_has_error_dep_events. reflexivity.
Qed.

(* several rules, each ended by LF or CRLF, then a last rule with any line end *)
Definition rule_eol (r : bytes * list bytes * sepchoice * bool) : eolchoice := if snd r then EolCRLF else EolLF.
Definition md_write_rules_eol (rules : list (bytes * list bytes * sepchoice * bool)) : bytes :=
  flat_map (fun r => md_write_eol (rule_target (fst r)) (rule_paths (fst r)) (snd (fst r)) (rule_eol r)) rules.

Lemma rules_loop_write_rules_eol rules : forall F dlen (rest : bytes),
  forallb (fun r => wf_rule (fst r)) rules = true ->
  rules_loop (length rules + F) false dlen (md_write_rules_eol rules ++ rest) =
  flat_map (fun r => rule_events (fst r)) rules ++ rules_loop F false dlen rest.
Proof.
  induction rules as [|r rs IH]; intros F dlen rest Hr; [reflexivity|].
  cbn [forallb] in Hr. apply andb_true_iff in Hr. destruct Hr as [Hr Hrs].
  unfold wf_rule in Hr. apply andb_true_iff in Hr. destruct Hr as [Ht Hps].
  unfold md_write_rules_eol. cbn [flat_map]. fold (md_write_rules_eol rs). rewrite <- app_assoc. cbn [length plus].
  rewrite (rules_loop_write_eol _ false dlen _ _ (snd (fst r)) (rule_eol r) _ Ht Hps).
  - rewrite (IH F dlen rest Hrs). unfold rule_events at 2. cbn [app]. rewrite <- !app_assoc. reflexivity.
  - unfold rule_eol. destruct (snd r); discriminate.
Qed.

Theorem md_multi_rule_eol : forall rules target paths sep eol,
  forallb (fun r => wf_rule (fst r)) rules = true -> wf_target target = true -> forallb wf_path paths = true ->
  md_deps (md_parse false (md_write_rules_eol rules ++ md_write_eol target paths sep eol)) =
  flat_map (fun r => rule_paths (fst r)) rules ++ paths.
Proof.
  intros rules t ps sep eol Hr Ht Hps. unfold md_parse.
  set (d := md_write_rules_eol rules ++ md_write_eol t ps sep eol).
  assert (Hl : (length rules + 1 <= length d)%nat).
  { unfold d. rewrite app_length.
    assert (length rules <= length (md_write_rules_eol rules))%nat.
    { clear. induction rules as [|r rs IH]; [cbn; lia|]. unfold md_write_rules_eol in *. cbn [flat_map].
      rewrite app_length. unfold md_write_eol at 1. rewrite !app_length. cbn [length]. lia. }
    assert (1 <= length (md_write_eol t ps sep eol))%nat by (unfold md_write_eol; rewrite !app_length; cbn [length]; lia).
    lia. }
  remember (length d) as n eqn:En. clear En.
  replace (S n) with (length rules + S (n - length rules))%nat by lia.
  unfold d. rewrite (rules_loop_write_rules_eol rules _ n _ Hr).
  pose proof (rules_loop_write_eol (n - length rules) false n t ps sep eol [] Ht Hps (fun _ => eq_refl)) as H.
  rewrite app_nil_r in H. rewrite H.
  destruct (n - length rules)%nat as [|m] eqn:E; [lia|]. cbn [rules_loop skip_ws].
  rewrite md_deps_app. f_equal.
  - clear. induction rules as [|r rs IH]; [reflexivity|]. cbn [flat_map]. rewrite md_deps_app, md_deps_rule_events, IH. reflexivity.
  - change (RuleStart (md_escape t) t :: dep_events ps ++ [RuleEnd]) with ([RuleStart (md_escape t) t] ++ dep_events ps ++ [RuleEnd]).
    rewrite !md_deps_app, md_deps_dep_events. cbn. apply app_nil_r.
Qed.

(* two rules ended by CRLF, the last path followed by the end of the file *)
Example md_multi_rule_eol_instance :
  md_write_rules_eol [([116], [[97; 32; 98]], SepLF, true)] ++ md_write_eol [117] [[99; 58]; [100]] SepSpace EolNone =
    [116; 58; 32; 92; 10; 32; 97; 92; 32; 98; 13; 10; 117; 58; 32; 99; 58; 32; 100] /\
  md_deps (md_parse false (md_write_rules_eol [([116], [[97; 32; 98]], SepLF, true)] ++ md_write_eol [117] [[99; 58]; [100]] SepSpace EolNone))
    = [[97; 32; 98]; [99; 58]; [100]].
Proof. vm_compute. split; reflexivity. Qed.
