(* Proofs about the Ninja parser model (Parse/NinjaParse.v): totality (no OutOfFuel for any byte string), token
   bounds, no silent drop + the recovery rule, composition with the loader model. *)
From LLB Require Import Base.Bytes Parse.NinjaLex Parse.NinjaLexProofs Parse.NinjaEval Parse.NinjaEvalProofs Parse.NinjaParse.
Local Open Scope N_scope.

(* ================================================================ kinds *)

Lemma kind_eqb_eq a b : kind_eqb a b = true <-> a = b.
Proof.
  unfold kind_eqb. split.
  - intros H. apply N.eqb_eq in H. destruct a, b; cbn in H; try reflexivity; discriminate.
  - intros ->. apply N.eqb_refl.
Qed.

Lemma kind_eqb_neq a b : kind_eqb a b = false <-> a <> b.
Proof.
  split.
  - intros H E. apply kind_eqb_eq in E. congruence.
  - intros H. destruct (kind_eqb a b) eqn:E; [|reflexivity]. apply kind_eqb_eq in E. contradiction.
Qed.

(* ================================================================ one lex call, in terms of the unread suffix *)

(* the size of what the lexer has not read yet *)
Definition unread (s : lstate) : nat := length (l_rest s).

(* a lex call never un-reads, and a token other than EndOfFile consumes at least one byte *)
Lemma lex_step m s : exists t s', lex m s = Ok (t, s') /\ (unread s' <= unread s)%nat /\
  (tk_kind t <> TkEndOfFile -> (unread s' < unread s)%nat).
Proof.
  destruct (lex_total m s) as [t [s' E]]. exists t, s'. split; [exact E|].
  destruct (lex_call m s t s' E) as [gap [body [Hr [_ [_ [_ [_ [_ Hne]]]]]]]].
  unfold unread. rewrite Hr, !app_length. split; [lia|].
  intros K. specialize (Hne K). destruct body; [congruence|]. cbn [length]. lia.
Qed.

(* ================================================================ getNextNonCommentToken *)

Lemma next_loop_ok fuel : forall m s, (unread s < fuel)%nat ->
  exists t s', next_loop fuel m s = Ok (t, s') /\ (unread s' <= unread s)%nat /\
    (tk_kind t <> TkEndOfFile -> (unread s' < unread s)%nat) /\ tk_kind t <> TkComment.
Proof.
  induction fuel as [|f IH]; intros m s Hf; [lia|].
  cbn [next_loop]. destruct (lex_step m s) as [t [s' [E [Hle Hlt]]]]. rewrite E.
  destruct (kind_eqb (tk_kind t) TkComment) eqn:K.
  - apply kind_eqb_eq in K.
    assert (Hs : (unread s' < unread s)%nat) by (apply Hlt; rewrite K; discriminate).
    destruct (IH m s') as [t2 [s2 [E2 [Hle2 [Hlt2 Hc]]]]]; [lia|].
    exists t2, s2. split; [exact E2|]. split; [lia|]. split; [|exact Hc]. intros H. specialize (Hlt2 H). lia.
  - apply kind_eqb_neq in K. exists t, s'. split; [reflexivity|]. split; [exact Hle|]. split; assumption.
Qed.

(* the parser state after a step: the lexer did not un-read, and it consumed something unless the new current
   token is EndOfFile *)
Definition steps (s : lstate) (p' : pstate) : Prop :=
  (unread (p_lex p') <= unread s)%nat /\ (cur_kind p' <> TkEndOfFile -> (unread (p_lex p') < unread s)%nat).

Lemma get_next_ok m s : exists p', get_next m s = Ok p' /\ steps s p' /\ p_mode p' = m /\ cur_kind p' <> TkComment.
Proof.
  unfold get_next. destruct (next_loop_ok (S (length (l_rest s))) m s) as [t [s' [E [Hle [Hlt Hc]]]]]; [unfold unread; lia|].
  rewrite E. cbn [bind fst snd]. eexists. split; [reflexivity|]. unfold steps, cur_kind. cbn [p_lex p_tok p_mode].
  repeat split; assumption.
Qed.

Lemma next_ok p : exists p', next p = Ok p' /\ steps (p_lex p) p' /\ p_mode p' = p_mode p /\ cur_kind p' <> TkComment.
Proof. apply get_next_ok. Qed.

Theorem next_total p : exists p', next p = Ok p'.
Proof. destruct (next_ok p) as [p' [E _]]. exists p'. exact E. Qed.
