(* Proofs about the Ninja parser model (Parse/NinjaParse.v): totality (no OutOfFuel for any byte string), token
   bounds, no silent drop + the recovery rule, composition with the loader model. *)
From LLB Require Import Base.Bytes Parse.NinjaLex Parse.NinjaLexProofs Parse.NinjaEval Parse.NinjaEvalProofs Parse.NinjaParse.
Local Open Scope N_scope.

(* ================================================================ kinds *)

Lemma kind_eqb_eq a b : kind_eqb a b = true <-> a = b.
Proof.
  unfold kind_eqb. split.
  - intros H. apply N.eqb_eq in H. destruct a, b; cbn in H; try reflexivity; discriminate.
  - intros ->. apply N.eqb_refl.
Qed.

Lemma kind_eqb_neq a b : kind_eqb a b = false <-> a <> b.
Proof.
  split.
  - intros H E. apply kind_eqb_eq in E. congruence.
  - intros H. destruct (kind_eqb a b) eqn:E; [|reflexivity]. apply kind_eqb_eq in E. contradiction.
Qed.

(* ================================================================ one lex call, in terms of the unread suffix *)

(* the size of what the lexer has not read yet *)
Definition unread (s : lstate) : nat := length (l_rest s).

(* a lex call never un-reads, and a token other than EndOfFile consumes at least one byte *)
Lemma lex_step m s : exists t s', lex m s = Ok (t, s') /\ (unread s' <= unread s)%nat /\
  (tk_kind t <> TkEndOfFile -> (unread s' < unread s)%nat).
Proof.
  destruct (lex_total m s) as [t [s' E]]. exists t, s'. split; [exact E|].
  destruct (lex_call m s t s' E) as [gap [body [Hr [_ [_ [_ [_ [_ Hne]]]]]]]].
  unfold unread. rewrite Hr, !app_length. split; [lia|].
  intros K. specialize (Hne K). destruct body; [congruence|]. cbn [length]. lia.
Qed.

(* the parser state after at least one lex call: the lexer did not un-read, and it consumed something unless the
   new current token is EndOfFile *)
Definition steps (s : lstate) (p' : pstate) : Prop :=
  (unread (p_lex p') <= unread s)%nat /\ (cur_kind p' <> TkEndOfFile -> (unread (p_lex p') < unread s)%nat).

Lemma steps_trans s p1 p2 : steps s p1 -> steps (p_lex p1) p2 -> steps s p2.
Proof. unfold steps. intros [H1 H2] [H3 H4]. split; [lia|]. intros K. specialize (H4 K). lia. Qed.

Lemma steps_set_mode s m p : steps s (set_mode m p) <-> steps s p.
Proof. unfold steps, set_mode, cur_kind. cbn [p_lex p_tok]. tauto. Qed.

(* zero or more lex calls *)
Definition wsteps (p p' : pstate) : Prop := p' = p \/ steps (p_lex p) p'.

Lemma steps_wsteps s p1 p2 : steps s p1 -> wsteps p1 p2 -> steps s p2.
Proof. intros H [->|H2]; [exact H|]. eapply steps_trans; eassumption. Qed.

Lemma wsteps_le p p' : wsteps p p' -> (unread (p_lex p') <= unread (p_lex p))%nat.
Proof. intros [->|[H _]]; [lia|exact H]. Qed.

Lemma at_kind_true k p : at_kind k p = true <-> cur_kind p = k.
Proof. apply kind_eqb_eq. Qed.
Lemma at_kind_false k p : at_kind k p = false <-> cur_kind p <> k.
Proof. apply kind_eqb_neq. Qed.

(* ================================================================ invariants carried through the parser *)

(* Every lemma of this section is stated for an arbitrary invariant A of the lexer state and an arbitrary property P
   of tokens such that a lex call from an A-state gives an A-state and a P-token (and P survives the derivation of
   the empty string token).  A := True, P := True gives totality; A := at_data data, P := "inside data" gives the
   bounds. *)
Section Inv.
  Variable A : lstate -> Prop.
  Variable P : token -> Prop.
  Hypothesis HA : forall m s t s', A s -> lex m s = Ok (t, s') -> A s' /\ P t.
  Hypothesis HE : forall t, P t -> P (empty_string_of t).

  Definition pinv (p : pstate) : Prop := A (p_lex p) /\ P (p_tok p).

  Lemma pinv_set_mode m p : pinv (set_mode m p) <-> pinv p.
  Proof. unfold pinv, set_mode. cbn [p_lex p_tok]. tauto. Qed.

  (* ---------------- getNextNonCommentToken *)

  Lemma next_loop_ok fuel : forall m s, (unread s < fuel)%nat -> A s ->
    exists t s', next_loop fuel m s = Ok (t, s') /\ (unread s' <= unread s)%nat /\
      (tk_kind t <> TkEndOfFile -> (unread s' < unread s)%nat) /\ tk_kind t <> TkComment /\ A s' /\ P t.
  Proof.
    induction fuel as [|f IH]; intros m s Hf Ha; [lia|].
    cbn [next_loop]. destruct (lex_step m s) as [t [s' [E [Hle Hlt]]]]. rewrite E.
    destruct (HA m s t s' Ha E) as [Ha' Hp].
    destruct (kind_eqb (tk_kind t) TkComment) eqn:K.
    - apply kind_eqb_eq in K.
      assert (Hs : (unread s' < unread s)%nat) by (apply Hlt; rewrite K; discriminate).
      destruct (IH m s') as [t2 [s2 [E2 [Hle2 [Hlt2 [Hc [Ha2 Hp2]]]]]]]; [lia|exact Ha'|].
      exists t2, s2. split; [exact E2|]. split; [lia|]. split; [|auto]. intros H. specialize (Hlt2 H). lia.
    - apply kind_eqb_neq in K. exists t, s'. split; [reflexivity|]. auto.
  Qed.

  Lemma get_next_ok m s : A s ->
    exists p', get_next m s = Ok p' /\ steps s p' /\ p_mode p' = m /\ cur_kind p' <> TkComment /\ pinv p'.
  Proof.
    intros Ha. unfold get_next.
    destruct (next_loop_ok (S (length (l_rest s))) m s) as [t [s' [E [Hle [Hlt [Hc [Ha' Hp]]]]]]]; [unfold unread; lia|exact Ha|].
    rewrite E. cbn [bind fst snd]. eexists. split; [reflexivity|]. unfold steps, cur_kind, pinv. cbn [p_lex p_tok p_mode].
    auto.
  Qed.

  Lemma next_ok p : pinv p ->
    exists p', next p = Ok p' /\ steps (p_lex p) p' /\ p_mode p' = p_mode p /\ cur_kind p' <> TkComment /\ pinv p'.
  Proof. intros [Ha _]. apply get_next_ok. exact Ha. Qed.

  (* ---------------- skipPastEOL *)

  Definition is_eol (k : kind) : Prop := k = TkNewline \/ k = TkEndOfFile.

  Lemma eol_test k : kind_eqb k TkNewline || kind_eqb k TkEndOfFile = true <-> is_eol k.
  Proof. unfold is_eol. rewrite orb_true_iff, !kind_eqb_eq. tauto. Qed.

  Lemma skip_loop_ok fuel : forall m t s, (unread s + 1 < fuel)%nat -> A s -> P t ->
    exists t' s', skip_loop fuel m t s = Ok (t', s') /\ (unread s' <= unread s)%nat /\ A s' /\ P t' /\ is_eol (tk_kind t').
  Proof.
    induction fuel as [|f IH]; intros m t s Hf Ha Hp; [lia|].
    cbn [skip_loop]. destruct (kind_eqb (tk_kind t) TkNewline || kind_eqb (tk_kind t) TkEndOfFile) eqn:K.
    - apply eol_test in K. exists t, s. split; [reflexivity|]. auto.
    - destruct (lex_step m s) as [t1 [s1 [E [Hle Hlt]]]]. rewrite E.
      destruct (HA m s t1 s1 Ha E) as [Ha1 Hp1].
      destruct (kind_eqb (tk_kind t1) TkEndOfFile) eqn:K1.
      + apply kind_eqb_eq in K1. destruct f as [|f']; [lia|]. cbn [skip_loop].
        rewrite K1. replace (kind_eqb TkEndOfFile TkNewline || kind_eqb TkEndOfFile TkEndOfFile) with true by reflexivity.
        exists t1, s1. split; [reflexivity|]. split; [exact Hle|]. split; [exact Ha1|]. split; [exact Hp1|]. right. exact K1.
      + apply kind_eqb_neq in K1. specialize (Hlt K1).
        destruct (IH m t1 s1) as [t' [s' [E' [Hle' R]]]]; [lia|exact Ha1|exact Hp1|].
        exists t', s'. split; [exact E'|]. split; [lia|exact R].
  Qed.

  Lemma skip_past_eol_ok p : pinv p ->
    exists p', skip_past_eol p = Ok p' /\ steps (p_lex p) p' /\ p_mode p' = p_mode p /\ cur_kind p' <> TkComment /\ pinv p'.
  Proof.
    intros [Ha Hp]. unfold skip_past_eol.
    destruct (skip_loop_ok (S (S (length (l_rest (p_lex p))))) (p_mode p) (p_tok p) (p_lex p))
      as [t' [s' [E [Hle [Ha' [Hp' _]]]]]]; [unfold unread; lia|exact Ha|exact Hp|].
    rewrite E. cbn [bind fst snd].
    destruct (next_ok (mkP t' s' (p_mode p))) as [p' [E' [Hs [Hm [Hc Hi]]]]]; [split; assumption|].
    exists p'. split; [exact E'|]. cbn [p_lex p_mode] in Hs, Hm. split; [|auto].
    destruct Hs as [H1 H2]. split; [lia|]. intros K. specialize (H2 K). lia.
  Qed.

  Lemma fail_skip_ok {X : Type} (mk : N -> token -> X) code p : pinv p ->
    exists p', fail_skip mk code p = Ok (mk code (p_tok p), p') /\ steps (p_lex p) p' /\ p_mode p' = p_mode p /\
      cur_kind p' <> TkComment /\ pinv p'.
  Proof.
    intros Hi. unfold fail_skip. destruct (skip_past_eol_ok p Hi) as [p' [E R]]. rewrite E. cbn [bind].
    exists p'. split; [reflexivity|exact R].
  Qed.

  (* ---------------- the measure of the loops: unread bytes, plus one while the current token is not EndOfFile *)

  Definition mu (p : pstate) : nat :=
    (unread (p_lex p) + if kind_eqb (cur_kind p) TkEndOfFile then 0 else 1)%nat.

  Lemma mu_bound p : (mu p <= unread (p_lex p) + 1)%nat.
  Proof. unfold mu. destruct (kind_eqb _ _); lia. Qed.

  Lemma mu_set_mode m p : mu (set_mode m p) = mu p.
  Proof. reflexivity. Qed.

  Lemma steps_mu p p' : cur_kind p <> TkEndOfFile -> steps (p_lex p) p' -> (mu p' < mu p)%nat.
  Proof.
    intros K [H1 H2]. unfold mu. apply kind_eqb_neq in K. rewrite K.
    destruct (kind_eqb (cur_kind p') TkEndOfFile) eqn:K'; [lia|]. apply kind_eqb_neq in K'. specialize (H2 K'). lia.
  Qed.

  Lemma wsteps_mu p p' : wsteps p p' -> (mu p' <= mu p)%nat.
  Proof.
    intros [->|[H1 H2]]; [lia|]. unfold mu.
    destruct (kind_eqb (cur_kind p') TkEndOfFile) eqn:K'.
    - destruct (kind_eqb (cur_kind p) TkEndOfFile); lia.
    - apply kind_eqb_neq in K'. specialize (H2 K'). destruct (kind_eqb (cur_kind p) TkEndOfFile); lia.
  Qed.

  (* ---------------- string lists *)

  Lemma strings_loop_ok fuel : forall p, (mu p < fuel)%nat -> pinv p ->
    exists l p', strings_loop fuel p = Ok (l, p') /\ p_mode p' = p_mode p /\ pinv p' /\ Forall P l /\
      cur_kind p' <> TkString /\
      ((cur_kind p = TkString /\ l <> [] /\ steps (p_lex p) p') \/ (cur_kind p <> TkString /\ l = [] /\ p' = p)).
  Proof.
    induction fuel as [|f IH]; intros p Hf Hi; [lia|].
    cbn [strings_loop]. destruct (at_kind TkString p) eqn:K.
    - apply at_kind_true in K.
      destruct (next_ok p Hi) as [p1 [E1 [Hs1 [Hm1 [_ Hi1]]]]]. rewrite E1. cbn [bind].
      assert (Hmu : (mu p1 < mu p)%nat) by (apply steps_mu; [rewrite K; discriminate|exact Hs1]).
      destruct (IH p1) as [l [p' [E [Hm [Hi' [Hl [Hk Hc]]]]]]]; [lia|exact Hi1|].
      rewrite E. cbn [bind fst snd]. exists (p_tok p :: l), p'. split; [reflexivity|].
      split; [congruence|]. split; [exact Hi'|]. split; [constructor; [apply Hi|exact Hl]|]. split; [exact Hk|].
      left. split; [exact K|]. split; [discriminate|].
      destruct Hc as [[_ [_ Hs]]|[_ [_ ->]]]; [eapply steps_trans; eassumption|exact Hs1].
    - apply at_kind_false in K. exists [], p. split; [reflexivity|]. split; [reflexivity|]. split; [exact Hi|].
      split; [constructor|]. split; [exact K|]. right. auto.
  Qed.

  Lemma strings_ok p : pinv p ->
    exists l p', strings p = Ok (l, p') /\ p_mode p' = p_mode p /\ pinv p' /\ Forall P l /\ cur_kind p' <> TkString /\
      ((cur_kind p = TkString /\ l <> [] /\ steps (p_lex p) p') \/ (cur_kind p <> TkString /\ l = [] /\ p' = p)).
  Proof.
    intros Hi. apply strings_loop_ok; [|exact Hi]. pose proof (mu_bound p). unfold unread in *. lia.
  Qed.

  Lemma strings_wsteps p (l : list token) p' :
    ((cur_kind p = TkString /\ l <> [] /\ steps (p_lex p) p') \/ (cur_kind p <> TkString /\ l = [] /\ p' = p)) -> wsteps p p'.
  Proof. intros [[_ [_ H]]|[_ [_ ->]]]; [right; exact H|left; reflexivity]. Qed.

  (* ---------------- bindings *)

  Definition bres_P (r : bres) : Prop :=
    match r with BROk n v => P n /\ P v | BRErr _ a => P a end.

  Lemma parse_binding_internal_ok p : pinv p ->
    exists r p', parse_binding_internal p = Ok (r, p') /\ steps (p_lex p) p' /\ p_mode p' = MNone /\ pinv p' /\ bres_P r.
  Proof.
    intros Hi. unfold parse_binding_internal.
    destruct (at_kind TkIdentifier p) eqn:K0; cbn [negb].
    2:{ destruct (fail_skip_ok BRErr e_expected_var_name (set_mode MNone p)) as [p' [E [Hs [Hm [_ Hi']]]]];
          [apply pinv_set_mode; exact Hi|].
        rewrite E. eexists _, p'. split; [reflexivity|]. split; [exact Hs|]. split; [exact Hm|]. split; [exact Hi'|].
        apply Hi. }
    destruct (next_ok p Hi) as [p1 [E1 [Hs1 [Hm1 [_ Hi1]]]]]. rewrite E1. cbn [bind].
    destruct (at_kind TkEquals p1) eqn:K1; cbn [negb].
    2:{ destruct (fail_skip_ok BRErr e_expected_equals (set_mode MNone p1)) as [p' [E [Hs [Hm [_ Hi']]]]];
          [apply pinv_set_mode; exact Hi1|].
        rewrite E. eexists _, p'. split; [reflexivity|]. split; [eapply steps_trans; eassumption|]. split; [exact Hm|].
        split; [exact Hi'|]. apply Hi1. }
    destruct (next_ok (set_mode MVariableString p1)) as [p2 [E2 [Hs2 [Hm2 [_ Hi2]]]]]; [apply pinv_set_mode; exact Hi1|].
    rewrite E2. cbn [bind]. cbn [set_mode p_lex] in Hs2.
    assert (Hs02 : steps (p_lex p) p2) by (eapply steps_trans; eassumption).
    assert (Hi3 : pinv (set_mode MNone p2)) by (apply pinv_set_mode; exact Hi2).
    destruct (at_kind TkNewline (set_mode MNone p2)) eqn:K3.
    { destruct (next_ok _ Hi3) as [p4 [E4 [Hs4 [Hm4 [_ Hi4]]]]]. rewrite E4. cbn [bind].
      eexists _, p4. split; [reflexivity|]. split; [eapply steps_trans; eassumption|]. split; [exact Hm4|].
      split; [exact Hi4|]. split; [apply Hi|]. apply HE. apply Hi2. }
    destruct (at_kind TkString (set_mode MNone p2)) eqn:K4; cbn [negb].
    2:{ destruct (fail_skip_ok BRErr e_expected_var_value _ Hi3) as [p' [E [Hs [Hm [_ Hi']]]]].
        rewrite E. eexists _, p'. split; [reflexivity|]. split; [eapply steps_trans; eassumption|]. split; [exact Hm|].
        split; [exact Hi'|]. apply Hi2. }
    destruct (next_ok _ Hi3) as [p4 [E4 [Hs4 [Hm4 [_ Hi4]]]]]. rewrite E4. cbn [bind].
    assert (Hs04 : steps (p_lex p) p4) by (eapply steps_trans; eassumption).
    destruct (at_kind TkNewline p4) eqn:K5.
    - destruct (next_ok _ Hi4) as [p5 [E5 [Hs5 [Hm5 [_ Hi5]]]]]. rewrite E5. cbn [bind].
      eexists _, p5. split; [reflexivity|]. split; [eapply steps_trans; eassumption|]. split; [rewrite Hm5, Hm4; reflexivity|].
      split; [exact Hi5|]. split; [apply Hi|apply Hi2].
    - destruct (fail_skip_ok BRErr e_expected_newline _ Hi4) as [p' [E [Hs [Hm [_ Hi']]]]].
      rewrite E. eexists _, p'. split; [reflexivity|]. split; [eapply steps_trans; eassumption|]. split; [rewrite Hm, Hm4; reflexivity|].
      split; [exact Hi'|]. apply Hi4.
  Qed.

  (* every token of an action satisfies P *)
  Definition tbitem_P (b : tbitem) : Prop :=
    match b with TBBind n v => P n /\ P v | TBPErr _ a => P a end.
  Definition tdecl_P (d : tdecl) : Prop :=
    match d with
    | TDBinding n v => P n /\ P v
    | TDDefault ps => Forall P ps
    | TDInclude _ p => P p
    | TDBuild outs r ex im oo bs => Forall P outs /\ P r /\ Forall P ex /\ Forall P im /\ Forall P oo /\ Forall tbitem_P bs
    | TDPool n bs => P n /\ Forall tbitem_P bs
    | TDRule n bs => P n /\ Forall tbitem_P bs
    | TDPErr _ a => P a
    end.

  Lemma tdecl_of_bres_P r : bres_P r -> tdecl_P (tdecl_of_bres r).
  Proof. destruct r; exact (fun H => H). Qed.
  Lemma tbitem_of_bres_P r : bres_P r -> tbitem_P (tbitem_of_bres r).
  Proof. destruct r; exact (fun H => H). Qed.

  (* the common shape of the result of a declaration parser *)
  Definition decl_post (p : pstate) (r : result (tdecl * pstate)) : Prop :=
    exists d p', r = Ok (d, p') /\ steps (p_lex p) p' /\ p_mode p' = MNone /\ pinv p' /\ tdecl_P d.

  Lemma parse_binding_decl_ok p : pinv p -> decl_post p (parse_binding_decl p).
  Proof.
    intros Hi. unfold parse_binding_decl. destruct (parse_binding_internal_ok p Hi) as [r [p' [E [Hs [Hm [Hi' Hr]]]]]].
    rewrite E. cbn [bind fst snd]. exists (tdecl_of_bres r), p'. split; [reflexivity|]. split; [exact Hs|].
    split; [exact Hm|]. split; [exact Hi'|]. apply tdecl_of_bres_P. exact Hr.
  Qed.

  (* ---------------- default *)

  Lemma parse_default_decl_ok p : pinv p -> decl_post p (parse_default_decl p).
  Proof.
    intros Hi. unfold parse_default_decl.
    destruct (next_ok (set_mode MPathString p)) as [p1 [E1 [Hs1 [Hm1 [_ Hi1]]]]]; [apply pinv_set_mode; exact Hi|].
    rewrite E1. cbn [bind]. cbn [set_mode p_lex] in Hs1.
    destruct (strings_ok p1 Hi1) as [l [pr [Er [Hmr [Hir [Hl [_ Hc]]]]]]]. rewrite Er. cbn [bind fst snd].
    assert (Hs2 : steps (p_lex p) (set_mode MNone pr)).
    { apply steps_set_mode. eapply steps_wsteps; [exact Hs1|]. eapply strings_wsteps. exact Hc. }
    assert (Hi2 : pinv (set_mode MNone pr)) by (apply pinv_set_mode; exact Hir).
    destruct l as [|t0 l'].
    - destruct (fail_skip_ok TDPErr e_expected_target _ Hi2) as [p' [E [Hs [Hm [_ Hi']]]]]. rewrite E.
      eexists _, p'. split; [reflexivity|]. split; [eapply steps_trans; eassumption|]. split; [exact Hm|].
      split; [exact Hi'|]. apply Hir.
    - destruct (at_kind TkNewline (set_mode MNone pr)) eqn:K.
      + destruct (next_ok _ Hi2) as [p3 [E3 [Hs3 [Hm3 [_ Hi3]]]]]. rewrite E3. cbn [bind].
        eexists _, p3. split; [reflexivity|]. split; [eapply steps_trans; eassumption|]. split; [exact Hm3|].
        split; [exact Hi3|]. exact Hl.
      + destruct (fail_skip_ok TDPErr e_expected_newline _ Hi2) as [p' [E [Hs [Hm [_ Hi']]]]]. rewrite E.
        eexists _, p'. split; [reflexivity|]. split; [eapply steps_trans; eassumption|]. split; [exact Hm|].
        split; [exact Hi'|]. apply Hir.
  Qed.

  (* ---------------- include / subninja *)

  Lemma parse_include_decl_ok p : pinv p -> decl_post p (parse_include_decl p).
  Proof.
    intros Hi. unfold parse_include_decl.
    destruct (next_ok (set_mode MPathString p)) as [p1 [E1 [Hs1 [Hm1 [_ Hi1]]]]]; [apply pinv_set_mode; exact Hi|].
    rewrite E1. cbn [bind]. cbn [set_mode p_lex] in Hs1.
    assert (Hs2 : steps (p_lex p) (set_mode MNone p1)) by (apply steps_set_mode; exact Hs1).
    assert (Hi2 : pinv (set_mode MNone p1)) by (apply pinv_set_mode; exact Hi1).
    destruct (at_kind TkString (set_mode MNone p1)) eqn:K; cbn [negb].
    2:{ destruct (fail_skip_ok TDPErr e_expected_path _ Hi2) as [p' [E [Hs [Hm [_ Hi']]]]]. rewrite E.
        eexists _, p'. split; [reflexivity|]. split; [eapply steps_trans; eassumption|]. split; [exact Hm|].
        split; [exact Hi'|]. apply Hi1. }
    destruct (next_ok _ Hi2) as [p3 [E3 [Hs3 [Hm3 [_ Hi3]]]]]. rewrite E3. cbn [bind].
    assert (Hs03 : steps (p_lex p) p3) by (eapply steps_trans; eassumption).
    destruct (at_kind TkNewline p3) eqn:K3.
    - destruct (next_ok _ Hi3) as [p4 [E4 [Hs4 [Hm4 [_ Hi4]]]]]. rewrite E4. cbn [bind].
      eexists _, p4. split; [reflexivity|]. split; [eapply steps_trans; eassumption|]. split; [rewrite Hm4, Hm3; reflexivity|].
      split; [exact Hi4|]. apply Hi1.
    - destruct (fail_skip_ok TDPErr e_expected_newline _ Hi3) as [p' [E [Hs [Hm [_ Hi']]]]]. rewrite E.
      eexists _, p'. split; [reflexivity|]. split; [eapply steps_trans; eassumption|]. split; [rewrite Hm, Hm3; reflexivity|].
      split; [exact Hi'|]. apply Hi3.
  Qed.

  (* ---------------- specifiers *)

  Definition spec_P (r : spec_res) : Prop :=
    match r with
    | SBuild rule outs ex im oo => P rule /\ Forall P outs /\ Forall P ex /\ Forall P im /\ Forall P oo
    | SPool n => P n
    | SRule n => P n
    | SErr _ a => P a
    end.

  Definition spec_post (p : pstate) (r : result (spec_res * pstate)) : Prop :=
    exists sr p', r = Ok (sr, p') /\ steps (p_lex p) p' /\ p_mode p' = MNone /\ pinv p' /\ spec_P sr.

  Lemma opt_strings_ok k p : pinv p ->
    exists l p', opt_strings k p = Ok (l, p') /\ p_mode p' = p_mode p /\ pinv p' /\ Forall P l /\ wsteps p p'.
  Proof.
    intros Hi. unfold opt_strings. destruct (at_kind k p) eqn:K.
    - destruct (next_ok p Hi) as [p1 [E1 [Hs1 [Hm1 [_ Hi1]]]]]. rewrite E1. cbn [bind].
      destruct (strings_ok p1 Hi1) as [l [pr [Er [Hmr [Hir [Hl [_ Hc]]]]]]]. exists l, pr. split; [exact Er|].
      split; [congruence|]. split; [exact Hir|]. split; [exact Hl|]. right.
      eapply steps_wsteps; [exact Hs1|]. eapply strings_wsteps. exact Hc.
    - exists [], p. split; [reflexivity|]. split; [reflexivity|]. split; [exact Hi|]. split; [constructor|]. left. reflexivity.
  Qed.

  Lemma parse_name_specifier_ok mk code p : (forall n, P n -> spec_P (mk n)) -> pinv p ->
    spec_post p (parse_name_specifier mk code p).
  Proof.
    intros Hmk Hi. unfold parse_name_specifier.
    destruct (next_ok (set_mode MIdentifierSpecific p)) as [p1 [E1 [Hs1 [Hm1 [_ Hi1]]]]]; [apply pinv_set_mode; exact Hi|].
    rewrite E1. cbn [bind]. cbn [set_mode p_lex] in Hs1.
    assert (Hs2 : steps (p_lex p) (set_mode MNone p1)) by (apply steps_set_mode; exact Hs1).
    assert (Hi2 : pinv (set_mode MNone p1)) by (apply pinv_set_mode; exact Hi1).
    destruct (at_kind TkIdentifier (set_mode MNone p1)) eqn:K; cbn [negb].
    2:{ eexists _, _. split; [reflexivity|]. split; [exact Hs2|]. split; [reflexivity|]. split; [exact Hi2|]. apply Hi1. }
    destruct (next_ok _ Hi2) as [p3 [E3 [Hs3 [Hm3 [_ Hi3]]]]]. rewrite E3. cbn [bind].
    assert (Hs03 : steps (p_lex p) p3) by (eapply steps_trans; eassumption).
    destruct (at_kind TkNewline p3) eqn:K3.
    - destruct (next_ok _ Hi3) as [p4 [E4 [Hs4 [Hm4 [_ Hi4]]]]]. rewrite E4. cbn [bind].
      eexists _, p4. split; [reflexivity|]. split; [eapply steps_trans; eassumption|]. split; [rewrite Hm4, Hm3; reflexivity|].
      split; [exact Hi4|]. apply Hmk. apply Hi1.
    - eexists _, p3. split; [reflexivity|]. split; [exact Hs03|]. split; [rewrite Hm3; reflexivity|]. split; [exact Hi3|].
      apply Hi3.
  Qed.

  Lemma parse_build_specifier_ok p : pinv p -> spec_post p (parse_build_specifier p).
  Proof.
    intros Hi. unfold parse_build_specifier.
    destruct (next_ok (set_mode MPathString p)) as [p1 [E1 [Hs1 [Hm1 [_ Hi1]]]]]; [apply pinv_set_mode; exact Hi|].
    rewrite E1. cbn [bind]. cbn [set_mode p_lex] in Hs1.
    destruct (at_kind TkString p1) eqn:K1; cbn [negb].
    2:{ eexists _, _. split; [reflexivity|]. split; [apply steps_set_mode; exact Hs1|]. split; [reflexivity|].
        split; [apply pinv_set_mode; exact Hi1|]. apply Hi1. }
    destruct (strings_ok p1 Hi1) as [outs [p2 [Eo [Hm2 [Hi2 [Hlo [_ Hco]]]]]]]. rewrite Eo. cbn [bind fst snd].
    assert (Hs2 : steps (p_lex p) p2) by (eapply steps_wsteps; [exact Hs1|eapply strings_wsteps; exact Hco]).
    destruct (at_kind TkColon p2) eqn:K2; cbn [negb].
    2:{ eexists _, _. split; [reflexivity|]. split; [apply steps_set_mode; exact Hs2|]. split; [reflexivity|].
        split; [apply pinv_set_mode; exact Hi2|]. apply Hi2. }
    destruct (next_ok (set_mode MIdentifierSpecific p2)) as [p3 [E3 [Hs3 [Hm3 [_ Hi3]]]]]; [apply pinv_set_mode; exact Hi2|].
    rewrite E3. cbn [bind]. cbn [set_mode p_lex] in Hs3.
    assert (Hs03 : steps (p_lex p) p3) by (eapply steps_trans; eassumption).
    assert (Hi4 : pinv (set_mode MPathString p3)) by (apply pinv_set_mode; exact Hi3).
    destruct (at_kind TkIdentifier (set_mode MPathString p3)) eqn:K4; cbn [negb].
    2:{ eexists _, _. split; [reflexivity|]. split; [apply steps_set_mode, steps_set_mode; exact Hs03|]. split; [reflexivity|].
        split; [apply pinv_set_mode; exact Hi4|]. apply Hi3. }
    destruct (next_ok _ Hi4) as [p5 [E5 [Hs5 [Hm5 [_ Hi5]]]]]. rewrite E5. cbn [bind]. cbn [set_mode p_lex] in Hs5.
    assert (Hs05 : steps (p_lex p) p5) by (eapply steps_trans; eassumption).
    destruct (strings_ok p5 Hi5) as [ex [p6 [Ee [Hm6 [Hi6 [Hle [_ Hce]]]]]]]. rewrite Ee. cbn [bind fst snd].
    assert (Hs06 : steps (p_lex p) p6) by (eapply steps_wsteps; [exact Hs05|eapply strings_wsteps; exact Hce]).
    destruct (opt_strings_ok TkPipe p6 Hi6) as [im [p7 [Ei [Hm7 [Hi7 [Hli Hw7]]]]]]. rewrite Ei. cbn [bind fst snd].
    assert (Hs07 : steps (p_lex p) p7) by (eapply steps_wsteps; eassumption).
    destruct (opt_strings_ok TkPipePipe p7 Hi7) as [oo [p8 [Eq [Hm8 [Hi8 [Hlq Hw8]]]]]]. rewrite Eq. cbn [bind fst snd].
    assert (Hs08 : steps (p_lex p) (set_mode MNone p8)) by (apply steps_set_mode; eapply steps_wsteps; eassumption).
    assert (Hi9 : pinv (set_mode MNone p8)) by (apply pinv_set_mode; exact Hi8).
    destruct (at_kind TkNewline (set_mode MNone p8)) eqn:K9.
    - destruct (next_ok _ Hi9) as [p10 [E10 [Hs10 [Hm10 [_ Hi10]]]]]. rewrite E10. cbn [bind].
      eexists _, p10. split; [reflexivity|]. split; [eapply steps_trans; eassumption|]. split; [exact Hm10|].
      split; [exact Hi10|]. cbn [spec_P]. split; [apply Hi3|]. auto.
    - eexists _, _. split; [reflexivity|]. split; [exact Hs08|]. split; [reflexivity|]. split; [exact Hi9|]. apply Hi8.
  Qed.

  (* ---------------- blocks *)

  Lemma fail_loop_ok fuel : forall p, (unread (p_lex p) < fuel)%nat -> pinv p ->
    exists p', fail_loop fuel p = Ok p' /\ steps (p_lex p) p' /\ p_mode p' = p_mode p /\ pinv p' /\
      cur_kind p' <> TkIndentation.
  Proof.
    induction fuel as [|f IH]; intros p Hf Hi; [lia|].
    cbn [fail_loop]. destruct (skip_past_eol_ok p Hi) as [p1 [E1 [Hs1 [Hm1 [_ Hi1]]]]]. rewrite E1. cbn [bind].
    destruct (at_kind TkIndentation p1) eqn:K.
    - apply at_kind_true in K. assert (Hlt : (unread (p_lex p1) < unread (p_lex p))%nat) by (apply Hs1; rewrite K; discriminate).
      destruct (IH p1) as [p' [E [Hs [Hm [Hi' Hk]]]]]; [lia|exact Hi1|].
      exists p'. split; [exact E|]. split; [eapply steps_trans; eassumption|]. split; [congruence|]. auto.
    - apply at_kind_false in K. exists p1. split; [reflexivity|]. auto.
  Qed.

  Lemma block_loop_ok fuel : forall p, (mu p < fuel)%nat -> pinv p -> p_mode p = MNone ->
    exists l p', block_loop fuel p = Ok (l, p') /\ wsteps p p' /\ p_mode p' = MNone /\ pinv p' /\ Forall tbitem_P l /\
      cur_kind p' <> TkIndentation.
  Proof.
    induction fuel as [|f IH]; intros p Hf Hi Hm; [lia|].
    cbn [block_loop]. destruct (at_kind TkIndentation p) eqn:K.
    2:{ apply at_kind_false in K. exists [], p. split; [reflexivity|]. split; [left; reflexivity|]. split; [exact Hm|].
        split; [exact Hi|]. split; [constructor|exact K]. }
    apply at_kind_true in K. assert (Kne : cur_kind p <> TkEndOfFile) by (rewrite K; discriminate).
    destruct (next_ok (set_mode MIdentifierSpecific p)) as [p1 [E1 [Hs1 [Hm1 [_ Hi1]]]]]; [apply pinv_set_mode; exact Hi|].
    rewrite E1. cbn [bind]. cbn [set_mode p_lex] in Hs1.
    destruct (at_kind TkNewline p1) eqn:K1.
    - destruct (next_ok (set_mode MNone p1)) as [p2 [E2 [Hs2 [Hm2 [_ Hi2]]]]]; [apply pinv_set_mode; exact Hi1|].
      rewrite E2. cbn [bind]. cbn [set_mode p_lex] in Hs2.
      assert (Hs02 : steps (p_lex p) p2) by (eapply steps_trans; eassumption).
      pose proof (steps_mu p p2 Kne Hs02) as Hmu.
      destruct (IH p2) as [l [p' [E [Hw [Hm' [Hi' [Hl Hk]]]]]]]; [lia|exact Hi2|exact Hm2|].
      exists l, p'. split; [exact E|]. split; [right; eapply steps_wsteps; eassumption|]. auto.
    - destruct (parse_binding_internal_ok p1 Hi1) as [r [p2 [E2 [Hs2 [Hm2 [Hi2 Hr]]]]]]. rewrite E2. cbn [bind fst snd].
      assert (Hs02 : steps (p_lex p) p2) by (eapply steps_trans; eassumption).
      pose proof (steps_mu p p2 Kne Hs02) as Hmu.
      destruct (IH p2) as [l [p' [E [Hw [Hm' [Hi' [Hl Hk]]]]]]]; [lia|exact Hi2|exact Hm2|].
      rewrite E. cbn [bind fst snd]. exists (tbitem_of_bres r :: l), p'. split; [reflexivity|].
      split; [right; eapply steps_wsteps; eassumption|]. split; [exact Hm'|]. split; [exact Hi'|].
      split; [constructor; [apply tbitem_of_bres_P; exact Hr|exact Hl]|exact Hk].
  Qed.

  Lemma block_fuel_ok p : (mu p < S (S (length (l_rest (p_lex p)))))%nat.
  Proof. pose proof (mu_bound p). unfold unread in *. lia. Qed.

  Lemma parse_block_decl_ok p : pinv p -> decl_post p (parse_block_decl p).
  Proof.
    intros Hi. unfold parse_block_decl.
    assert (Hspec : spec_post p (if at_kind TkKWBuild p then parse_build_specifier p
                                 else if at_kind TkKWPool p then parse_name_specifier SPool e_expected_pool_name p
                                 else parse_name_specifier SRule e_expected_rule_name p)).
    { destruct (at_kind TkKWBuild p); [apply parse_build_specifier_ok; exact Hi|].
      destruct (at_kind TkKWPool p); apply parse_name_specifier_ok; try exact Hi; intros n Hn; exact Hn. }
    destruct Hspec as [sr [p1 [E1 [Hs1 [Hm1 [Hi1 Hsr]]]]]]. rewrite E1. cbn [bind fst snd].
    destruct sr as [rule outs ex im oo|n|n|c a].
    - destruct (block_loop_ok _ p1 (block_fuel_ok p1) Hi1 Hm1) as [l [p' [E [Hw [Hm' [Hi' [Hl _]]]]]]].
      rewrite E. cbn [bind fst snd]. eexists _, p'. split; [reflexivity|]. split; [eapply steps_wsteps; eassumption|].
      split; [exact Hm'|]. split; [exact Hi'|]. cbn [spec_P] in Hsr. cbn [tdecl_P]. tauto.
    - destruct (block_loop_ok _ p1 (block_fuel_ok p1) Hi1 Hm1) as [l [p' [E [Hw [Hm' [Hi' [Hl _]]]]]]].
      rewrite E. cbn [bind fst snd]. eexists _, p'. split; [reflexivity|]. split; [eapply steps_wsteps; eassumption|].
      split; [exact Hm'|]. split; [exact Hi'|]. split; [exact Hsr|exact Hl].
    - destruct (block_loop_ok _ p1 (block_fuel_ok p1) Hi1 Hm1) as [l [p' [E [Hw [Hm' [Hi' [Hl _]]]]]]].
      rewrite E. cbn [bind fst snd]. eexists _, p'. split; [reflexivity|]. split; [eapply steps_wsteps; eassumption|].
      split; [exact Hm'|]. split; [exact Hi'|]. split; [exact Hsr|exact Hl].
    - destruct (fail_loop_ok (S (S (length (l_rest (p_lex p1))))) p1) as [p' [E [Hs [Hm' [Hi' _]]]]];
        [unfold unread; lia|exact Hi1|].
      rewrite E. cbn [bind]. eexists _, p'. split; [reflexivity|]. split; [eapply steps_trans; eassumption|].
      split; [congruence|]. split; [exact Hi'|exact Hsr].
  Qed.

  (* ---------------- parseDecl *)

  Lemma wrap_post p r : decl_post p r ->
    exists ds p', (do x <- r; Ok ([fst x], snd x)) = Ok (ds, p') /\ steps (p_lex p) p' /\ p_mode p' = MNone /\ pinv p' /\
      Forall tdecl_P ds /\ ds <> [].
  Proof.
    intros [d [p' [-> [Hs [Hm [Hi Hd]]]]]]. cbn [bind fst snd]. exists [d], p'. split; [reflexivity|].
    split; [exact Hs|]. split; [exact Hm|]. split; [exact Hi|]. split; [constructor; [exact Hd|constructor]|discriminate].
  Qed.

  Lemma parse_decl_ok p : pinv p -> p_mode p = MNone ->
    exists ds p', parse_decl p = Ok (ds, p') /\ steps (p_lex p) p' /\ p_mode p' = MNone /\ pinv p' /\ Forall tdecl_P ds /\
      (cur_kind p <> TkNewline -> ds <> []).
  Proof.
    intros Hi Hm. unfold parse_decl.
    assert (Hfs : decl_post p (fail_skip TDPErr e_unexpected_token p)).
    { destruct (fail_skip_ok TDPErr e_unexpected_token p Hi) as [p' [E [Hs [Hm' [_ Hi']]]]]. rewrite E.
      eexists _, p'. split; [reflexivity|]. split; [exact Hs|]. split; [congruence|]. split; [exact Hi'|]. apply Hi. }
    assert (Hw : forall r, decl_post p r ->
      exists ds p', (do x <- r; Ok ([fst x], snd x)) = Ok (ds, p') /\ steps (p_lex p) p' /\ p_mode p' = MNone /\ pinv p' /\
        Forall tdecl_P ds /\ (cur_kind p <> TkNewline -> ds <> [])).
    { intros r Hr. destruct (wrap_post p r Hr) as [ds [p' [E [Hs [Hm' [Hi' [Hd Hne]]]]]]]. exists ds, p'. auto 10. }
    destruct (cur_kind p) eqn:K;
      try (apply Hw; exact Hfs);
      try (apply Hw; apply parse_block_decl_ok; exact Hi).
    - apply Hw. apply parse_binding_decl_ok. exact Hi.
    - apply Hw. apply parse_default_decl_ok. exact Hi.
    - apply Hw. apply parse_include_decl_ok. exact Hi.
    - apply Hw. apply parse_include_decl_ok. exact Hi.
    - destruct (next_ok p Hi) as [p1 [E1 [Hs1 [Hm1 [_ Hi1]]]]]. rewrite E1. cbn [bind].
      exists [], p1. split; [reflexivity|]. split; [exact Hs1|]. split; [congruence|]. split; [exact Hi1|].
      split; [constructor|]. intros H. contradiction.
  Qed.

  (* ---------------- the loop of Parser::parse *)

  Lemma decls_loop_ok fuel : forall p, (mu p < fuel)%nat -> pinv p -> p_mode p = MNone ->
    exists ds, decls_loop fuel p = Ok ds /\ Forall tdecl_P ds.
  Proof.
    induction fuel as [|f IH]; intros p Hf Hi Hm; [lia|].
    cbn [decls_loop]. destruct (at_kind TkEndOfFile p) eqn:K.
    - exists []. split; [reflexivity|constructor].
    - apply at_kind_false in K.
      destruct (parse_decl_ok p Hi Hm) as [ds [p' [E [Hs [Hm' [Hi' [Hd _]]]]]]]. rewrite E. cbn [bind fst snd].
      pose proof (steps_mu p p' K Hs) as Hmu.
      destruct (IH p') as [ds' [E' Hd']]; [lia|exact Hi'|exact Hm'|].
      rewrite E'. cbn [bind]. exists (ds ++ ds'). split; [reflexivity|]. apply Forall_app. split; assumption.
  Qed.

  Lemma parse_tokens_ok data : A (init data) -> exists ds, parse_tokens data = Ok ds /\ Forall tdecl_P ds.
  Proof.
    intros Ha. unfold parse_tokens.
    destruct (get_next_ok MNone (init data) Ha) as [p [E [Hs [Hm [_ Hi]]]]]. rewrite E. cbn [bind].
    apply decls_loop_ok; [|exact Hi|exact Hm].
    pose proof (mu_bound p) as Hb. destruct Hs as [Hle _]. unfold unread, init in Hle. cbn [l_rest] in Hle.
    unfold parse_fuel. unfold unread in Hb. lia.
  Qed.

End Inv.

(* ================================================================ parse_total *)

Definition any_state (s : lstate) : Prop := True.
Definition any_token (t : token) : Prop := True.

Lemma any_lex : forall m s t s', any_state s -> lex m s = Ok (t, s') -> any_state s' /\ any_token t.
Proof. intros. split; exact I. Qed.
Lemma any_empty : forall t, any_token t -> any_token (empty_string_of t).
Proof. intros. exact I. Qed.

(* for EVERY byte string the parser model terminates within its fuel: S (S (length data)) rounds of the loop of
   Parser::parse (every round consumes at least one token, every token but EndOfFile at least one byte), and
   S (S (number of unread bytes)) rounds of each inner loop *)
Theorem parse_tokens_total data : exists ds, parse_tokens data = Ok ds.
Proof.
  destruct (parse_tokens_ok any_state any_token any_lex any_empty data I) as [ds [E _]]. exists ds. exact E.
Qed.

Theorem parse_total data : exists ds, parse data = Ok ds.
Proof.
  unfold parse. destruct (parse_tokens_total data) as [ds E]. rewrite E. cbn [bind]. eexists. reflexivity.
Qed.

(* getNextNonCommentToken and skipPastEOL never run out of fuel, from any parser state *)
Theorem next_total p : exists p', next p = Ok p'.
Proof.
  destruct (next_ok any_state any_token any_lex p) as [p' [E _]]; [split; exact I|]. exists p'. exact E.
Qed.

Theorem skip_past_eol_total p : exists p', skip_past_eol p = Ok p'.
Proof.
  destruct (skip_past_eol_ok any_state any_token any_lex p) as [p' [E _]]; [split; exact I|]. exists p'. exact E.
Qed.

(* one declaration: never out of fuel; consumes input (strictly, unless it ends at EndOfFile); and leaves the lexer
   in mode None - the `assert(lexer.getMode() == Lexer::LexingMode::None)` at the head of the loop of parse() holds *)
Theorem parse_decl_total p : p_mode p = MNone ->
  exists ds p', parse_decl p = Ok (ds, p') /\ p_mode p' = MNone /\
    (unread (p_lex p') <= unread (p_lex p))%nat /\
    (cur_kind p' <> TkEndOfFile -> (unread (p_lex p') < unread (p_lex p))%nat).
Proof.
  intros Hm. destruct (parse_decl_ok any_state any_token any_lex any_empty p) as [ds [p' [E [[H1 H2] [Hm' _]]]]];
    [split; exact I|exact Hm|].
  exists ds, p'. auto.
Qed.

(* ================================================================ parse_tokens_in_bounds *)

(* the token lies inside the buffer *)
Definition in_buf (data : bytes) (t : token) : Prop := (tk_start t + tk_len t <= length data)%nat.

Lemma in_buf_lex data : forall m s t s', at_data data s -> lex m s = Ok (t, s') -> at_data data s' /\ in_buf data t.
Proof.
  intros m s t s' Ha E. destruct (lex_call_facts data m s t s' Ha E) as [Ha' [_ [Hp [Hle _]]]].
  split; [exact Ha'|]. unfold in_buf. lia.
Qed.

Lemma in_buf_empty data : forall t, in_buf data t -> in_buf data (empty_string_of t).
Proof. unfold in_buf, empty_string_of. intros t H. cbn [tk_start tk_len]. lia. Qed.

(* every Token the parser hands to an action - names, values, paths, and the `at` token of every error call - lies
   inside the buffer the parser was given *)
Theorem parse_tokens_in_buffer data ds : parse_tokens data = Ok ds -> Forall (tdecl_P (in_buf data)) ds.
Proof.
  intros E.
  destruct (parse_tokens_ok (at_data data) (in_buf data) (in_buf_lex data) (in_buf_empty data) data (at_data_init data))
    as [ds' [E' H]].
  rewrite E in E'. inversion E'. subst ds'. exact H.
Qed.

(* the text of a token inside the buffer is the slice [start, start + length) and has the token's length *)
Lemma tok_text_slice data t : tok_text data t = slice data (tk_start t) (tk_start t + tk_len t).
Proof. unfold tok_text, slice. replace (tk_start t + tk_len t - tk_start t)%nat with (tk_len t) by lia. reflexivity. Qed.

Lemma tok_text_length data t : in_buf data t -> length (tok_text data t) = tk_len t.
Proof.
  unfold in_buf, tok_text. intros H. rewrite firstn_length, skipn_length. lia.
Qed.

(* the byte strings an action receives *)
Definition bitem_texts (b : bitem) : list bytes :=
  match b with BBind n v => [n; v] | BPErr _ => [] end.
Definition decl_texts (d : decl) : list bytes :=
  match d with
  | DBinding n v => [n; v]
  | DDefault ps => ps
  | DInclude _ p => [p]
  | DBuild outs r ex im oo bs => r :: outs ++ ex ++ im ++ oo ++ flat_map bitem_texts bs
  | DPool n bs => n :: flat_map bitem_texts bs
  | DRule n bs => n :: flat_map bitem_texts bs
  | DPErr _ => []
  end.

Definition is_slice (data x : bytes) : Prop :=
  exists a b, (a <= b <= length data)%nat /\ x = slice data a b /\ length x = (b - a)%nat.

Lemma in_buf_is_slice data t : in_buf data t -> is_slice data (tok_text data t).
Proof.
  intros H. exists (tk_start t), (tk_start t + tk_len t)%nat. split; [unfold in_buf in H; lia|].
  split; [apply tok_text_slice|]. rewrite tok_text_length by exact H. lia.
Qed.

Lemma map_texts_slices data l x : Forall (in_buf data) l -> In x (map (tok_text data) l) -> is_slice data x.
Proof.
  intros H Hin. apply in_map_iff in Hin. destruct Hin as [t [<- Ht]]. apply in_buf_is_slice.
  rewrite Forall_forall in H. apply H. exact Ht.
Qed.

Lemma bitems_texts_slices data bs x : Forall (tbitem_P (in_buf data)) bs ->
  In x (flat_map bitem_texts (map (bitem_of data) bs)) -> is_slice data x.
Proof.
  induction bs as [|b bs IH]; intros H Hin; [contradiction|].
  inversion H as [|b' bs' Hb Hbs]; subst. cbn [map flat_map] in Hin. apply in_app_or in Hin. destruct Hin as [Hin|Hin].
  - destruct b as [n v|c a]; cbn in Hin; [|contradiction]. destruct Hb as [Hn Hv].
    destruct Hin as [<-|[<-|[]]]; apply in_buf_is_slice; assumption.
  - apply IH; assumption.
Qed.

Lemma decl_texts_slices data td x : tdecl_P (in_buf data) td -> In x (decl_texts (decl_of data td)) -> is_slice data x.
Proof.
  intros H Hin. destruct td as [n v|ps|i p|outs r ex im oo bs|n bs|n bs|c a]; cbn [decl_of decl_texts tdecl_P] in *.
  - destruct H as [Hn Hv]. destruct Hin as [<-|[<-|[]]]; apply in_buf_is_slice; assumption.
  - eapply map_texts_slices; [|exact Hin]; assumption.
  - destruct Hin as [<-|[]]. apply in_buf_is_slice. exact H.
  - destruct H as [Ho [Hr [He [Hi [Hq Hb]]]]]. destruct Hin as [<-|Hin]; [apply in_buf_is_slice; exact Hr|].
    apply in_app_or in Hin. destruct Hin as [Hin|Hin]; [eapply map_texts_slices; [|exact Hin]; assumption|].
    apply in_app_or in Hin. destruct Hin as [Hin|Hin]; [eapply map_texts_slices; [|exact Hin]; assumption|].
    apply in_app_or in Hin. destruct Hin as [Hin|Hin]; [eapply map_texts_slices; [|exact Hin]; assumption|].
    apply in_app_or in Hin. destruct Hin as [Hin|Hin]; [eapply map_texts_slices; [|exact Hin]; assumption|].
    eapply bitems_texts_slices; eassumption.
  - destruct H as [Hn Hb]. destruct Hin as [<-|Hin]; [apply in_buf_is_slice; exact Hn|].
    eapply bitems_texts_slices; eassumption.
  - destruct H as [Hn Hb]. destruct Hin as [<-|Hin]; [apply in_buf_is_slice; exact Hn|].
    eapply bitems_texts_slices; eassumption.
  - contradiction.
Qed.

(* parse_tokens_in_bounds: every token text handed to the actions (what NinjaEval's loader model receives) is a
   slice data[a, b) of the input, a <= b <= length data, of length b - a *)
Theorem parse_tokens_in_bounds data ds d x : parse data = Ok ds -> In d ds -> In x (decl_texts d) -> is_slice data x.
Proof.
  unfold parse. intros E Hd Hx. destruct (parse_tokens data) as [tds|] eqn:Et; [|discriminate].
  cbn [bind] in E. inversion E. subst ds. apply in_map_iff in Hd. destruct Hd as [td [<- Htd]].
  pose proof (parse_tokens_in_buffer data tds Et) as H. rewrite Forall_forall in H.
  eapply decl_texts_slices; [apply H; exact Htd|exact Hx].
Qed.

(* ================================================================ the recovery rule: skipPastEOL *)

(* lexer.lex(tok) in mode m, again while the token is a Comment: from lexer state s to token t, lexer state s' *)
Inductive lex_past_comments (m : mode) : lstate -> token -> lstate -> Prop :=
| lpc_token s t s' : lex m s = Ok (t, s') -> tk_kind t <> TkComment -> lex_past_comments m s t s'
| lpc_comment s t s1 t' s' : lex m s = Ok (t, s1) -> tk_kind t = TkComment -> lex_past_comments m s1 t' s' ->
    lex_past_comments m s t' s'.

(* while the current token is neither Newline nor EndOfFile: lexer.lex(tok) in mode m (comments are tokens here) *)
Inductive lex_to_eol (m : mode) : token -> lstate -> token -> lstate -> Prop :=
| lte_stop t s : is_eol (tk_kind t) -> lex_to_eol m t s t s
| lte_step t s t1 s1 t' s' : ~ is_eol (tk_kind t) -> lex m s = Ok (t1, s1) -> lex_to_eol m t1 s1 t' s' ->
    lex_to_eol m t s t' s'.

Lemma next_loop_rel fuel : forall m s t s', next_loop fuel m s = Ok (t, s') -> lex_past_comments m s t s'.
Proof.
  induction fuel as [|f IH]; intros m s t s' E; [discriminate|].
  cbn [next_loop] in E. destruct (lex m s) as [[t1 s1]|] eqn:El; [|discriminate].
  destruct (kind_eqb (tk_kind t1) TkComment) eqn:K.
  - apply kind_eqb_eq in K. eapply lpc_comment; [exact El|exact K|]. apply IH. exact E.
  - apply kind_eqb_neq in K. inversion E. subst. apply lpc_token; assumption.
Qed.

Lemma skip_loop_rel fuel : forall m t s t' s', skip_loop fuel m t s = Ok (t', s') -> lex_to_eol m t s t' s'.
Proof.
  induction fuel as [|f IH]; intros m t s t' s' E; [discriminate|].
  cbn [skip_loop] in E. destruct (kind_eqb (tk_kind t) TkNewline || kind_eqb (tk_kind t) TkEndOfFile) eqn:K.
  - apply eol_test in K. inversion E. subst. apply lte_stop. exact K.
  - assert (Hn : ~ is_eol (tk_kind t)) by (intros H; apply eol_test in H; congruence).
    destruct (lex m s) as [[t1 s1]|] eqn:El; [|discriminate].
    eapply lte_step; [exact Hn|exact El|]. apply IH. exact E.
Qed.

Lemma next_rel p p' : next p = Ok p' ->
  lex_past_comments (p_mode p) (p_lex p) (p_tok p') (p_lex p') /\ p_mode p' = p_mode p.
Proof.
  unfold next, get_next. intros E.
  destruct (next_loop (S (length (l_rest (p_lex p)))) (p_mode p) (p_lex p)) as [[t s']|] eqn:En; [|discriminate].
  cbn [bind fst snd] in E. inversion E. subst p'. cbn [p_tok p_lex p_mode]. split; [|reflexivity].
  eapply next_loop_rel. exact En.
Qed.

(* skipPastEOL: the tokens up to the next Newline (or EndOfFile) are dropped, lexed in the CURRENT mode and with
   comments as ordinary tokens; then that Newline is consumed: the new current token is the first one behind it
   that is not a comment.  The mode is unchanged. *)
Theorem skip_past_eol_rule p p' : skip_past_eol p = Ok p' ->
  exists t s, lex_to_eol (p_mode p) (p_tok p) (p_lex p) t s /\
              lex_past_comments (p_mode p) s (p_tok p') (p_lex p') /\ p_mode p' = p_mode p.
Proof.
  unfold skip_past_eol. intros E.
  destruct (skip_loop (S (S (length (l_rest (p_lex p))))) (p_mode p) (p_tok p) (p_lex p)) as [[t s]|] eqn:Es; [|discriminate].
  cbn [bind fst snd] in E. apply next_rel in E. cbn [p_mode p_lex] in E. destruct E as [E1 E2].
  exists t, s. split; [eapply skip_loop_rel; exact Es|]. split; assumption.
Qed.

(* both relations are functional, so with [skip_past_eol_total] the rule determines the state after recovery *)
Lemma lex_past_comments_det m s t1 s1 : lex_past_comments m s t1 s1 ->
  forall t2 s2, lex_past_comments m s t2 s2 -> t1 = t2 /\ s1 = s2.
Proof.
  induction 1 as [s t s' E K|s t sm t' s' E K H IH]; intros t2 s2 H2.
  - inversion H2 as [s0 t0 s0' E0 K0|s0 t0 sm0 t0' s0' E0 K0 H0]; subst; rewrite E in E0; inversion E0; subst.
    + split; reflexivity.
    + contradiction.
  - inversion H2 as [s0 t0 s0' E0 K0|s0 t0 sm0 t0' s0' E0 K0 H0]; subst; rewrite E in E0; inversion E0; subst.
    + contradiction.
    + apply IH. exact H0.
Qed.

Lemma lex_to_eol_det m t s t1 s1 : lex_to_eol m t s t1 s1 ->
  forall t2 s2, lex_to_eol m t s t2 s2 -> t1 = t2 /\ s1 = s2.
Proof.
  induction 1 as [t s K|t s ta sa t' s' K E H IH]; intros t2 s2 H2.
  - inversion H2 as [t0 s0 K0|t0 s0 tb sb t0' s0' K0 E0 H0]; subst; [split; reflexivity|contradiction].
  - inversion H2 as [t0 s0 K0|t0 s0 tb sb t0' s0' K0 E0 H0]; subst; [contradiction|].
    rewrite E in E0. inversion E0. subst. apply IH. exact H0.
Qed.

Theorem skip_past_eol_exact p t s t' s' :
  lex_to_eol (p_mode p) (p_tok p) (p_lex p) t s -> lex_past_comments (p_mode p) s t' s' ->
  skip_past_eol p = Ok (mkP t' s' (p_mode p)).
Proof.
  intros H1 H2. destruct (skip_past_eol_total p) as [p' E]. rewrite E.
  destruct (skip_past_eol_rule p p' E) as [ta [sa [Ha [Hb Hm]]]].
  destruct (lex_to_eol_det _ _ _ _ _ H1 _ _ Ha) as [-> ->].
  destruct (lex_past_comments_det _ _ _ _ H2 _ _ Hb) as [Ht Hs].
  destruct p' as [pt pl pm]. cbn [p_tok p_lex p_mode] in *. subst. reflexivity.
Qed.

(* ================================================================ parse_error_or_decl *)

Lemma next_mode p p' : next p = Ok p' -> p_mode p' = p_mode p.
Proof. intros E. apply next_rel in E. apply E. Qed.

Lemma fail_skip_inv {X : Type} (mk : N -> token -> X) c p x p' :
  fail_skip mk c p = Ok (x, p') -> x = mk c (p_tok p) /\ skip_past_eol p = Ok p'.
Proof.
  unfold fail_skip. destruct (skip_past_eol p) as [p1|]; [|discriminate]. cbn [bind]. intros E. inversion E. auto.
Qed.

(* take apart a hypothesis of the form (do x <- r; k) = Ok _ / (if c then _ else _) = Ok _ *)
Ltac open_do H :=
  match type of H with
  | bind ?r _ = Ok _ => let E := fresh "E" in destruct r eqn:E; cbn [bind] in H; [|discriminate H]
  | (if ?c then _ else _) = Ok _ => let K := fresh "K" in destruct c eqn:K
  | (let _ := _ in _) = Ok _ => cbv zeta in H
  end.

(* the state at which an error was raised: current token = the `at` token, lexing mode None *)
Definition raised_at (pe : pstate) (a : token) : Prop := p_tok pe = a /\ p_mode pe = MNone.

(* a binding that fails reports ONE error and recovers by skipPastEOL from the offending token, in mode None *)
Theorem binding_error_recovery p c a p' : parse_binding_internal p = Ok (BRErr c a, p') ->
  exists pe, raised_at pe a /\ skip_past_eol pe = Ok p'.
Proof.
  unfold parse_binding_internal. intros H.
  open_do H. { apply fail_skip_inv in H. destruct H as [Hx Hs]. inversion Hx. subst. eexists. split; [|exact Hs]. split; reflexivity. }
  open_do H. open_do H.
  { apply fail_skip_inv in H. destruct H as [Hx Hs]. inversion Hx. subst. eexists. split; [|exact Hs]. split; reflexivity. }
  open_do H. cbv zeta in H. open_do H. { open_do H. discriminate H. }
  open_do H. { apply fail_skip_inv in H. destruct H as [Hx Hs]. inversion Hx. subst. eexists. split; [|exact Hs]. split; reflexivity. }
  open_do H. open_do H. { open_do H. discriminate H. }
  apply fail_skip_inv in H. destruct H as [Hx Hs]. inversion Hx. subst. eexists. split; [|exact Hs]. split; [reflexivity|].
  apply next_mode in E1. rewrite E1. reflexivity.
Qed.

Lemma binding_decl_recovery p c a p' : parse_binding_decl p = Ok (TDPErr c a, p') ->
  exists pe, raised_at pe a /\ skip_past_eol pe = Ok p'.
Proof.
  unfold parse_binding_decl. intros H. destruct (parse_binding_internal p) as [[r p1]|] eqn:E; [|discriminate].
  cbn [bind fst snd] in H. destruct r as [n v|c0 a0]; cbn [tdecl_of_bres] in H; [discriminate|]. inversion H. subst.
  eapply binding_error_recovery. exact E.
Qed.

Lemma default_decl_recovery p c a p' : parse_default_decl p = Ok (TDPErr c a, p') ->
  exists pe, raised_at pe a /\ skip_past_eol pe = Ok p'.
Proof.
  unfold parse_default_decl. intros H. open_do H.
  match type of H with bind ?r _ = _ => destruct r as [[l pr]|] eqn:Er; [|discriminate] end.
  cbn [bind fst snd] in H. destruct l as [|t0 l].
  - apply fail_skip_inv in H. destruct H as [Hx Hs]. inversion Hx. subst. eexists. split; [|exact Hs]. split; reflexivity.
  - open_do H. { open_do H. discriminate H. }
    apply fail_skip_inv in H. destruct H as [Hx Hs]. inversion Hx. subst. eexists. split; [|exact Hs]. split; reflexivity.
Qed.

Lemma include_decl_recovery p c a p' : parse_include_decl p = Ok (TDPErr c a, p') ->
  exists pe, raised_at pe a /\ skip_past_eol pe = Ok p'.
Proof.
  unfold parse_include_decl. intros H. cbv zeta in H. open_do H. open_do H.
  { apply fail_skip_inv in H. destruct H as [Hx Hs]. inversion Hx. subst. eexists. split; [|exact Hs]. split; reflexivity. }
  open_do H. open_do H. { open_do H. discriminate H. }
  apply fail_skip_inv in H. destruct H as [Hx Hs]. inversion Hx. subst. eexists. split; [|exact Hs]. split; [reflexivity|].
  apply next_mode in E0. rewrite E0. reflexivity.
Qed.

(* the recovery of a failed build / pool / rule specifier: skipPastEOL, again while the line that follows is indented *)
Inductive skip_lines : pstate -> pstate -> Prop :=
| sl_last p p1 : skip_past_eol p = Ok p1 -> cur_kind p1 <> TkIndentation -> skip_lines p p1
| sl_more p p1 p' : skip_past_eol p = Ok p1 -> cur_kind p1 = TkIndentation -> skip_lines p1 p' -> skip_lines p p'.

Lemma fail_loop_rel fuel : forall p p', fail_loop fuel p = Ok p' -> skip_lines p p'.
Proof.
  induction fuel as [|f IH]; intros p p' H; [discriminate|].
  cbn [fail_loop] in H. destruct (skip_past_eol p) as [p1|] eqn:E; [|discriminate]. cbn [bind] in H.
  destruct (at_kind TkIndentation p1) eqn:K.
  - apply at_kind_true in K. eapply sl_more; [exact E|exact K|]. apply IH. exact H.
  - apply at_kind_false in K. inversion H. subst. apply sl_last; assumption.
Qed.

Lemma build_specifier_error p c a p1 : parse_build_specifier p = Ok (SErr c a, p1) -> raised_at p1 a.
Proof.
  unfold parse_build_specifier. intros H. open_do H. open_do H. { inversion H. split; reflexivity. }
  match type of H with bind ?r _ = _ => destruct r as [[outs p2]|] eqn:Eo; [|discriminate] end.
  cbn [bind fst snd] in H. open_do H. { inversion H. split; reflexivity. }
  open_do H. cbv zeta in H. open_do H. { inversion H. split; reflexivity. }
  open_do H.
  match type of H with bind ?r _ = _ => destruct r as [[ex p6]|] eqn:Ee; [|discriminate] end. cbn [bind fst snd] in H.
  match type of H with bind ?r _ = _ => destruct r as [[im p7]|] eqn:Ei; [|discriminate] end. cbn [bind fst snd] in H.
  match type of H with bind ?r _ = _ => destruct r as [[oo p8]|] eqn:Eq; [|discriminate] end. cbn [bind fst snd] in H.
  open_do H. { open_do H. discriminate H. }
  inversion H. split; reflexivity.
Qed.

Lemma name_specifier_error mk code p c a p1 : (forall n c a, mk n <> SErr c a) ->
  parse_name_specifier mk code p = Ok (SErr c a, p1) -> raised_at p1 a.
Proof.
  unfold parse_name_specifier. intros Hmk H. open_do H. cbv zeta in H. open_do H. { inversion H. split; reflexivity. }
  open_do H. open_do H.
  - open_do H. inversion H. exfalso. eapply Hmk. eassumption.
  - inversion H. subst. split; [reflexivity|]. apply next_mode in E0. rewrite E0. reflexivity.
Qed.

Lemma block_decl_recovery p c a p' : parse_block_decl p = Ok (TDPErr c a, p') ->
  exists pe, raised_at pe a /\ skip_lines pe p'.
Proof.
  unfold parse_block_decl. intros H.
  match type of H with bind ?r _ = _ => destruct r as [[sr p1]|] eqn:Es; [|discriminate] end. cbn [bind fst snd] in H.
  destruct sr as [rule outs ex im oo|n|n|c0 a0]; try (open_do H; discriminate H).
  open_do H. inversion H. subst. exists p1. split; [|eapply fail_loop_rel; eassumption].
  destruct (at_kind TkKWBuild p); [eapply build_specifier_error; exact Es|].
  destruct (at_kind TkKWPool p); eapply name_specifier_error; try exact Es; intros; discriminate.
Qed.

Definition is_block_kw (k : kind) : bool :=
  match k with TkKWBuild | TkKWRule | TkKWPool => true | _ => false end.

(* parse_error_or_decl: no statement is dropped silently.  One parseDecl call on a blank line (current token
   Newline) makes no action call and just consumes the Newline; on ANY other token it makes exactly one top-level
   call: a declaration (a build / pool / rule block carries its indented lines, each a binding or an error) or an
   error.  After a top-level error the parser has recovered from the state [pe] at which the error was raised (current
   token = the token the error points at, lexing mode None) by exactly skipPastEOL ([skip_past_eol_rule]) - for a
   failed build / pool / rule specifier: skipPastEOL repeated while the following line is indented. *)
Theorem parse_error_or_decl p ds p' : p_mode p = MNone -> parse_decl p = Ok (ds, p') ->
  (cur_kind p = TkNewline /\ ds = [] /\ next p = Ok p') \/
  (cur_kind p <> TkNewline /\ exists d, ds = [d] /\
     forall c a, d = TDPErr c a ->
       exists pe, raised_at pe a /\
         if is_block_kw (cur_kind p) then skip_lines pe p' else skip_past_eol pe = Ok p').
Proof.
  intros Hm H. unfold parse_decl in H.
  destruct (cur_kind p) eqn:K;
    try (match type of H with bind ?r _ = _ => destruct r as [[d p1]|] eqn:Er; [|discriminate] end;
         cbn [bind fst snd] in H; inversion H; subst; right; split; [discriminate|]; exists d; split; [reflexivity|];
         intros c a ->; cbn [is_block_kw];
         first [ eapply block_decl_recovery; exact Er
               | eapply default_decl_recovery; exact Er
               | eapply include_decl_recovery; exact Er
               | eapply binding_decl_recovery; exact Er
               | apply fail_skip_inv in Er; destruct Er as [Hx Hs]; inversion Hx; subst; exists p; split; [split; [reflexivity|exact Hm]|exact Hs] ]).
  left. destruct (next p) as [p1|] eqn:En; [|discriminate]. cbn [bind] in H. inversion H. subst. auto.
Qed.

(* the same for the indented lines of a block: a blank one is skipped, ANY other yields exactly one item - the binding
   or the error of parseBindingInternal (which recovers by skipPastEOL: [binding_error_recovery]) *)
Theorem block_line_item f p l p' : block_loop (S f) p = Ok (l, p') -> cur_kind p = TkIndentation ->
  exists p1, next (set_mode MIdentifierSpecific p) = Ok p1 /\
    ((cur_kind p1 = TkNewline /\ exists p2, next (set_mode MNone p1) = Ok p2 /\ block_loop f p2 = Ok (l, p')) \/
     (cur_kind p1 <> TkNewline /\ exists r p2 l', parse_binding_internal p1 = Ok (r, p2) /\
        l = tbitem_of_bres r :: l' /\ block_loop f p2 = Ok (l', p'))).
Proof.
  intros H K. cbn [block_loop] in H. apply at_kind_true in K. rewrite K in H.
  destruct (next (set_mode MIdentifierSpecific p)) as [p1|] eqn:E1; [|discriminate]. cbn [bind] in H.
  exists p1. split; [reflexivity|]. destruct (at_kind TkNewline p1) eqn:K1.
  - apply at_kind_true in K1. left. split; [exact K1|].
    destruct (next (set_mode MNone p1)) as [p2|] eqn:E2; [|discriminate]. cbn [bind] in H. exists p2. auto.
  - apply at_kind_false in K1. right. split; [exact K1|].
    destruct (parse_binding_internal p1) as [[r p2]|] eqn:E2; [|discriminate]. cbn [bind fst snd] in H.
    destruct (block_loop f p2) as [[l' p3]|] eqn:E3; [|discriminate]. cbn [bind fst snd] in H. inversion H. subst.
    exists r, p2, l'. auto.
Qed.

(* a block ends at the first line that is not indented *)
Theorem block_loop_stop f p : cur_kind p <> TkIndentation -> block_loop (S f) p = Ok ([], p).
Proof. intros K. cbn [block_loop]. apply at_kind_false in K. rewrite K. reflexivity. Qed.

(* ================================================================ parse_load_total *)

Lemma parse_files_total raw : exists fs, parse_files raw = Ok fs /\ map fst fs = map fst raw.
Proof.
  induction raw as [|[path data] r IH].
  - exists []. split; reflexivity.
  - cbn [parse_files]. destruct (parse_total data) as [ds E]. rewrite E. cbn [bind].
    destruct IH as [fs [E' Hk]]. rewrite E'. cbn [bind]. exists ((path, ds) :: fs). split; [reflexivity|].
    cbn [map fst]. rewrite Hk. reflexivity.
Qed.

(* Parser + loader: for ANY byte strings as files (any paths, any working directory, any main file name), with
   fuel 64 (the include bound of the code, enterFile) or more, loading the parsed main file never runs out of fuel:
   neither the parser (every file of the map), nor the include / subninja recursion (bounded by the depth and the
   recursive-include guards of the loader), nor a rule-variable expansion *)
Theorem parse_load_total fuel wd raw main : (max_include_depth <= fuel)%nat ->
  exists m, parse_load fuel wd raw main = Ok m /\ has_out_of_fuel (mf_errors m) = false.
Proof.
  intros Hf. unfold parse_load. destruct (parse_files_total raw) as [fs [E _]]. rewrite E. cbn [bind].
  eexists. split; [reflexivity|]. apply eval_total. exact Hf.
Qed.

(* ================================================================ non-vacuity examples
   (the manifests of /repo/tests/Ninja/Parser are in Parse/NinjaParseProofsEx.v) *)

(* pool = bar \n x = $ \n 1 # c \n build a: cc b \n   y \n   z = 2 \n *)
Definition ex_src : bytes :=
  [112; 111; 111; 108; 32; 61; 32; 98; 97; 114; 10; 120; 32; 61; 32; 36; 10; 32; 49; 32; 35; 32; 99; 10;
   98; 117; 105; 108; 100; 32; 97; 58; 32; 99; 99; 32; 98; 10; 32; 32; 121; 10; 32; 32; 122; 32; 61; 32; 50; 10].

(* parse_total: a failed pool specifier (the keyword pool is not a variable name), a binding whose value starts behind
   a line continuation and keeps its "# c", a build block with a bad line (error 3) and a binding *)
Example ex_parse :
  parse ex_src = Ok [DPErr 11; DBinding [120] [49; 32; 35; 32; 99];
                     DBuild [[97]] [99; 99] [[98]] [] [] [BPErr 3; BBind [122] [50]]].
Proof. vm_compute. reflexivity. Qed.

(* parse_tokens_in_buffer: the error points at the '=' (offset 5), the value of x is the 5 bytes from offset 18 *)
Example ex_parse_tokens : exists rest,
  parse_tokens ex_src = Ok (TDPErr 11 (mkTok TkEquals 5 1 1 5) ::
                            TDBinding (mkTok TkIdentifier 11 1 2 0) (mkTok TkString 18 5 3 1) :: rest).
Proof. eexists. vm_compute. reflexivity. Qed.

(* parse_tokens_in_bounds: its hypotheses are met, and its conclusion is the slice [18, 23) *)
Example ex_in_bounds : is_slice ex_src [49; 32; 35; 32; 99].
Proof.
  eapply (parse_tokens_in_bounds ex_src _ (DBinding [120] [49; 32; 35; 32; 99])); [exact ex_parse| |].
  - right. left. reflexivity.
  - right. left. reflexivity.
Qed.

Example ex_in_bounds_witness : [49; 32; 35; 32; 99] = slice ex_src 18 23.
Proof. reflexivity. Qed.

(* parse_error_or_decl / skip_past_eol_rule: the first parseDecl call reports error 11 at the '=' and recovers to
   the identifier x at the start of the next line; the lexing mode is None before and after *)
Example ex_error_recovery : exists p ds p',
  get_next MNone (init ex_src) = Ok p /\ p_mode p = MNone /\ cur_kind p = TkKWPool /\
  parse_decl p = Ok (ds, p') /\ ds = [TDPErr 11 (mkTok TkEquals 5 1 1 5)] /\
  p_tok p' = mkTok TkIdentifier 11 1 2 0 /\ p_mode p' = MNone.
Proof.
  eexists. eexists. eexists. split; [vm_compute; reflexivity|]. split; [reflexivity|]. split; [reflexivity|].
  split; [vm_compute; reflexivity|]. split; [reflexivity|]. split; reflexivity.
Qed.

(* skipPastEOL from the '=' of the first line, in mode None: "bar" and the Newline are dropped *)
Example ex_skip : exists p', 
  skip_past_eol (mkP (mkTok TkEquals 5 1 1 5) (mkL (skipn 6 ex_src) 6 1 6) MNone) = Ok p' /\
  p_tok p' = mkTok TkIdentifier 11 1 2 0.
Proof. eexists. split; [vm_compute; reflexivity|reflexivity]. Qed.

(* parse_load_total: two files as bytes; /w/build.ninja = rule cc (command = cc $in -o $out), build a.o: cc a.c,
   include inc.ninja, build all: phony a.o $x;  /w/inc.ninja = x = b.o.  Parsed and loaded by the models: no error,
   the command of a.o is "cc a.c -o a.o", the inputs of all are a.o and (through the included binding) b.o *)
Definition ex_main : bytes :=
  [114; 117; 108; 101; 32; 99; 99; 10; 32; 32; 99; 111; 109; 109; 97; 110; 100; 32; 61; 32; 99; 99; 32; 36; 105; 110; 32;
   45; 111; 32; 36; 111; 117; 116; 10; 98; 117; 105; 108; 100; 32; 97; 46; 111; 58; 32; 99; 99; 32; 97; 46; 99; 10;
   105; 110; 99; 108; 117; 100; 101; 32; 105; 110; 99; 46; 110; 105; 110; 106; 97; 10;
   98; 117; 105; 108; 100; 32; 97; 108; 108; 58; 32; 112; 104; 111; 110; 121; 32; 97; 46; 111; 32; 36; 120; 10].
Definition ex_inc : bytes := [120; 32; 61; 32; 98; 46; 111; 10].
Definition ex_raw : raw_files :=
  [([47; 119; 47; 98; 117; 105; 108; 100; 46; 110; 105; 110; 106; 97], ex_main);
   ([47; 119; 47; 105; 110; 99; 46; 110; 105; 110; 106; 97], ex_inc)].

Example ex_parse_load :
  (do m <- parse_load 64 [47; 119] ex_raw [98; 117; 105; 108; 100; 46; 110; 105; 110; 106; 97];
   Ok (mf_loaded m, map c_command (mf_commands m), map (fun c => map n_screen (c_explicit c)) (mf_commands m), mf_errors m))
  = Ok (true, [[99; 99; 32; 97; 46; 99; 32; 45; 111; 32; 97; 46; 111]; []],
        [[[97; 46; 99]]; [[97; 46; 111]; [98; 46; 111]]], []).
Proof. vm_compute. reflexivity. Qed.

(* a file that includes itself: the parser and the loader's recursive-include guard terminate, error reported *)
Example ex_self_include :
  (do m <- parse_load 64 [47; 119]
             [([47; 119; 47; 98; 117; 105; 108; 100; 46; 110; 105; 110; 106; 97],
               [105; 110; 99; 108; 117; 100; 101; 32; 98; 117; 105; 108; 100; 46; 110; 105; 110; 106; 97; 10])]
             [98; 117; 105; 108; 100; 46; 110; 105; 110; 106; 97];
   Ok (mf_errors m)) = Ok [ERecursiveInclude].
Proof. vm_compute. reflexivity. Qed.

(* binding_error_recovery: the indented line "y" (no '='): error 3 at the Newline token, recovery by skipPastEOL *)
Example ex_binding_error : exists p a p',
  get_next MIdentifierSpecific (init [121; 10; 32; 32; 122; 32; 61; 32; 50; 10]) = Ok p /\
  parse_binding_internal p = Ok (BRErr 3 a, p') /\ tk_kind a = TkNewline /\ cur_kind p' = TkIndentation.
Proof.
  eexists. eexists. eexists. split; [vm_compute; reflexivity|]. split; [vm_compute; reflexivity|]. split; reflexivity.
Qed.

(* block_line_item: the two indented lines "  y" and "  z = 2" give one item each *)
Example ex_block_items : exists p f l p',
  get_next MNone (init [32; 32; 121; 10; 32; 32; 122; 32; 61; 32; 50; 10]) = Ok p /\ cur_kind p = TkIndentation /\
  block_loop (S f) p = Ok (l, p') /\
  map (bitem_of [32; 32; 121; 10; 32; 32; 122; 32; 61; 32; 50; 10]) l = [BPErr 3; BBind [122] [50]] /\
  cur_kind p' = TkEndOfFile.
Proof.
  eexists. exists 5%nat. eexists. eexists. split; [vm_compute; reflexivity|]. split; [reflexivity|].
  split; [vm_compute; reflexivity|]. split; reflexivity.
Qed.

(* skip_past_eol_exact: its two premises at the state of [ex_skip] *)
Example ex_skip_exact : exists t s t' s',
  lex_to_eol MNone (mkTok TkEquals 5 1 1 5) (mkL (skipn 6 ex_src) 6 1 6) t s /\
  lex_past_comments MNone s t' s' /\ tk_kind t = TkNewline /\ t' = mkTok TkIdentifier 11 1 2 0.
Proof.
  destruct ex_skip as [p' [E Ht]]. destruct (skip_past_eol_rule _ _ E) as [t [s [H1 [H2 _]]]].
  cbn [p_mode p_tok p_lex] in H1, H2. exists t, s, (p_tok p'), (p_lex p'). split; [exact H1|]. split; [exact H2|].
  split; [|exact Ht].
  inversion H1 as [t0 s0 K|t0 s0 t1 s1 t2 s2 K E1 H3]; subst.
  - destruct K as [K|K]; discriminate K.
  - vm_compute in E1. inversion E1. subst t1 s1. clear E1.
    inversion H3 as [t0 s0 K2|t0 s0 t1 s1 t2 s2 K2 E2 H4]; subst.
    + destruct K2 as [K2|K2]; discriminate K2.
    + vm_compute in E2. inversion E2. subst t1 s1. clear E2.
      inversion H4 as [t0 s0 K3|t0 s0 t1 s1 t2 s2 K3 E3 H5]; subst; [reflexivity|].
      exfalso. apply K3. left. reflexivity.
Qed.
