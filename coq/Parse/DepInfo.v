(* Model of core::DependencyInfoParser (lib/Core/DependencyInfoParser.cpp, the CURRENT source) and of a writer
   of the ld64 "dependency info" format:  a sequence of records  <opcode byte> <NUL-terminated operand>,
   the first of which is the version record (opcode 0x00).  Definitions only (proofs: DepInfoProofs.v).

   Cursor model as in MakeDeps.v: `cur` is the remaining suffix, position = length data - length suffix.
   The operand scan  `while ( *cur != 0 ) ++cur;`  has no bounds test of its own in the C++ (it relies on the
   check that the buffer ends with NUL): in the model a scan that runs off the suffix yields the explicit
   event DOverRead, which DepInfoProofs.di_parse_total proves unreachable for every input. *)
From LLB Require Import Base.Bytes.
Local Open Scope N_scope.

Inductive di_event :=
| Version (s : bytes)
| Input (s : bytes)
| Missing (s : bytes)
| Output (s : bytes)
| DErr (code : N) (pos : N)   (* 1 "missing null terminator", 2 "missing version record", 3 "empty operand",
                                 4 "invalid duplicate version", 5 "unknown opcode in file", 6 "missing operand" *)
| DOverRead                   (* a read at or beyond `end` *)
| DOutOfFuel.

(* data.endswith(StringRef("\0", 1)) *)
Definition ends_with_nul (data : bytes) : bool := last data 1 =? 0.

(* while ( *cur != 0 ) ++cur;  operandEnd = cur; ++cur;   -> (operand, cursor after the NUL) *)
Fixpoint scan_operand (l : bytes) : option (bytes * bytes) :=
  match l with
  | [] => None
  | c :: r =>
    if c =? 0 then Some ([], r)
    else match scan_operand r with
         | Some (s, rest) => Some (c :: s, rest)
         | None => None
         end
  end.

(* the record loop `while (cur != end)` *)
Fixpoint di_loop (fuel : nat) (dlen : nat) (cur : bytes) : list di_event :=
  match fuel with
  | O => [DOutOfFuel]
  | S f =>
    match cur with
    | [] => []
    | op :: r =>
      let pos := N.of_nat (dlen - length cur) in          (* opcodeStart - data.data() *)
      match r with
      | [] => [DErr 6 pos]                                (* if (cur == end) { error("missing operand"); break; } *)
      | _ :: _ =>
        match scan_operand r with
        | None => [DOverRead]
        | Some (operand, rest) =>
          match operand with
          | [] => [DErr 3 pos]                            (* error("empty operand"); break; (leaves the loop) *)
          | _ :: _ =>
            (* the `break`s inside the switch only leave the switch: the loop goes on after these errors *)
            (if op =? 0 then (if Nat.eqb (length cur) dlen then Version operand else DErr 4 pos)
             else if op =? 16 then Input operand
             else if op =? 17 then Missing operand
             else if op =? 64 then Output operand
             else DErr 5 pos) :: di_loop f dlen rest
          end
        end
      end
    end
  end.

(* DependencyInfoParser(data, actions).parse(): the sequence of callbacks *)
Definition di_parse (data : bytes) : list di_event :=
  if negb (ends_with_nul data) then [DErr 1 (N.of_nat (length data))]
  else if negb (hd 1 data =? 0) then [DErr 2 0]           (* data[0]: data is non-empty here *)
  else di_loop (S (length data)) (length data) data.

Definition di_inputs (evs : list di_event) : list bytes :=
  flat_map (fun e => match e with Input s => [s] | _ => [] end) evs.

Definition di_has_error (evs : list di_event) : bool :=
  existsb (fun e => match e with DErr _ _ => true | DOverRead => true | DOutOfFuel => true | _ => false end) evs.

(* ---------- writer ---------- *)

Inductive di_kind := KInput | KMissing | KOutput.

Definition di_opcode (k : di_kind) : byte :=
  match k with KInput => 16 | KMissing => 17 | KOutput => 64 end.

Definition di_record (op : byte) (s : bytes) : bytes := op :: s ++ [0].

Definition di_write (version : bytes) (recs : list (di_kind * bytes)) : bytes :=
  di_record 0 version ++ flat_map (fun r => di_record (di_opcode (fst r)) (snd r)) recs.

Definition di_event_of (r : di_kind * bytes) : di_event :=
  match fst r with KInput => Input (snd r) | KMissing => Missing (snd r) | KOutput => Output (snd r) end.

(* operands the format can express: non-empty, NUL-free *)
Definition wf_operand (s : bytes) : bool :=
  match s with [] => false | _ :: _ => forallb (fun c => negb (c =? 0)) s end.
