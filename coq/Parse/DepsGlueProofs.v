(* Proofs about the glue between the dependency-file parsers and the build system (Parse/DepsGlue.v):
   any reported error fails the command; every dependency word becomes the key of an absolute path. *)
From LLB Require Import Base.Bytes Base.BytesFacts Parse.MakeDeps Parse.DepInfo Parse.DepsGlue
  Parse.MakeDepsProofs Parse.DepInfoProofs.
Local Open Scope N_scope.

(* ---------- success flag ---------- *)

(* does the parser report an error (or does the model leave its fuel / the buffer) on this file *)
Definition file_has_error (style : deps_style) (data : bytes) : bool :=
  match style with
  | StyleUnused => true
  | StyleMakefile => md_has_error (md_parse false data)
  | StyleMakefileIgnoringSubsequent => md_has_error (md_parse true data)
  | StyleDependencyInfo => di_has_error (di_parse data)
  end.

Definition file_ok (style : deps_style) (f : option bytes) : bool :=
  match f with None => false | Some data => negb (file_has_error style data) end.

Lemma process_one_ok style cwd wd data :
  snd (process_one style cwd wd data) = negb (file_has_error style data).
Proof. destruct style; reflexivity. Qed.

Lemma process_files_ok style cwd wd files :
  snd (process_files style cwd wd files) = forallb (file_ok style) files.
Proof.
  induction files as [|f files IH]; [reflexivity|].
  destruct f as [data|]; [|reflexivity].
  cbn [process_files forallb file_ok].
  pose proof (process_one_ok style cwd wd data) as H1.
  destruct (process_one style cwd wd data) as [keys ok]. cbn [snd] in H1. rewrite <- H1.
  destruct ok; [|reflexivity].
  destruct (process_files style cwd wd files) as [keys2 ok2]. cbn [snd andb] in *. exact IH.
Qed.

(* the command succeeds exactly when every dependency file could be read and parsed without any error *)
Theorem glue_result_spec : forall style cwd wd files,
  files <> [] ->
  (command_result style cwd wd files = CmdSucceeded <-> forallb (file_ok style) files = true).
Proof.
  intros style cwd wd files Hne. unfold command_result.
  destruct files as [|f files]; [congruence|].
  assert (E : snd (process_discovered style cwd wd (f :: files)) = forallb (file_ok style) (f :: files)).
  { destruct style; try apply process_files_ok.
    cbn [process_discovered snd forallb]. destruct f as [d|]; reflexivity. }
  rewrite E. destruct (forallb (file_ok style) (f :: files)); split; intros H; try reflexivity; discriminate.
Qed.

(* every dependency file of a command counts: the result is the CONJUNCTION over the files, and when all of them are
   read and parsed without error the discovered set is the UNION (concatenation, in order) of what each file names *)
Definition file_keys (style : deps_style) (cwd wd : bytes) (f : option bytes) : list bytes :=
  match f with Some data => fst (process_one style cwd wd data) | None => [] end.

Theorem glue_all_files_count : forall style cwd wd files,
  style <> StyleUnused ->
  snd (process_discovered style cwd wd files) = forallb (file_ok style) files /\
  (forallb (file_ok style) files = true ->
   fst (process_discovered style cwd wd files) = flat_map (file_keys style cwd wd) files).
Proof.
  intros style cwd wd files Hs.
  assert (E : process_discovered style cwd wd files = process_files style cwd wd files) by (destruct style; [congruence | | |]; reflexivity).
  rewrite E. split; [apply process_files_ok|]. clear E.
  induction files as [|f files IH]; [reflexivity|].
  destruct f as [data|]; [|discriminate].
  cbn [forallb file_ok process_files flat_map file_keys]. intros H. apply andb_true_iff in H. destruct H as [H1 H2].
  pose proof (process_one_ok style cwd wd data) as Ho. rewrite H1 in Ho.
  destruct (process_one style cwd wd data) as [keys ok]. cbn [fst snd] in *. rewrite Ho.
  specialize (IH H2). destruct (process_files style cwd wd files) as [keys2 ok2]. cbn [fst] in *. rewrite IH. reflexivity.
Qed.

Theorem glue_error_fails : forall style cwd wd files data,
  In (Some data) files -> file_has_error style data = true ->
  command_result style cwd wd files = CmdFailed.
Proof.
  intros style cwd wd files data Hin Herr.
  destruct (command_result style cwd wd files) eqn:E; [|reflexivity].
  assert (Hne : files <> []) by (intros ->; destruct Hin).
  apply (glue_result_spec style cwd wd files Hne) in E.
  rewrite forallb_forall in E. specialize (E _ Hin). cbn [file_ok] in E. rewrite Herr in E. discriminate.
Qed.

Theorem glue_unreadable_fails : forall style cwd wd files,
  In None files -> command_result style cwd wd files = CmdFailed.
Proof.
  intros style cwd wd files Hin.
  destruct (command_result style cwd wd files) eqn:E; [|reflexivity].
  assert (Hne : files <> []) by (intros ->; destruct Hin).
  apply (glue_result_spec style cwd wd files Hne) in E.
  rewrite forallb_forall in E. specialize (E _ Hin). discriminate.
Qed.

Lemma md_err_file_has_error ign data c p :
  In (Err c p) (md_parse ign data) ->
  file_has_error (if ign then StyleMakefileIgnoringSubsequent else StyleMakefile) data = true.
Proof.
  intros H. assert (E : md_has_error (md_parse ign data) = true).
  { unfold md_has_error. apply existsb_exists. exists (Err c p). split; [exact H | reflexivity]. }
  destruct ign; exact E.
Qed.

Lemma di_err_file_has_error data c p :
  In (DErr c p) (di_parse data) -> file_has_error StyleDependencyInfo data = true.
Proof.
  intros H. unfold file_has_error, di_has_error. apply existsb_exists. exists (DErr c p). split; [exact H | reflexivity].
Qed.

(* ---------- keys ---------- *)

Theorem glue_keys_makefile : forall cwd wd ign data,
  fst (process_makefile cwd wd ign data) = map (glue_path cwd wd) (md_deps (md_parse ign data)).
Proof. reflexivity. Qed.

Theorem glue_keys_depinfo : forall cwd wd data,
  fst (process_depinfo cwd wd data) = map (glue_path cwd wd) (di_inputs (di_parse data)).
Proof. reflexivity. Qed.

(* directories as they reach the glue: "/" or "/x..." (an absolute path that does not begin with two separators) *)
Definition simple_abs (d : bytes) : bool :=
  match d with
  | [a] => psep a
  | a :: c :: _ => psep a && negb (psep c)
  | [] => false
  end.

Definition join_dir (d w : bytes) : bytes := if last_is_sep d then d ++ w else d ++ 47 :: w.

Lemma root_name_nonsep_head p : head_sep p = false -> root_name p = [].
Proof.
  destruct p as [|a [|b [|c r]]]; try reflexivity. cbn [head_sep]. intros H. cbn [root_name]. rewrite H. reflexivity.
Qed.

Lemma root_name_simple d : simple_abs d = true -> root_name d = [].
Proof.
  destruct d as [|a [|b [|c r]]]; try reflexivity. cbn [simple_abs root_name]. intros H.
  apply andb_true_iff in H. destruct H as [Ha Hb]. apply negb_true_iff in Hb. rewrite Ha, Hb. reflexivity.
Qed.

Lemma simple_abs_head d : simple_abs d = true -> head_sep d = true.
Proof.
  destruct d as [|a [|b r]]; cbn [simple_abs head_sep]; [discriminate | tauto |].
  intros H. apply andb_true_iff in H. tauto.
Qed.

Lemma simple_abs_is_absolute d : simple_abs d = true -> is_absolute d = true.
Proof.
  intros H. unfold is_absolute, root_directory. rewrite (root_name_simple d H), (simple_abs_head d H). reflexivity.
Qed.

Lemma nonsep_head_not_absolute w : head_sep w = false -> is_absolute w = false.
Proof.
  intros H. unfold is_absolute, root_directory. rewrite (root_name_nonsep_head w H), H. reflexivity.
Qed.

Lemma strip_leading_seps_id w : head_sep w = false -> strip_leading_seps w = w.
Proof. destruct w as [|c r]; [reflexivity|]. cbn [head_sep strip_leading_seps]. intros ->. reflexivity. Qed.

Lemma path_append_join d w :
  d <> [] -> head_sep w = false -> path_append d w = join_dir d w.
Proof.
  intros Hd Hw. unfold path_append, join_dir.
  destruct (last_is_sep d); [rewrite (strip_leading_seps_id w Hw); reflexivity|].
  rewrite Hw, (root_name_nonsep_head w Hw). destruct d; [congruence | reflexivity].
Qed.

Lemma last_is_sep_single a : last_is_sep [a] = psep a.
Proof. reflexivity. Qed.

Lemma simple_abs_join d w : simple_abs d = true -> head_sep w = false -> simple_abs (join_dir d w) = true.
Proof.
  intros Hd Hw. unfold join_dir. destruct d as [|a [|b r]]; [discriminate | |].
  - cbn [simple_abs] in Hd. rewrite last_is_sep_single, Hd.
    destruct w as [|c r]; [exact Hd|]. cbn [app simple_abs]. cbn [head_sep] in Hw. rewrite Hd, Hw. reflexivity.
  - destruct (last_is_sep (a :: b :: r)); exact Hd.
Qed.

(* a word that is absolute is used as it is *)
Theorem glue_path_absolute : forall cwd wd word, is_absolute word = true -> glue_path cwd wd word = word.
Proof. intros cwd wd word H. unfold glue_path. rewrite H. reflexivity. Qed.

(* a relative word is resolved against the command's working directory *)
Theorem glue_path_relative : forall cwd wd word,
  simple_abs wd = true -> head_sep word = false ->
  glue_path cwd wd word = join_dir wd word.
Proof.
  intros cwd wd word Hwd Hw. unfold glue_path. rewrite (nonsep_head_not_absolute word Hw).
  assert (Hne : wd <> []) by (intros ->; discriminate).
  rewrite (path_append_join wd word Hne Hw).
  unfold make_absolute. rewrite (simple_abs_is_absolute _ (simple_abs_join wd word Hwd Hw)). reflexivity.
Qed.

Lemma make_absolute_relative cwd w :
  simple_abs cwd = true -> head_sep w = false -> make_absolute cwd w = join_dir cwd w.
Proof.
  intros Hc Hw. unfold make_absolute. rewrite (nonsep_head_not_absolute w Hw).
  rewrite (root_name_nonsep_head w Hw).
  assert (E1 : path_append [] [] = []) by reflexivity. rewrite E1.
  assert (E2 : root_directory cwd = [47]).
  { unfold root_directory. rewrite (root_name_simple cwd Hc), (simple_abs_head cwd Hc). reflexivity. }
  rewrite E2. assert (E3 : path_append [] [47] = [47]) by reflexivity. rewrite E3.
  assert (E4 : relative_path cwd = tl cwd).
  { unfold relative_path, root_path. rewrite (root_name_simple cwd Hc), E2. destruct cwd; reflexivity. }
  assert (E5 : relative_path w = w).
  { unfold relative_path, root_path, root_directory. rewrite (root_name_nonsep_head w Hw), Hw. reflexivity. }
  rewrite E4, E5.
  assert (E6 : path_append [47] (tl cwd) = cwd).
  { unfold path_append. rewrite last_is_sep_single. change (psep 47) with true. cbv iota.
    destruct cwd as [|a [|b r]]; [discriminate | |].
    - cbn [simple_abs] in Hc. unfold psep in Hc. apply N.eqb_eq in Hc. subst a. reflexivity.
    - cbn [simple_abs] in Hc. apply andb_true_iff in Hc. destruct Hc as [Ha Hb]. apply negb_true_iff in Hb.
      unfold psep in Ha. apply N.eqb_eq in Ha. subst a. cbn [tl strip_leading_seps]. rewrite Hb. reflexivity. }
  rewrite E6. apply path_append_join; [intros ->; discriminate | exact Hw].
Qed.

(* without a working-directory attribute (workingDirectory is the empty string) a relative word is resolved
   against the current directory of the llbuild process *)
Theorem glue_path_relative_default : forall cwd word,
  simple_abs cwd = true -> head_sep word = false ->
  glue_path cwd [] word = join_dir cwd word.
Proof.
  intros cwd word Hc Hw. unfold glue_path. rewrite (nonsep_head_not_absolute word Hw).
  assert (E : path_append [] word = word).
  { unfold path_append. cbn [last_is_sep is_nil orb]. rewrite Hw. reflexivity. }
  rewrite E. apply make_absolute_relative; assumption.
Qed.

(* ---------- parser theorems carried through the glue ---------- *)

Definition makefile_style (ign : bool) : deps_style :=
  if ign then StyleMakefileIgnoringSubsequent else StyleMakefile.

Theorem glue_md_error_fails : forall ign cwd wd files data c p,
  In (Some data) files -> In (Err c p) (md_parse ign data) ->
  command_result (makefile_style ign) cwd wd files = CmdFailed.
Proof.
  intros ign cwd wd files data c p Hin He. apply (glue_error_fails _ cwd wd files data Hin).
  exact (md_err_file_has_error ign data c p He).
Qed.

Theorem glue_di_error_fails : forall cwd wd files data c p,
  In (Some data) files -> In (DErr c p) (di_parse data) ->
  command_result StyleDependencyInfo cwd wd files = CmdFailed.
Proof.
  intros cwd wd files data c p Hin He. apply (glue_error_fails _ cwd wd files data Hin).
  exact (di_err_file_has_error data c p He).
Qed.

(* a Makefile-style dependency file that is not blank and contains no ':' fails the command *)
Theorem glue_no_colon_fails : forall ign cwd wd files data,
  In (Some data) files -> ~ In 58 data -> skip_ws data <> [] ->
  command_result (makefile_style ign) cwd wd files = CmdFailed.
Proof.
  intros ign cwd wd files data Hin Hno Hne.
  destruct (md_has_error_ex _ (md_no_colon_error ign data Hno Hne)) as [c [p He]].
  exact (glue_md_error_fails ign cwd wd files data c p Hin He).
Qed.

(* a written file: every path, resolved, becomes a key, and the command succeeds *)
Theorem glue_written_file : forall cwd wd target paths sep,
  wf_target target = true -> forallb wf_path paths = true ->
  process_discovered StyleMakefile cwd wd [Some (md_write target paths sep)] = (map (glue_path cwd wd) paths, true).
Proof.
  intros cwd wd t ps sep Ht Hps.
  cbn [process_discovered process_files process_one]. unfold process_makefile.
  rewrite (md_roundtrip t ps sep Ht Hps), (md_write_no_error false t ps sep Ht Hps).
  cbn [negb]. rewrite app_nil_r. reflexivity.
Qed.

Theorem glue_written_depinfo : forall cwd wd version recs,
  wf_operand version = true -> wf_recs recs = true ->
  process_discovered StyleDependencyInfo cwd wd [Some (di_write version recs)] =
  (map (glue_path cwd wd) (flat_map (fun r => match fst r with KInput => [snd r] | _ => [] end) recs), true).
Proof.
  intros cwd wd v recs Hv Hr.
  cbn [process_discovered process_files process_one]. unfold process_depinfo.
  destruct (di_roundtrip_inputs v recs Hv Hr) as [H1 H2]. rewrite H1, H2.
  cbn [negb]. rewrite app_nil_r. reflexivity.
Qed.

(* the glue before /repo commit ba34c0a (process_depinfo_v0: input paths used verbatim as node keys) REFUTED
   "relative paths are resolved against the command's working directory" for the dependency-info style: a relative
   path reported by a command that runs in a working directory other than the current directory of llbuild named
   a different file.  Witness (replayed on llbuild by c11.py, corpus history depinfo-relative-wd): cwd [/w], working
   directory [/w/sub], file  00 v 00 10 h 00  (input [h]): the v0 key is [h]; the key is now [/w/sub/h]. *)
Theorem depinfo_v0_relative_resolution_refuted :
  exists cwd wd data p,
    simple_abs cwd = true /\ simple_abs wd = true /\ head_sep p = false /\
    di_parse data = [Version [118]; Input p] /\
    process_depinfo_v0 data = ([p], true) /\
    p <> glue_path cwd wd p /\
    process_discovered StyleDependencyInfo cwd wd [Some data] = ([[47; 119; 47; 115; 117; 98; 47; 104]], true).
Proof.
  exists [47; 119], [47; 119; 47; 115; 117; 98], [0; 118; 0; 16; 104; 0], [104].
  vm_compute. repeat split; try reflexivity. discriminate.
Qed.

(* "." and ".." components are NOT folded lexically: the key of a word that starts with "../" is the working directory
   followed by "/../" and the rest, so the file system resolves ".." - through a symbolic link if the working directory
   (or a directory named in the word) is one.  (Folding would name the parent of the LINK, not of its target.) *)
Theorem glue_path_keeps_dots : forall cwd wd rest,
  simple_abs wd = true -> last_is_sep wd = false ->
  glue_path cwd wd (46 :: 46 :: 47 :: rest) = wd ++ 47 :: 46 :: 46 :: 47 :: rest.
Proof.
  intros cwd wd rest Hwd Hl.
  assert (Hh : head_sep (46 :: 46 :: 47 :: rest) = false) by reflexivity.
  rewrite (glue_path_relative cwd wd (46 :: 46 :: 47 :: rest) Hwd Hh). unfold join_dir. rewrite Hl. reflexivity.
Qed.

(* cwd [/w], working directory [/w/wd]: words [../x] [./x] [a/../x] [sub/./x] *)
Example glue_path_no_dot_folding :
  glue_path [47; 119] [47; 119; 47; 119; 100] [46; 46; 47; 120] = [47; 119; 47; 119; 100; 47; 46; 46; 47; 120] /\
  glue_path [47; 119] [47; 119; 47; 119; 100] [46; 47; 120] = [47; 119; 47; 119; 100; 47; 46; 47; 120] /\
  glue_path [47; 119] [47; 119; 47; 119; 100] [97; 47; 46; 46; 47; 120] = [47; 119; 47; 119; 100; 47; 97; 47; 46; 46; 47; 120] /\
  glue_path [47; 119] [47; 119; 47; 119; 100] [115; 117; 98; 47; 46; 47; 120] = [47; 119; 47; 119; 100; 47; 115; 117; 98; 47; 46; 47; 120] /\
  fst (process_discovered StyleDependencyInfo [47; 119] [47; 119; 47; 119; 100] [Some [0; 118; 0; 16; 46; 46; 47; 120; 0]])
    = [[47; 119; 47; 119; 100; 47; 46; 46; 47; 120]].
Proof. vm_compute. repeat split; reflexivity. Qed.

(* three dependency files [t: p], [t: q r], [t: s] (cwd [/w]): all four paths are keys; an unreadable file or a file
   without colon in the first, the middle or the last position fails the command *)
Example glue_three_files :
  let f1 := Some [116; 58; 32; 112; 10] in let f2 := Some [116; 58; 32; 113; 32; 114; 10] in let f3 := Some [116; 58; 32; 115; 10] in
  let bad := Some [116; 32; 112; 10] in
  process_discovered StyleMakefile [47; 119] [] [f1; f2; f3] = ([[47; 119; 47; 112]; [47; 119; 47; 113]; [47; 119; 47; 114]; [47; 119; 47; 115]], true) /\
  command_result StyleMakefile [47; 119] [] [f1; f2; f3] = CmdSucceeded /\
  command_result StyleMakefile [47; 119] [] [bad; f2; f3] = CmdFailed /\
  command_result StyleMakefile [47; 119] [] [f1; bad; f3] = CmdFailed /\
  command_result StyleMakefile [47; 119] [] [f1; f2; bad] = CmdFailed /\
  command_result StyleMakefile [47; 119] [] [None; f2; f3] = CmdFailed /\
  command_result StyleMakefile [47; 119] [] [f1; None; f3] = CmdFailed /\
  command_result StyleMakefile [47; 119] [] [f1; f2; None] = CmdFailed /\
  command_result StyleDependencyInfo [47; 119] [] [Some [0; 118; 0; 16; 112; 0]; Some [0; 118; 0; 16; 113]; Some [0; 118; 0; 16; 114; 0]] = CmdFailed /\
  process_discovered StyleDependencyInfo [47; 119] [] [Some [0; 118; 0; 16; 112; 0]; Some [0; 118; 0; 16; 113; 0]] = ([[47; 119; 47; 112]; [47; 119; 47; 113]], true).
Proof. vm_compute. repeat split; reflexivity. Qed.

(* ---------- non-vacuity ---------- *)

(* cwd [/w], working directory [/w/sub dir], words [a b/c] (relative), [/x/y] (absolute), [./d:e] *)
Example glue_path_instances :
  simple_abs [47; 119] = true /\ simple_abs [47; 119; 47; 115; 32; 100] = true /\
  glue_path [47; 119] [47; 119; 47; 115; 32; 100] [97; 32; 98; 47; 99] = [47; 119; 47; 115; 32; 100; 47; 97; 32; 98; 47; 99] /\
  glue_path [47; 119] [47; 119; 47; 115; 32; 100] [47; 120; 47; 121] = [47; 120; 47; 121] /\
  glue_path [47; 119] [] [46; 47; 100; 58; 101] = [47; 119; 47; 46; 47; 100; 58; 101] /\
  glue_path [47] [] [97] = [47; 97].
Proof. vm_compute. repeat split; reflexivity. Qed.

(* [a b c] without a colon fails the command; so does an unreadable file; [t: p] succeeds *)
Example glue_result_instances :
  command_result StyleMakefile [47; 119] [] [Some [97; 32; 98; 32; 99; 10]] = CmdFailed /\
  command_result StyleMakefile [47; 119] [] [Some [116; 58; 32; 112; 10]; None] = CmdFailed /\
  command_result StyleDependencyInfo [47; 119] [] [Some [0; 118; 0; 16; 0]] = CmdFailed /\
  command_result StyleMakefile [47; 119] [] [Some [116; 58; 32; 112; 10]] = CmdSucceeded /\
  process_discovered StyleMakefile [47; 119] [] [Some [116; 58; 32; 112; 10]] = ([[47; 119; 47; 112]], true) /\
  process_discovered StyleDependencyInfo [47; 119] [] [Some [0; 118; 0; 16; 112; 0]] = ([[47; 119; 47; 112]], true).
Proof. vm_compute. repeat split; reflexivity. Qed.
