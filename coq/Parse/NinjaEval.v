(* Model of the Ninja manifest LOADER of llbuild: lib/Ninja/ManifestLoader.cpp (evalString, the actOn* callbacks,
   lookupBuildParamImpl, actOnEndBuildDecl, include / subninja), lib/Ninja/Manifest.cpp (Manifest(),
   Rule::isValidParamName, normalize_path, findNode, findOrCreateNode), include/llbuild/Ninja/Manifest.h
   (Scope::lookupBinding / insertBinding) and the pieces of lib/llvm/Support/Path.cpp and StringRef.cpp they use
   (make_absolute, root_name, root_directory, relative_path, append; getAsInteger(10, long)), as the source is NOW
   (after the repairs 93e41ab: a rule variable that refers to itself is reported; 61345c3: rules are looked up
   through the scope chain; 4fc9269: `default` paths are evaluated; 4a0983c: include nesting is bounded by 64;
   9d7b725: $in / $out are shell-quoted in every rule variable except depfile and rspfile; acfc464: a file that is
   still being loaded cannot be entered again).
   Definitions only (no proofs).  (C++ identifiers are quoted with "Param" standing for the longer word.)

   Input of the model: what the PARSER (lib/Ninja/Parser.cpp) hands to ParseActions, i.e. the sequence of actOn*
   calls with the UNEVALUATED token texts, as a list of [decl]; a virtual file system [files] maps the absolute
   path the loader asks the delegate for (ManifestLoaderActions::readFile) to the decls of that file.  The lexer
   (lib/Ninja/Lexer.cpp) and basic::shellEscaped are modelled in Parse/NinjaLex.v and Path/ShellQuote.v; the three
   character classes and [shell_escaped] used here are theirs.

   Conventions of the transliteration
   * llvm::StringMap<T> is an association list keyed by byte strings ([aget] / [aset]: replace in place, else
     append); nothing in the loader depends on the iteration order of a StringMap (the dumpers sort);
   * Scope (bindings + rules + parent pointer) is a [frame]; the chain of parents is the list [scopes], innermost
     frame first.  A subninja pushes an empty frame for the duration of the file and drops it afterwards (the C++
     object is a local of actOnIncludeDecl; the parent is reached through a pointer to const, so a child cannot
     change a parent frame);
   * raw_ostream output and the calls of ParseActions::error are a pair (bytes written, errors reported), both in
     program order;
   * error messages are the enumeration [err]; the text fragments the C++ splices into a message (variable name,
     deps style, pool name) are carried as arguments;
   * the C++ recursion of include/subninja (actOnIncludeDecl -> Parser::parse -> parseDecl -> actOnIncludeDecl) is
     bounded by enterFile: an include met while includeStack.size() >= 64 is refused with [EIncludeTooDeep], one
     whose absolute path is already on the include stack with [ERecursiveInclude].  The model carries the paths
     of that stack as [stack] and, Gallina needing a structural argument, recurses on explicit
     fuel, reporting [EOutOfFuel] for the decl at which the fuel is exhausted (NinjaEvalProofs.v: unreachable
     with fuel >= 64);
   * the recursion lookupBuildParamImpl -> evalString -> lookupBuildParam is bounded in the code by the
     activeRuleParams guard; the model recurses on fuel S (number of rule variables) and reports [EOutOfFuel]
     otherwise (NinjaEvalProofs.v: unreachable);
   * Manifest::findOrCreateNode returns nullptr when normalize_path fails and the loader would store and later
     dereference it; the model reports [ENullNode] at that point (NinjaEvalProofs.v: unreachable when the
     working directory starts with '/');
   * isspace is the C-locale one; `char` is signed, so bytes 128..255 satisfy no character class. *)
From LLB Require Import Base.Bytes Path.ShellQuote.
From LLB Require Parse.NinjaLex.
Local Open Scope N_scope.

(* ---------------------------------------------------------------- abstract syntax handed over by the parser *)

(* one indented line of a build / pool / rule block: a binding, or an error reported by the PARSER there *)
Inductive bitem :=
| BBind (name value : bytes)
| BPErr (code : N).

Inductive decl :=
| DBinding (name value : bytes)                       (* actOnBindingDecl *)
| DDefault (paths : list bytes)                       (* actOnDefaultDecl *)
| DInclude (is_include : bool) (path : bytes)         (* actOnIncludeDecl *)
| DBuild (outs : list bytes) (rule : bytes) (explicit implicit orderonly : list bytes) (binds : list bitem)
                                                      (* actOnBeginBuildDecl, actOnBuildBindingDecl*, actOnEndBuildDecl *)
| DPool (name : bytes) (binds : list bitem)           (* actOnBeginPoolDecl, actOnPoolBindingDecl*, actOnEndPoolDecl *)
| DRule (name : bytes) (binds : list bitem)           (* actOnBeginRuleDecl, actOnRuleBindingDecl*, actOnEndRuleDecl *)
| DPErr (code : N).                                   (* ParseActions::error called by the parser itself *)

Definition files := list (bytes * list decl).

(* ---------------------------------------------------------------- errors *)

(* the four messages of evalString *)
Inductive eval_err :=
| EvDollarAtEnd        (* invalid '$'-escape at end of string *)
| EvMissingBrace       (* invalid variable reference in string (missing trailing '}') *)
| EvBadVarName         (* invalid variable name in reference *)
| EvBadEscape.         (* invalid '$'-escape (literal '$' should be written as '$$') *)

Inductive err :=
| EEval (e : eval_err)                        (* evalString on a binding value, a path, a build-level value *)
| EEvalDuring (e : eval_err) (var : bytes)    (* "... during evaluation of '<var>'" *)
| ECycle (var : bytes)                        (* cycle in rule variable '<var>' *)
| EUnknownTarget                              (* unknown target name *)
| EUnknownRule                                (* unknown rule *)
| EEmptyOutput                                (* empty output path *)
| EEmptyInput                                 (* empty input path *)
| EBadDeps (v : bytes)                        (* invalid 'deps' style '<v>' *)
| EDepfileWithStyle                           (* invalid 'depfile' attribute with selected 'deps' style *)
| EMissingDepfile                             (* missing 'depfile' attribute with selected 'deps' style *)
| EUnknownPool (v : bytes)                    (* unknown pool '<v>' *)
| EDuplicatePool                              (* duplicate pool *)
| EBadDepth                                   (* invalid depth *)
| EUnexpectedVar                              (* unexpected variable *)
| EMissingDepth                               (* missing 'depth' variable assignment *)
| EDuplicateRule                              (* duplicate rule *)
| EMissingCommand                             (* missing 'command' variable assignment *)
| EMissingFile                                (* the delegate's readFile returned no buffer *)
| EIncludeTooDeep                             (* include nesting too deep *)
| ERecursiveInclude                           (* recursive include *)
| EParse (code : N)                           (* reported by the parser (passed through) *)
| ENullNode                                   (* model only: the C++ would keep a null Node* here *)
| EOutOfFuel.                                 (* model only *)

(* ---------------------------------------------------------------- names *)

Definition nm_in : bytes := [105; 110].
Definition nm_in_newline : bytes := [105; 110; 95; 110; 101; 119; 108; 105; 110; 101].
Definition nm_out : bytes := [111; 117; 116].
Definition nm_command : bytes := [99; 111; 109; 109; 97; 110; 100].
Definition nm_description : bytes := [100; 101; 115; 99; 114; 105; 112; 116; 105; 111; 110].
Definition nm_deps : bytes := [100; 101; 112; 115].
Definition nm_depfile : bytes := [100; 101; 112; 102; 105; 108; 101].
Definition nm_generator : bytes := [103; 101; 110; 101; 114; 97; 116; 111; 114].
Definition nm_pool : bytes := [112; 111; 111; 108].
Definition nm_restat : bytes := [114; 101; 115; 116; 97; 116].
Definition nm_rspfile : bytes := [114; 115; 112; 102; 105; 108; 101].
Definition nm_rspfile_content : bytes := [114; 115; 112; 102; 105; 108; 101; 95; 99; 111; 110; 116; 101; 110; 116].
Definition nm_phony : bytes := [112; 104; 111; 110; 121].
Definition nm_console : bytes := [99; 111; 110; 115; 111; 108; 101].
Definition nm_depth : bytes := [100; 101; 112; 116; 104].
Definition nm_gcc : bytes := [103; 99; 99].
Definition nm_msvc : bytes := [109; 115; 118; 99].

(* Rule::isValidParamName *)
Definition rule_var_names : list bytes :=
  [nm_command; nm_description; nm_deps; nm_depfile; nm_generator; nm_pool; nm_restat; nm_rspfile; nm_rspfile_content].
Definition is_rule_var_name (n : bytes) : bool := mem_bytes n rule_var_names.

(* ---------------------------------------------------------------- StringMap *)

Fixpoint aget {V : Type} (k : bytes) (l : list (bytes * V)) : option V :=
  match l with
  | [] => None
  | (k', v) :: r => if bytes_eqb k k' then Some v else aget k r
  end.

Fixpoint aset {V : Type} (k : bytes) (v : V) (l : list (bytes * V)) : list (bytes * V) :=
  match l with
  | [] => [(k, v)]
  | (k', v') :: r => if bytes_eqb k k' then (k, v) :: r else (k', v') :: aset k v r
  end.

Definition is_nil {A : Type} (l : list A) : bool := match l with [] => true | _ => false end.

(* ---------------------------------------------------------------- evalString *)

(* Where the scanner of evalString stands.  The C++ is a `while (pos != end)` loop with inner loops; the model
   consumes one byte per step and remembers in which inner loop it is. *)
Inductive ev_mode :=
| EvText                                   (* copying the piece up to the next '$' *)
| EvDollar                                 (* just behind a '$' *)
| EvSkip                                   (* behind "$\n": while (pos != end && isspace( *pos)) ++pos *)
| EvBrace (name_rev : bytes) (valid : bool)  (* inside "${": varStart..pos (reversed), isValid *)
| EvSimple (name_rev : bytes).             (* inside "$name": while isSimpleIdentifierChar *)

Section EvalString.
  Context {E : Type}.
  Variable wrap : eval_err -> E.                     (* the Error callback *)
  Variable lookup : bytes -> bytes * list E.         (* the Lookup callback: text written, errors reported *)

  Definition ev_emit (b : byte) (r : bytes * list E) : bytes * list E := (b :: fst r, snd r).
  Definition ev_then (a r : bytes * list E) : bytes * list E := (fst a ++ fst r, snd a ++ snd r).
  Definition ev_fail (e : eval_err) : bytes * list E := ([], [wrap e]).      (* error(...); break; *)
  Definition ev_done : bytes * list E := ([], []).

  Fixpoint eval_go (m : ev_mode) (s : bytes) : bytes * list E :=
    match s with
    | [] =>
      match m with
      | EvText | EvSkip => ev_done
      | EvDollar => ev_fail EvDollarAtEnd
      | EvBrace _ _ => ev_fail EvMissingBrace
      | EvSimple n => lookup (rev n)
      end
    | b :: r =>
      match m with
      | EvText => if b =? 36 then eval_go EvDollar r else ev_emit b (eval_go EvText r)
      | EvSkip =>
        if NinjaLex.is_space b then eval_go EvSkip r
        else if b =? 36 then eval_go EvDollar r else ev_emit b (eval_go EvText r)
      | EvSimple n =>
        if NinjaLex.is_simple_ident_char b then eval_go (EvSimple (b :: n)) r
        else ev_then (lookup (rev n))
                     (if b =? 36 then eval_go EvDollar r else ev_emit b (eval_go EvText r))
      | EvDollar =>
        if b =? 10 then eval_go EvSkip r
        else if (b =? 32) || (b =? 58) || (b =? 36) then ev_emit b (eval_go EvText r)
        else if b =? 123 then eval_go (EvBrace [] true) r
        else if NinjaLex.is_simple_ident_char b then eval_go (EvSimple [b]) r
        else ev_fail EvBadEscape
      | EvBrace n v =>
        if b =? 125 then
          ev_then (if v then lookup (rev n) else ([], [wrap EvBadVarName])) (eval_go EvText r)
        else eval_go (EvBrace (b :: n) (v && NinjaLex.is_ident_char b)) r
      end
    end.

  Definition eval_string (s : bytes) : bytes * list E := eval_go EvText s.
End EvalString.

(* ---------------------------------------------------------------- scopes *)

Definition vars := list (bytes * bytes).

Record frame := mkFrame { f_vars : vars; f_rules : list (bytes * vars) }.
Definition scopes := list frame.
Definition empty_frame : frame := mkFrame [] [].

(* Scope::lookupBinding *)
Fixpoint lookup_binding (sc : scopes) (name : bytes) : bytes :=
  match sc with
  | [] => []
  | f :: ps => match aget name (f_vars f) with Some v => v | None => lookup_binding ps name end
  end.

(* the Lookup callback of evalString(const Token&, const Scope&, ...) *)
Definition scope_lookup (sc : scopes) (name : bytes) : bytes * list err := (lookup_binding sc name, []).

Definition eval_in_scope (sc : scopes) (s : bytes) : bytes * list err := eval_string EEval (scope_lookup sc) s.

(* Scope::insertBinding on the current (innermost) scope *)
Definition set_var (sc : scopes) (n v : bytes) : scopes :=
  match sc with
  | [] => [mkFrame [(n, v)] []]
  | f :: ps => mkFrame (aset n v (f_vars f)) (f_rules f) :: ps
  end.

(* getCurrentScope().getRules()[name] as used by actOnBeginRuleDecl: the CURRENT scope only *)
Definition find_rule (sc : scopes) (n : bytes) : option vars :=
  match sc with [] => None | f :: _ => aget n (f_rules f) end.

(* Scope::lookupRule: this scope, then its parents *)
Fixpoint lookup_rule (sc : scopes) (n : bytes) : option vars :=
  match sc with
  | [] => None
  | f :: ps => match aget n (f_rules f) with Some r => Some r | None => lookup_rule ps n end
  end.

Definition set_rule (sc : scopes) (n : bytes) (r : vars) : scopes :=
  match sc with
  | [] => [mkFrame [] [(n, r)]]
  | f :: ps => mkFrame (f_vars f) (aset n r (f_rules f)) :: ps
  end.

(* ---------------------------------------------------------------- llvm::sys::path (POSIX style) *)

Definition is_slash (b : byte) : bool := b =? 47.

(* (bytes before the first '/', rest from that '/') *)
Fixpoint span_noslash (l : bytes) : bytes * bytes :=
  match l with
  | [] => ([], [])
  | b :: r => if is_slash b then ([], l) else let '(a, t) := span_noslash r in (b :: a, t)
  end.

Fixpoint strip_slashes (l : bytes) : bytes :=
  match l with [] => [] | b :: r => if is_slash b then strip_slashes r else l end.

(* find_first_component *)
Definition first_component (p : bytes) : bytes :=
  match p with
  | [] => []
  | a :: r1 =>
    match r1 with
    | b :: c :: r3 =>
      if is_slash a && (a =? b) && negb (is_slash c) then a :: b :: fst (span_noslash (c :: r3))   (* //net *)
      else if is_slash a then [a] else fst (span_noslash p)
    | _ => if is_slash a then [a] else fst (span_noslash p)
    end
  end.

(* b->size() > 2 && is_separator(b[0]) && b[1] == b[0] *)
Definition has_net (c : bytes) : bool :=
  match c with a :: b :: _ :: _ => is_slash a && (b =? a) | _ => false end.

Definition root_name (p : bytes) : bytes :=
  let b := first_component p in if has_net b then b else [].

Definition root_directory (p : bytes) : bytes :=
  match p with
  | [] => []
  | _ =>
    let b := first_component p in
    if has_net b then
      match skipn (length b) p with c :: _ => if is_slash c then [c] else [] | [] => [] end
    else match b with c :: _ => if is_slash c then b else [] | [] => [] end
  end.

Definition root_path (p : bytes) : bytes := root_name p ++ root_directory p.
Definition relative_path (p : bytes) : bytes := skipn (length (root_path p)) p.
Definition has_root_directory (p : bytes) : bool := negb (is_nil (root_directory p)).
Definition has_root_name (p : bytes) : bool := negb (is_nil (root_name p)).

(* one round of the loop of path::append *)
Definition path_append (path comp : bytes) : bytes :=
  if negb (is_nil path) && is_slash (last path 0) then path ++ strip_slashes comp
  else
    let comp_has_sep := match comp with c :: _ => is_slash c | [] => false end in
    if negb comp_has_sep && negb (is_nil path || has_root_name comp) then path ++ 47 :: comp
    else path ++ comp.

(* llvm::sys::fs::make_absolute(current_directory, path) on a POSIX host: rootName is constantly true there, so a
   path without root directory takes the branch that appends four components *)
Definition make_absolute (wd p : bytes) : bytes :=
  if has_root_directory p then p
  else path_append (path_append (path_append (path_append [] (root_name p)) (root_directory wd))
                                (relative_path wd)) (relative_path p).

(* the "move destination pointer to the previous directory" block of normalize_path; d is the destination
   written so far, REVERSED, and ends in a slash *)
Fixpoint up_scan (l : bytes) : bytes :=
  match l with
  | [] => [47]
  | x :: l' =>
    match l' with
    | [] => [47]                        (* reached begin: *dst_it++ = slash *)
    | _ :: _ => if is_slash x then l else up_scan l'
    end
  end.

Definition up_dir (d : bytes) : bytes :=
  match d with
  | _ :: (_ :: _) as rest => up_scan rest
  | _ => d                              (* dst_it - begin <= 1: already at the top *)
  end.

(* the for loop of normalize_path: src from src_it, d = begin..dst_it reversed *)
Fixpoint norm_go (src : bytes) (d : bytes) : bytes :=
  match src with
  | [] => d
  | c :: r =>
    if negb (is_slash c) then norm_go r (c :: d) else
    let d1 := match d with [] => [47] | x :: _ => if is_slash x then d else 47 :: d end in
    match r with
    | [] => d1                                                       (* src_it + 1 >= end: break *)
    | c1 :: r1 =>
      if negb (c1 =? 46) then norm_go r d1 else
      match r1 with
      | [] => d1                                                     (* "/." at the end *)
      | c2 :: r2 =>
        if negb (c2 =? 46) then
          if is_slash c2 then norm_go r1 d1                          (* "/./" *)
          else norm_go r1 (46 :: d1)                                 (* "/.?" *)
        else
          match r2 with
          | c3 :: _ => if negb (is_slash c3) then norm_go r d1       (* "/..x" *)
                       else norm_go r2 (up_dir d1)                   (* "/../" *)
          | [] => up_dir d1                                          (* "/.." at the end: break *)
          end
      end
    end
  end.

(* Manifest::normalize_path: None = returns false *)
Definition normalize_path (wd p : bytes) : option bytes :=
  let t := make_absolute wd p in
  if is_nil t || negb (has_root_directory t) then None
  else let rn := root_name t in Some (rn ++ rev (norm_go (skipn (length rn) t) [])).

(* ---------------------------------------------------------------- StringRef::getAsInteger(10, long) + the depth test *)

Definition is_digit (b : byte) : bool := (48 <=? b) && (b <=? 57).

Fixpoint dec_value (acc : N) (s : bytes) : N :=
  match s with [] => acc | b :: r => dec_value (acc * 10 + (b - 48)) r end.

(* Some depth: getAsInteger succeeded, intValue > 0; the value is static_cast<uint32_t>(intValue).
   A leading '-' gives a value <= 0 or a failure; letters stop the digit scan and leave an unconsumed rest;
   values >= 2^63 fail the (long long) test. *)
Definition parse_depth (s : bytes) : option N :=
  match s with
  | [] => None
  | _ =>
    if forallb is_digit s then
      let v := dec_value 0 s in
      if (v <? 9223372036854775808) && (0 <? v) then Some (v mod 4294967296) else None
    else None
  end.

(* ---------------------------------------------------------------- manifest objects *)

Record node := mkNode { n_canon : bytes; n_screen : bytes }.

Inductive deps_style := DepsNone | DepsGCC | DepsMSVC.

Record command := mkCmd {
  c_rule : bytes;                      (* getRule()->getName() *)
  c_outputs : list node;
  c_explicit : list node;
  c_implicit : list node;
  c_orderonly : list node;
  c_params : vars;                     (* the build-level bindings (evaluated) *)
  c_command : bytes;
  c_description : bytes;
  c_deps : deps_style;
  c_depfile : bytes;
  c_pool : option bytes;               (* getExecutionPool()->getName() *)
  c_generator : bool;
  c_restat : bool;
  c_rspfile : bytes;
  c_rspfile_content : bytes
}.

Record mstate := mkSt {
  m_nodes : list (bytes * bytes);      (* canonical path -> screen path of the FIRST spelling *)
  m_commands : list command;           (* in file order *)
  m_pools : list (bytes * N);          (* name -> depth (0 = unspecified) *)
  m_defaults : list node;
  m_errors : list err
}.

Definition add_errors (st : mstate) (es : list err) : mstate :=
  mkSt (m_nodes st) (m_commands st) (m_pools st) (m_defaults st) (m_errors st ++ es).
Definition with_nodes (st : mstate) (ns : list (bytes * bytes)) : mstate :=
  mkSt ns (m_commands st) (m_pools st) (m_defaults st) (m_errors st).
Definition add_command (st : mstate) (c : command) : mstate :=
  mkSt (m_nodes st) (m_commands st ++ [c]) (m_pools st) (m_defaults st) (m_errors st).
Definition with_pools (st : mstate) (ps : list (bytes * N)) : mstate :=
  mkSt (m_nodes st) (m_commands st) ps (m_defaults st) (m_errors st).
Definition add_default (st : mstate) (n : node) : mstate :=
  mkSt (m_nodes st) (m_commands st) (m_pools st) (m_defaults st ++ [n]) (m_errors st).

(* Manifest::Manifest(): the console pool; the phony rule lives in the root scope *)
Definition init_state : mstate := mkSt [] [] [(nm_console, 1)] [] [].
Definition init_scopes : scopes := [mkFrame [] [(nm_phony, [])]].

(* Manifest::findOrCreateNode; None = nullptr *)
Definition find_or_create_node (wd : bytes) (nodes : list (bytes * bytes)) (path : bytes)
  : list (bytes * bytes) * option node :=
  match normalize_path wd path with
  | None => (nodes, None)
  | Some canon =>
    match aget canon nodes with
    | Some scr => (nodes, Some (mkNode canon scr))
    | None => (nodes ++ [(canon, path)], Some (mkNode canon path))
    end
  end.

(* Manifest::findNode *)
Definition find_node (wd : bytes) (nodes : list (bytes * bytes)) (path : bytes) : option node :=
  match normalize_path wd path with
  | None => None
  | Some canon => match aget canon nodes with Some scr => Some (mkNode canon scr) | None => None end
  end.

(* the two loops of actOnBeginBuildDecl over outputTokens / inputTokens *)
Fixpoint eval_paths (wd : bytes) (sc : scopes) (empty_err : err) (toks : list bytes) (nodes : list (bytes * bytes))
  : list node * list (bytes * bytes) * list err :=
  match toks with
  | [] => ([], nodes, [])
  | t :: ts =>
    let '(p, es) := eval_in_scope sc t in
    let es1 := if is_nil p then [empty_err] else [] in
    let '(nodes1, on) := find_or_create_node wd nodes p in
    let '(n, es2) := match on with Some n => (n, []) | None => (mkNode [] p, [ENullNode]) end in
    let '(ns, nodes2, es3) := eval_paths wd sc empty_err ts nodes1 in
    (n :: ns, nodes2, es ++ es1 ++ es2 ++ es3)
  end.

(* ---------------------------------------------------------------- lookupBuildParamImpl *)

Fixpoint join_with (sep : byte) (l : list bytes) : bytes :=
  match l with
  | [] => []
  | x :: r => match r with [] => x | _ :: _ => x ++ sep :: join_with sep r end
  end.

(* LookupContext + what it reaches: the command's explicit inputs and outputs (screen paths), its build-level
   bindings, its rule's variables (unevaluated), the current scope, shellEscapeInAndOut *)
Record bctx := mkCtx {
  bx_explicit : list bytes;
  bx_outs : list bytes;
  bx_params : vars;
  bx_rule : vars;
  bx_scopes : scopes;
  bx_escape : bool
}.

Definition esc_path (cx : bctx) (p : bytes) : bytes := if bx_escape cx then shell_escaped p else p.

(* active = context->activeRuleParams *)
Fixpoint lookup_var (fuel : nat) (cx : bctx) (active : list bytes) (name : bytes) : bytes * list err :=
  if bytes_eqb name nm_in then (join_with 32 (map (esc_path cx) (bx_explicit cx)), [])
  else if bytes_eqb name nm_in_newline then (join_with 10 (map (esc_path cx) (bx_explicit cx)), [])
  else if bytes_eqb name nm_out then (join_with 32 (map (esc_path cx) (bx_outs cx)), [])
  else
    match aget name (bx_params cx) with
    | Some v => (v, [])
    | None =>
      match aget name (bx_rule cx) with
      | Some text =>
        if mem_bytes name active then ([], [ECycle name])
        else
          match fuel with
          | O => ([], [EOutOfFuel])
          | S f => eval_string (fun e => EEvalDuring e name) (lookup_var f cx (name :: active)) text
          end
      | None => (lookup_binding (bx_scopes cx) name, [])
      end
    end.

Definition var_fuel (rule : vars) : nat := S (length rule).

(* shellEscapeInAndOut = name != "depfile" && name != "rspfile" *)
Definition escapes_in_out (name : bytes) : bool := negb (bytes_eqb name nm_depfile) && negb (bytes_eqb name nm_rspfile).

(* lookupNamedBuildParam: a fresh context per name; $in / $out are shell-escaped except when the depfile and
   rspfile NAMES are expanded (like Ninja: only the file name variables see the unescaped paths) *)
Definition lookup_named (explicit outs : list bytes) (params rule : vars) (sc : scopes) (name : bytes)
  : bytes * list err :=
  lookup_var (var_fuel rule) (mkCtx explicit outs params rule sc (escapes_in_out name)) [] name.

(* ---------------------------------------------------------------- build statements *)

Definition screens (l : list node) : list bytes := map n_screen l.

(* actOnBuildBindingDecl over the indented lines: values are evaluated in the CURRENT SCOPE only (earlier
   build-level bindings of the same statement are not visible) *)
Fixpoint build_bindings (sc : scopes) (binds : list bitem) (params : vars) : vars * list err :=
  match binds with
  | [] => (params, [])
  | BPErr c :: bs => let '(p, es) := build_bindings sc bs params in (p, EParse c :: es)
  | BBind n v :: bs =>
    let '(val, es1) := eval_in_scope sc v in
    let '(p, es2) := build_bindings sc bs (aset n val params) in
    (p, es1 ++ es2)
  end.

(* the `deps` / `depfile` logic of actOnEndBuildDecl: (style, depsFile, errors) *)
Definition deps_of (v_deps v_depfile : bytes) : deps_style * bytes * list err :=
  let '(style, e5) :=
    if is_nil v_deps then ((if is_nil v_depfile then DepsNone else DepsGCC), [])
    else if bytes_eqb v_deps nm_gcc then (DepsGCC, [])
    else if bytes_eqb v_deps nm_msvc then (DepsMSVC, [])
    else (DepsNone, [EBadDeps v_deps]) in
  let is_gcc := match style with DepsGCC => true | _ => false end in
  let '(depfile, e6) :=
    if negb (is_nil v_depfile) then (if is_gcc then (v_depfile, []) else ([], [EDepfileWithStyle]))
    else (if is_gcc then ([], [EMissingDepfile]) else ([], [])) in
  (style, depfile, e5 ++ e6).

Definition pool_of (pools : list (bytes * N)) (v_pool : bytes) : option bytes * list err :=
  if is_nil v_pool then (None, [])
  else match aget v_pool pools with Some _ => (Some v_pool, []) | None => (None, [EUnknownPool v_pool]) end.

(* the response-file tail of actOnEndBuildDecl: (rspFile, rspFileContent, errors); rspfile_content is looked up
   only when the rspfile value is non-empty and normalises *)
Definition rsp_of (wd : bytes) (v_rsp : bytes) (content : bytes * list err) : bytes * bytes * list err :=
  if is_nil v_rsp then ([], [], [])
  else match normalize_path wd v_rsp with
       | None => ([], [], [])
       | Some n => (n, fst content, snd content)
       end.

(* actOnEndBuildDecl *)
Definition end_build (wd : bytes) (sc : scopes) (pools : list (bytes * N))
           (rname : bytes) (rule : vars) (outs ex im oo : list node) (params : vars) : command * list err :=
  let look := lookup_named (screens ex) (screens outs) params rule sc in
  let r_command := look nm_command in
  let r_desc := look nm_description in
  let r_deps := look nm_deps in
  let r_depfile := look nm_depfile in
  let d := deps_of (fst r_deps) (fst r_depfile) in
  let r_pool := look nm_pool in
  let p := pool_of pools (fst r_pool) in
  let r_gen := look nm_generator in
  let r_restat := look nm_restat in
  let r_rsp := look nm_rspfile in
  let rs := rsp_of wd (fst r_rsp) (look nm_rspfile_content) in
  (mkCmd rname outs ex im oo params (fst r_command) (fst r_desc) (fst (fst d)) (snd (fst d)) (fst p)
         (negb (is_nil (fst r_gen))) (negb (is_nil (fst r_restat))) (fst (fst rs)) (snd (fst rs)),
   snd r_command ++ snd r_desc ++ snd r_deps ++ snd r_depfile ++ snd d ++ snd r_pool ++ snd p ++
   snd r_gen ++ snd r_restat ++ snd r_rsp ++ snd rs).

(* getCurrentScope().lookupRule(name), else error + manifest->getPhonyRule(): (rule name, rule variables, errors) *)
Definition resolve_rule (sc : scopes) (rname : bytes) : bytes * vars * list err :=
  match lookup_rule sc rname with
  | Some r => (rname, r, [])
  | None => (nm_phony, [], [EUnknownRule])
  end.

(* the three components of the result of eval_paths *)
Definition p_nodes (x : list node * list (bytes * bytes) * list err) : list node := fst (fst x).
Definition p_map (x : list node * list (bytes * bytes) * list err) : list (bytes * bytes) := snd (fst x).
Definition p_errs (x : list node * list (bytes * bytes) * list err) : list err := snd x.

(* actOnBeginBuildDecl + the bindings + actOnEndBuildDecl *)
Definition run_build (wd : bytes) (sc : scopes) (st : mstate)
           (outs : list bytes) (rname : bytes) (ex im oo : list bytes) (binds : list bitem) : mstate :=
  let rr := resolve_rule sc rname in
  let po := eval_paths wd sc EEmptyOutput outs (m_nodes st) in
  let pe := eval_paths wd sc EEmptyInput ex (p_map po) in
  let pi := eval_paths wd sc EEmptyInput im (p_map pe) in
  let pq := eval_paths wd sc EEmptyInput oo (p_map pi) in
  let bb := build_bindings sc binds [] in
  let eb := end_build wd sc (m_pools st) (fst (fst rr)) (snd (fst rr))
                      (p_nodes po) (p_nodes pe) (p_nodes pi) (p_nodes pq) (fst bb) in
  add_command (add_errors (with_nodes st (p_map pq))
                          (snd rr ++ p_errs po ++ p_errs pe ++ p_errs pi ++ p_errs pq ++ snd bb ++ snd eb))
              (fst eb).

(* ---------------------------------------------------------------- pools *)

(* actOnPoolBindingDecl over the indented lines; depth = the pool's depth so far *)
Fixpoint pool_bindings (sc : scopes) (binds : list bitem) (depth : N) : N * list err :=
  match binds with
  | [] => (depth, [])
  | BPErr c :: bs => let '(d, es) := pool_bindings sc bs depth in (d, EParse c :: es)
  | BBind n v :: bs =>
    let '(val, es1) := eval_in_scope sc v in
    let '(depth1, es2) :=
      if bytes_eqb n nm_depth then
        match parse_depth val with Some d => (d, []) | None => (depth, [EBadDepth]) end
      else (depth, [EUnexpectedVar]) in
    let '(d, es3) := pool_bindings sc bs depth1 in
    (d, es1 ++ es2 ++ es3)
  end.

Definition run_pool (sc : scopes) (st : mstate) (name : bytes) (binds : list bitem) : mstate :=
  let e0 := match aget name (m_pools st) with Some _ => [EDuplicatePool] | None => [] end in
  let '(depth, e1) := pool_bindings sc binds 0 in
  let e2 := if depth =? 0 then [EMissingDepth] else [] in
  add_errors (with_pools st (aset name depth (m_pools st))) (e0 ++ e1 ++ e2).

(* ---------------------------------------------------------------- rules *)

(* actOnRuleBindingDecl over the indented lines: the value is stored UNEVALUATED *)
Fixpoint rule_bindings (binds : list bitem) (r : vars) : vars * list err :=
  match binds with
  | [] => (r, [])
  | BPErr c :: bs => let '(r1, es) := rule_bindings bs r in (r1, EParse c :: es)
  | BBind n v :: bs =>
    if is_rule_var_name n then rule_bindings bs (aset n v r)
    else let '(r1, es) := rule_bindings bs r in (r1, EUnexpectedVar :: es)
  end.

Definition run_rule (sc : scopes) (st : mstate) (name : bytes) (binds : list bitem) : scopes * mstate :=
  let e0 := match find_rule sc name with Some _ => [EDuplicateRule] | None => [] end in
  let '(r, e1) := rule_bindings binds [] in
  let e2 := match aget nm_command r with Some _ => [] | None => [EMissingCommand] end in
  (set_rule sc name r, add_errors st (e0 ++ e1 ++ e2)).

(* ---------------------------------------------------------------- default *)

(* actOnDefaultDecl: each token is evaluated in the current scope, then looked up (never created) *)
Fixpoint run_default (wd : bytes) (sc : scopes) (st : mstate) (paths : list bytes) : mstate :=
  match paths with
  | [] => st
  | t :: ps =>
    let '(p, es) := eval_in_scope sc t in
    let st1 := add_errors st es in
    match find_node wd (m_nodes st1) p with
    | None => run_default wd sc (add_errors st1 [EUnknownTarget]) ps
    | Some n => run_default wd sc (add_default st1 n) ps
    end
  end.

(* ---------------------------------------------------------------- the whole loader *)

Fixpoint find_file (fs : files) (path : bytes) : option (list decl) :=
  match fs with
  | [] => None
  | (p, ds) :: r => if bytes_eqb path p then Some ds else find_file r path
  end.

(* every decl except include / subninja *)
Definition run_simple (wd : bytes) (d : decl) (sc : scopes) (st : mstate) : scopes * mstate :=
  match d with
  | DBinding n v => let '(val, es) := eval_in_scope sc v in (set_var sc n val, add_errors st es)
  | DDefault ps => (sc, run_default wd sc st ps)
  | DBuild outs r ex im oo bs => (sc, run_build wd sc st outs r ex im oo bs)
  | DPool n bs => (sc, run_pool sc st n bs)
  | DRule n bs => run_rule sc st n bs
  | DPErr c => (sc, add_errors st [EParse c])
  | DInclude _ _ => (sc, st)
  end.

(* const size_t maxIncludeDepth = 64 (enterFile) *)
Definition max_include_depth : nat := 64.

(* Parser::parse of one file: the decls in order.  stack = the absolute paths of includeStack while this file is
   parsed, innermost first (the main file: its own path only); fuel bounds the include / subninja nesting below
   this file.  The order of the tests is that of enterFile: nesting depth, then recursion, then readFile. *)
Fixpoint run_decls (fuel : nat) (stack : list bytes) (wd : bytes) (fs : files) (ds : list decl) (acc : scopes * mstate)
  : scopes * mstate :=
  fold_left
    (fun (a : scopes * mstate) (d : decl) =>
       let '(sc, st) := a in
       match d with
       | DInclude is_inc ptext =>
         let '(path, es) := eval_in_scope sc ptext in
         let st1 := add_errors st es in
         let apath := make_absolute wd path in
         if Nat.leb max_include_depth (length stack) then (sc, add_errors st1 [EIncludeTooDeep])
         else if mem_bytes apath stack then (sc, add_errors st1 [ERecursiveInclude])
         else
         match fuel with
         | O => (sc, add_errors st1 [EOutOfFuel])
         | S f =>
           match find_file fs apath with
           | None => (sc, add_errors st1 [EMissingFile])
           | Some ds' =>
             if is_inc then run_decls f (apath :: stack) wd fs ds' (sc, st1)
             else (sc, snd (run_decls f (apath :: stack) wd fs ds' (empty_frame :: sc, st1)))
           end
         end
       | _ => run_simple wd d sc st
       end)
    ds acc.

Record manifest := mkManifest {
  mf_loaded : bool;                     (* false: ManifestLoader::load returned nullptr (main file unreadable) *)
  mf_root : frame;                      (* the root scope at the end: bindings and rules *)
  mf_commands : list command;
  mf_defaults : list node;
  mf_pools : list (bytes * N);
  mf_errors : list err
}.

(* ManifestLoader::load *)
Definition load (fuel : nat) (wd : bytes) (fs : files) (main : bytes) : manifest :=
  match find_file fs (make_absolute wd main) with
  | None => mkManifest false empty_frame [] [] [] [EMissingFile]
  | Some ds =>
    let '(sc, st) := run_decls fuel [make_absolute wd main] wd fs ds (init_scopes, init_state) in
    mkManifest true (match sc with f :: _ => f | [] => empty_frame end)
               (m_commands st) (m_defaults st) (m_pools st) (m_errors st)
  end.

Definition has_out_of_fuel (es : list err) : bool :=
  existsb (fun e => match e with EOutOfFuel => true | _ => false end) es.
