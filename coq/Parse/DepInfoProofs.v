(* Proofs about the dependency-info parser model (Parse/DepInfo.v).

   In-bounds reads: as in MakeDeps, the cursor is the remaining suffix, so a read outside the buffer cannot be
   expressed - EXCEPT for the operand scan  while ( *cur != 0 ) ++cur;  which has no bounds test of its own in the
   C++; the model makes running off the end the explicit outcome DOverRead, and di_parse_total proves that it
   (and DOutOfFuel) is unreachable for EVERY input: the scan is only entered on a non-empty suffix of a buffer
   that ends with NUL. *)
From LLB Require Import Base.Bytes Base.BytesFacts Parse.DepInfo.
Local Open Scope N_scope.

(* ---------- the operand scan never leaves a NUL-terminated buffer ---------- *)

Definition nul_ended (l : bytes) : Prop := l = [] \/ last l 1 = 0.

Lemma nul_ended_tail c r : last (c :: r) 1 = 0 -> r <> [] -> last r 1 = 0.
Proof. destruct r as [|d r']; [congruence|]. intros H _. exact H. Qed.

Lemma scan_operand_ok l :
  l <> [] -> last l 1 = 0 ->
  exists s rest, scan_operand l = Some (s, rest) /\ (length rest < length l)%nat /\ nul_ended rest.
Proof.
  induction l as [|c r IH]; [congruence|]. intros _ Hl. cbn [scan_operand].
  destruct (N.eqb_spec c 0) as [->|Hc].
  - exists [], r. split; [reflexivity|]. split; [cbn [length]; apply Nat.lt_succ_diag_r|].
    destruct r as [|d r']; [left; reflexivity | right; exact Hl].
  - destruct r as [|d r']; [cbn in Hl; congruence|].
    destruct (IH ltac:(discriminate) Hl) as [s [rest [E [Hlen Hn]]]].
    rewrite E. exists (c :: s), rest. split; [reflexivity|]. split; [cbn [length] in *; lia | exact Hn].
Qed.

(* the event of one complete record *)
Definition rec_event (op : byte) (first : bool) (operand : bytes) (pos : N) : di_event :=
  if op =? 0 then (if first then Version operand else DErr 4 pos)
  else if op =? 16 then Input operand
  else if op =? 17 then Missing operand
  else if op =? 64 then Output operand
  else DErr 5 pos.

Lemma rec_event_cases op first operand pos :
  rec_event op first operand pos = Version operand \/ rec_event op first operand pos = Input operand \/
  rec_event op first operand pos = Missing operand \/ rec_event op first operand pos = Output operand \/
  rec_event op first operand pos = DErr 4 pos \/ rec_event op first operand pos = DErr 5 pos.
Proof.
  unfold rec_event. destruct (op =? 0); [destruct first; tauto|].
  destruct (op =? 16); [tauto|]. destruct (op =? 17); [tauto|]. destruct (op =? 64); tauto.
Qed.

Lemma di_loop_step f dlen op r operand rest :
  r <> [] -> scan_operand r = Some (operand, rest) -> operand <> [] ->
  di_loop (S f) dlen (op :: r) =
  rec_event op (Nat.eqb (length (op :: r)) dlen) operand (N.of_nat (dlen - length (op :: r))) :: di_loop f dlen rest.
Proof.
  intros Hr E Ho. cbn [di_loop]. destruct r as [|d r']; [congruence|]. rewrite E.
  destruct operand as [|o os]; [congruence|]. reflexivity.
Qed.

Definition bad_event (e : di_event) : Prop := e = DOutOfFuel \/ e = DOverRead.

Lemma di_loop_ok fuel dlen cur :
  (length cur < fuel)%nat -> nul_ended cur -> forall e, In e (di_loop fuel dlen cur) -> ~ bad_event e.
Proof.
  revert cur. induction fuel as [|f IH]; intros cur Hf Hn e; [lia|].
  destruct cur as [|op r]; [cbn; tauto|].
  destruct Hn as [Hn|Hn]; [discriminate|].
  destruct r as [|d r'].
  - cbn. intros [H|H]; [subst e; intros [B|B]; discriminate | tauto].
  - assert (Hr : d :: r' <> []) by discriminate.
    destruct (scan_operand_ok (d :: r') Hr (nul_ended_tail _ _ Hn Hr)) as [s [rest [E [Hlen Hnr]]]].
    destruct s as [|o os].
    + cbn [di_loop]. rewrite E. intros [H|H]; [subst e; intros [B|B]; discriminate | destruct H].
    + rewrite (di_loop_step f dlen op (d :: r') (o :: os) rest Hr E ltac:(discriminate)).
      intros [H|H].
      * subst e. intros [B|B];
          destruct (rec_event_cases op (Nat.eqb (length (op :: d :: r')) dlen) (o :: os) (N.of_nat (dlen - length (op :: d :: r'))))
            as [R|[R|[R|[R|[R|R]]]]]; rewrite R in B; discriminate.
      * apply (IH rest); [cbn [length] in *; unfold byte, bytes in *; lia | exact Hnr | exact H].
Qed.

Lemma ends_with_nul_ended data : ends_with_nul data = true -> nul_ended data.
Proof. unfold ends_with_nul. intros H. apply N.eqb_eq in H. right. exact H. Qed.

(* C19: for EVERY byte string the record loop finishes within the fuel, and the unguarded operand scan never
   reaches the end of the buffer. *)
Theorem di_parse_total : forall data, ~ In DOutOfFuel (di_parse data) /\ ~ In DOverRead (di_parse data).
Proof.
  intros data.
  assert (H : forall e, In e (di_parse data) -> ~ bad_event e).
  { unfold di_parse. destruct (ends_with_nul data) eqn:En; cbn [negb].
    - destruct (hd 1 data =? 0); cbn [negb].
      + apply di_loop_ok; [lia | apply ends_with_nul_ended; exact En].
      + intros e [H|H]; [subst e; intros [B|B]; discriminate | destruct H].
    - intros e [H|H]; [subst e; intros [B|B]; discriminate | destruct H]. }
  split; intros Hin; apply (H _ Hin); [left | right]; reflexivity.
Qed.

(* ---------- positions ---------- *)

Lemma di_loop_pos fuel dlen cur c p :
  In (DErr c p) (di_loop fuel dlen cur) -> p <= N.of_nat dlen.
Proof.
  revert cur. induction fuel as [|f IH]; intros cur; cbn [di_loop].
  - intros [H|H]; [discriminate | destruct H].
  - destruct cur as [|op r]; [cbn; tauto|].
    destruct r as [|d r']; [intros [H|H]; [inversion H; lia | destruct H]|].
    destruct (scan_operand (d :: r')) as [[operand rest]|]; [|intros [H|H]; [discriminate | destruct H]].
    destruct operand as [|o os]; [intros [H|H]; [inversion H; lia | destruct H]|].
    intros [H|H]; [|exact (IH rest H)].
    revert H. destruct (op =? 0).
    + destruct (Nat.eqb (length (op :: d :: r')) dlen); intros H; [discriminate | inversion H; lia].
    + destruct (op =? 16); [discriminate|]. destruct (op =? 17); [discriminate|].
      destruct (op =? 64); [discriminate|]. intros H. inversion H. lia.
Qed.

Theorem di_positions_in_bounds : forall data c p,
  In (DErr c p) (di_parse data) -> p <= N.of_nat (length data).
Proof.
  intros data c p. unfold di_parse.
  destruct (ends_with_nul data); cbn [negb].
  - destruct (hd 1 data =? 0); cbn [negb].
    + apply di_loop_pos.
    + intros [H|H]; [inversion H; lia | destruct H].
  - intros [H|H]; [inversion H; lia | destruct H].
Qed.

(* ---------- files made of complete records: the exact callback sequence ---------- *)

Definition nul_free (s : bytes) : bool := forallb (fun c => negb (c =? 0)) s.

Lemma wf_operand_spec s : wf_operand s = true <-> s <> [] /\ nul_free s = true.
Proof.
  unfold wf_operand, nul_free. destruct s as [|c s'].
  - split; [discriminate | intros [H _]; congruence].
  - split; [intros H; split; [discriminate | exact H] | intros [_ H]; exact H].
Qed.

Lemma scan_operand_app s (rest : bytes) : nul_free s = true -> scan_operand (s ++ 0 :: rest) = Some (s, rest).
Proof.
  induction s as [|c s IH]; intros Hs; [reflexivity|].
  unfold nul_free in Hs. cbn [forallb] in Hs. apply andb_true_iff in Hs. destruct Hs as [Hc Hs].
  apply negb_true_iff in Hc. cbn [app scan_operand]. rewrite Hc, (IH Hs). reflexivity.
Qed.

(* records with arbitrary opcode bytes *)
Definition raw_bytes (rr : list (byte * bytes)) : bytes := flat_map (fun r => di_record (fst r) (snd r)) rr.

Fixpoint raw_events (pos : nat) (rr : list (byte * bytes)) : list di_event :=
  match rr with
  | [] => []
  | r :: rr' => rec_event (fst r) (Nat.eqb pos 0) (snd r) (N.of_nat pos) :: raw_events (pos + (2 + length (snd r))) rr'
  end.

Lemma di_record_len op s : length (di_record op s) = (2 + length s)%nat.
Proof. unfold di_record. cbn [length]. rewrite app_length. cbn [length]. lia. Qed.

Lemma di_loop_raw rr : forall F dlen pos (rest : bytes),
  forallb (fun r => wf_operand (snd r)) rr = true ->
  (pos + length (raw_bytes rr ++ rest) = dlen)%nat ->
  di_loop (length rr + F) dlen (raw_bytes rr ++ rest) = raw_events pos rr ++ di_loop F dlen rest.
Proof.
  induction rr as [|r rr IH]; intros F dlen pos rest Hw Hpos; [reflexivity|].
  cbn [forallb] in Hw. apply andb_true_iff in Hw. destruct Hw as [Hs Hw].
  apply wf_operand_spec in Hs. destruct Hs as [Hne Hnf].
  destruct r as [op s]. cbn [fst snd] in *.
  assert (EB : raw_bytes ((op, s) :: rr) ++ rest = op :: s ++ 0 :: (raw_bytes rr ++ rest)).
  { unfold raw_bytes. cbn [flat_map fst snd]. unfold di_record. cbn [app]. rewrite <- !app_assoc. reflexivity. }
  rewrite EB in *. set (Z := raw_bytes rr ++ rest) in *.
  cbn [length plus].
  assert (Hlen : length (op :: s ++ 0 :: Z) = S (length s + S (length Z))).
  { cbn [length]. rewrite app_length. reflexivity. }
  rewrite (di_loop_step (length rr + F) dlen op (s ++ 0 :: Z) s Z).
  - cbn [raw_events fst snd app]. f_equal.
    + rewrite Hlen. replace (dlen - S (length s + S (length Z)))%nat with pos by lia.
      f_equal. destruct (Nat.eqb_spec pos 0) as [E|E]; destruct (Nat.eqb_spec (S (length s + S (length Z))) dlen) as [E'|E'];
        try reflexivity; lia.
    + apply IH; [exact Hw|]. fold Z. lia.
  - destruct s; [congruence | discriminate].
  - apply scan_operand_app. exact Hnf.
  - exact Hne.
Qed.

Lemma last_app_ne (l l' : bytes) d : l' <> [] -> last (l ++ l') d = last l' d.
Proof.
  induction l as [|a l IH]; intros Hne; [reflexivity|].
  cbn [app]. specialize (IH Hne). destruct (l ++ l') as [|x y] eqn:E.
  - apply app_eq_nil in E. destruct E as [_ E]. congruence.
  - exact IH.
Qed.

Lemma raw_bytes_nul_ended rr : nul_ended (raw_bytes rr).
Proof.
  induction rr as [|r rr IH]; [left; reflexivity|]. right.
  unfold raw_bytes in *. cbn [flat_map]. destruct IH as [IH|IH].
  - rewrite IH, app_nil_r. unfold di_record. change (fst r :: snd r ++ [0]) with ((fst r :: snd r) ++ [0]).
    apply last_last.
  - rewrite last_app_ne; [exact IH|].
    intros E. rewrite E in IH. cbn in IH. discriminate.
Qed.


Definition wf_raw (rr : list (byte * bytes)) : bool := forallb (fun r => wf_operand (snd r)) rr.

Lemma raw_bytes_app a b : raw_bytes (a ++ b) = raw_bytes a ++ raw_bytes b.
Proof. unfold raw_bytes. apply flat_map_app. Qed.

Lemma raw_bytes_cons op s rr : raw_bytes ((op, s) :: rr) = op :: s ++ 0 :: raw_bytes rr.
Proof. unfold raw_bytes. cbn [flat_map fst snd]. unfold di_record. cbn [app]. rewrite <- app_assoc. reflexivity. Qed.

Lemma raw_events_app a : forall pos b,
  raw_events pos (a ++ b) = raw_events pos a ++ raw_events (pos + length (raw_bytes a)) b.
Proof.
  induction a as [|r a IH]; intros pos b.
  - cbn [app raw_events raw_bytes flat_map length]. rewrite Nat.add_0_r. reflexivity.
  - destruct r as [op s]. cbn [app raw_events fst snd]. rewrite IH. f_equal. f_equal. f_equal.
    rewrite raw_bytes_cons. cbn [length]. rewrite app_length. cbn [length]. lia.
Qed.

Lemma raw_bytes_len rr : (length rr <= length (raw_bytes rr))%nat.
Proof.
  induction rr as [|r rr IH]; [cbn; lia|]. destruct r as [op s].
  rewrite raw_bytes_cons. cbn [length]. rewrite app_length. cbn [length]. lia.
Qed.

Lemma ends_with_nul_app_raw rr (rest : bytes) :
  rr <> [] -> nul_ended rest -> ends_with_nul (raw_bytes rr ++ rest) = true.
Proof.
  intros Hrr Hn. unfold ends_with_nul. apply N.eqb_eq.
  destruct Hn as [->|Hn].
  - rewrite app_nil_r. destruct (raw_bytes_nul_ended rr) as [E|E]; [|exact E].
    destruct rr as [|[op s] rr]; [congruence|]. rewrite raw_bytes_cons in E. discriminate.
  - rewrite last_app_ne; [exact Hn|]. intros E. rewrite E in Hn. cbn in Hn. discriminate.
Qed.

(* the whole format: a file made of complete records (any opcode bytes, non-empty NUL-free operands) whose first
   opcode is 0, followed by `rest`: the events of the records, then the record loop on `rest` *)
Lemma di_parse_raw_gen v rr (rest : bytes) :
  wf_operand v = true -> wf_raw rr = true -> nul_ended rest ->
  di_parse (raw_bytes ((0, v) :: rr) ++ rest) =
  raw_events 0 ((0, v) :: rr) ++
  di_loop (S (length (raw_bytes ((0, v) :: rr) ++ rest) - length ((0, v) :: rr)))
          (length (raw_bytes ((0, v) :: rr) ++ rest)) rest.
Proof.
  intros Hv Hrr Hn. unfold di_parse.
  rewrite (ends_with_nul_app_raw ((0, v) :: rr) rest ltac:(discriminate) Hn). cbn [negb].
  assert (Hh : hd 1 (raw_bytes ((0, v) :: rr) ++ rest) = 0) by (rewrite raw_bytes_cons; reflexivity).
  rewrite Hh. change (0 =? 0) with true. cbn [negb].
  set (RR := (0, v) :: rr) in *. set (d := raw_bytes RR ++ rest).
  assert (Hl : (length RR <= length d)%nat).
  { unfold d. rewrite app_length. pose proof (raw_bytes_len RR). unfold bytes, byte in *; lia. }
  replace (S (length d)) with (length RR + (S (length d) - length RR))%nat at 1 by lia.
  unfold d at 2. rewrite (di_loop_raw RR _ (length d) 0 rest).
  - f_equal. f_equal. unfold bytes, byte in *; lia.
  - unfold RR. cbn [forallb snd]. rewrite Hv. exact Hrr.
  - reflexivity.
Qed.

Theorem di_parse_raw : forall v rr,
  wf_operand v = true -> wf_raw rr = true ->
  di_parse (raw_bytes ((0, v) :: rr)) = raw_events 0 ((0, v) :: rr).
Proof.
  intros v rr Hv Hrr.
  pose proof (di_parse_raw_gen v rr [] Hv Hrr (or_introl eq_refl)) as H.
  rewrite !app_nil_r in H. exact H.
Qed.

(* ---------- writer round trip ---------- *)

Definition raw_of_rec (r : di_kind * bytes) : byte * bytes := (di_opcode (fst r), snd r).

Lemma di_write_raw v recs : di_write v recs = raw_bytes ((0, v) :: map raw_of_rec recs).
Proof.
  unfold di_write, raw_bytes. cbn [flat_map fst snd]. f_equal.
  induction recs as [|r recs IH]; [reflexivity|]. cbn [map flat_map]. rewrite IH. reflexivity.
Qed.

Lemma raw_events_recs recs : forall pos, raw_events pos (map raw_of_rec recs) = map di_event_of recs.
Proof.
  induction recs as [|r recs IH]; intros pos; [reflexivity|].
  cbn [map raw_events]. rewrite IH. f_equal.
  destruct r as [k s]. destruct k; reflexivity.
Qed.

Definition wf_recs (recs : list (di_kind * bytes)) : bool := forallb (fun r => wf_operand (snd r)) recs.

Lemma wf_raw_recs recs : wf_recs recs = true -> wf_raw (map raw_of_rec recs) = true.
Proof.
  unfold wf_recs, wf_raw. induction recs as [|r recs IH]; [reflexivity|].
  cbn [forallb map]. intros H. apply andb_true_iff in H. destruct H as [H1 H2].
  unfold raw_of_rec at 1. cbn [snd]. rewrite H1. exact (IH H2).
Qed.

Lemma wf_raw_app a b : wf_raw (a ++ b) = wf_raw a && wf_raw b.
Proof. unfold wf_raw. apply forallb_app. Qed.

Theorem di_roundtrip : forall version recs,
  wf_operand version = true -> wf_recs recs = true ->
  di_parse (di_write version recs) = Version version :: map di_event_of recs.
Proof.
  intros v recs Hv Hr. rewrite di_write_raw, (di_parse_raw v _ Hv (wf_raw_recs recs Hr)).
  cbn [raw_events fst snd]. rewrite raw_events_recs. reflexivity.
Qed.

Theorem di_roundtrip_inputs : forall version recs,
  wf_operand version = true -> wf_recs recs = true ->
  di_inputs (di_parse (di_write version recs)) =
    flat_map (fun r => match fst r with KInput => [snd r] | _ => [] end) recs /\
  di_has_error (di_parse (di_write version recs)) = false.
Proof.
  intros v recs Hv Hr. rewrite (di_roundtrip v recs Hv Hr). clear Hv Hr. split.
  - unfold di_inputs. cbn [flat_map app].
    induction recs as [|r recs IH]; [reflexivity|]. cbn [map flat_map]. rewrite IH.
    destruct r as [k s]. destruct k; reflexivity.
  - unfold di_has_error. cbn [existsb orb].
    induction recs as [|r recs IH]; [reflexivity|]. cbn [map existsb]. rewrite IH.
    destruct r as [k s]. destruct k; reflexivity.
Qed.

(* ---------- malformed files ---------- *)

Theorem di_missing_terminator : forall data,
  ends_with_nul data = false -> di_parse data = [DErr 1 (N.of_nat (length data))].
Proof. intros data H. unfold di_parse. rewrite H. reflexivity. Qed.

Theorem di_missing_version : forall data,
  ends_with_nul data = true -> (hd 1 data =? 0) = false -> di_parse data = [DErr 2 0].
Proof. intros data H1 H2. unfold di_parse. rewrite H1, H2. reflexivity. Qed.

(* a record with an empty operand after any number of good records: the good records' events, then error 3 at the
   record's offset, and NOTHING after it, whatever follows *)
Theorem di_empty_operand : forall v rr op rest,
  wf_operand v = true -> wf_raw rr = true -> nul_ended rest ->
  di_parse (raw_bytes ((0, v) :: rr) ++ op :: 0 :: rest) =
  raw_events 0 ((0, v) :: rr) ++ [DErr 3 (N.of_nat (length (raw_bytes ((0, v) :: rr))))].
Proof.
  intros v rr op rest Hv Hrr Hn.
  assert (Hn' : nul_ended (op :: 0 :: rest)).
  { right. destruct Hn as [->|Hn]; [reflexivity|].
    destruct rest as [|x y]; [cbn in Hn; discriminate | exact Hn]. }
  rewrite (di_parse_raw_gen v rr _ Hv Hrr Hn'). f_equal.
  cbn [di_loop scan_operand]. change (0 =? 0) with true. cbv iota.
  f_equal. f_equal. f_equal. rewrite app_length. lia.
Qed.

(* the terminating NUL may not double as an opcode: error 6 *)
Theorem di_missing_operand : forall v rr,
  wf_operand v = true -> wf_raw rr = true ->
  di_parse (raw_bytes ((0, v) :: rr) ++ [0]) =
  raw_events 0 ((0, v) :: rr) ++ [DErr 6 (N.of_nat (length (raw_bytes ((0, v) :: rr))))].
Proof.
  intros v rr Hv Hrr.
  rewrite (di_parse_raw_gen v rr [0] Hv Hrr (or_intror eq_refl)). f_equal.
  cbn [di_loop]. f_equal. f_equal. f_equal. rewrite app_length. cbn [length]. lia.
Qed.

Definition known_opcode (op : byte) : bool := (op =? 0) || (op =? 16) || (op =? 17) || (op =? 64).

(* a record with an unknown opcode (or a second version record) between good records: error 5 (resp. 4) at its
   offset is reported in place of the record; the records around it are still delivered *)
Theorem di_bad_opcode : forall v recs op s recs2,
  wf_operand v = true -> wf_recs recs = true -> wf_operand s = true -> wf_recs recs2 = true ->
  (known_opcode op = false \/ op = 0) ->
  di_parse (di_write v recs ++ di_record op s ++ raw_bytes (map raw_of_rec recs2)) =
  Version v :: map di_event_of recs ++
  DErr (if op =? 0 then 4 else 5) (N.of_nat (length (di_write v recs))) :: map di_event_of recs2.
Proof.
  intros v recs op s recs2 Hv Hr Hs Hr2 Hop.
  assert (E : di_write v recs ++ di_record op s ++ raw_bytes (map raw_of_rec recs2) =
              raw_bytes ((0, v) :: map raw_of_rec recs ++ (op, s) :: map raw_of_rec recs2)).
  { rewrite di_write_raw. change ((0, v) :: map raw_of_rec recs ++ (op, s) :: map raw_of_rec recs2)
      with (((0, v) :: map raw_of_rec recs) ++ [(op, s)] ++ map raw_of_rec recs2).
    rewrite !raw_bytes_app. f_equal. f_equal. unfold raw_bytes. cbn [flat_map fst snd]. symmetry. apply app_nil_r. }
  rewrite E, di_parse_raw.
  - change ((0, v) :: map raw_of_rec recs ++ (op, s) :: map raw_of_rec recs2)
      with (((0, v) :: map raw_of_rec recs) ++ (op, s) :: map raw_of_rec recs2).
    rewrite raw_events_app. cbn [raw_events fst snd app plus]. rewrite !raw_events_recs.
    f_equal. f_equal. rewrite <- di_write_raw. f_equal.
    unfold rec_event.
    assert (Hz : Nat.eqb (length (di_write v recs)) 0 = false).
    { apply Nat.eqb_neq. unfold di_write, di_record. cbn [app length]. lia. }
    rewrite Hz. destruct Hop as [Hop| ->]; [|reflexivity].
    unfold known_opcode in Hop. rewrite !orb_false_iff in Hop. destruct Hop as [[[H0 H16] H17] H64].
    rewrite H0, H16, H17, H64. reflexivity.
  - exact Hv.
  - rewrite wf_raw_app. rewrite (wf_raw_recs recs Hr). cbn [andb]. unfold wf_raw. cbn [forallb snd]. rewrite Hs.
    exact (wf_raw_recs recs2 Hr2).
Qed.

(* the four kinds of malformed file named by the property, together *)
Theorem di_malformed :
  (forall data, ends_with_nul data = false -> di_parse data = [DErr 1 (N.of_nat (length data))]) /\
  (forall data, ends_with_nul data = true -> (hd 1 data =? 0) = false -> di_parse data = [DErr 2 0]) /\
  (forall v rr op rest,
     wf_operand v = true -> wf_raw rr = true -> nul_ended rest ->
     di_parse (raw_bytes ((0, v) :: rr) ++ op :: 0 :: rest) =
     raw_events 0 ((0, v) :: rr) ++ [DErr 3 (N.of_nat (length (raw_bytes ((0, v) :: rr))))]) /\
  (forall v recs op s recs2,
     wf_operand v = true -> wf_recs recs = true -> wf_operand s = true -> wf_recs recs2 = true ->
     (known_opcode op = false \/ op = 0) ->
     di_parse (di_write v recs ++ di_record op s ++ raw_bytes (map raw_of_rec recs2)) =
     Version v :: map di_event_of recs ++
     DErr (if op =? 0 then 4 else 5) (N.of_nat (length (di_write v recs))) :: map di_event_of recs2).
Proof.
  split; [exact di_missing_terminator|]. split; [exact di_missing_version|].
  split; [exact di_empty_operand | exact di_bad_opcode].
Qed.

(* ---------- non-vacuity ---------- *)

(* version [ld]; input [/a b], missing [m], output [o], input [0x80 0xff] *)
Definition ex_version : bytes := [108; 100].
Definition ex_recs : list (di_kind * bytes) :=
  [(KInput, [47; 97; 32; 98]); (KMissing, [109]); (KOutput, [111]); (KInput, [128; 255])].

Example di_roundtrip_instance :
  wf_operand ex_version = true /\ wf_recs ex_recs = true /\
  di_write ex_version ex_recs = [0; 108; 100; 0; 16; 47; 97; 32; 98; 0; 17; 109; 0; 64; 111; 0; 16; 128; 255; 0] /\
  di_parse (di_write ex_version ex_recs) =
    [Version [108; 100]; Input [47; 97; 32; 98]; Missing [109]; Output [111]; Input [128; 255]].
Proof. vm_compute. repeat split; reflexivity. Qed.

Example di_malformed_instances :
  di_parse [0; 118] = [DErr 1 2] /\                                (* no terminator *)
  di_parse [] = [DErr 1 0] /\
  di_parse [16; 97; 0] = [DErr 2 0] /\                             (* no version record *)
  di_parse [0] = [DErr 6 0] /\                                     (* corpus: the final NUL as an opcode *)
  di_parse [0; 118; 0; 0] = [Version [118]; DErr 6 3] /\          (* corpus *)
  di_parse [0; 118; 0; 16; 0; 16; 97; 0] = [Version [118]; DErr 3 3] /\   (* empty operand: stops *)
  di_parse [0; 118; 0; 7; 120; 0; 16; 97; 0] = [Version [118]; DErr 5 3; Input [97]] /\
  di_parse [0; 118; 0; 0; 119; 0; 16; 97; 0] = [Version [118]; DErr 4 3; Input [97]] /\
  known_opcode 7 = false /\ nul_ended [16; 97; 0].
Proof. vm_compute. repeat split; try reflexivity. right. reflexivity. Qed.
