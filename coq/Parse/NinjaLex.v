(* Model of llbuild::ninja::Lexer (lib/Ninja/Lexer.cpp, include/llbuild/Ninja/Lexer.h) as the source is NOW
   (after the repairs: unsigned character fetch, 8-byte "subninja" comparison, bounds-checked look-ahead
   behind '$').  Definitions only (no proofs).

   Conventions of the transliteration
   * the C++ `int` returned by peekNextChar/getNextChar is an [option byte]: -1 is [None], a byte b is [Some b]
     (the code returns `(unsigned char)` values, so 0x80..0xFF are [Some 128] .. [Some 255], never -1);
   * the lexer object is the record [lstate]: the remaining suffix of the buffer (bufferPos .. buffer.end()),
     the offset of bufferPos from buffer.data(), lineNumber, columnNumber.  `unsigned` wrap-around of the line
     and column counters (buffers of 4 GiB and more) is not modelled;
   * every `while` loop is a Fixpoint on explicit fuel that answers [OutOfFuel] when the fuel runs out; the
     callers pass [S (length (remaining suffix))]; NinjaLexProofs.v proves [OutOfFuel] unreachable;
   * the current code dereferences no pointer without a preceding comparison against buffer.end()
     (peekNextChar, getNextChar, the two-byte look-ahead in lex), so the model has no OverRead outcome;
   * isspace is the C-locale one (the drivers never call setlocale): 9..13 and 32. *)
From LLB Require Import Base.Bytes.
Local Open Scope N_scope.

Inductive result (A : Type) : Type :=
| Ok (a : A)
| OutOfFuel.
Arguments Ok {A} a.
Arguments OutOfFuel {A}.

(* Token::Kind, in the order of the C++ enum *)
Inductive kind :=
| TkColon | TkComment | TkEndOfFile | TkEquals | TkIndentation | TkIdentifier
| TkKWBuild | TkKWDefault | TkKWInclude | TkKWPool | TkKWRule | TkKWSubninja
| TkNewline | TkPipe | TkPipePipe | TkString | TkUnknown.

(* the numeric value of the enumerator (what the driver prints for the probe tables) *)
Definition kind_code (k : kind) : N :=
  match k with
  | TkColon => 0 | TkComment => 1 | TkEndOfFile => 2 | TkEquals => 3 | TkIndentation => 4 | TkIdentifier => 5
  | TkKWBuild => 6 | TkKWDefault => 7 | TkKWInclude => 8 | TkKWPool => 9 | TkKWRule => 10 | TkKWSubninja => 11
  | TkNewline => 12 | TkPipe => 13 | TkPipePipe => 14 | TkString => 15 | TkUnknown => 16
  end.

(* Token::isKeyword: KWKindFirst = KWBuild .. KWKindLast = KWSubninja *)
Definition is_keyword (k : kind) : bool :=
  match k with
  | TkKWBuild | TkKWDefault | TkKWInclude | TkKWPool | TkKWRule | TkKWSubninja => true
  | _ => false
  end.

Definition is_eof (k : kind) : bool := match k with TkEndOfFile => true | _ => false end.

(* Lexer::LexingMode.  The line protocol numbers them 0 = None, 1 = PathString, 2 = VariableString,
   3 = IdentifierSpecific. *)
Inductive mode := MNone | MPathString | MVariableString | MIdentifierSpecific.

(* Token: start is the offset of Token::start from buffer.data() *)
Record token := mkTok { tk_kind : kind; tk_start : nat; tk_len : nat; tk_line : N; tk_col : N }.

Record lstate := mkL { l_rest : bytes; l_pos : nat; l_line : N; l_col : N }.

(* Lexer::Lexer(buffer): bufferPos = buffer.data(), lineNumber = 1, columnNumber = 0 *)
Definition init (data : bytes) : lstate := mkL data 0 1 0.

(* ---- character classes ---- *)

Definition is_nl (b : byte) : bool := (b =? 10) || (b =? 13).

(* isspace(c) in the C locale for c in 0..255 *)
Definition is_space (b : byte) : bool := ((9 <=? b) && (b <=? 13)) || (b =? 32).

(* static bool isNonNewlineSpace(int c) { return isspace(c) && c != '\n' && c != '\r'; } *)
Definition is_nn_space (b : byte) : bool := is_space b && negb (b =? 10) && negb (b =? 13).

(* Lexer::isIdentifierChar(char c).  The callers pass an int in -1..255 that is converted to (signed) char:
   -1 and 128..255 become negative and satisfy none of the ranges, as here. *)
Definition is_ident_char (b : byte) : bool :=
  ((97 <=? b) && (b <=? 122)) || ((65 <=? b) && (b <=? 90)) || ((48 <=? b) && (b <=? 57)) ||
  (b =? 95) || (b =? 46) || (b =? 45).

(* Lexer::isSimpleIdentifierChar(char c) *)
Definition is_simple_ident_char (b : byte) : bool :=
  ((97 <=? b) && (b <=? 122)) || ((65 <=? b) && (b <=? 90)) || ((48 <=? b) && (b <=? 57)) ||
  (b =? 95) || (b =? 45).

(* a predicate of the C code applied to an `int` that may be -1 (isspace(-1) = isspace(EOF) = 0) *)
Definition opt_test (f : byte -> bool) (c : option byte) : bool :=
  match c with Some b => f b | None => false end.

(* ---- character fetch ---- *)

(* int Lexer::peekNextChar() { if (bufferPos == buffer.end()) return -1; return (unsigned char)*bufferPos; } *)
Definition peek (s : lstate) : option byte :=
  match l_rest s with [] => None | b :: _ => Some b end.

(* int Lexer::getNextChar(): DOS/Mac newline folding; '\n' + '\r' - result = 23 - result *)
Definition getc (s : lstate) : option byte * lstate :=
  match l_rest s with
  | [] => (None, s)
  | b :: r =>
    if is_nl b then
      match r with
      | c :: r2 =>
        if c =? 23 - b
        then (Some 10, mkL r2 (S (S (l_pos s))) (l_line s + 1) 0)
        else (Some 10, mkL r (S (l_pos s)) (l_line s + 1) 0)
      | [] => (Some 10, mkL r (S (l_pos s)) (l_line s + 1) 0)
      end
    else (Some b, mkL r (S (l_pos s)) (l_line s) (l_col s + 1))
  end.

(* getNextChar() whose value is ignored *)
Definition skipc (s : lstate) : lstate := snd (getc s).

(* ---- tokens ---- *)

(* result.start = bufferPos; result.line = lineNumber; result.column = columnNumber was executed in state s0;
   setTokenKind(result, k) is executed in state s:  length = bufferPos - result.start *)
Definition mk_token (k : kind) (s0 s : lstate) : token :=
  mkTok k (l_pos s0) (l_pos s - l_pos s0) (l_line s0) (l_col s0).

(* the bytes result.start[0 .. bufferPos - result.start) *)
Definition token_bytes (s0 s : lstate) : bytes := firstn (l_pos s - l_pos s0) (l_rest s0).

Definition kw_rule : bytes := [114; 117; 108; 101].
Definition kw_pool : bytes := [112; 111; 111; 108].
Definition kw_build : bytes := [98; 117; 105; 108; 100].
Definition kw_default : bytes := [100; 101; 102; 97; 117; 108; 116].
Definition kw_include : bytes := [105; 110; 99; 108; 117; 100; 101].
Definition kw_subninja : bytes := [115; 117; 98; 110; 105; 110; 106; 97].

(* Lexer::setIdentifierTokenKind: switch on the length, then memcmp over exactly that many bytes *)
Definition ident_kind (w : bytes) : kind :=
  match length w with
  | 4%nat => if bytes_eqb w kw_rule then TkKWRule
             else if bytes_eqb w kw_pool then TkKWPool
             else TkIdentifier
  | 5%nat => if bytes_eqb w kw_build then TkKWBuild else TkIdentifier
  | 7%nat => if bytes_eqb w kw_default then TkKWDefault
             else if bytes_eqb w kw_include then TkKWInclude
             else TkIdentifier
  | 8%nat => if bytes_eqb w kw_subninja then TkKWSubninja else TkIdentifier
  | _ => TkIdentifier
  end.

(* the keyword table the property speaks about (spelling, kind) *)
Definition keyword_table : list (bytes * kind) :=
  [(kw_rule, TkKWRule); (kw_pool, TkKWPool); (kw_build, TkKWBuild);
   (kw_default, TkKWDefault); (kw_include, TkKWInclude); (kw_subninja, TkKWSubninja)].

(* ---- loops ---- *)

(* void Lexer::skipToEndOfLine() *)
Fixpoint skip_to_eol (fuel : nat) (s : lstate) : result lstate :=
  match fuel with
  | O => OutOfFuel
  | S f =>
    match peek s with
    | None => Ok s
    | Some c => if is_nl c then Ok s else skip_to_eol f (skipc s)
    end
  end.

(* while (Lexer::isIdentifierChar(peekNextChar())) getNextChar(); *)
Fixpoint ident_loop (fuel : nat) (s : lstate) : result lstate :=
  match fuel with
  | O => OutOfFuel
  | S f => if opt_test is_ident_char (peek s) then ident_loop f (skipc s) else Ok s
  end.

(* while (isNonNewlineSpace(peekNextChar())) getNextChar(); *)
Fixpoint nn_space_loop (fuel : nat) (s : lstate) : result lstate :=
  match fuel with
  | O => OutOfFuel
  | S f => if opt_test is_nn_space (peek s) then nn_space_loop f (skipc s) else Ok s
  end.

(* Token& Lexer::lexIdentifier(Token& result): s0 = state at result.start, s = current state *)
Definition lex_identifier (m : mode) (fuel : nat) (s0 s : lstate) : result (token * lstate) :=
  match ident_loop fuel s with
  | OutOfFuel => OutOfFuel
  | Ok s1 =>
    match m with
    | MIdentifierSpecific => Ok (mk_token TkIdentifier s0 s1, s1)
    | _ => Ok (mk_token (ident_kind (token_bytes s0 s1)) s0 s1, s1)
    end
  end.

(* the loop of Lexer::lexPathString *)
Fixpoint path_loop (fuel : nat) (s : lstate) : result lstate :=
  match fuel with
  | O => OutOfFuel
  | S f =>
    match peek s with
    | None => Ok s                                   (* c == -1: break *)
    | Some c =>
      if c =? 36 then                                (* '$' *)
        let s1 := skipc s in                         (* consume the actual '$' *)
        let '(c2, s2) := getc s1 in                  (* consume the next character (-1 at the end) *)
        if opt_test (N.eqb 10) c2 then               (* c == '\n' (folded): consume leading spaces *)
          match nn_space_loop f s2 with
          | OutOfFuel => OutOfFuel
          | Ok s3 => path_loop f s3
          end
        else path_loop f s2
      else if is_space c || (c =? 58) || (c =? 124) then Ok s     (* isspace, ':', '|': break *)
      else path_loop f (skipc s)
    end
  end.

(* the loop of Lexer::lexVariableString *)
Fixpoint var_loop (fuel : nat) (s : lstate) : result lstate :=
  match fuel with
  | O => OutOfFuel
  | S f =>
    match peek s with
    | None => Ok s
    | Some c =>
      if c =? 36 then var_loop f (skipc (skipc s))   (* '$' and the next character *)
      else if is_nl c then Ok s
      else var_loop f (skipc s)
    end
  end.

(* (bufferPos + 1 != buffer.end() && bufferPos[1] == '\n') ||
   (buffer.end() - bufferPos > 2 && bufferPos[1] == '\r' && bufferPos[2] == '\n'), with *bufferPos == '$' *)
Definition newline_escape_ahead (r : bytes) : bool :=
  match r with
  | _ :: c1 :: r2 =>
    (c1 =? 10) || ((c1 =? 13) && match r2 with c2 :: _ => c2 =? 10 | [] => false end)
  | _ => false
  end.

(* the `while (true)` loop of Lexer::lex that consumes leading whitespace and "$\n" escapes.
   The C++ variable c always equals peekNextChar() at the loop head (it is assigned from peekNextChar() before
   the loop and at the end of every iteration), so the model peeks. *)
Fixpoint ws_loop (fuel : nat) (s : lstate) : result lstate :=
  match fuel with
  | O => OutOfFuel
  | S f =>
    match peek s with
    | None => Ok s
    | Some c =>
      if (c =? 36) && negb (l_col s =? 0) then
        if newline_escape_ahead (l_rest s) then ws_loop f (skipc (skipc s)) else Ok s
      else if is_nn_space c then ws_loop f (skipc s)
      else Ok s
    end
  end.

(* the tail of Lexer::lex after `getNextChar(); switch (c)`; s0 = state at result.start, b = c *)
Definition lex_regular (m : mode) (fuel : nat) (s0 : lstate) (b : byte) : result (token * lstate) :=
  let s1 := skipc s0 in
  if b =? 58 then Ok (mk_token TkColon s0 s1, s1)
  else if b =? 61 then Ok (mk_token TkEquals s0 s1, s1)
  else if b =? 35 then
    match skip_to_eol fuel s1 with
    | OutOfFuel => OutOfFuel
    | Ok s2 => Ok (mk_token TkComment s0 s2, s2)
    end
  else if b =? 124 then
    if opt_test (N.eqb 124) (peek s1)
    then let s2 := skipc s1 in Ok (mk_token TkPipePipe s0 s2, s2)
    else Ok (mk_token TkPipe s0 s1, s1)
  else if is_ident_char b then lex_identifier m fuel s0 s1
  else Ok (mk_token TkUnknown s0 s1, s1).

(* Token& Lexer::lex(Token& result), with the lexing mode as an argument (the caller may call setMode before
   every lex) *)
Definition lex (m : mode) (s : lstate) : result (token * lstate) :=
  let fuel := S (length (l_rest s)) in
  if opt_test is_nn_space (peek s) && (l_col s =? 0) then
    (* (the inner `if (columnNumber == 0)` is always true here)  do getNextChar(); while (isNonNewlineSpace(peek)) *)
    match nn_space_loop fuel (skipc s) with
    | OutOfFuel => OutOfFuel
    | Ok s1 => Ok (mk_token TkIndentation s s1, s1)
    end
  else
    match ws_loop fuel s with
    | OutOfFuel => OutOfFuel
    | Ok s0 =>
      match peek s0 with
      | None => Ok (mk_token TkEndOfFile s0 s0, s0)
      | Some b =>
        if is_nl b then let s1 := skipc s0 in Ok (mk_token TkNewline s0 s1, s1)
        else
          match m with
          | MVariableString =>
            match var_loop fuel s0 with
            | OutOfFuel => OutOfFuel
            | Ok s1 => Ok (mk_token TkString s0 s1, s1)
            end
          | MPathString =>
            if negb (b =? 58) && negb (b =? 124) then
              match path_loop fuel s0 with
              | OutOfFuel => OutOfFuel
              | Ok s1 => Ok (mk_token TkString s0 s1, s1)
              end
            else lex_regular m fuel s0 b
          | _ => lex_regular m fuel s0 b
          end
      end
    end.

(* ---- token streams ---- *)

(* one lex call per element of [modes]: the caller switches the mode arbitrarily before every call *)
Fixpoint lex_stream_from (modes : list mode) (s : lstate) : result (list token) :=
  match modes with
  | [] => Ok []
  | m :: ms =>
    match lex m s with
    | OutOfFuel => OutOfFuel
    | Ok (t, s') =>
      match lex_stream_from ms s' with
      | OutOfFuel => OutOfFuel
      | Ok l => Ok (t :: l)
      end
    end
  end.
Definition lex_stream (modes : list mode) (data : bytes) : result (list token) :=
  lex_stream_from modes (init data).

(* lex with a constant mode until EndOfFile has been produced *)
Fixpoint lex_all_from (fuel : nat) (m : mode) (s : lstate) : result (list token) :=
  match fuel with
  | O => OutOfFuel
  | S f =>
    match lex m s with
    | OutOfFuel => OutOfFuel
    | Ok (t, s') =>
      if is_eof (tk_kind t) then Ok [t]
      else match lex_all_from f m s' with
           | OutOfFuel => OutOfFuel
           | Ok l => Ok (t :: l)
           end
    end
  end.
Definition lex_all (m : mode) (data : bytes) : result (list token) :=
  lex_all_from (S (length data)) m (init data).

(* ---- helpers for the probe tables (coq/gen/Gen_NinjaKeywords.v) ---- *)

Definition mode_of_code (c : N) : mode :=
  if c =? 1 then MPathString else if c =? 2 then MVariableString else if c =? 3 then MIdentifierSpecific else MNone.

Definition is_keyword_code (k : N) : bool := (6 <=? k) && (k <=? 11).

Definition keyword_codes : list (bytes * N) := map (fun e => (fst e, kind_code (snd e))) keyword_table.

Fixpoint lookup_bytes (w : bytes) (tbl : list (bytes * N)) : option N :=
  match tbl with
  | [] => None
  | (x, k) :: tbl' => if bytes_eqb w x then Some k else lookup_bytes w tbl'
  end.

Definition mem_N (b : N) (l : list N) : bool := existsb (N.eqb b) l.

(* longest prefix made of identifier characters, the identifier characters being given as a list [ic] *)
Fixpoint ident_prefix (ic : list N) (w : bytes) : bytes :=
  match w with
  | b :: r => if mem_N b ic then b :: ident_prefix ic r else []
  | [] => []
  end.

(* one probed entry: (mode code, input, kind code of the FIRST token the real lexer produced, its length).
   What the keyword property demands of it, in terms of the probed identifier characters [ic] and the keyword
   table only (no lexer model involved):
   - the input starts with an identifier character and the mode is None: the token is the maximal identifier run,
     and its kind is the keyword whose spelling is exactly that run, else Identifier;
   - the same in IdentifierSpecific mode: always Identifier;
   - otherwise: not a keyword kind. *)
Definition kw_entry_ok (ic : list N) (e : N * bytes * N * N) : bool :=
  let '(m, w, k, n) := e in
  match ident_prefix ic w with
  | [] => negb (is_keyword_code k)
  | p =>
    if m =? 0 then
      (k =? match lookup_bytes p keyword_codes with Some kc => kc | None => 5 end) && (n =? N.of_nat (length p))
    else if m =? 3 then (k =? 5) && (n =? N.of_nat (length p))
    else negb (is_keyword_code k)
  end.
Definition keywords_ok (ic : list N) (tbl : list (N * bytes * N * N)) : bool := forallb (kw_entry_ok ic) tbl.

(* the model answers every probed entry as the code did *)
Definition kw_entry_matches_model (e : N * bytes * N * N) : bool :=
  let '(m, w, k, n) := e in
  match lex (mode_of_code m) (init w) with
  | Ok (t, _) => (kind_code (tk_kind t) =? k) && (N.of_nat (tk_len t) =? n)
  | OutOfFuel => false
  end.
Definition keywords_match_model (tbl : list (N * bytes * N * N)) : bool := forallb kw_entry_matches_model tbl.

(* the probed character classes are the model's (0..255) *)
Definition all_bytes : list N := map N.of_nat (seq 0%nat 256%nat).
Definition charclass_matches (f : byte -> bool) (probed : list N) : bool :=
  forallb (fun b => Bool.eqb (f b) (mem_N b probed)) all_bytes && forallb (fun b => b <? 256) probed.

(* ---- compressed form of the probe table ----
   The check probes 24042 inputs; written out entry by entry the table takes Coq half a minute to read, so
   coq/gen/Gen_NinjaKeywords.v stores it as
   - singles: plain entries (the keywords themselves in the four modes, their two truncations);
   - families: (mode, keyword w, family f, runs): the 256 inputs obtained from w by putting every byte value v
     at position f (f < length w; v = w[f] gives w itself), by appending v (f = 100) or by prepending v (f = 101);
     the 256 answers (kind, length), in the order v = 0..255, are run-length encoded as (count, kind, length). *)
Fixpoint set_nth (i : nat) (v : byte) (w : bytes) : bytes :=
  match w with
  | [] => []
  | b :: r => match i with O => v :: r | S j => b :: set_nth j v r end
  end.

Definition family_input (w : bytes) (f v : N) : bytes :=
  if f =? 100 then w ++ [v] else if f =? 101 then v :: w else set_nth (N.to_nat f) v w.

Fixpoint expand_runs (runs : list (N * N * N)) : list (N * N) :=
  match runs with
  | [] => []
  | (c, k, n) :: r => repeat (k, n) (N.to_nat c) ++ expand_runs r
  end.

Definition expand_family (e : N * bytes * N * list (N * N * N)) : list (N * bytes * N * N) :=
  let '(m, w, f, runs) := e in
  map (fun va => (m, family_input w f (fst va), fst (snd va), snd (snd va))) (combine all_bytes (expand_runs runs)).

Definition expand_keyword_table (singles : list (N * bytes * N * N))
           (fams : list (N * bytes * N * list (N * N * N))) : list (N * bytes * N * N) :=
  singles ++ flat_map expand_family fams.

(* every family answers all 256 byte values *)
Definition families_complete (fams : list (N * bytes * N * list (N * N * N))) : bool :=
  forallb (fun e => length (expand_runs (snd e)) =? 256)%nat fams.

(* the families cover, in the modes None and IdentifierSpecific, every position of every keyword of the table, the
   one-byte extensions at either end; the singles contain every keyword in all four modes and both truncations
   in the two modes *)
Definition has_family (fams : list (N * bytes * N * list (N * N * N))) (m : N) (w : bytes) (f : N) : bool :=
  existsb (fun e => let '(m', w', f', _) := e in (m' =? m) && bytes_eqb w' w && (f' =? f)) fams.
Definition has_single (singles : list (N * bytes * N * N)) (m : N) (w : bytes) : bool :=
  existsb (fun e => let '(m', w', _, _) := e in (m' =? m) && bytes_eqb w' w) singles.
Definition probes_cover (singles : list (N * bytes * N * N)) (fams : list (N * bytes * N * list (N * N * N))) : bool :=
  forallb (fun kw =>
    let w := fst kw in
    forallb (fun m => has_single singles m w) [0; 1; 2; 3] &&
    forallb (fun m =>
      has_single singles m (removelast w) && has_single singles m (tl w) &&
      forallb (fun f => has_family fams m w f) (map N.of_nat (seq 0%nat (length w)) ++ [100; 101])) [0; 3])
    keyword_table.
