# Common machinery for every property check (DESIGN.md section 2).
# - rebuilds /repo's current working tree into /verif/_work/b-<variant>
# - builds the C++ drivers against those libraries (ninja, header dependencies tracked)
# - builds the Coq development, re-checks Props/Properties_<id>.v and parses Print Assumptions
# - verdict logic: known findings, VIOLATION lines, replay files, evidence
import os, sys, json, time, subprocess, hashlib, fcntl, random, re, shutil

ROOT = os.path.dirname(os.path.dirname(os.path.dirname(os.path.abspath(__file__))))
REPO = os.environ.get("VERIF_REPO", "/repo")
WORK = os.path.join(ROOT, "_work")
COQ = os.path.join(ROOT, "coq")
GUARD = "LLBUILD_VERIF"
NCPU = os.cpu_count() or 4

LIBS = ["libllbuildBuildSystem.a", "libllbuildNinja.a", "libllbuildCore.a", "libllbuildBasic.a",
        "libllvmSupport.a", "libLLVMDemangle.a"]
SYSLIBS = ["-lsqlite3", "-lpthread", "-lcurses", "-ldl"]

VARIANTS = {
    # same compilers/flags as /repo/_build plus the hook guard
    "hooks": dict(cxx="/usr/bin/clang++-16", cc="/usr/bin/clang-16",
                  flags="-Wno-error -D%s" % GUARD, targets=["llbuild", "libllbuild"]),
    # clang 16 in this image has no sanitizer runtimes; clang 14 has them
    "asan": dict(cxx="/usr/bin/clang++", cc="/usr/bin/clang",
                 flags="-Wno-error -D%s -fsanitize=address,undefined -fno-sanitize-recover=all -fno-omit-frame-pointer" % GUARD,
                 targets=["llbuildBasic", "llbuildCore", "llbuildNinja", "llbuildBuildSystem", "llvmSupport", "LLVMDemangle"]),
    "tsan": dict(cxx="/usr/bin/clang++", cc="/usr/bin/clang",
                 flags="-Wno-error -D%s -fsanitize=thread -fno-omit-frame-pointer" % GUARD,
                 targets=["llbuildBasic", "llbuildCore", "llbuildNinja", "llbuildBuildSystem", "llvmSupport", "LLVMDemangle"]),
}


def sh(cmd, timeout=600, input=None, cwd=None, env=None):
    """Run a command; returns (rc, stdout, stderr). rc = -9 on timeout."""
    if isinstance(input, str):
        input = input.encode()
    try:
        p = subprocess.run(cmd, input=input, stdout=subprocess.PIPE, stderr=subprocess.PIPE,
                           timeout=timeout, cwd=cwd, env=env, shell=isinstance(cmd, str))
        return p.returncode, p.stdout.decode("utf-8", "replace"), p.stderr.decode("utf-8", "replace")
    except subprocess.TimeoutExpired as e:
        return -9, (e.stdout or b"").decode("utf-8", "replace"), "TIMEOUT"


class Lock:
    def __init__(self, name):
        os.makedirs(WORK, exist_ok=True)
        self.path = os.path.join(WORK, name + ".lock")

    def __enter__(self):
        self.f = open(self.path, "w")
        fcntl.flock(self.f, fcntl.LOCK_EX)
        return self

    def __exit__(self, *a):
        fcntl.flock(self.f, fcntl.LOCK_UN)
        self.f.close()


def hx(b):
    return b.hex() if b else "-"


def unhx(s):
    return b"" if s == "-" else bytes.fromhex(s)


class BuildError(Exception):
    pass


def build_repo(variant="hooks"):
    """Rebuild /repo's working tree with the hook guard on. Incremental (ninja)."""
    v = VARIANTS[variant]
    bdir = os.path.join(WORK, "b-" + variant)
    with Lock("build-" + variant):
        if not os.path.exists(os.path.join(bdir, "build.ninja")):
            os.makedirs(bdir, exist_ok=True)
            rc, out, err = sh(["cmake", "-G", "Ninja", "-S", REPO, "-B", bdir, "-DCMAKE_BUILD_TYPE=RelWithDebInfo",
                               "-DCMAKE_CXX_COMPILER=" + v["cxx"], "-DCMAKE_C_COMPILER=" + v["cc"],
                               "-DCMAKE_CXX_FLAGS=" + v["flags"], "-DCMAKE_C_FLAGS=" + v["flags"].replace("-Wno-error ", ""),
                               "-DLLBUILD_SUPPORT_BINDINGS="], timeout=600)
            if rc != 0:
                raise BuildError("cmake configure failed (%s):\n%s\n%s" % (variant, out[-3000:], err[-3000:]))
        rc, out, err = sh(["ninja", "-C", bdir] + v["targets"], timeout=1800)
        if rc != 0:
            raise BuildError("build of /repo failed (%s):\n%s\n%s" % (variant, out[-6000:], err[-3000:]))
    return bdir


def build_drivers(names, variant="hooks"):
    """Compile harness/cpp/<name>.cpp (or .c) against the libraries of the given variant.
    Header dependencies (including /repo/include) are tracked by ninja depfiles."""
    v = VARIANTS[variant]
    bdir = build_repo(variant)
    ddir = os.path.join(WORK, "drv-" + variant)
    os.makedirs(ddir, exist_ok=True)
    src = os.path.join(ROOT, "harness", "cpp")
    san = " ".join(f for f in v["flags"].split() if f.startswith("-fsanitize") or f.startswith("-fno-"))
    cxxflags = "-std=c++14 -O1 -g -DNDEBUG -D%s -fno-rtti -fno-exceptions -I%s/include -I%s/lib/llvm -I%s/products/libllbuild/include -I%s -Wno-everything %s" % (
        GUARD, REPO, REPO, REPO, src, san)
    libs = " ".join(os.path.join(bdir, "lib", l) for l in LIBS)
    lines = ["cxx = %s" % v["cxx"], "cc = %s" % v["cc"], "cxxflags = %s" % cxxflags,
             "rule cxx", "  command = $cxx $cxxflags -MMD -MF $out.d -c $in -o $out", "  depfile = $out.d", "  deps = gcc",
             "rule cc", "  command = $cc -O1 -g -I%s/products/libllbuild/include %s -MMD -MF $out.d -c $in -o $out" % (REPO, san),
             "  depfile = $out.d", "  deps = gcc",
             "rule link", "  command = $cxx %s $in $extralibs %s -o $out" % (san, " ".join(SYSLIBS)), ""]
    # *_shim.c are LD_PRELOAD libraries built by the check that uses them, not line-protocol drivers
    allsrc = sorted(f for f in os.listdir(src) if (f.endswith(".cpp") or f.endswith(".c")) and not f.rsplit(".", 1)[0].endswith("_shim"))
    for f in allsrc:
        base = f.rsplit(".", 1)[0]
        rule = "cxx" if f.endswith(".cpp") else "cc"
        lines.append("build %s.o: %s %s" % (base, rule, os.path.join(src, f)))
        extralibs = libs
        if base.startswith("capi"):
            extralibs = os.path.join(bdir, "lib", "libllbuild.a") + " " + libs
        lines.append("build %s: link %s.o | %s" % (base, base, extralibs))
        lines.append("  extralibs = %s" % extralibs)
    new = "\n".join(lines) + "\n"
    with Lock("drv-" + variant):
        p = os.path.join(ddir, "build.ninja")
        if not os.path.exists(p) or open(p).read() != new:
            open(p, "w").write(new)
        rc, out, err = sh(["ninja", "-C", ddir] + list(names), timeout=900)
        if rc != 0:
            raise BuildError("driver build failed:\n%s\n%s" % (out[-6000:], err[-3000:]))
    return {n: os.path.join(ddir, n) for n in names}


def llbuild_bin():
    return os.path.join(build_repo("hooks"), "bin", "llbuild")


# ------------------------------------------------------------------ Coq side

def coq_project_files():
    out = []
    for dp, dn, fn in os.walk(COQ):
        dn[:] = [d for d in dn if d not in ("extracted",)]
        for f in fn:
            if f.endswith(".v") and not f.startswith("."):
                out.append(os.path.relpath(os.path.join(dp, f), COQ))
    return sorted(out)


def coq_setup_makefile():
    """_CoqProject lists every .v file under coq/ (regenerated, so areas never edit a shared file)."""
    proj = "-Q . LLB\n" + "\n".join(coq_project_files()) + "\n"
    changed = write_if_changed(os.path.join(COQ, "_CoqProject"), proj)
    if changed or not os.path.exists(os.path.join(COQ, "Makefile")) or \
            os.path.getmtime(os.path.join(COQ, "Makefile")) < os.path.getmtime(os.path.join(COQ, "_CoqProject")):
        sh(["coq_makefile", "-f", "_CoqProject", "-o", "Makefile"], cwd=COQ)


def write_if_changed(path, content):
    if os.path.exists(path) and open(path).read() == content:
        return False
    os.makedirs(os.path.dirname(path), exist_ok=True)
    open(path, "w").write(content)
    return True


def coq_make(targets, timeout=2400):
    """make the given .vo targets (full .vo build, never -vos)."""
    with Lock("coq"):
        coq_setup_makefile()
        rc, out, err = sh(["make", "-k", "-j%d" % NCPU] + list(targets), cwd=COQ, timeout=timeout)
    return rc, out + err


def coq_eval(name, body, timeout=600):
    """Compile a scratch file _work/coqtmp/<name>.v importing the development; returns (rc, output)."""
    d = os.path.join(WORK, "coqtmp")
    os.makedirs(d, exist_ok=True)
    p = os.path.join(d, name + ".v")
    open(p, "w").write(body)
    rc, out, err = sh(["coqc", "-Q", COQ, "LLB", p], timeout=timeout, cwd=d)
    return rc, out + err


def check_props(pid, extra_targets=()):
    """Re-check the property file of <pid>: every dependency is (re)built, the file itself is always
    recompiled so that Print Assumptions output is captured on every run.
    Returns dict(obligations, discharged, theorems=[{name, assumptions}], ok, log)."""
    vfile = os.path.join(COQ, "Props", "Properties_%s.v" % pid)
    text = open(vfile).read()
    names = re.findall(r"^\s*(?:Theorem|Corollary)\s+([A-Za-z0-9_']+)", text, re.M)
    # hygiene gate over the whole development
    bad = []
    for dp, dn, fn in os.walk(COQ):
        for f in fn:
            if f.endswith(".v"):
                t = open(os.path.join(dp, f)).read()
                t = re.sub(r"\(\*.*?\*\)", "", t, flags=re.S)
                for m in re.finditer(r"\b(Admitted|admit|Axiom|Axioms|Parameter|Parameters|Conjecture|Admit Obligations|bypass_check|Unset Guard Checking|Unset Positivity Checking|Unset Universe Checking)\b", t):
                    bad.append("%s: %s" % (os.path.relpath(os.path.join(dp, f), COQ), m.group(1)))
    res = dict(obligations=len(names), discharged=0, theorems=[], ok=False, log="", hygiene=bad)
    with Lock("coq"):
        coq_setup_makefile()
        vo = "Props/Properties_%s.vo" % pid
        rc, out, err = sh(["make", "-k", "-j%d" % NCPU, vo] + list(extra_targets), cwd=COQ, timeout=3000)
        log = out + err
        pa_out = ""
        if rc == 0:
            # recompile the (tiny) property file alone so that its Print Assumptions output is captured in order
            rc, pa_out, err2 = sh(["coqc", "-Q", ".", "LLB", "Props/Properties_%s.v" % pid], cwd=COQ, timeout=1200)
            log += pa_out + err2
    res["log"] = log
    pa_names = re.findall(r"Print Assumptions\s+([A-Za-z0-9_']+)\s*\.", text)
    parts = re.split(r"(?m)^(Closed under the global context|Axioms:)\s*$", pa_out)
    outs = []
    for i in range(1, len(parts), 2):
        if parts[i].startswith("Closed"):
            outs.append([])
        else:
            ax = []
            for l in parts[i + 1].splitlines():
                m = re.match(r"^([A-Za-z0-9_.']+)\s*:", l)
                if m:
                    ax.append(m.group(1))
            outs.append(ax)
    seen = dict(zip(pa_names, outs)) if len(outs) == len(pa_names) else {}
    if rc == 0 and not bad:
        for n in names:
            res["theorems"].append(dict(name=n, assumptions=seen.get(n, ["<Print Assumptions missing>"])))
        res["discharged"] = sum(1 for n in names if n in seen)
        res["ok"] = all(n in seen for n in names)
    else:
        res["ok"] = False
        res["failed_at"] = re.findall(r'File "([^"]+)", line (\d+)', log)[:3]
    return res


def model_bin(area="base"):
    """The extracted OCaml model of an area (coq/Extract_<area>.v -> extracted/Model_<area>.ml,
    handlers in ocaml/vmodel_<area>.ml)."""
    return build_model(area)


def build_model(area="base"):
    """Extract and compile the OCaml driver of an area; incremental."""
    od = os.path.join(WORK, "ocaml", area)
    os.makedirs(od, exist_ok=True)
    rc, log = coq_make(["Extract_%s.vo" % area])
    if rc != 0:
        raise BuildError("Coq model (area %s) does not build:\n%s" % (area, log[-5000:]))
    with Lock("ocaml-" + area):
        ml = os.path.join(COQ, "extracted", "Model_%s.ml" % area)
        srcs = [ml, ml + "i", os.path.join(ROOT, "ocaml", "helpers.ml"), os.path.join(ROOT, "ocaml", "vmodel_%s.ml" % area),
                os.path.join(ROOT, "ocaml", "mainloop.ml")]
        out = os.path.join(od, "vmodel")
        if os.path.exists(out) and all(os.path.getmtime(s) <= os.path.getmtime(out) for s in srcs):
            return out
        shutil.copy(srcs[0], od)
        shutil.copy(srcs[1], od)
        with open(os.path.join(od, "main.ml"), "w") as f:
            f.write("open Model_%s\n" % area)
            for s in srcs[2:]:
                f.write(open(s).read() + "\n")
        mod = "Model_%s" % area
        cmd = ["ocamlfind", "ocamlopt", "-O3", "-w", "-a", "-package", "str", "-linkpkg", mod + ".mli", mod + ".ml", "main.ml", "-o", "vmodel"]
        rc, o, e = sh(cmd, cwd=od, timeout=900)
        if rc != 0:
            raise BuildError("OCaml build of the extracted model (area %s) failed:\n%s" % (area, (o + e)[-4000:]))
    return out


# ------------------------------------------------------------------ verdicts

def load_known():
    known, fixed = [], []
    p = os.path.join(ROOT, "KNOWN_FINDINGS.txt")
    if os.path.exists(p):
        for l in open(p):
            l = l.strip()
            if not l or l.startswith("#"):
                continue
            m = re.match(r"known:\s+property=(\S+)\s+key=(\S+)\s+(.*)", l)
            if m:
                known.append(dict(property=m.group(1), key=m.group(2), what=m.group(3)))
            m = re.match(r"fixed:\s+property=(\S+)\s+(\S+)\s+(.*)", l)
            if m:
                fixed.append(dict(property=m.group(1), commit=m.group(2), what=m.group(3)))
    return known, fixed


class Check:
    def __init__(self, pid, tier, seed):
        self.pid, self.tier, self.seed = pid, tier, seed
        self.t0 = time.time()
        self.rng = random.Random(seed * 1000003 + int(hashlib.md5(pid.encode()).hexdigest()[:6], 16))
        self.known, self.fixed = load_known()
        self.violations = []      # unlisted
        self.known_hits = {}      # key -> what
        self.samples = []
        self.cov = dict(evaluations=0, distinct_nontrivial=0)
        self.distinct = set()
        self.assumptions = []
        self.notes = {}
        os.makedirs(os.path.join(ROOT, "replays"), exist_ok=True)
        os.makedirs(os.path.join(ROOT, "evidence"), exist_ok=True)

    def quick(self):
        return self.tier == "quick"

    def n(self, quick, thorough):
        return quick if self.tier == "quick" else thorough

    def count(self, nontrivial_key=None, n=1):
        self.cov["evaluations"] += n
        if nontrivial_key is not None:
            self.distinct.add(nontrivial_key if isinstance(nontrivial_key, (str, int, tuple)) else repr(nontrivial_key))

    def sample(self, s, limit=6):
        if len(self.samples) < limit:
            self.samples.append(s)

    def violation(self, key, what, replay, found_input=True, broken=None):
        """key: canonical finding key (matched against KNOWN_FINDINGS.txt).
        found_input: a concrete failing input/state/history is in the replay."""
        for k in self.known:
            if k["property"] == self.pid and re.fullmatch(k["key"], key):
                if key not in self.known_hits:
                    self.known_hits[key] = k["what"]
                return False
        if any(v["key"] == key for v in self.violations):
            return True
        idx = len(self.violations)
        rp = os.path.join(ROOT, "replays", "%s_%s_%d.json" % (self.pid, re.sub(r"[^A-Za-z0-9_.-]", "_", key)[:60], idx))
        obj = dict(property=self.pid, verdict="failing-input" if found_input else "no-failing-input-found",
                   broken=broken, finding_key=key, what=what, seed=self.seed, tier=self.tier,
                   how_to_replay="tools/check %s --replay %s" % (self.pid, rp))
        obj.update(replay if isinstance(replay, dict) else dict(input=replay))
        json.dump(obj, open(rp, "w"), indent=1, default=str)
        self.violations.append(dict(key=key, what=what, replay=rp, found=found_input))
        return True

    def proof_gate(self, extra_targets=(), search=None, also=()):
        """Run the Coq side. If an obligation does not check, `search` (a callable) is asked for a concrete
        failing input; otherwise the violation is reported as no-failing-input-found.
        also: further property files (Props/Properties_<name>.v) whose theorems this property relies on as well."""
        res = check_props(self.pid, extra_targets)
        for other in also:
            r2 = check_props(other)
            res["obligations"] += r2["obligations"]
            res["discharged"] += r2["discharged"]
            res["theorems"] += r2["theorems"]
            res["hygiene"] = res["hygiene"] or r2["hygiene"]
            if not r2["ok"]:
                res["ok"] = False
                res["failed_at"] = (res.get("failed_at") or []) + (r2.get("failed_at") or []) + [("Props/Properties_%s.v" % other, "")]
            res["log"] += r2["log"]
        self.proof = res
        if res["hygiene"]:
            self.violation("coq-hygiene", "forbidden vernacular in the development: %s" % res["hygiene"][:5],
                           dict(broken="hygiene gate", detail=res["hygiene"]), found_input=False, broken="hygiene gate")
        if not res["ok"]:
            found = None
            if search is not None:
                try:
                    found = search(res)
                except Exception as e:  # the search must never mask the broken proof
                    found = None
                    self.notes["search_error"] = repr(e)
            tail = res["log"][-3000:]
            if found:
                self.violation(found.get("key", "proof-broken"), found.get("what", "a proof obligation of %s no longer checks" % self.pid),
                               dict(broken="Props/Properties_%s.v" % self.pid, coq_log_tail=tail, **found.get("replay", {})),
                               found_input=True, broken="Props/Properties_%s.v" % self.pid)
            else:
                self.violation("proof-broken", "a proof obligation of %s no longer checks against the regenerated model tables" % self.pid,
                               dict(broken="Props/Properties_%s.v (or a file it depends on)" % self.pid, failed_at=res.get("failed_at"),
                                    coq_log_tail=tail), found_input=False, broken="Props/Properties_%s.v" % self.pid)
        return res

    def finish(self, level="proof", rule="", extra=None, trusted=None):
        for key, what in self.known_hits.items():
            print("KNOWN-FINDING: property=%s %s [%s]" % (self.pid, what, key))
        for v in self.violations:
            print("VIOLATION property=%s replay=%s%s" % (self.pid, v["replay"], "" if v["found"] else " no-failing-input-found"))
            print("  what: %s" % v["what"])
        cov = dict(self.cov)
        cov["distinct_nontrivial"] = len(self.distinct)
        cov["rule"] = rule
        cov["samples"] = self.samples if self.samples else ["<none>"]
        pr = getattr(self, "proof", None)
        if pr is not None:
            cov["obligations"] = pr["obligations"]
            cov["discharged"] = pr["discharged"]
            cov["checker_cmd"] = "make -C coq Props/Properties_%s.vo (coqc 8.16.1, full .vo; file recompiled on every run)" % self.pid
            ax = sorted(set(a for t in pr["theorems"] for a in t["assumptions"]))
            cov["trusted_base"] = (trusted or []) + ["Coq 8.16.1 kernel incl. vm_compute; no native_compute",
                                                     "axioms reported by Print Assumptions: %s" % (", ".join(ax) if ax else "none (closed under the global context)")]
            cov["theorems"] = pr["theorems"]
        if extra:
            cov.update(extra)
        cov["known_findings_hit"] = sorted(self.known_hits)
        if self.notes:
            cov["notes"] = self.notes
        ev = dict(property_id=self.pid, tier=self.tier, seed=self.seed, level=level, coverage=cov,
                  assumptions=self.assumptions, wall_s=round(time.time() - self.t0, 2), violations=len(self.violations))
        json.dump(ev, open(os.path.join(ROOT, "evidence", "%s.json" % self.pid), "w"), indent=1, default=str)
        print("%s: %s evaluations=%d distinct_nontrivial=%d obligations=%s/%s violations=%d known=%d wall=%.1fs" % (
            self.pid, self.tier, cov["evaluations"], cov["distinct_nontrivial"], cov.get("discharged"), cov.get("obligations"),
            len(self.violations), len(self.known_hits), time.time() - self.t0))
        return 1 if self.violations else 0


def run_lines(binary, lines, timeout=600, env=None):
    """Feed one request per line; returns list of output lines (same count expected by callers)."""
    rc, out, err = sh([binary], input="\n".join(lines) + "\n", timeout=timeout, env=env)
    return rc, out.split("\n")[:-1] if out.endswith("\n") else out.split("\n"), err


class Interactive:
    """A line-protocol process kept open: ask(line) -> answer line."""
    def __init__(self, binary, env=None):
        self.p = subprocess.Popen([binary], stdin=subprocess.PIPE, stdout=subprocess.PIPE, stderr=subprocess.PIPE, env=env)

    def ask(self, line):
        try:
            self.p.stdin.write((line + "\n").encode())
            self.p.stdin.flush()
            r = self.p.stdout.readline()
        except (BrokenPipeError, OSError):
            r = b""
        if not r:
            err = self.p.stderr.read().decode("utf-8", "replace")
            raise RuntimeError("driver died on %r: %s" % (line, err[-2000:]))
        return r.decode("utf-8", "replace").rstrip("\n")

    def close(self):
        try:
            self.p.stdin.close()
            self.p.wait(timeout=10)
        except Exception:
            self.p.kill()
