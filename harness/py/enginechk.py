# Shared verdict machinery of the engine checks C01, C02, C03, C05 (mine; enginelib.py holds the generator and canonical forms).
# Every check runs generated histories through the REAL engine (harness/cpp/engine_driver.cpp) and through the extracted
# specification engine (coq/Engine/Spec.v), compares canonical observations (tie D), and applies the property's own oracle to
# the implementation trace alone (oracle O), which is what turns a disagreement into a concrete failing history.
import os, re, json, difflib
import vlib, enginelib as E

TMP = os.path.join(vlib.WORK, "tmp")


def with_fresh(lines):
    """After every build line add the fresh-engine oracle line for the same key."""
    out = []
    for l in lines:
        out.append(l)
        t = l.split(" ")
        if t[0] == "build":
            out.append("fresh %s" % t[1])
    return out


def parse_impl(lines):
    """split_builds plus the fresh-engine oracle values attached to each build."""
    builds = E.split_builds(lines)
    cur = None
    bi = -1
    real = [b for b in builds if b["hdr"] != "restart"]
    for l in lines:
        t = l.split(" ")
        if t[0] == "build":
            bi += 1
            cur = real[bi]
            cur["fresh"] = None
            cur["freshvals"] = {}
        elif cur is not None and t[0] == "fresh":
            cur["fresh"] = t[2]
        elif cur is not None and t[0] == "freshval":
            cur["freshvals"][int(t[1])] = t[2]
    return builds


def result_value(b):
    """'payload.stamp' | 'EMPTY' of a build's result line; cancelled flag."""
    t = (b["result"] or "result ?").split(" ")
    return t[1], ("cancelled" in t[2:])


class TooManyHangs(Exception):
    pass


class Session:
    """One driver build + one model process shared by all histories of a check."""
    def __init__(self, chk, variant="hooks"):
        self.chk = chk
        self.drv = vlib.build_drivers(["engine_driver"], variant)["engine_driver"]
        self.model = E.Model("engine")
        self.n = 0
        self.hangs = 0

    def run(self, lines, tag, timeout=120, keepdb=False):
        self.n += 1
        wd = os.path.join(TMP, self.chk.pid.lower(), "%s" % tag)
        if self.hangs >= 3:
            # the engine hangs again and again (already reported): do not spend the timeout on every remaining case
            raise TooManyHangs()
        rc, out, err, sp, tp = E.run_impl(self.drv, lines, wd, timeout=timeout, keepdb=keepdb)
        if rc == -9:
            self.hangs += 1
        return dict(rc=rc, out=out, err=err, sp=sp, tp=tp, wd=wd)

    def model_run(self, r):
        return self.model.run(r["sp"], r["tp"])

    def close(self):
        self.model.close()


def diff_text(a, b, n=3, limit=60):
    return "\n".join(list(difflib.unified_diff(a, b, "implementation", "model", lineterm="", n=n))[:limit])


def shrink(lines, still_fails, budget=60):
    """Greedy delta debugging over scenario lines (rule/db lines are kept; ops after them may be dropped).
    still_fails(lines) -> bool re-runs the candidate on the implementation."""
    head = [l for l in lines if l.split(" ")[0] in ("db", "rule", "name", "schema", "recreate")]
    # keep relative order: head lines interleaved with ops matter (rule edits), so only drop non-head lines
    cur = list(lines)
    tries = 0
    changed = True
    while changed and tries < budget:
        changed = False
        for i in range(len(cur) - 1, -1, -1):
            if tries >= budget:
                break
            t = cur[i].split(" ")[0]
            if t in ("db", "name", "schema", "recreate"):
                continue
            cand = cur[:i] + cur[i + 1:]
            if not any(x.startswith("build") for x in cand):
                continue
            tries += 1
            try:
                if still_fails(cand):
                    cur = cand
                    changed = True
            except Exception:
                pass
    return cur


# ------------------------------------------------------------------ oracle C01: incremental == fresh engine, inputs current

def oracle_c01(builds):
    """-> list of (key, what) for one parsed implementation trace."""
    bad = []
    for b in builds:
        if b["hdr"] == "restart":
            continue
        val, cancelled = result_value(b)
        if cancelled or any(x.startswith("cycle") for x in b["other"]):
            continue
        if b.get("fresh") is None:
            continue
        if val != b["fresh"]:
            bad.append(("stale-result", "build '%s' returned %s but a brand-new engine computes %s" % (b["hdr"], val, b["fresh"])))
        for l in b["events"]:
            t = l.split(" ")
            if t[0] == "provide":
                d, v = int(t[3]), t[4]
                fv = b["freshvals"].get(d)
                if fv is not None and v != fv:
                    bad.append(("stale-input", "in '%s' task %s was handed %s for input %d whose current value is %s" % (b["hdr"], t[1], v, d, fv)))
    return bad


# ------------------------------------------------------------------ oracle C02: at most once, reasons justified by shadow epochs

DEFAULT_RULE = dict(sig=0, obs=1, req=[], single=[], follow=[], disc=[], br=None)


class Shadow:
    """The observer's own record of epochs, kept from the implementation's observable trace only."""
    def __init__(self):
        self.reset(False)

    def reset(self, keep_db):
        if keep_db:
            # a new engine over the same database sees what was persisted: the state at each key's last COMPLETION
            self.built = dict(self.ran)            # builtAt as persisted
            self.deps.update(self.dbdeps)          # and the dependency lists as stored (a cancelled build may have left partial lists in memory)
            self.singles.update(getattr(self, "dbsingles", {}))      # stored lists still hold the single-use entries (cleaning happens in memory at a scan)
        else:
            self.built, self.ran, self.changed, self.value, self.sig, self.deps, self.orderonly, self.dbdeps = {}, {}, {}, {}, {}, {}, {}, {}
            self.singles, self.dbsingles = {}, {}
            self.epoch = 0
        self.flag = set()
        if not keep_db or not hasattr(self, "uncertain"):
            self.uncertain = set()      # completion raced with a cancellation: processed or dropped, the trace cannot tell

    def apply_build(self, b, rules, env):
        """Judge one build's events, then advance the shadow. rules: key -> dict(sig, obs, follow, ...) seen by this engine instance."""
        errs = []
        self.epoch += 1
        e = self.epoch
        created, needed, completed = {}, {}, {}
        scanned_ok = set()
        for l in b["events"]:
            t = l.split(" ")
            k = int(t[1])
            if t[0] == "valid" and t[2] == "1":
                scanned_ok.add(k)
            elif t[0] == "need":
                reason, inp = int(t[2]), (None if t[3] == "-" else int(t[3]))
                if k in needed:
                    errs.append(("reason-twice", "rule %d got two run reasons in one build" % k))
                needed[k] = (reason, inp)
                r = rules.get(k, DEFAULT_RULE)        # the driver's default for an undefined key: an observing input rule
                if k in self.uncertain or (inp is not None and inp in self.uncertain):
                    continue
                if reason == 0 and k in self.built:
                    errs.append(("reason-false-neverbuilt", "rule %d reported NeverBuilt but it was built at epoch %d" % (k, self.built[k])))
                if reason == 1 and (k not in self.built or self.sig.get(k) == r.get("sig", 0)):
                    errs.append(("reason-false-signature", "rule %d reported SignatureChanged but its signature is unchanged (%s)" % (k, self.sig.get(k))))
                if reason == 2:
                    v = self.value.get(k)
                    if not r.get("obs") or v is None or v == "EMPTY" or int(v.split(".")[1]) == env.get(k, 0):
                        errs.append(("reason-false-invalid", "rule %d reported InvalidValue but its stored stamp %s matches the environment" % (k, v)))
                if reason == 3:
                    deps = self.deps.get(k, [])
                    if inp not in deps:
                        errs.append(("reason-false-input-notdep", "rule %d reported InputRebuilt(%s) which is not one of its recorded dependencies %s" % (k, inp, deps)))
                    elif inp in self.orderonly.get(k, ()):
                        errs.append(("reason-false-input-orderonly", "rule %d reported InputRebuilt(%d) but that dependency was recorded as order-only" % (k, inp)))
                    elif not (self.changed.get(inp, 0) > self.built.get(k, 0)):
                        errs.append(("reason-false-input-unchanged", "rule %d reported InputRebuilt(%d) but that input last changed at epoch %s, not after the rule was brought up to date at %s" % (
                            k, inp, self.changed.get(inp), self.built.get(k))))
                if reason == 4 and k not in self.flag:
                    errs.append(("reason-false-forced", "rule %d reported Forced but its previous execution was not interrupted" % k))
            elif t[0] == "create":
                created[k] = created.get(k, 0) + 1
                if created[k] > 1:
                    errs.append(("executed-twice", "rule %d was executed more than once in '%s'" % (k, b["hdr"])))
                if k not in needed:
                    errs.append(("executed-without-reason", "rule %d was executed without a reported reason" % k))
            elif t[0] == "complete":
                completed[k] = t[2]
                if self.value.get(k) != t[2]:
                    self.changed[k] = e
                self.value[k] = t[2]
                self.sig[k] = rules.get(k, {}).get("sig", 0)
        val, cancelled = result_value(b)
        aborted = cancelled or any(x.startswith("cycle") for x in b["other"])
        for k in created:
            if k in completed:
                self.built[k] = e
                self.ran[k] = e
                self.flag.discard(k)
                self.uncertain.discard(k)
                rr = rules.get(k, {})
                other = set(rr.get("req", [])) | set(rr.get("single", [])) | set(rr.get("disc", [])) | (set(rr["br"][1]) | set(rr["br"][2]) if rr.get("br") else set())
                self.orderonly[k] = set(rr.get("follow", [])) - other       # keys recorded ONLY as order-only
                if aborted:
                    self.uncertain.add(k)
            else:
                self.flag.add(k)
        if not aborted:
            for k in scanned_ok:
                if k not in needed:
                    self.built[k] = e
        # what a rule RECORDS must be what its task REQUESTED in this execution (value requests incl. the dynamic ones seen as deliveries beyond the
        # declared slots, single-use requests - cleaned only at the next scan -, must-follow keys, discovered dependencies): nothing kept from an
        # earlier execution, nothing lost
        if not aborted and not any(x.startswith("deps-unavailable") for x in b["other"]) and not any(x.startswith("deps-unavailable") for x in b["events"]):
            for k in created:
                if k not in completed or k in self.uncertain:
                    continue
                rr = rules.get(k, DEFAULT_RULE)
                nfix = len(rr.get("req", [])) + len(rr.get("single", []))
                dyn = [int(l.split(" ")[3]) for l in b["events"] if l.startswith("provide %d " % k) and int(l.split(" ")[2]) >= nfix]
                want = sorted(list(rr.get("req", [])) + list(rr.get("single", [])) + list(rr.get("follow", [])) + list(rr.get("disc", [])) + dyn)
                got = sorted(b["deps"].get(k, []))
                if want != got:
                    errs.append(("deps-not-what-was-requested", "rule %d ran and requested %s but its recorded dependencies are %s" % (k, want, got)))
            # a rule that is only SCANNED (validated, not re-run) has had its single-use dependencies removed before the scan: afterwards its
            # recorded list is the previous one minus exactly those entries
            for k in scanned_ok:
                if k in created or k in self.uncertain or k not in self.deps or k in self.flag:
                    continue
                want = list(self.deps[k])
                for sg in self.singles.get(k, []):
                    if sg in want:
                        want.remove(sg)
                got = list(b["deps"].get(k, []))
                if sorted(want) != sorted(got):
                    errs.append(("single-use-not-cleaned", "rule %d was scanned without running: its recorded dependencies should be %s (previous list %s minus the single-use ones %s) but are %s" % (
                        k, sorted(want), self.deps[k], self.singles.get(k, []), sorted(got))))
                self.singles[k] = []
            for k in created:
                if k in completed:
                    self.singles[k] = list(rules.get(k, DEFAULT_RULE).get("single", []))
            # a rule without recorded dependencies has no `deps` line: what was looked at in this build and is not listed has an empty list now
            for k in list(scanned_ok) + [x for x in created if x in completed]:
                if k not in b["deps"]:
                    self.deps[k] = []
        else:
            # no judgement in an aborted build, but a rule whose validity was asked there has been through the cleaning as well
            for k in scanned_ok:
                if k not in created:
                    self.singles[k] = []
                    if k not in b["deps"] and not any(x.startswith("deps-unavailable") for x in b["other"]):
                        self.deps[k] = []
        for k, d in b["deps"].items():
            self.deps[k] = d
        for l in b.get("db", []):
            t = l.split(" ")
            if t[0] == "dbrow":
                self.dbdeps[int(t[1])] = [int(x.split(":")[0]) for x in t[6:] if x.split(":")[0].lstrip("-").isdigit()]
                self.dbsingles[int(t[1])] = [int(x.split(":")[0]) for x in t[6:] if x.split(":")[0].lstrip("-").isdigit() and ":" in x and x.split(":")[1].isdigit() and int(x.split(":")[1]) & 2]
        self.last_created = created
        return errs


class Scenario:
    """Replays the scenario text next to the implementation trace so that every build is judged against the rule table
    and external state in force when it ran."""
    def __init__(self, lines):
        self.lines = lines

    def walk(self, builds):
        """yields (build, active_rules, env, restarted_with_db_since_last_build?) for each real build, in order."""
        pending, active, env = {}, None, {}
        usedb = False
        real = [b for b in builds if b["hdr"] != "restart"]
        bi = 0
        restarts = []
        for l in self.lines:
            t = l.split(" ")
            if t[0] == "rule":
                pending[int(t[1])] = parse_rule(t[2:])
            elif t[0] == "set":
                env[int(t[1])] = int(t[2])
            elif t[0] == "db":
                usedb = t[1] != "0"
            elif t[0] == "restart":
                active = dict(pending)
                restarts.append(usedb)
            elif t[0] == "build":
                if active is None:
                    active = dict(pending)
                if bi < len(real):
                    yield real[bi], active, dict(env), list(restarts)
                bi += 1
                restarts = []


def parse_rule(toks):
    r = dict(sig=0, obs=0, req=[], single=[], follow=[], disc=[], br=None)
    for t in toks:
        if "=" not in t:
            continue
        a, b = t.split("=", 1)
        if a in ("sig", "obs"):
            r[a] = int(b)
        elif a in ("req", "single", "follow", "disc"):
            r[a] = [int(x) for x in b.split(",") if x]
        elif a == "br":
            p = b.split(":")
            r["br"] = (int(p[0]), [int(x) for x in p[1].split(",") if x] if len(p) > 1 else [], [int(x) for x in p[2].split(",") if x] if len(p) > 2 else [])
    return r


def oracle_c02(lines, builds):
    """Shadow-epoch judgement of every reported reason and of at-most-once, over a whole history."""
    sh = Shadow()
    bad = []
    for b, rules, env, restarts in Scenario(lines).walk(builds):
        for usedb in restarts:
            sh.reset(usedb)
        for key, what in sh.apply_build(b, rules, env):
            bad.append((key, "%s (in '%s')" % (what, b["hdr"])))
    return bad
