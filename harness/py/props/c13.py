# C13 - file change detection is sound in every file-system mode
import os, json, shutil, hashlib, stat
import vlib
from vlib import hx

MODES = {0: "default", 1: "device-agnostic", 2: "checksum-only"}

def py_state(path, link):
    """The facts about the path measured independently by Python (the model's input and the oracle's)."""
    try:
        st = os.lstat(path) if link else os.stat(path)
    except OSError:
        return None
    if stat.S_ISLNK(st.st_mode):
        kind, content = "l", os.readlink(path).encode()
    elif stat.S_ISDIR(st.st_mode):
        kind, content = "d", b""
    else:
        kind = "f"
        try:
            content = open(path, "rb").read()
        except OSError:
            content = None
    return dict(kind=kind, dev=st.st_dev, ino=st.st_ino, mode=st.st_mode, size=st.st_size,
                sec=st.st_mtime_ns // 10**9, nsec=st.st_mtime_ns % 10**9, content=content)

def wire(s):
    if s is None:
        return "missing"
    readable = s["content"] is not None
    dg = hashlib.md5(s["content"] if readable else b"").digest()
    return "%s:%d:%d:%d:%d:%d:%d:%d:%s" % (s["kind"], s["dev"], s["ino"], s["mode"], s["size"], s["sec"], s["nsec"], 1 if readable else 0, dg.hex())

def must_differ(mode, a, b):
    """Property oracle: must the two observations compare unequal (True), equal (False), or unspecified (None)?"""
    ea, eb = a is not None, b is not None
    if ea != eb:
        return True
    if not ea:
        return False
    if mode in (0, 1):
        if a["size"] != b["size"] or (a["sec"], a["nsec"]) != (b["sec"], b["nsec"]):
            return True
        if mode == 0 and (a["dev"], a["ino"]) != (b["dev"], b["ino"]):
            return True
        return False   # untouched in everything the mode looks at
    cls = lambda s: 1 if s["kind"] == "d" else 2
    same = cls(a) == cls(b) and a["size"] == b["size"] and (a["kind"] == "d" or a["content"] == b["content"])
    return not same

def steps(rng, d):
    """A sequence of mutations of one path; each is (label, function)."""
    p = os.path.join(d, "obj")
    other = os.path.join(d, "other")
    def rm():
        if os.path.islink(p) or os.path.isfile(p): os.unlink(p)
        elif os.path.isdir(p): shutil.rmtree(p)
    def write(content, ns, keep_inode=False):
        def f():
            if keep_inode and os.path.isfile(p) and not os.path.islink(p):
                with open(p, "r+b") as fh:
                    fh.seek(0); fh.write(content); fh.truncate()
            else:
                rm()
                with open(p, "wb") as fh: fh.write(content)
            os.utime(p, ns=(ns, ns))
        return f
    def replace_inode(ns):
        def f():
            c = open(p, "rb").read()
            tmp = p + ".tmp"
            with open(tmp, "wb") as fh: fh.write(c)
            os.utime(tmp, ns=(ns, ns))
            os.rename(tmp, p)
        return f
    def mkdir(ns):
        def f():
            rm(); os.mkdir(p); os.utime(p, ns=(ns, ns))
        return f
    def symlink(target, ns):
        def f():
            rm(); os.symlink(target, p); os.utime(p, ns=(ns, ns), follow_symlinks=False)
        return f
    def touch(ns):
        return lambda: os.utime(p, ns=(ns, ns))
    def chmod(m):
        return lambda: os.chmod(p, m)
    T = [0, 1, 10**9, 1700000000 * 10**9 + 5, 1700000000 * 10**9 + 6, 1700000001 * 10**9, 2**40 * 10**9]
    big = bytes(rng.getrandbits(8) for _ in range(65536))
    big2 = bytearray(big); big2[rng.randrange(65536)] ^= 1; big2 = bytes(big2)
    pool = [
        ("missing", rm),
        ("file a@T3", write(b"a", T[3])), ("file a@T3 rewritten in place", write(b"a", T[3], True)),
        ("file b@T3 in place (same size, same mtime)", write(b"b", T[3], True)),
        ("file aa@T3 in place", write(b"aa", T[3], True)),
        ("touch T4", touch(T[4])), ("touch T5", touch(T[5])), ("touch T3", touch(T[3])),
        ("replace inode (same content, same mtime)", replace_inode(T[3])),
        ("empty file @0.0", write(b"", T[0])), ("empty file @0.000000001", write(b"", T[1])), ("empty file @1.0", write(b"", T[2])),
        ("file a@0.0", write(b"a", T[0])),
        ("dir@T3", mkdir(T[3])), ("dir@0.0", mkdir(T[0])),
        ("symlink->other@T3", symlink("other", T[3])), ("symlink->nowhere@T3", symlink("nowhere", T[3])), ("symlink->othex@T3", symlink("othex", T[3])),
        ("64KiB@T3", write(big, T[3])), ("64KiB one bit flipped in place@T3", write(big2, T[3], True)),
        ("64KiB+1@T3", write(big + b"x", T[3], True)), ("huge mtime", write(b"a", T[6])),
        ("chmod 600", chmod(0o600)), ("chmod 644", chmod(0o644)),
    ]
    def dirsized():
        # a regular file whose size equals the st_size the directory had: only the type marker tells them apart
        rm(); os.mkdir(p); n = os.stat(p).st_size; rm()
        with open(p, "wb") as fh: fh.write(b"\0" * n)
        os.utime(p, ns=(T[3], T[3]))
    pool.append(("file with the size of a directory@T3", dirsized))
    with open(other, "wb") as fh: fh.write(b"target")
    os.utime(other, ns=(T[3], T[3]))
    seq = [pool[0], pool[1], pool[2], pool[3], pool[4], pool[5], pool[8], pool[9], pool[0], pool[9], pool[10], pool[13], pool[15], pool[17], pool[16], pool[18], pool[19], pool[20], pool[13], pool[-1]]
    for _ in range(12):
        seq.append(rng.choice(pool))
    out = []
    for (lab, f) in seq:
        needs_file = lab.startswith(("touch", "replace", "chmod"))
        out.append((lab, f, needs_file))
    return p, out

def run(chk):
    drv = vlib.build_drivers(["leaf_driver"])["leaf_driver"]
    model = vlib.model_bin()
    chk.proof_gate()
    base = os.path.join(vlib.WORK, "tmp", "c13")
    shutil.rmtree(base, ignore_errors=True)
    nseq = chk.n(6, 120)
    ndis = 0
    total_pairs = 0
    for si in range(nseq):
        d = os.path.join(base, "s%d" % si)
        os.makedirs(d)
        p, seq = steps(chk.rng, d)
        it = vlib.Interactive(drv)
        obs = []   # (label, link, mode, slot, pystate, implfields)
        slot = 0
        try:
            for (lab, f, needs_file) in seq:
                if needs_file and not (os.path.isfile(p) and not os.path.islink(p)):
                    continue
                f()
                for link in (0, 1):
                    s = py_state(p, link)
                    for mode in (0, 1, 2):
                        a = it.ask("fs_obs %d %d %d %s" % (slot, mode, link, hx(p.encode())))
                        obs.append((lab, link, mode, slot, s, a))
                        slot += 1
            # model observations
            mreq = ["fs_obs %d %s" % (mode, wire(s)) for (lab, link, mode, sl, s, a) in obs]
            rc, mo, me = vlib.run_lines(model, mreq)
            for (o, m) in zip(obs, mo):
                lab, link, mode, sl, s, a = o
                chk.count()
                # O: never the sentinel for an existing object; missing is missing
                ismiss = a.split(" ")[1] == "1"
                if (s is None) != ismiss:
                    chk.violation("sentinel-%s" % MODES[mode], "isMissing() is %s for %s (%s mode, %s)" % (ismiss, "a missing path" if s is None else "an existing object", MODES[mode], lab),
                                  dict(step=lab, mode=MODES[mode], link=link, state=wire(s), implementation=a), broken="c13 oracle (sentinel)")
                if a != m:
                    ndis += 1
                    if len(chk.notes.setdefault("obs_disagreements", [])) < 4:
                        chk.notes["obs_disagreements"].append(dict(step=lab, mode=MODES[mode], link=link, state=wire(s), implementation=a, model=m))
            # all pairs of observations of the same (mode, link)
            groups = {}
            for o in obs:
                groups.setdefault((o[1], o[2]), []).append(o)
            ereq, epairs = [], []
            for (link, mode), g in groups.items():
                for i in range(len(g)):
                    for j in range(i, len(g)):
                        a, b = g[i], g[j]
                        r = it.ask("fs_eq %d %d" % (a[3], b[3]))
                        ereq.append("fs_eq %d %s %s" % (mode, wire(a[4]), wire(b[4])))
                        epairs.append((mode, link, a, b, r))
            rc, eo, ee = vlib.run_lines(model, ereq)
            for (mode, link, a, b, r), m in zip(epairs, eo):
                total_pairs += 1
                md = must_differ(mode, a[4], b[4])
                key = (mode, link, wire(a[4]), wire(b[4]))
                chk.count(key if md else None)
                if "INCONSISTENT" in r:
                    chk.violation("eq-neq-inconsistent", "operator== and operator!= disagree", dict(a=a[5], b=b[5]))
                eq = r.startswith("1")
                if md is True and eq:
                    what = "differ in " + ("existence" if (a[4] is None) != (b[4] is None) else "size/mtime/device/inode/content")
                    k = "undetected-%s-%s" % (MODES[mode], "existence" if (a[4] is None) != (b[4] is None) else "change")
                    chk.violation(k, "two observations that %s compare equal in %s mode: [%s] vs [%s]" % (what, MODES[mode], a[0], b[0]),
                                  dict(mode=MODES[mode], link=link, step_a=a[0], step_b=b[0], state_a=wire(a[4]), state_b=wire(b[4]), info_a=a[5], info_b=b[5]),
                                  broken="c13 oracle (detects)")
                elif md is False and not eq:
                    chk.violation("spurious-%s" % MODES[mode], "two observations that agree in everything %s mode looks at compare unequal: [%s] vs [%s]" % (MODES[mode], a[0], b[0]),
                                  dict(mode=MODES[mode], link=link, step_a=a[0], step_b=b[0], state_a=wire(a[4]), state_b=wire(b[4]), info_a=a[5], info_b=b[5]),
                                  broken="c13 oracle (untouched equal)")
                if (r[:1] != m):
                    ndis += 1
                    if len(chk.notes.setdefault("eq_disagreements", [])) < 4:
                        chk.notes["eq_disagreements"].append(dict(mode=MODES[mode], a=wire(a[4]), b=wire(b[4]), implementation=r, model=m))
            if si == 0:
                chk.sample(dict(step=obs[7][0], mode=MODES[obs[7][2]], link=obs[7][1], state=wire(obs[7][4]), implementation=obs[7][5]))
        except RuntimeError as e:
            chk.violation("fs-driver-crash", "the implementation crashed while observing a path", dict(error=str(e)[-1500:]))
        finally:
            it.close()
        shutil.rmtree(d, ignore_errors=True)
    chk.cov["pairs_compared"] = total_pairs
    chk.cov["disagreements"] = ndis
    if ndis and not chk.violations:
        chk.violation("fileobs-correspondence", "model (Codec/FileObs.v) and implementation disagree on %d observations/comparisons while the property oracle found no failure" % ndis,
                      dict(broken="correspondence: Codec.FileObs vs FileInfo.cpp / FileSystem.h", examples=chk.notes), found_input=False, broken="correspondence: Codec.FileObs")
    chk.assumptions = ["digest idealised (injective on compared contents, never the directory marker): premises of c13_checksum_mode",
                       "stat() reports a non-zero mode for every existing object (wf_obj)", "Linux: MD5 digest, st_mtim"]
    return chk.finish(level="proof",
                      rule="sequences of mutations of one path (create, rewrite in place, same-size content change, touch, replace inode, empty@0.0, dir, symlink, 64KiB one-bit flip, chmod) observed through getFileInfo and getLinkInfo of the three real FileSystem wrappers; every pair of observations per (mode, link) compared with operator== against the model and against the property oracle; non-trivial = pairs that must compare unequal; distinct by (mode, link, both states)",
                      trusted=["hand-written model coq/Codec/FileObs.v tied by correspondence", "Python's os.stat / hashlib.md5 as independent observer", "harness/cpp/leaf_driver.cpp", "extraction + ocaml/vmodel.ml"])

def replay(chk, rp):
    print(json.dumps(rp, indent=1))
    return run(chk)
