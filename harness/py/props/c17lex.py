# c17lex - Ninja lexer (parts of C19 and C17) and shell quoting (part of C17).
#
# Entry points
#   run(chk) / replay(chk, rp)   `tools/check c17lex` (property file Props/Properties_c17lex.v, evidence c17lex.json)
#   prepare(chk)                 builds the drivers (normal + asan), probes the code, rewrites coq/gen/Gen_NinjaKeywords.v and
#                                coq/gen/Gen_ShellWhitelist.v, builds the extracted model.  Cached on chk; called by the parts.
#   proof_search(chk)            the `search` callable for chk.proof_gate: a concrete offending input when a table theorem breaks
#   lexer_part(chk)              Gen tables + differential (model / implementation / asan implementation) + property oracle
#   shell_part(chk)              differential on shellEscaped + the real /bin/sh round trip + the sh-model tie
# c17.py / c19.py call prepare(chk) (or a part) BEFORE their proof gate (the Gen files must be current), pass
# search=c17lex.proof_search(chk) to it, and call the parts; the parts only add violations / counts / notes to chk.
import os, re, json
import vlib
from vlib import hx, unhx

AREA = "ninjalex"
DRV = "ninjalex_driver"
KINDS = ["Colon", "Comment", "EndOfFile", "Equals", "Indentation", "Identifier", "KWBuild", "KWDefault", "KWInclude", "KWPool",
         "KWRule", "KWSubninja", "Newline", "Pipe", "PipePipe", "String", "Unknown"]
KCODE = {k: i for i, k in enumerate(KINDS)}
# the keyword set of the property: spelling -> kind
KEYWORDS = {b"rule": "KWRule", b"pool": "KWPool", b"build": "KWBuild", b"default": "KWDefault", b"include": "KWInclude",
            b"subninja": "KWSubninja"}
KWKINDS = set(KEYWORDS.values())
IDENT_TEXT = set(b"abcdefghijklmnopqrstuvwxyzABCDEFGHIJKLMNOPQRSTUVWXYZ0123456789_.-")   # the property's "ordinary word characters"
# what may lie between two tokens: non-newline spaces and "$"-newline continuations (gap_units in NinjaLexProofs.v)
GAP_RE = re.compile(rb"(?:[\t\x0b\x0c ]|\$\n\r|\$\r\n|\$\n)*")
# characters that must not be left unquoted (task list; '=' and '%' are literal in argument position)
SH_META = set(b"|&;<>()$`\\\"' \t\n*?[#~") | {0}


# ------------------------------------------------------------------ probes and Gen tables

def _nl(xs):
    return "[" + "; ".join(str(x) for x in xs) + "]"


def probe(drv):
    reqs = ["probe_keywords", "probe_whitelist", "probe_identchars"] + ["shell_escaped %s" % hx(bytes([b])) for b in range(256)]
    rc, out, err = vlib.run_lines(drv, reqs, timeout=300)
    if rc != 0 or len(out) != len(reqs):
        raise vlib.BuildError("ninjalex_driver failed on the probes: rc=%s %s" % (rc, err[-1500:]))
    ents = []
    for e in out[0].split():
        m, h, k, n = e.split(":")
        ents.append((int(m), unhx(h), int(k), int(n)))
    wl = [int(x) for x in out[1].split()[1:]]
    a, b = out[2].split(" | ")
    ident = [int(x) for x in a.split()[1:]]
    simple = [int(x) for x in b.split()[1:]]
    singles = [unhx(x) for x in out[3:]]
    return dict(kw=ents, whitelist=wl, ident=ident, simple=simple, shell_single=singles)


def compress_keywords(ents):
    """singles + run-length encoded families (see Parse/NinjaLex.v, "compressed form of the probe table")."""
    ans = {}
    for m, w, k, n in ents:
        ans[(m, w)] = (k, n)
    singles, fams, covered = [], [], set()
    for w in KEYWORDS:
        for m in (0, 1, 2, 3):
            singles.append((m, w)); covered.add((m, w))
        for m in (0, 3):
            for x in (w[:-1], w[1:]):
                singles.append((m, x)); covered.add((m, x))
            for f in list(range(len(w))) + [100, 101]:
                row = []
                for v in range(256):
                    x = w + bytes([v]) if f == 100 else bytes([v]) + w if f == 101 else w[:f] + bytes([v]) + w[f + 1:]
                    row.append(ans[(m, x)]); covered.add((m, x))
                runs = []
                for a in row:
                    if runs and (runs[-1][1], runs[-1][2]) == a:
                        runs[-1][0] += 1
                    else:
                        runs.append([1, a[0], a[1]])
                fams.append((m, w, f, runs))
    missing = set(ans) - covered
    assert not missing, "probe entries not representable in the compressed table: %r" % sorted(missing)[:3]
    return [(m, w) + ans[(m, w)] for m, w in singles], fams


def write_gen(pr):
    singles, fams = compress_keywords(pr["kw"])
    ls = ";\n   ".join("(%d, %s, %d, %d)" % (m, _nl(w), k, n) for m, w, k, n in singles)
    lf = ";\n   ".join("(%d, %s, %d, [%s])" % (m, _nl(w), f, "; ".join("(%d, %d, %d)" % tuple(r) for r in runs)) for m, w, f, runs in fams)
    body = ("(* REGENERATED on every run by harness/py/props/c17lex.py from probes of the rebuilt /repo (ninjalex_driver). *)\n"
            "From Coq Require Import List NArith.\nImport ListNotations.\nLocal Open Scope N_scope.\n"
            "(* bytes accepted by Lexer::isIdentifierChar / isSimpleIdentifierChar *)\n"
            "Definition probed_identchars : list N := %s.\n"
            "Definition probed_simple_identchars : list N := %s.\n"
            "(* (mode, input, kind code of the first token the real lexer produced, its length) *)\n"
            "Definition probed_keyword_singles : list (N * list N * N * N) :=\n  [%s].\n"
            "(* (mode, keyword, family, run-length encoded answers for the byte values 0..255) - see Parse/NinjaLex.v *)\n"
            "Definition probed_keyword_families : list (N * list N * N * list (N * N * N)) :=\n  [%s].\n") % (
        _nl(pr["ident"]), _nl(pr["simple"]), ls, lf)
    c1 = vlib.write_if_changed(os.path.join(vlib.COQ, "gen", "Gen_NinjaKeywords.v"), body)
    body2 = ("(* REGENERATED on every run by harness/py/props/c17lex.py from probes of the rebuilt /repo (ninjalex_driver). *)\n"
             "From Coq Require Import List NArith.\nImport ListNotations.\nLocal Open Scope N_scope.\n"
             "(* the bytes b for which shellEscaped of the one-byte string [b] is that string *)\n"
             "Definition probed_whitelist : list N := %s.\n"
             "(* shellEscaped of each of the 256 one-byte strings, in order *)\n"
             "Definition probed_shell_single : list (list N) :=\n  [%s].\n") % (
        _nl(pr["whitelist"]), ";\n   ".join(_nl(x) for x in pr["shell_single"]))
    c2 = vlib.write_if_changed(os.path.join(vlib.COQ, "gen", "Gen_ShellWhitelist.v"), body2)
    return c1 or c2


def prepare(chk):
    ctx = getattr(chk, "_c17lex", None)
    if ctx is not None:
        return ctx
    drv = vlib.build_drivers([DRV])[DRV]
    asan = vlib.build_drivers([DRV], "asan")[DRV]
    pr = probe(drv)
    write_gen(pr)
    model = vlib.model_bin(AREA)
    ctx = dict(drv=drv, asan=asan, model=model, probes=pr, ident=set(pr["ident"]))
    chk._c17lex = ctx
    return ctx


# ------------------------------------------------------------------ property oracles (independent of the Coq model)

def kw_entry_expected(ident, m, w):
    """What the keyword clause demands of the FIRST token of input w in mode m: (kind code or None = any non-keyword, length or None)."""
    p = 0
    while p < len(w) and w[p] in ident:
        p += 1
    if p == 0:
        return None, None
    word = w[:p]
    if m == 0:
        return KCODE[KEYWORDS.get(word, "Identifier")], p
    if m == 3:
        return KCODE["Identifier"], p
    return None, None


def kw_table_violations(pr):
    """keywords recognised only as whole words, over the exhaustive probe table; returns [(m, w, k, n, why)]."""
    ident = set(pr["ident"])
    bad = []
    for m, w, k, n in pr["kw"]:
        ek, en = kw_entry_expected(ident, m, w)
        iskw = 6 <= k <= 11
        if ek is None:
            if iskw:
                bad.append((m, w, k, n, "keyword kind %s for an input that is no whole keyword in mode %d" % (KINDS[k], m)))
        elif (k, n) != (ek, en):
            bad.append((m, w, k, n, "expected %s of length %d" % (KINDS[ek], en)))
    return bad


def parse_tokens(line):
    if line == ".":
        return []
    toks = []
    for t in line.split("|"):
        p = t.split(" ")
        if len(p) != 5:
            return None
        toks.append((p[0], int(p[1]), int(p[2]), int(p[3]), int(p[4])))
    return toks


def lex_oracle(data, modes, toks, until_eof, ident):
    """The lexer clauses of C19/C17 evaluated on a token list of the implementation.
    modes: one mode per token.  Returns the first failure (key, text) or None."""
    n = len(data)
    end = 0
    for i, (kind, start, ln, line, col) in enumerate(toks):
        m = modes[i]
        if kind not in KCODE:
            return "lex-bad-kind", "token %d has kind %r" % (i, kind)
        if start < 0 or ln < 0 or start + ln > n:
            return "lex-out-of-bounds", "token %d (%s %d+%d) ends outside the %d-byte buffer" % (i, kind, start, ln, n)
        if start < end:
            return "lex-overlap", "token %d (%s) starts at %d before the end %d of its predecessor" % (i, kind, start, end)
        gap = data[end:start]
        if not GAP_RE.fullmatch(gap):
            return "lex-gap-not-blank", "bytes %r between tokens %d and %d were skipped" % (gap, i - 1, i)
        body = data[start:start + ln]
        if kind == "EndOfFile":
            if start != n or ln != 0:
                return "lex-eof-not-at-end", "EndOfFile reported at offset %d (length %d) of a %d-byte buffer" % (start, ln, n)
            if until_eof and i != len(toks) - 1:
                return "lex-eof-not-last", "token after EndOfFile"
        elif ln == 0:
            return "lex-no-progress", "token %d (%s) at %d is empty: the lexer does not advance" % (i, kind, start)
        for j, b in enumerate(body):
            if b >= 0x80:
                ok = (kind == "String" and m in (1, 2)) or (kind == "Comment" and m in (0, 3) and j > 0) or \
                     (kind == "Unknown" and ln == 1 and m in (0, 3))
                if not ok:
                    return "lex-high-byte", "byte 0x%02x at offset %d is part of a %s token in mode %d" % (b, start + j, kind, m)
        if kind in KWKINDS:
            if m != 0 or KEYWORDS.get(body) != kind:
                return "lex-keyword-not-whole", "%r lexed as %s in mode %d" % (body, kind, m)
        elif m == 0 and body in KEYWORDS:
            return "lex-keyword-missed", "%r lexed as %s in mode None" % (body, kind)
        if kind == "Identifier" or kind in KWKINDS:
            if any(b not in ident for b in body) or (start + ln < n and data[start + ln] in ident) or (start > 0 and data[start - 1] in ident):
                return "lex-identifier-not-maximal", "%s token %r at %d is not a maximal run of identifier characters" % (kind, body, start)
        end = start + ln
    if until_eof:
        if not toks or toks[-1][0] != "EndOfFile":
            return "lex-no-eof", "the token stream does not end with EndOfFile"
        if end != n:
            return "lex-not-tiled", "the tokens cover %d of %d bytes" % (end, n)
    return None


# ------------------------------------------------------------------ generators

MANIFESTS = [
    b"# a comment\ncflags = -O2 -Wall\nrule cc\n  command = gcc $cflags -c $in -o $out\n  description = CC $out\n"
    b"pool link_pool\n  depth = 4\nbuild foo.o: cc foo.c | foo.h || gen\n  cflags = -g\nbuild all: phony foo.o $\n    bar.o\n"
    b"default all\ninclude rules.ninja\nsubninja sub/build.ninja\n",
    b"rule r\r\n  command = a $$ b $: c $\r\n   d\r\nbuild x$ y: r in\\file\xc3\xa9|| o\rbuild z: r\n",
    b"build out: phony a$\n  b $\n\rc | d || e:f\n  x = ${y}$z.$\n",
    b"rule\tcc\x0b\x0c\n\tcommand=\xff\x80 $\nbuild\xffa:cc\n",
]
PIECES = [b"rule", b"pool", b"build", b"default", b"include", b"subninja", b"phony", b"a", b"b.c", b"x-y_z", b"0", b" ", b"  ", b"\t",
          b"\x0b", b"\x0c", b"\n", b"\r", b"\r\n", b"\n\r", b"$", b"$\n", b"$\r\n", b"$\r", b"$\n\r", b"$$", b"$ ", b"$:", b"${v}", b"$v",
          b":", b"|", b"||", b"=", b"#", b"\xff", b"\x80", b"\xc3\xa9", b"\x00", b"\x7f", b"\"", b"'", b"/", b"\\"]
SMALL = [b"a", b" ", b"\n", b"\r", b"$", b":", b"|", b"#", b"=", b"\xff", b"\t", b"r"]
# regression inputs of the repaired defects (KNOWN_FINDINGS "fixed:" entries) and boundary shapes
CORPUS = [b"", b"\xff", b"a\xffb", b"\xff\xff", b"a \xff\n", b"subninjx", b"subninjz x", b"subninj", b"subninja", b"subninjas", b"xsubninja",
          b"a $", b"$", b"a$", b" $", b"a $\n", b"a $\r", b"a $\r\n", b"a $\r\nb", b"a $\rb", b"a $\n\rb", b"$\n", b"$\nx", b" $\nx",
          b"\n$\nx", b"x\n $\n y", b"rule", b"rule ", b" rule", b"rules", b"my.rule", b"rule:", b"rule|", b"rule=", b"rule#", b"#rule",
          b"# c\xff\n", b"#", b"#\r", b"|", b"||", b"|||", b"a||", b"\r", b"\n", b"\r\n", b"\n\r", b"\r\r", b"\n\n", b"\r\n\r\n", b"\n\r\n",
          b" ", b"\t", b"\x0b", b"\x0c", b" \t\x0b\x0c a", b"a \x0b b", b"\x00", b"a\x00b", b"$$", b"a$$b", b"a$ b", b"a$:b", b"a:$", b"a|$",
          b"x = $", b"x = a$\n  b", b"build a$\n: b", b"default", b"default\n", b"include x", b"pool p", b"a\x80", b"\x80 \x81", b"\xfe\xff"]


def gen_inputs(chk):
    rng = chk.rng
    out = list(CORPUS)
    # every truncation of the valid manifests
    for mf in MANIFESTS:
        out += [mf[:i] for i in range(len(mf) + 1)]
    # exhaustive small strings over the alphabet of special characters
    for a in SMALL:
        for b in SMALL:
            out.append(a + b)
            if chk.tier != "quick" or rng.random() < 0.4:
                for c in SMALL:
                    out.append(a + b + c)
    # keywords and near-keywords embedded in context
    for w in KEYWORDS:
        for pre in (b"", b" ", b"\n", b"x", b".", b"$", b"$\n", b"\xff", b":", b"#"):
            for post in (b"", b" ", b"\n", b"x", b":", b"$", b"\xff", b"=", b"-"):
                out.append(pre + w + post)
        for i in range(len(w)):
            out.append(b"x " + w[:i] + bytes([rng.randrange(256)]) + w[i + 1:] + b" y")
    # random concatenations of pieces, random bytes, CR/LF mixes, high bytes
    for _ in range(chk.n(1500, 40000)):
        k = rng.choice([1, 2, 3, 4, 6, 9, 14, 25])
        out.append(b"".join(rng.choice(PIECES) for _ in range(k)))
    for _ in range(chk.n(300, 8000)):
        k = rng.choice([1, 2, 3, 5, 8, 20, 60])
        out.append(bytes(rng.randrange(256) for _ in range(k)))
    for _ in range(chk.n(200, 5000)):
        k = rng.choice([2, 3, 5, 8, 13])
        out.append(bytes(rng.choice(b"\r\n \t$a:\xff") for _ in range(k)))
    # mutations of the manifests: one byte replaced / deleted / inserted
    for _ in range(chk.n(300, 8000)):
        mf = bytearray(rng.choice(MANIFESTS))
        for _ in range(rng.choice([1, 1, 2, 4])):
            i = rng.randrange(len(mf))
            r = rng.random()
            b = rng.choice(b"$\r\n :|#=\xff\x00 ") if rng.random() < 0.7 else rng.randrange(256)
            if r < 0.5: mf[i] = b
            elif r < 0.75: del mf[i]
            else: mf.insert(i, b)
        out.append(bytes(mf))
    # a few long inputs (buffer sizes beyond any small-buffer path)
    out.append(rng.choice(MANIFESTS) * 12)
    out.append(b"a" * 3000 + b"\xff")
    out.append((b"x $\n" * 500) + b"$")
    seen, res = set(), []
    for d in out:
        if d not in seen:
            seen.add(d); res.append(d)
    return res


# ------------------------------------------------------------------ lexer part

def _run3(ctx, reqs, timeout=1500):
    r = {}
    for name in ("drv", "asan", "model"):
        env = None
        if name == "asan":
            env = dict(os.environ, ASAN_OPTIONS="detect_leaks=0:abort_on_error=0", UBSAN_OPTIONS="print_stacktrace=1")
        r[name] = vlib.run_lines(ctx[name], reqs, timeout=timeout, env=env)
    return r


def lexer_case(ctx, data, modes):
    """One input through the three binaries and the oracle (used by replay)."""
    until_eof = isinstance(modes, int)
    rq = ("lex_all %d %s" % (modes, hx(data))) if until_eof else ("lex_stream %s %s" % ("".join(str(m) for m in modes) or ".", hx(data)))
    r = _run3(ctx, [rq], timeout=120)
    res = {k: (v[1][0] if v[1] else "<no answer rc=%s: %s>" % (v[0], v[2][-600:])) for k, v in r.items()}
    toks = parse_tokens(res["drv"]) if "HANG" not in res["drv"] and not res["drv"].startswith("<") else None
    ml = ([modes] * len(toks) if until_eof else list(modes)) if toks is not None else None
    fail = lex_oracle(data, ml, toks, until_eof, ctx["ident"]) if toks is not None else ("lex-hang-or-crash", res["drv"][-300:])
    return rq, res, fail


def lexer_part(chk):
    ctx = prepare(chk)
    pr = ctx["probes"]
    ident = ctx["ident"]
    rng = chk.rng
    # 1. the exhaustive probe table against the property text
    bad = kw_table_violations(pr)
    chk.count(("kwtable", len(pr["kw"])), n=len(pr["kw"]))
    for m, w, k, n, why in bad[:3]:
        chk.violation("lex-keyword-table", "keyword recognition is not by whole words: input %r in mode %d gives %s of length %d (%s)" % (w, m, KINDS[k] if k < len(KINDS) else k, n, why),
                      dict(mode=m, input_hex=hx(w), modes=m, implementation="%s %d" % (KINDS[k] if k < len(KINDS) else k, n), why=why),
                      broken="c17 oracle (keywords only as whole words) on the probe table of the implementation")
    exp_ident = sorted(IDENT_TEXT)
    if sorted(pr["ident"]) != exp_ident:
        diff = sorted(set(pr["ident"]) ^ IDENT_TEXT)
        hi = [b for b in diff if b >= 0x80]
        chk.violation("lex-identchars", "isIdentifierChar differs from [a-zA-Z0-9_.-] on bytes %s%s" % (diff[:8], " (bytes >= 0x80 are not ordinary characters)" if hi else ""),
                      dict(bytes=diff, input_hex=hx(bytes([diff[0]])), modes=0), found_input=bool(hi),
                      broken="c17 oracle (bytes 0x80-0xFF ordinary) / correspondence: is_ident_char" )
    # 2. differential + oracle on generated inputs
    inputs = gen_inputs(chk)
    reqs, meta = [], []
    for d in inputs:
        h = hx(d)
        for m in (0, 1, 2, 3):
            reqs.append("lex_all %d %s" % (m, h)); meta.append((d, m))
        ns = chk.n(1, 3) if len(d) < 400 else 1
        for _ in range(ns):
            k = rng.choice([1, 2, 3, 5, 8, 13, 21]) if d else rng.choice([1, 2])
            ms = [rng.randrange(4) for _ in range(k)]
            reqs.append("lex_stream %s %s" % ("".join(str(x) for x in ms), h)); meta.append((d, ms))
    r = _run3(ctx, reqs)
    cov = chk.cov
    cov["lexer_inputs"] = len(inputs)
    cov["lexer_requests"] = len(reqs)
    # crashes / sanitizer reports: the first unanswered request is the failing input
    for name in ("drv", "asan"):
        rc, out, err = r[name]
        if rc != 0 or len(out) != len(reqs):
            i = min(len(out), len(reqs) - 1)
            d, ms = meta[i]
            san = "AddressSanitizer" in err or "runtime error" in err
            chk.violation("lex-over-read" if san else "lex-crash",
                          ("the lexer reads outside the supplied buffer (sanitizer report)" if san else "the lexer crashed (rc=%s)" % rc) + " on input %r, mode(s) %s" % (d[:60], ms),
                          dict(input_hex=hx(d), modes=ms, request=reqs[i], build=name, rc=rc, stderr=err[-2500:]),
                          broken="c19 oracle (no memory outside the buffer, termination) on implementation")
    rcm, outm, errm = r["model"]
    if rcm != 0 or len(outm) != len(reqs):
        raise vlib.BuildError("extracted lexer model failed: rc=%s %s" % (rcm, errm[-800:]))
    out1, out2 = r["drv"][1], r["asan"][1]
    ndis, shown = 0, 0
    kinds_seen = set()
    for i, (d, ms) in enumerate(meta):
        if i >= len(out1):
            break
        a = out1[i]
        until_eof = isinstance(ms, int)
        chk.count((hx(d), str(ms)) if d else None)
        if "HANG" in a:
            chk.violation("lex-hang", "the lexer does not reach EndOfFile within length+1 calls on input %r in mode %d" % (d[:60], ms),
                          dict(input_hex=hx(d), modes=ms, implementation=a[-400:]), broken="c19 oracle (termination) on implementation")
            continue
        toks = parse_tokens(a)
        if toks is None:
            chk.violation("lex-driver-output", "unparsable driver answer %r" % a[:200], dict(input_hex=hx(d), modes=ms), found_input=False, broken="harness: ninjalex_driver")
            continue
        ml = [ms] * len(toks) if until_eof else ms
        fail = lex_oracle(d, ml, toks, until_eof, ident)
        for t in toks:
            kinds_seen.add(t[0])
        if fail:
            chk.violation(fail[0], "%s (input %r, mode(s) %s)" % (fail[1], d[:60], ms),
                          dict(input_hex=hx(d), modes=ms, implementation=a, model=outm[i]),
                          broken="c19/c17 lexer oracle (tiling, bounds, EndOfFile only at the end, progress, high bytes, keywords) on implementation")
        if i < len(out2) and out2[i] != a:
            chk.violation("lex-asan-build-differs", "the sanitizer build answers differently (undefined behaviour?) on input %r mode(s) %s" % (d[:60], ms),
                          dict(input_hex=hx(d), modes=ms, implementation=a, asan_build=out2[i]), found_input=False, broken="determinism of the implementation across builds")
        if a != outm[i]:
            ndis += 1
            if shown < 3:
                shown += 1
                chk.notes.setdefault("lexer_disagreements", []).append(dict(input_hex=hx(d), modes=ms, implementation=a, model=outm[i], oracle_failure=fail))
    chk.sample(dict(kind="lexer", request=reqs[5][:120], implementation=out1[5][:200] if len(out1) > 5 else None))
    k = next((i for i, (d, ms) in enumerate(meta) if d == MANIFESTS[1] and ms == 1), None)
    if k is not None and k < len(out1):
        chk.sample(dict(kind="lexer", request=reqs[k][:80] + "...", implementation=out1[k][:300] + "..."))
    cov["lexer_disagreements"] = ndis
    cov["lexer_token_kinds_seen"] = sorted(kinds_seen)
    cov["lexer_exhaustive_tables"] = "first token of %d inputs: every keyword, each of its bytes replaced by every value, every one-byte extension at either end, both truncations, modes None and IdentifierSpecific (+ PathString/VariableString for the exact keywords); isIdentifierChar / isSimpleIdentifierChar on all 256 values" % len(pr["kw"])
    if ndis and not any(v["key"].startswith("lex-") and v["found"] for v in chk.violations):
        chk.violation("lex-correspondence", "lexer model (Parse/NinjaLex.v) and implementation disagree on %d of %d requests although the lexer clauses hold on the implementation's tokens" % (ndis, len(reqs)),
                      dict(broken="correspondence: Parse.NinjaLex vs lib/Ninja/Lexer.cpp", examples=chk.notes.get("lexer_disagreements", [])[:3]),
                      found_input=False, broken="correspondence: Parse.NinjaLex")
    return ndis


# ------------------------------------------------------------------ shell part

def gen_paths(chk):
    rng = chk.rng
    out = [b"#x", b"#", b"~", b"~x", b"~/a b", b"a#b", b"a~b", b"a'b", b"'", b"''", b"'''", b"a''b", b"'a", b"a'", b"it's a 'q'", b"a b", b" ", b"  ",
           b"\t", b"\n", b"a\nb", b"\xff", b"\x80\x81\x88", b"-n", b"-", b"--", b"=", b"a=b", b"%", b"%1", b"$x", b"$(id)", b"`id`", b"a;b", b"a&b",
           b"a|b", b"a>b", b"<", b"(", b")", b"*", b"?", b"[a]", b"\\", b"a\\", b"\\'", b"'\\''", b"\"", b"a\"b", b"!", b"{a,b}", b"}", b"^",
           b"/usr/lib/foo.so.1", b"a,b+c:d@e", b"caf\xc3\xa9", b"a\rb", b"\x01", b"\x7f", b"x" * 300 + b"'" + b"y" * 300]
    out += [bytes([b]) for b in range(1, 256)]
    alpha = b" '$#~\n\t\\\"*?[;&|<>()`=%!ab/.-_\xff\x80\xc3\xa9\r"
    for _ in range(chk.n(700, 20000)):
        k = rng.choice([1, 2, 2, 3, 4, 6, 9, 15])
        out.append(bytes(rng.choice(alpha) if rng.random() < 0.85 else rng.randrange(1, 256) for _ in range(k)))
    seen, res = set(), []
    for d in out:
        if d and d not in seen:
            seen.add(d); res.append(d)
    return res


def gen_sh_texts(chk):
    """command-line fragments inside the fragment of sh that the model covers (to tie sh_words to the real shell)"""
    rng = chk.rng
    toks = [b"a", b"b", b"xy", b" ", b"  ", b"\t", b"'", b"'", b"\\", b"#", b"=", b"%", b"-", b"/", b".", b"\xff", b"'\\''", b"'a b'", b"''", b"~", b":", b"@", b"+", b",", b"{", b"}", b"!", b"^", b"]"]
    out = [b"", b"a", b"a b", b"'a b' c", b"a'b'c", b"''", b"'' ''", b"a\\ b", b"\\'", b"#c", b"a #c d", b"a#c", b"a '#c'", b"'\\'", b"a=b c%d", b"x~y", b"a  \t b "]
    for _ in range(chk.n(500, 8000)):
        out.append(b"".join(rng.choice(toks) for _ in range(rng.choice([1, 2, 3, 4, 5, 7, 10]))))
    return sorted(set(out))


def shell_part(chk):
    ctx = prepare(chk)
    pr = ctx["probes"]
    drv, model = ctx["drv"], ctx["model"]
    wl = set(pr["whitelist"])
    # 0. the probed whitelist against the property text: no member is a shell metacharacter
    for b in sorted(wl & SH_META):
        p = bytes([b]) + b"x" if b else b"\0"
        rc, o, e = vlib.run_lines(drv, ["sh_real " + hx(p)])
        chk.violation("shell-whitelist-metachar", "shellEscaped leaves the shell metacharacter %r unquoted: path %r comes back from /bin/sh as %s" % (chr(b), p, o[0] if o else "?"),
                      dict(path_hex=hx(p), byte=b, sh_words=o[0] if o else None), broken="c17 oracle (/bin/sh round trip) on implementation")
    paths = gen_paths(chk)
    # 1. differential on shellEscaped: generated paths, all one-byte strings, two-byte strings
    two = [bytes([a, b]) for a in range(256) for b in (range(256) if chk.tier != "quick" else (0, 9, 10, 32, 35, 39, 47, 61, 92, 97, 126, 255))]
    dpaths = [b""] + [bytes([b]) for b in range(256)] + two + paths
    reqs = ["shell_escaped " + hx(p) for p in dpaths]
    rc1, o1, e1 = vlib.run_lines(drv, reqs, timeout=900)
    rc2, o2, e2 = vlib.run_lines(model, reqs, timeout=900)
    if rc1 != 0 or len(o1) != len(reqs):
        chk.violation("shell-crash", "shellEscaped crashed", dict(rc=rc1, stderr=e1[-1500:], request=reqs[min(len(o1), len(reqs) - 1)]))
        return 0
    if rc2 != 0 or len(o2) != len(reqs):
        raise vlib.BuildError("extracted shell model failed: rc=%s %s" % (rc2, e2[-800:]))
    ndis = 0
    for p, a, b in zip(dpaths, o1, o2):
        chk.count(("esc", hx(p)) if p else None)
        esc = unhx(a)
        safe = all(c in wl for c in p)
        # the output is the path itself iff all its bytes are whitelisted; otherwise it is a '...' string
        if (esc == p) != safe or (not safe and not (len(esc) >= 2 and esc[:1] == b"'" and esc[-1:] == b"'")):
            chk.violation("shell-safe-chars", "shellEscaped(%r) = %r: unquoted output iff all bytes are in the probed whitelist does not hold" % (p[:40], esc[:60]),
                          dict(path_hex=hx(p), escaped_hex=a), found_input=False, broken="c17 theorem shell_escaped_safe_chars vs implementation")
        if a != b:
            ndis += 1
            if ndis <= 3:
                chk.notes.setdefault("shell_disagreements", []).append(dict(path_hex=hx(p), implementation=a, model=b))
    # 2. the property itself on the implementation: the real /bin/sh gives the path back
    it = vlib.Interactive(drv)
    nrt = 0
    real = {}
    try:
        for p in paths:
            if 0 in p:
                continue
            a = it.ask("sh_real " + hx(p))
            real[p] = a
            nrt += 1
            chk.count(("sh", hx(p)))
            if a != hx(p):
                got = a if a.startswith("ERR") else [unhx(x) for x in (a.split(",") if a != "." else [])]
                chk.violation("shell-roundtrip", "path %r passed through shellEscaped and /bin/sh comes back as %r" % (p[:60], got),
                              dict(path_hex=hx(p), sh_words=a), broken="c17 oracle (/bin/sh round trip) on implementation")
        # 3. tie of the sh model to the real shell: where the model claims to know the words, /bin/sh agrees
        texts = gen_sh_texts(chk)
        rcm, om, em = vlib.run_lines(model, ["sh_words " + hx(t) for t in texts], timeout=300)
        nsh, nsh_dis = 0, 0
        for t, mres in zip(texts, om):
            if mres == "NONE" or 0 in t:
                continue
            a = it.ask("sh_raw " + hx(t))
            nsh += 1
            chk.count(("shraw", hx(t)))
            if a != mres:
                nsh_dis += 1
                chk.notes.setdefault("sh_model_disagreements", []).append(dict(text_hex=hx(t), bin_sh=a, model=mres))
        # ... and on the escaped forms the implementation produced: the model's reading of them is /bin/sh's
        esc_of = dict(zip(dpaths, o1))
        rp = [p for p in paths if p in real]
        rcm, om2, em = vlib.run_lines(model, ["sh_words " + esc_of[p] for p in rp], timeout=600)
        for p, mres in zip(rp, om2):
            chk.count()
            if mres != real[p]:
                nsh_dis += 1
                chk.notes.setdefault("sh_model_disagreements", []).append(dict(escaped_hex=esc_of[p], bin_sh=real[p], model=mres))
    finally:
        it.close()
    chk.sample(dict(kind="shell", path=repr(paths[12]), escaped=repr(unhx(o1[dpaths.index(paths[12])]))))
    cov = chk.cov
    cov["shell_escaped_compared"] = len(dpaths)
    cov["shell_real_sh_roundtrips"] = nrt
    cov["shell_sh_model_texts"] = nsh
    cov["shell_disagreements"] = ndis
    cov["shell_exhaustive_tables"] = "shellEscaped on all 256 one-byte strings (whitelist = %d bytes) and %d two-byte strings; /bin/sh round trip of all 255 non-NUL one-byte paths" % (len(wl), len(two))
    if nsh_dis:
        chk.violation("shell-sh-model", "the sh word-splitting model (Path/ShellQuote.v sh_words) disagrees with /bin/sh on %d texts" % nsh_dis,
                      dict(broken="correspondence: Path.ShellQuote.sh_words vs /bin/sh", examples=chk.notes.get("sh_model_disagreements", [])[:3]),
                      found_input=False, broken="correspondence: Path.ShellQuote.sh_words")
    if ndis and not any(v["key"].startswith("shell-") and v["found"] for v in chk.violations):
        chk.violation("shell-correspondence", "shell quoting model (Path/ShellQuote.v) and implementation disagree on %d of %d strings although the /bin/sh round trip holds" % (ndis, len(dpaths)),
                      dict(broken="correspondence: Path.ShellQuote.shell_escaped vs lib/Basic/ShellUtility.cpp", examples=chk.notes.get("shell_disagreements", [])[:3]),
                      found_input=False, broken="correspondence: Path.ShellQuote")
    return ndis


# ------------------------------------------------------------------ proof gate search, run, replay

def proof_search(chk):
    def search(res):
        ctx = prepare(chk)
        pr = ctx["probes"]
        bad = kw_table_violations(pr)
        if bad:
            m, w, k, n, why = bad[0]
            return dict(key="lex-keyword-table", what="keyword recognition is not by whole words: input %r in mode %d gives %s of length %d (%s)" % (w, m, KINDS[k] if k < len(KINDS) else k, n, why),
                        replay=dict(input_hex=hx(w), modes=m, implementation="%s %d" % (KINDS[k] if k < len(KINDS) else k, n)))
        hi = [b for b in pr["ident"] if b >= 0x80]
        if hi:
            return dict(key="lex-identchars", what="byte 0x%02x is an identifier character: bytes 0x80-0xFF are not treated as ordinary characters" % hi[0],
                        replay=dict(input_hex=hx(bytes([hi[0]])), modes=0))
        meta = sorted(set(pr["whitelist"]) & SH_META)
        if meta:
            b = meta[0]
            p = bytes([b]) + b"x"
            rc, o, e = vlib.run_lines(ctx["drv"], ["sh_real " + hx(p)])
            if o and o[0] != hx(p):
                return dict(key="shell-whitelist-metachar", what="shellEscaped leaves the shell metacharacter %r unquoted: path %r comes back from /bin/sh as %s" % (chr(b), p, o[0]),
                            replay=dict(path_hex=hx(p), sh_words=o[0]))
        return None
    return search


def run(chk):
    prepare(chk)
    chk.proof_gate(search=proof_search(chk))
    lexer_part(chk)
    shell_part(chk)
    chk.assumptions = ["isspace is the C-locale one (the drivers and llbuild never call setlocale)",
                       "`unsigned` line/column/length counters do not wrap (buffers below 4 GiB)",
                       "sh_words models POSIX sh word splitting only for the forms shellEscaped emits (checked against /bin/sh = dash on generated texts)",
                       "paths handed to the shell are non-empty and NUL-free (shellEscaped(\"\") is the empty string: no word; NUL ends a C string)"]
    return chk.finish(level="proof",
                      rule="lexer: each input (corpus of repaired defects, every truncation of 4 manifests, all strings of length <= 3 over 12 special characters (sampled at length 3 in quick), "
                           "keywords in 90 contexts, random piece concatenations, random bytes, CR/LF/$ mixes, manifest mutations) lexed to EndOfFile in each of the 4 modes and with random per-call mode sequences, "
                           "by the implementation, its ASan+UBSan build (exact-size heap buffer) and the extracted model; non-trivial = non-empty input, distinct by (input, modes). "
                           "shell: shellEscaped on all 1-byte, two-byte and generated strings (model vs implementation), every generated NUL-free path through the real /bin/sh",
                      trusted=["hand-written models coq/Parse/NinjaLex.v, coq/Path/ShellQuote.v tied by correspondence", "harness/cpp/ninjalex_driver.cpp",
                               "extraction (ExtrOcamlBasic) + ocaml/vmodel_ninjalex.ml", "/bin/sh (dash) as the reference shell"])


def replay(chk, rp):
    print(json.dumps({k: v for k, v in rp.items() if k not in ("coq_log_tail", "stderr")}, indent=1)[:3000])
    ctx = prepare(chk)
    if "input_hex" in rp and "modes" in rp:
        rq, res, fail = lexer_case(ctx, unhx(rp["input_hex"]), rp["modes"])
        print("replay request: %s" % rq)
        for k in ("drv", "asan", "model"):
            print("  %-5s %s" % (k, res[k][:600]))
        print("  lexer oracle on the implementation: %s" % (fail,))
    if "path_hex" in rp:
        p = unhx(rp["path_hex"])
        rc, o, e = vlib.run_lines(ctx["drv"], ["shell_escaped " + hx(p), "sh_real " + hx(p)])
        rc, m, e = vlib.run_lines(ctx["model"], ["shell_escaped " + hx(p)])
        print("replay path %r: shellEscaped = %r (model %r), /bin/sh words = %s" % (p, unhx(o[0]) if o else None, unhx(m[0]) if m else None, o[1] if len(o) > 1 else None))
    return run(chk)
