# C07 - dependency cycles are detected and reported accurately, never falsely
#
# (a) proof gate: coq/Props/Properties_C07.v (the pure function findCycle, coq/Engine/FindCycle.v).
# (b) tie: every failing build of the real engine dumps the successor graph findCycle saw (hook point 3, `waitgraph a>b`:
#     b waits on a); the extracted model is run on that graph and must return exactly the list handed to cycleDetected.
# (c) property oracles computed here from the scenario text alone (class Sem: an independent reading of the rule DSL):
#     the build fails and reports a cycle IFF the requested key's dependency closure is cyclic for the values at hand; the
#     list starts with the requested key, each key is followed by a key IT WAITS ON (a declared / dynamic / recorded
#     dependency of it), the last key repeats an earlier one; every dumped wait-for edge is a real dependency; acyclic
#     scenarios terminate with the value a fresh evaluation gives; after a failure the same engine still builds an acyclic key.
# Cycle BREAKING (breakCycle / shouldResolveCycle) is not modelled: no client in the repository enables it (the default
# delegate answers false), and the driver does not either.
import os, json, itertools, concurrent.futures
import vlib, enginelib

M = 1000003
MASK = (1 << 64) - 1
POOL = [1, 2, 3, 9, 10, 11, 19, 20, 100, 101]      # as names: k1 < k10 < k100 < k101 < k11 < k19 < k2 < k20 < k3 < k9
SCHEDS_Q = ["sync", "defer:1", "defer:4", "mixed:2", "mixed:9"]


def mix(h, x):
    h ^= (x + 0x9e3779b97f4a7c15 + ((h << 6) & MASK) + (h >> 2)) & MASK
    return h % M


class Sem:
    """Independent reading of the scenario DSL: which keys a task requests (start(): req, single, follow; after the value of
    req[slot] arrived: branch A if its payload is even, else B) and the value it computes. ev(k) is None when k cannot be
    computed because its dependency closure contains a cycle."""

    def __init__(self, rules, env):
        self.rules, self.env = rules, env
        self.val, self.real, self.pending_disc = {}, {}, []

    def rule(self, k):
        return self.rules.get(k) or dict(sig=0, obs=1)

    def ev(self, k, stack=()):
        if k in self.val:
            return self.val[k]
        if k in stack:
            return None
        r = self.rule(k)
        st = stack + (k,)
        req, single, follow = list(r.get("req", [])), list(r.get("single", [])), list(r.get("follow", []))
        deps = req + single + follow
        slotvals = [self.ev(d, st) for d in req]
        ok = all(v is not None for v in slotvals)
        for d in single + follow:
            ok = (self.ev(d, st) is not None) and ok
        if "br" in r and r["br"][0] < len(req):
            bv = slotvals[r["br"][0]]
            if bv is not None:
                branch = list(r["br"][1] if bv[0] % 2 == 0 else r["br"][2])
                deps = deps + branch
                for d in branch:
                    v = self.ev(d, st)
                    slotvals.append(v)
                    ok = (v is not None) and ok
        self.real[k] = deps
        if not ok:
            self.val[k] = None
            return None
        obs = self.env.get(k, 0) if r.get("obs") else 0
        h = (k + r.get("sig", 0) * 7) % M
        for (p, s) in slotvals:
            h = mix(h, p)
            h = mix(h, s)
        for x in r.get("disc", []):
            h = mix(h, self.env.get(x, 0) + 1)
            self.pending_disc.append(x)
        h = mix(h, obs)
        if k % 3 == 0:
            h %= 2
        self.val[k] = (h, obs)
        return self.val[k]

    def build(self, root):
        """-> (value or None, [discovered keys demanded by completed tasks whose closure is cyclic])"""
        v = self.ev(root)
        bad = []
        while self.pending_disc:
            d = self.pending_disc.pop()
            if self.ev(d) is None and d not in bad:
                bad.append(d)
        return v, bad

    def declared_all(self, k):
        r = self.rule(k)
        out = list(r.get("req", [])) + list(r.get("single", [])) + list(r.get("follow", [])) + list(r.get("disc", []))
        if "br" in r:
            out += list(r["br"][1]) + list(r["br"][2])
        return out


def vstr(v):
    return "EMPTY" if v is None else "%d.%d" % v


def graph_cyclic_from(adj, root):
    """Is a cycle reachable from root in adj (dict node -> iterable of successors)?"""
    color = {}
    st = [(root, iter(adj.get(root, ())))]
    color[root] = 1
    while st:
        n, it = st[-1]
        for m in it:
            c = color.get(m, 0)
            if c == 1:
                return True
            if c == 0:
                color[m] = 1
                st.append((m, iter(adj.get(m, ()))))
                break
        else:
            color[n] = 2
            st.pop()
    return False


def _reaches(adj, a, b):
    seen, todo = {a}, [a]
    while todo:
        x = todo.pop()
        if x == b:
            return True
        for y in adj.get(x, ()):
            if y not in seen:
                seen.add(y)
                todo.append(y)
    return False


# ------------------------------------------------------------------ generators

def mk_rules(n, labels, adj, rng, kinds="req", leaves_obs=True):
    """adj[i] = list of j that node i depends on. kinds: 'req' or 'mixed' (req / single / follow at random)."""
    rules = {}
    for i in range(n):
        r = dict(sig=0, obs=0)
        for j in adj[i]:
            f = "req" if kinds == "req" else rng.choice(["req", "req", "single", "follow"])
            r.setdefault(f, []).append(labels[j])
        if not adj[i] and leaves_obs:
            r["obs"] = 1
        rules[labels[i]] = r
    return rules


def gen_dynamic(rng, nmax=10, disc_nonleaf=False, pdisc=0.2):
    """Layered rules plus back edges (static or inside a branch), so that cycles may exist statically or only for some values."""
    n = rng.randint(3, nmax)
    labels = rng.sample(POOL, n)
    nin = rng.randint(1, max(1, n // 3))
    pback = rng.choice([0.0, 0.05, 0.15, 0.35])
    rules = {}
    for i in range(n):
        k = labels[i]
        if i < nin:
            rules[k] = dict(sig=0, obs=1)
            if disc_nonleaf and rng.random() < pdisc:
                rules[k]['disc'] = [rng.choice(labels)]
            continue
        lower = labels[:i]
        r = dict(sig=rng.randint(0, 3), obs=1 if rng.random() < 0.15 else 0)
        r["req"] = rng.sample(lower, rng.randint(1, min(3, len(lower))))
        def pick(m):
            out = []
            for _ in range(rng.randint(0, m)):
                out.append(rng.choice(labels) if rng.random() < pback else rng.choice(lower))
            return out
        extra = pick(2)
        for x in extra:
            r.setdefault(rng.choice(["req", "single", "follow"]), []).append(x)
        if rng.random() < 0.5:
            a, b = pick(2), pick(2)
            if rng.random() < 0.4:
                (a if rng.random() < 0.5 else b).append(rng.choice(labels[i:]))      # a cycle only behind one branch
            r["br"] = (rng.randrange(len(r["req"])), a, b)
        if rng.random() < pdisc:
            r["disc"] = [rng.choice(labels) if disc_nonleaf else rng.choice(labels[:nin])]
        rules[k] = r
    env = {k: rng.randint(0, 5) for k in labels}
    return labels, rules, env


def all_digraphs(n):
    cells = [(i, j) for i in range(n) for j in range(n)]
    for bits in range(1 << len(cells)):
        adj = [[] for _ in range(n)]
        for b, (i, j) in enumerate(cells):
            if bits >> b & 1:
                adj[i].append(j)
        yield adj


# ------------------------------------------------------------------ running

def blank_rule():
    return dict(sig=0, obs=0)


def case_lines(c):
    L = []
    for k in POOL:
        L.append(enginelib.rule_line(k, c["rules"].get(k, blank_rule())))
    for k in POOL:
        L.append("set %d %d" % (k, c["env"].get(k, 0)))
    L.append("restart")
    if "steps" in c:
        for st in c["steps"]:
            for k in sorted(st.get("set", {})):
                L.append("set %d %d" % (k, st["set"][k]))
            L.append("build %d sched=%s" % (st["root"], c["sched"]))
        return L
    L.append("build %d sched=%s" % (c["root"], c["sched"]))
    if c.get("post") is not None:
        L.append("build %d sched=%s" % (c["post"], c["sched"]))
    return L


def group_by_restart(lines):
    groups = []
    for b in enginelib.split_builds(lines):
        if b["hdr"] == "restart":
            groups.append([])
        elif groups:
            groups[-1].append(b)
        else:
            groups.append([b])
    return groups


def run_batch(drv, cases, wd, name, timeout):
    L = ["db 0"]
    for c in cases:
        L += case_lines(c)
    rc, out, err, sp, tp = enginelib.run_impl(drv, L, wd, timeout=timeout, name=name)
    return rc, out, err


def parse_report(b):
    """-> (cycle lists, waitgraphs (list of edge lists (a, b): b waits on a), complaints)"""
    cycles, graphs, bad = [], [], []
    for l in b["other"]:
        t = l.split(" ")
        if t[0] == "cycle":
            cycles.append([int(x) for x in t[1:] if x != ""])
        elif t[0] == "waitgraph":
            graphs.append([tuple(int(y) for y in x.split(">")) for x in t[1:] if x])
        elif t[0] in ("LATE-CALLBACK", "leftover-pending", "error", "attach-error", "dberror") or l.startswith("LATE-CALLBACK"):
            bad.append(l)
    for l in b["events"]:
        if l.startswith("LATE-CALLBACK"):
            bad.append(l)
    return cycles, graphs, bad


def has_disc_nonleaf(c):
    for f in ("rules", "rules1", "rules2"):
        rules = c.get(f) or {}
        for r in rules.values():
            for d in r.get("disc", []):
                t = rules.get(d) or {}
                if t.get("req") or t.get("single") or t.get("follow") or t.get("br"):
                    return True
    return False


def valid_cycle_in(lst, root, waits_on):
    """The structural clause of the property: starts at root, each key is followed by one it waits on, last repeats an earlier."""
    if not lst:
        return "the reported list is empty"
    if lst[0] != root:
        return "the reported list starts with %d, not with the requested key %d" % (lst[0], root)
    for x, y in zip(lst, lst[1:]):
        if not waits_on(x, y):
            return "%d is followed by %d, but %d does not wait on / depend on %d" % (x, y, x, y)
    if lst[-1] not in lst[:-1]:
        return "the last key %d does not repeat an earlier one" % lst[-1]
    return None


def py_findcycle(root, g, descending=False):
    """The search as the C++ writes it, for coverage statistics only (is the result sensitive to the predecessor order?)."""
    preds = {}
    for (a, w) in g:
        preds.setdefault(w, []).append(a)
    for w in preds:
        preds[w].sort(key=lambda k: "k%d" % k, reverse=descending)
    stack, lst, items, steps = [[root, 0]], [], set(), 0
    while stack and steps < 100000:
        steps += 1
        e = stack[-1]
        ps = preds.get(e[0], [])
        if e[1] == 0:
            lst.append(e[0])
            if e[0] in items:
                break
            items.add(e[0])
        if e[1] != len(ps):
            e[1] += 1
            stack.append([ps[e[1] - 1], 0])
            continue
        items.discard(e[0])
        lst.pop()
        stack.pop()
    return lst


def root_must_wait(b, root, prev):
    """True when the requested key cannot have finished: its task was created and never completed, or it is only being scanned and its
    RECORDED dependencies (prev = (deps dumped after the previous build on this engine/database, rules in force then); single-use ones are
    dropped before a scan) lead, through keys that are likewise only scanned, to a task that never completed or to a cycle of such keys.
    A rule that is scanned walks its recorded dependencies in order until one does not finish; it would have been re-run (and show a
    'create' event) if one had changed, so a key without 'create' that reaches something stuck is itself parked."""
    created, completed = set(), set()
    for l in b["events"]:
        t = l.split(" ")
        if t[0] == "create":
            created.add(int(t[1]))
        elif t[0] == "complete":
            completed.add(int(t[1]))
    stuck = created - completed
    if root in stuck:
        return True
    if root in completed:
        return False
    pdeps, prules = prev if prev else ({}, {})
    def rec(k):
        d = list(pdeps.get(k, []))
        for sgl in (prules.get(k) or {}).get("single", []):
            if sgl in d:
                d.remove(sgl)
        return d
    # depth-first search over scan-only keys; grey = on the current path
    color = {}
    def visit(k):
        if k in stuck:
            return True
        if k in created or k in completed:
            return False
        if color.get(k) == 1:
            return True            # a cycle among keys that are only scanned
        if color.get(k) == 2:
            return False
        color[k] = 1
        for d in rec(k):
            if visit(d):
                return True
        color[k] = 2
        return False
    import sys
    sys.setrecursionlimit(10000)
    return visit(root)


class Judge:
    def __init__(self, chk):
        self.chk = chk
        self.tie = []          # (request line, implementation answer, context)
        self.verb = "findcycle"
        self.stats = dict(builds=0, failing_builds=0, cyclic_static=0, cyclic_only_dynamic=0, cyclic_only_recorded=0, acyclic=0,
                          root_outside_cycle=0, self_dependency=0, several_cycles=0, dead_end_waitgraphs=0, post_builds=0,
                          may_zone=0, order_sensitive=0)

    def viol(self, key, what, c, extra=None, found=True, broken=None):
        rp = dict(case=c, scenario=c.get("lines") or (["db 0"] + case_lines(c)))
        if extra:
            rp.update(extra)
        self.chk.violation(key, what, rp, found_input=found, broken=broken)

    def check_report(self, c, b, root, allowed, expect, fresh_val, disc_cyclic=False, label="build", prev=None):
        """expect: 'cycle' | 'ok' | 'may'.  allowed(x, y): may x wait on y?  fresh_val: value a fresh evaluation gives (or None)."""
        chk = self.chk
        cycles, graphs, bad = parse_report(b)
        res = (b["result"] or "result <missing>").split(" ")[1]
        self.stats["builds"] += 1
        ctx = dict(build=b["hdr"], result=b["result"], cycle_lines=cycles, waitgraphs=graphs, label=label)
        for l in bad:
            self.viol("late-or-leftover", "callback outside build() / leftover work after a build: %s" % l, c, ctx,
                      broken="c07 oracle: the build ends cleanly")
        if b["result"] is None:
            self.viol("no-result", "%s did not finish (no result line: crash or hang)" % label, c, ctx, broken="c07 oracle: termination")
            return
        if len(cycles) > 1 or len(graphs) > 1:
            self.viol("cycle-reported-twice", "cycleDetected / findCycle ran more than once in one build", c, ctx, broken="c07 oracle: one report")
        reported = len(cycles) > 0
        failed = res == "EMPTY"
        # the dumped wait-for graph must consist of real dependencies
        for g in graphs:
            for (a, w) in g:
                if not allowed(w, a):
                    self.viol("waitgraph-edge-not-real", "the wait-for graph holds an edge %d>%d (%d waits on %d) that is not a declared, dynamic or recorded dependency of %d" % (a, w, w, a, w),
                              c, ctx, broken="c07 oracle: every wait-for edge is a real dependency")
                    break
        if reported:
            self.stats["failing_builds"] += 1
            lst = cycles[0]
            if not failed:
                self.viol("cycle-reported-but-build-succeeded", "a cycle was reported but build() returned a value", c, ctx, broken="c07 oracle: failure on cycle")
            # Does the requested key HAVE to be waiting when the engine got stuck?  Decided from the callback trace and the dependency
            # records of the previous build only (not from the wait-for graph the engine dumps, which is what is being judged).
            root_waits = root_must_wait(b, root, prev)
            if not lst and not root_waits and (disc_cyclic or has_disc_nonleaf(c)):
                self.viol("disc-cycle-empty-list", "a cycle reachable only through the discovered dependency of a completed task is reported as an EMPTY key list "
                          "(findCycle searches from the requested key, which waits on nothing any more; resolveCycle's assert(!cycleList.empty()) would fire in a debug build)",
                          c, ctx, broken="c07 oracle: the reported list starts at the requested key and ends in a repeated key")
            else:
                why = valid_cycle_in(lst, root, allowed)
                if why:
                    self.viol("bad-cycle-list", "reported cycle %s is not accurate: %s" % (lst, why), c, ctx, broken="c07 oracle: accuracy of the reported list")
            if expect == "ok":
                self.viol("false-cycle", "a cycle %s was reported although no dependency cycle is reachable from key %d" % (lst, root), c, ctx,
                          broken="c07 oracle: never falsely")
            # tie with the pure model: the list must be findCycle of the dumped graph
            if graphs:
                g = graphs[0]
                req = "%s %d %s" % (self.verb, root, ",".join("%d>%d" % e for e in g) if g else ".")
                self.tie.append((req, "cycle " + " ".join(map(str, lst)) if lst else "none", c, ctx, root, g, lst))
                preds = {}
                for (a, w) in g:
                    preds.setdefault(w, []).append(a)
                seen, todo, dead = {root}, [root], False
                while todo:
                    x = todo.pop()
                    if not preds.get(x):
                        dead = True
                    for y in preds.get(x, []):
                        if y not in seen:
                            seen.add(y)
                            todo.append(y)
                if dead:
                    self.stats["dead_end_waitgraphs"] += 1
                if any(len(set(preds.get(x, []))) > 1 for x in seen):
                    self.stats["order_sensitive"] += 1
                if py_findcycle(root, g) != py_findcycle(root, g, descending=True):
                    self.stats["several_cycles"] += 1
                if lst and lst[-1] != root:
                    self.stats["root_outside_cycle"] += 1
                if len(lst) == 2 and lst[0] == lst[1]:
                    self.stats["self_dependency"] += 1
            else:
                self.viol("cycle-without-waitgraph", "cycleDetected ran without the hook dump of the graph (hook point 3 missing?)", c, ctx, found=False,
                          broken="correspondence: hook point 3")
        else:
            if failed and not c["sched"].startswith("x"):
                self.viol("failed-without-report", "build() returned the empty value but no cycle was reported", c, ctx, broken="c07 oracle: failure is reported")
            if expect == "cycle":
                if disc_cyclic:
                    self.viol("disc-cycle-unreported", "a discovered dependency of a completed task lies on a dependency cycle, the build neither fails nor reports it", c, ctx,
                              broken="c07 oracle: cycles are detected")
                else:
                    self.viol("cycle-not-detected", "key %d requires a dependency cycle, but the build returned %s and reported nothing" % (root, res), c, ctx,
                              broken="c07 oracle: cycles are detected")
            elif not failed and fresh_val is not None and res != vstr(fresh_val):
                key = "scan-only-cycle-silent-success" if c.get("family") == "disc" or c.get("scan_cycle") else "stale-or-wrong-value"
                self.viol(key, "%s returned %s, a fresh evaluation gives %s (no cycle reported, no failure)%s" % (
                    label, res, vstr(fresh_val), ": rule scans deferred on each other with no task alive, the stall test only looks at taskInfos" if key.startswith("scan") else ""),
                    c, ctx, broken="c07 oracle: no stall / the build of an acyclic key completes with its value")
        if expect == "may":
            self.stats["may_zone"] += 1

    # ---- a fresh engine: one build (plus optionally a later build of another key on the same engine)
    def fresh_case(self, c, builds):
        chk = self.chk
        sem = Sem(c["rules"], c["env"])
        root = c["root"]
        v, bad_disc = sem.build(root)
        expect = "cycle" if (v is None or bad_disc) else "ok"
        static_adj = {k: list(r.get("req", [])) + list(r.get("single", [])) + list(r.get("follow", [])) for k, r in c["rules"].items()}
        if v is None:
            if graph_cyclic_from(static_adj, root):
                self.stats["cyclic_static"] += 1
            else:
                self.stats["cyclic_only_dynamic"] += 1
        elif not bad_disc:
            self.stats["acyclic"] += 1
        key = (c["family"], json.dumps(c["rules"], sort_keys=True), json.dumps(c["env"], sort_keys=True), root, c["sched"])
        chk.count(key if (v is None or any(r.get("req") for r in c["rules"].values())) else None)
        if not builds:
            self.viol("no-result", "the driver printed nothing for this case (crash or hang before the build)", c, broken="c07 oracle: termination")
            return
        allowed = lambda x, y: y in sem.real.get(x, ())
        self.check_report(c, builds[0], root, allowed, expect, v, disc_cyclic=(v is not None and bool(bad_disc)))
        if c.get("post") is not None:
            self.stats["post_builds"] += 1
            sem2 = Sem(c["rules"], c["env"])
            v2, bad2 = sem2.build(c["post"])
            if len(builds) < 2:
                self.viol("no-result", "the build after the failed one did not run", c, broken="c07 oracle: termination")
            else:
                # wait-for edges of THIS build, or dependencies recorded for a key that completed in the earlier build
                allowed2 = lambda x, y: y in sem2.real.get(x, ()) or (sem.val.get(x) is not None and y in sem.real.get(x, ()))
                self.check_report(c, builds[1], c["post"], allowed2, "cycle" if (v2 is None or bad2) else "ok", v2, disc_cyclic=(v2 is not None and bool(bad2)),
                                  prev=(builds[0]["deps"], c["rules"]), label="the build of key %d after the failed build on the same engine" % c["post"])

    # ---- several builds in a row on ONE engine instance, external values changing in between (different cycles, successes in between)
    def seq_case(self, c, builds):
        chk = self.chk
        env = dict(c["env"])
        rec = {}
        prev = None
        chk.count(("seq", json.dumps(c["rules"], sort_keys=True), json.dumps(c["env"], sort_keys=True), json.dumps(c["steps"], sort_keys=True), c["sched"]))
        if len(builds) < len(c["steps"]):
            self.viol("no-result", "only %d of the %d builds of the history ran (crash or hang)" % (len(builds), len(c["steps"])), c, broken="c07 oracle: termination")
        for i, (st, b) in enumerate(zip(c["steps"], builds)):
            env.update({int(k): v for k, v in st.get("set", {}).items()})
            sem = Sem(c["rules"], env)
            root = st["root"]
            v, bad = sem.build(root)
            allowed = (lambda sem, rec: lambda x, y: y in sem.real.get(x, ()) or y in rec.get(x, ()))(sem, dict(rec))
            self.stats["sequence_builds"] = self.stats.get("sequence_builds", 0) + 1
            self.check_report(c, b, root, allowed, "cycle" if (v is None or bad) else "ok", v, disc_cyclic=(v is not None and bool(bad)),
                              prev=((builds[i - 1]["deps"], c["rules"]) if i > 0 else None),
                              label="build %d of %d on the same engine (key %d)" % (i + 1, len(c["steps"]), root))
            cycles, graphs, _ = parse_report(b)
            if cycles and prev is not None and prev != cycles[0]:
                self.stats["consecutive_failures_different_cycle"] = self.stats.get("consecutive_failures_different_cycle", 0) + 1
            prev = cycles[0] if cycles else None
            for x, val in sem.val.items():
                if val is not None:
                    rec.setdefault(x, set()).update(list(sem.real.get(x, [])) + list(sem.rule(x).get("disc", [])))

    # ---- two engine instances over one database: recorded dependencies
    def recorded_case(self, c, builds):
        chk = self.chk
        sem1 = Sem(c["rules1"], c["env1"])
        v1, bad1 = sem1.build(c["root1"])
        sem2 = Sem(c["rules2"], c["env2"])
        v2, bad2 = sem2.build(c["root2"])
        built1 = set(k for k, v in sem1.val.items() if v is not None)
        rec1 = {k: list(sem1.real.get(k, [])) + list(sem1.rule(k).get("disc", [])) for k in built1}
        discipline = c["discipline"]
        # after a restart a rule that is not re-run keeps its old value although a fresh evaluation might not even reach it (its single-use
        # requests are dropped from the records by design), so which branch a consumer takes cannot be predicted from the fresh evaluation:
        # both branches count as declared; anything else must be a dependency recorded by the first build
        allowed = lambda x, y: y in sem2.real.get(x, ()) or y in sem2.declared_all(x) or y in rec1.get(x, ())
        union = {}
        for k in set(list(c["rules2"]) + list(rec1)):
            union[k] = (list(sem2.real.get(k, [])) if discipline else sem2.declared_all(k)) + rec1.get(k, []) + list(sem2.rule(k).get("disc", []))
        union_cyclic = graph_cyclic_from(union, c["root2"])
        # single-use dependencies are removed from the records when a rule is scanned (cleanSingleUseDependencies): a cycle that needs such an
        # edge of a rule that is not re-run is, by design, not looked at; the must-fail direction only uses the other edges
        tracked = {k: [d for d in sem2.real.get(k, []) if d not in sem2.rule(k).get("single", [])] for k in sem2.real}
        if discipline and v2 is None and graph_cyclic_from(tracked, c["root2"]):
            expect = "cycle"
        elif not union_cyclic:
            expect = "ok"
        else:
            expect = "may"
        chk.count(("rec", json.dumps(c["rules1"], sort_keys=True), json.dumps(c["rules2"], sort_keys=True), json.dumps(c["env2"], sort_keys=True), c["root2"], c["sched"]))
        if len(builds) < 2:
            self.viol("no-result", "the driver did not get through both builds (crash or hang)", c, dict(output=c.get("output", [])[-30:]), broken="c07 oracle: termination")
            return
        a1 = lambda x, y: y in sem1.real.get(x, ())
        self.check_report(c, builds[0], c["root1"], a1, "cycle" if v1 is None else "ok", v1, label="the first build")
        cycles, graphs, _ = parse_report(builds[1])
        if cycles and v2 is not None:
            self.stats["cyclic_only_recorded"] += 1
        elif cycles:
            self.stats["cyclic_static"] += 1
        self.check_report(c, builds[1], c["root2"], allowed, expect, v2 if (discipline and expect != "cycle") else None,
                          prev=(builds[0]["deps"], c["rules1"]), label="the build after the restart")


def gen_recorded(rng, disc_nonleaf=False):
    """Build 1 on an acyclic layered rule set with a database; then rule edits (back edges, with or without a signature change),
    value changes, restart, build 2: stale recorded dependencies may close a cycle during scanning."""
    n = rng.randint(3, 8)
    labels = rng.sample(POOL, n)
    nin = rng.randint(1, max(1, n // 3))
    rules = {}
    for i in range(n):
        k = labels[i]
        if i < nin:
            rules[k] = dict(sig=0, obs=1)
            continue
        lower = labels[:i]
        r = dict(sig=rng.randint(0, 3), obs=1 if rng.random() < 0.2 else 0)
        r["req"] = rng.sample(lower, rng.randint(1, min(3, len(lower))))
        rest = [x for x in lower if x not in r["req"]]
        if rest and rng.random() < 0.3:
            r[rng.choice(["single", "follow"])] = [rng.choice(rest)]
        if rng.random() < 0.35:
            r["br"] = (rng.randrange(len(r["req"])), rng.sample(lower, rng.randint(0, min(2, len(lower)))), rng.sample(lower, rng.randint(0, min(2, len(lower)))))
        if rng.random() < 0.2:
            r["disc"] = [rng.choice(labels) if disc_nonleaf else rng.choice(labels[:nin])]
        rules[k] = r
    env1 = {k: rng.randint(0, 5) for k in labels}
    root1 = labels[-1] if rng.random() < 0.7 else rng.choice(labels[nin:])
    rules2 = json.loads(json.dumps(rules))
    rules2 = {int(k): v for k, v in rules2.items()}
    for r in rules2.values():
        if "br" in r:
            r["br"] = tuple(r["br"])
    discipline = rng.random() < 0.55
    for _ in range(rng.randint(1, 3)):
        i = rng.randrange(nin, n)
        k = labels[i]
        r = rules2[k]
        how = rng.random()
        tgt = rng.choice(labels[i:]) if rng.random() < 0.7 else rng.choice(labels)
        if how < 0.5:
            r.setdefault("req", []).append(tgt)
        elif how < 0.65:
            r["req"] = [tgt]
            r.pop("br", None)
        elif how < 0.8:
            r.setdefault(rng.choice(["single", "follow"]), []).append(tgt)
        else:
            s, a, b = r.get("br", (0, [], []))
            a, b = list(a), list(b)
            (a if rng.random() < 0.5 else b).append(tgt)
            r["br"] = (min(s, len(r.get("req", [1])) - 1), a, b)
        if discipline or rng.random() < 0.3:
            r["sig"] = r.get("sig", 0) + 1 + rng.randint(0, 2)
    env2 = dict(env1)
    for k in labels:
        if rules[k].get("obs") and rng.random() < 0.4:
            env2[k] = rng.randint(0, 5)
    root2 = root1 if rng.random() < 0.6 else rng.choice(labels[nin:])
    # discipline also needs: every rule whose text changed has a changed signature
    if discipline:
        for k in labels:
            if json.dumps(rules[k], sort_keys=True) != json.dumps({**rules2[k], "sig": rules[k].get("sig", 0)}, sort_keys=True) and rules2[k].get("sig", 0) == rules[k].get("sig", 0):
                rules2[k]["sig"] = rules[k].get("sig", 0) + 1
    return dict(family="recorded", rules1=rules, env1=env1, root1=root1, rules2=rules2, env2=env2, root2=root2, discipline=discipline)


def recorded_lines(c):
    L = ["db %d" % c.get("db", 1)]
    for k in sorted(c["rules1"]):
        L.append(enginelib.rule_line(k, c["rules1"][k]))
    for k in sorted(c["env1"]):
        L.append("set %d %d" % (k, c["env1"][k]))
    L.append("build %d sched=%s" % (c["root1"], c["sched"]))
    for k in sorted(c["rules2"]):
        L.append(enginelib.rule_line(k, c["rules2"][k]))
    for k in sorted(c["env2"]):
        L.append("set %d %d" % (k, c["env2"][k]))
    if c.get("restart", True):
        L.append("restart")
    L.append("build %d sched=%s" % (c["root2"], c["sched"]))
    return L


def gen_scan_cycle(rng):
    """c0 requests c1 requests ... requests x, and x DISCOVERS c0: acyclic for a fresh build (a discovered dependency is demanded after x
    completed); in the next build the recorded dependencies form a cycle that only rule scans walk into."""
    m = rng.randint(1, 4)
    labels = rng.sample(POOL, m + 3)
    chain, leaves = labels[:m + 1], labels[m + 1:]
    rules = {k: dict(sig=0, obs=1) for k in leaves}
    for i, k in enumerate(chain):
        r = dict(sig=rng.randint(0, 2), obs=0)
        if i < m:
            r["req"] = [chain[i + 1]] + ([rng.choice(leaves)] if rng.random() < 0.6 else [])
            rng.shuffle(r["req"])
        else:
            r["obs"] = rng.choice([0, 1])
            r["disc"] = [chain[0]]
            if rng.random() < 0.4:
                r["req"] = [rng.choice(leaves)]
        rules[k] = r
    env1 = {k: rng.randint(0, 5) for k in labels}
    env2 = dict(env1)
    if rng.random() < 0.75:
        k = rng.choice(leaves + [chain[-1]])
        env2[k] = env1[k] + 1
    restart = rng.random() < 0.5
    return dict(family="recorded", scan_cycle=True, rules1=rules, env1=env1, root1=rng.choice([chain[0], chain[-1], rng.choice(chain)]),
                rules2=rules, env2=env2, root2=rng.choice(chain), discipline=True, restart=restart, db=1 if restart else rng.choice([0, 1]))


def gen_rebuilt_key(rng):
    """The requested key is built once (acyclic branch), then an external value flips its branch into keys never built before that
    form a cycle NOT containing it; second build on the same engine or after a restart over the database."""
    ncyc, nmid = rng.randint(1, 3), rng.randint(0, 2)
    labels = rng.sample(POOL, 2 + nmid + ncyc + 1)
    R0, L, other = labels[0], labels[1], labels[2]
    mids, cyc = labels[3:3 + nmid], labels[3 + nmid:]
    rules = {L: dict(sig=0, obs=1), other: dict(sig=0, obs=1)}
    path = mids + [cyc[0]]
    for i, k in enumerate(mids):
        rules[k] = dict(sig=0, obs=0, req=[path[i + 1]] + ([other] if rng.random() < 0.5 else []))
    for i, k in enumerate(cyc):
        rules[k] = dict(sig=0, obs=0, **{rng.choice(["req", "req", "follow", "single"]): [cyc[(i + 1) % len(cyc)]]})
    for v1 in range(6):
        p1 = Sem(rules, {L: v1}).ev(L)[0] % 2
        p2 = Sem(rules, {L: v1 + 1}).ev(L)[0] % 2
        if p1 != p2:
            break
    acyc = [other] if rng.random() < 0.5 else []
    rules[R0] = dict(sig=0, obs=0, req=[L], br=(0, acyc, [path[0]]) if p1 == 0 else (0, [path[0]], acyc))
    restart = rng.random() < 0.5
    return dict(family="recorded", rules1=rules, env1={L: v1, other: 1}, root1=R0, rules2=rules, env2={L: v1 + 1, other: 1}, root2=R0,
                discipline=True, restart=restart, db=1 if restart else rng.choice([0, 1]))


def gen_two_cycles(rng):
    """One requested key R whose branch (chosen by the external value of x) leads into one of two DIFFERENT cycles; several builds in a
    row on one engine with x flipped in between, optionally a successful build of another key in between."""
    na, nc = rng.randint(1, 3), rng.randint(1, 3)
    labels = rng.sample(POOL, 3 + na + nc)
    R0, x, ok = labels[0], labels[1], labels[2]
    A, C = labels[3:3 + na], labels[3 + na:]
    rules = {x: dict(sig=0, obs=1), ok: dict(sig=0, obs=0, req=[x])}
    for cyc in (A, C):
        for i, k in enumerate(cyc):
            r = dict(sig=0, obs=0, **{rng.choice(["req", "req", "req", "follow", "single"]): [cyc[(i + 1) % len(cyc)]]})
            if rng.random() < 0.3:
                r.setdefault("req", []).append(x)
            rules[k] = r
    if rng.random() < 0.3:                       # the two cycles share a key: its predecessor list differs between the searches
        rules[C[-1]].setdefault("req", []).append(A[0])
    rules[R0] = dict(sig=0, obs=0, req=[x], br=(0, [A[0]], [C[0]]))
    par = {v: Sem(rules, {x: v}).ev(x)[0] % 2 for v in range(8)}
    ev = [v for v in par if par[v] == 0]
    od = [v for v in par if par[v] == 1]
    steps, side = [], rng.random() < 0.5
    for i in range(rng.randint(2, 4)):
        steps.append(dict(set={x: rng.choice(ev if side else od)}, root=R0))
        side = not side if rng.random() < 0.85 else side
        if rng.random() < 0.3:
            steps.append(dict(set={}, root=ok))
    return dict(family="sequence", rules=rules, env={}, steps=steps)


def gen_sequence(rng):
    """A random rule set with back edges; 2-5 builds of random keys on one engine, leaf values changing in between."""
    labels, rules, env = gen_dynamic(rng, nmax=8)
    leaves = [k for k in labels if not rules[k].get("req")]
    steps = []
    for i in range(rng.randint(2, 5)):
        st = {}
        for k in leaves:
            if rng.random() < 0.5:
                st[k] = rng.randint(0, 5)
        steps.append(dict(set=st, root=rng.choice(labels[len(leaves):] or labels)))
    return dict(family="sequence", rules=rules, env=env, steps=steps)


def corpus_cases():
    """Hand-written scenarios: the two unit tests, and the shapes named in the task."""
    out = []
    def fresh(name, rules, root, env=None, post=None):
        out.append(dict(family="corpus", name=name, rules=rules, env=env or {}, root=root, post=post))
    R = lambda **kw: dict(dict(sig=0, obs=0), **kw)
    fresh("SimpleCycle", {1: R(req=[2]), 2: R(req=[1])}, 1)
    fresh("self-dependency", {9: R(req=[9])}, 9)
    fresh("self-dependency-follow", {9: R(follow=[9])}, 9)
    fresh("root-outside-cycle", {1: R(req=[2]), 2: R(req=[3]), 3: R(req=[2])}, 1, post=None)
    fresh("two-cycles-name-order", {1: R(req=[9, 10]), 9: R(req=[1]), 10: R(req=[1])}, 1)
    fresh("two-cycles-name-order-2", {2: R(req=[100, 11, 3]), 100: R(single=[2]), 11: R(follow=[2]), 3: R(req=[2])}, 2)
    fresh("cycle-behind-branch-even", {1: R(req=[2], br=(0, [3], [])), 2: R(obs=1), 3: R(req=[1])}, 1, env={2: 0})
    for v in range(6):
        fresh("cycle-behind-branch-v%d" % v, {1: R(req=[2], br=(0, [10], [11])), 2: R(obs=1), 10: R(req=[1]), 11: R()}, 1, env={2: v})
    fresh("dead-end-then-cycle", {1: R(req=[2, 3]), 2: R(obs=1), 3: R(req=[1])}, 1, env={2: 4})
    fresh("acyclic-diamond", {1: R(req=[2, 3]), 2: R(req=[20]), 3: R(req=[20]), 20: R(obs=1)}, 1, env={20: 3})
    fresh("after-failure-acyclic-key", {1: R(req=[2]), 2: R(req=[1, 3]), 3: R(req=[9]), 9: R(obs=1)}, 1, env={9: 2}, post=3)
    fresh("after-failure-shared-subgraph", {1: R(req=[3, 2]), 2: R(req=[1]), 3: R(req=[9, 10]), 9: R(obs=1), 10: R(req=[9])}, 1, env={9: 1}, post=3)
    # CycleDuringScanningFromTop: A=1 B=2 C=3; the second build sees B->C recorded and C (always invalid) now requesting B.
    out.append(dict(family="recorded", name="CycleDuringScanningFromTop",
                    rules1={1: R(req=[2, 3]), 2: R(req=[3]), 3: R(obs=1)}, env1={3: 1}, root1=1,
                    rules2={1: R(req=[2]), 2: R(req=[3]), 3: R(obs=1, req=[2])}, env2={3: 2}, root2=1, discipline=False))
    # a stale recorded dependency (rule 1 edited without a signature change) closes a cycle with the edited rule 2
    out.append(dict(family="recorded", name="stale-recorded-dependency",
                    rules1={1: R(req=[2]), 2: R(req=[3]), 3: R(obs=1)}, env1={3: 1}, root1=1,
                    rules2={1: R(req=[3]), 2: R(sig=1, req=[1]), 3: R(obs=1)}, env2={3: 1}, root2=1, discipline=False))
    # the same edit with the signature of 1 changed as well: no cycle
    out.append(dict(family="recorded", name="edited-with-signature-change",
                    rules1={1: R(req=[2]), 2: R(req=[3]), 3: R(obs=1)}, env1={3: 1}, root1=1,
                    rules2={1: R(sig=1, req=[3]), 2: R(sig=1, req=[1]), 3: R(obs=1)}, env2={3: 1}, root2=1, discipline=True))
    # a real cycle introduced by an edit, found while scanning from the top
    out.append(dict(family="recorded", name="edit-introduces-cycle",
                    rules1={1: R(req=[2]), 2: R(req=[3]), 3: R(obs=1)}, env1={3: 1}, root1=1,
                    rules2={1: R(req=[2]), 2: R(req=[3]), 3: R(sig=1, obs=1, req=[1])}, env2={3: 1}, root2=1, discipline=True))
    # several failing builds in a row on one engine with DIFFERENT cycles (value-dependent branch of key 9 flipped in between): nothing of an
    # earlier search may show in a later report.  Names: the stale predecessor k1 sorts before the real one k2 (and k10 before k9).
    S = lambda rules, steps, name: out.append(dict(family="sequence", name=name, rules=rules, env={}, steps=steps))
    two = {9: R(req=[3], br=(0, [1], [2])), 3: R(obs=1), 1: R(req=[10]), 10: R(req=[1]), 2: R(req=[20]), 20: R(req=[2]), 100: R(req=[3])}
    par = {v: Sem(two, {3: v}).ev(3)[0] % 2 for v in range(8)}
    e0, o0 = [v for v in par if par[v] == 0][0], [v for v in par if par[v] == 1][0]
    S(two, [dict(set={3: e0}, root=9), dict(set={3: o0}, root=9)], "two-failing-builds-different-cycles")
    S(two, [dict(set={3: o0}, root=9), dict(set={3: e0}, root=9)], "two-failing-builds-different-cycles-reversed")
    S(two, [dict(set={3: e0}, root=9), dict(set={3: o0}, root=9), dict(set={3: e0}, root=9)], "three-failing-builds-alternating")
    S(two, [dict(set={3: e0}, root=9), dict(set={}, root=100), dict(set={3: o0}, root=9)], "failing-successful-failing")
    S(two, [dict(set={3: e0}, root=9), dict(set={}, root=2), dict(set={}, root=1)], "different-requested-keys")
    # the requested key was built before and is re-run; the cycle lies among keys never built and does not contain it
    out.append(dict(family="recorded", name="rebuilt-key-cycle-elsewhere", restart=False, db=0,
                    rules1={1: R(req=[2], br=(0, [], [10])), 2: R(obs=1), 10: R(req=[11]), 11: R(req=[10])}, env1={2: 0}, root1=1,
                    rules2={1: R(req=[2], br=(0, [], [10])), 2: R(obs=1), 10: R(req=[11]), 11: R(req=[10])}, env2={2: 1}, root2=1, discipline=True))
    return out


def disc_corpus():
    R = lambda **kw: dict(dict(sig=0, obs=0), **kw)
    out = []
    # a completed task's discovered dependency lies on a cycle
    out.append(dict(family="disc", name="discovered-dependency-on-cycle", rules={1: R(obs=1, disc=[2]), 2: R(req=[3]), 3: R(req=[2])}, env={1: 5}, root=1))
    out.append(dict(family="disc", name="discovered-dependency-on-cycle-deep", rules={1: R(req=[10]), 10: R(disc=[2]), 2: R(req=[3]), 3: R(req=[2])}, env={}, root=1))
    return out


def disc_recorded_corpus():
    R = lambda **kw: dict(dict(sig=0, obs=0), **kw)
    # 1 discovers 2 while 2 requests 1: fine in a fresh build; in the next build the two scans wait for each other
    return [dict(family="recorded", name="scan-only-cycle", scan_cycle=True,
                 rules1={1: R(obs=1, disc=[2]), 2: R(req=[1, 9]), 9: R(obs=1)}, env1={1: 5, 9: 1}, root1=2,
                 rules2={1: R(obs=1, disc=[2]), 2: R(req=[1, 9]), 9: R(obs=1)}, env2={1: 5, 9: 2}, root2=2, discipline=True)]


def private_copy(src, dst):
    import shutil, time
    for attempt in range(5):
        try:
            tmp = dst + ".tmp%d" % os.getpid()
            shutil.copy2(src, tmp)
            os.replace(tmp, dst)
            return dst
        except OSError:
            time.sleep(1.0)
    return src


def run(chk, only=None):
    drv = vlib.build_drivers(["engine_driver"])["engine_driver"]
    model = vlib.model_bin("cycle")
    # self-test knobs (never set by tools/check): another driver binary (a privately built mutant of the engine) / another model verb
    if os.environ.get("VERIF_C07_DRIVER"):
        drv = os.environ["VERIF_C07_DRIVER"]
        chk.notes["self_test_driver"] = drv
    verb = os.environ.get("VERIF_C07_MODEL_CMD", "findcycle")
    if verb != "findcycle":
        chk.notes["self_test_model_verb"] = verb
    chk.proof_gate(also=["impl"])
    # small-step model of the engine loop (Engine/Impl.v): exact-interleaving tie, theorems of Props/Properties_impl.v
    import props.impl as impl
    impl.phase(chk, {"corpus", "cyclic"})
    rng = chk.rng
    wd = os.path.join(vlib.WORK, "c07-%s" % chk.tier)
    os.makedirs(wd, exist_ok=True)
    # a private copy of the driver: other checks may relink the shared binary while this one is running thousands of processes
    drv = private_copy(drv, os.path.join(wd, "engine_driver"))
    J = Judge(chk)
    J.verb = verb
    scheds = SCHEDS_Q if chk.quick() else ["sync", "defer:1", "defer:7", "mixed:2", "mixed:5", "threads:3"]

    def sched(i=None):
        return rng.choice(scheds) if i is None else scheds[i % len(scheds)]

    fresh = []
    recorded = []
    if only is not None:
        (recorded if only.get("family") == "recorded" and "rules1" in only else fresh).append(only)
    else:
        for c in corpus_cases():
            for s in scheds:
                d = dict(c, sched=s)
                (recorded if "rules1" in c else fresh).append(d)
        # exhaustive / sampled small digraphs; node 0 is requested
        for n in (1, 2, 3, 4):
            graphs = list(all_digraphs(n)) if n < 4 else None
            if n == 4:
                if chk.quick():
                    graphs = []
                    cells = [(i, j) for i in range(4) for j in range(4)]
                    for _ in range(900):
                        bits = rng.getrandbits(16) & rng.getrandbits(16) if rng.random() < 0.6 else rng.getrandbits(16)
                        adj = [[] for _ in range(4)]
                        for b, (i, j) in enumerate(cells):
                            if bits >> b & 1:
                                adj[i].append(j)
                        graphs.append(adj)
                else:
                    graphs = all_digraphs(4)
            for gi, adj in enumerate(graphs):
                labels = rng.sample(POOL, n)
                kinds = "req" if rng.random() < 0.5 else "mixed"
                rules = mk_rules(n, labels, adj, rng, kinds)
                env = {k: rng.randint(0, 3) for k in labels}
                sl = scheds if (not chk.quick() and n < 4) else ([sched()] if chk.quick() else ["sync", sched()])
                for s in sl:
                    fresh.append(dict(family="small%d" % n, rules=rules, env=env, root=labels[0], sched=s))
        # random rule sets up to 10 keys with dynamic requests
        for i in range(chk.n(1200, 12000)):
            labels, rules, env = gen_dynamic(rng)
            root = labels[-1] if rng.random() < 0.6 else rng.choice(labels)
            c = dict(family="dynamic", rules=rules, env=env, root=root, sched=sched())
            if rng.random() < 0.3:
                # a later build of a key with an acyclic closure on the same engine
                sem = Sem(rules, env)
                cands = [k for k in labels if sem.build(k)[0] is not None and rules[k].get("req")]
                if cands:
                    c["post"] = rng.choice(cands)
            fresh.append(c)
        for i in range(chk.n(300, 6000)):
            c = gen_two_cycles(rng) if i % 2 == 0 else gen_sequence(rng)
            c["sched"] = sched()
            fresh.append(c)
        for i in range(chk.n(400, 4000)):
            c = gen_recorded(rng)
            c["sched"] = sched()
            recorded.append(c)
        for i in range(chk.n(40, 800)):
            c = gen_rebuilt_key(rng)
            c["sched"] = sched()
            recorded.append(c)
        # discovered dependencies on non-leaf keys (the two findings live here)
        for c in disc_corpus():
            for s in scheds[:3]:
                fresh.append(dict(c, sched=s))
        for c in disc_recorded_corpus():
            for s in scheds[:3]:
                recorded.append(dict(c, sched=s))
        for i in range(chk.n(120, 3000)):
            labels, rules, env = gen_dynamic(rng, nmax=7, disc_nonleaf=True, pdisc=0.5)
            fresh.append(dict(family="disc", rules=rules, env=env, root=labels[-1] if rng.random() < 0.5 else rng.choice(labels), sched=sched()))
        for i in range(chk.n(60, 1500)):
            c = gen_scan_cycle(rng)
            c["sched"] = sched()
            recorded.append(c)
        for i in range(chk.n(40, 1000)):
            c = gen_recorded(rng, disc_nonleaf=True)
            c["sched"] = sched()
            c["family"] = "recorded"
            c["scan_cycle"] = True
            recorded.append(c)

    # ---- run the fresh cases in batches (one engine instance per case inside one driver process)
    B = 250
    batches = [fresh[i:i + B] for i in range(0, len(fresh), B)]

    def do_batch(ib):
        i, cases = ib
        rc, out, err = run_batch(drv, cases, os.path.join(wd, "b%d" % (i % 32)), "batch%d" % i, timeout=300)
        return i, rc, out, err

    with concurrent.futures.ThreadPoolExecutor(max_workers=min(8, vlib.NCPU)) as ex:
        results = list(ex.map(do_batch, list(enumerate(batches))))
    for i, rc, out, err in results:
        cases = batches[i]
        groups = group_by_restart(out)
        if rc != 0 or len(groups) != len(cases):
            # a crash or a hang inside the batch: run its cases one by one to find the one
            for j, c in enumerate(cases):
                rc1, out1, err1 = run_batch(drv, [c], os.path.join(wd, "single"), "single", timeout=20)
                g1 = group_by_restart(out1)
                if rc1 != 0:
                    J.viol("hang-or-crash", "the engine %s on this scenario (schedule %s)" % ("did not terminate within 20 s" if rc1 == -9 else "crashed (exit code %d)" % rc1, c["sched"]),
                           c, dict(rc=rc1, stderr=err1[-1500:], output=out1[-40:]), broken="c07 oracle: the build terminates")
                    continue
                (J.seq_case if "steps" in c else J.fresh_case)(c, g1[0] if g1 else [])
            continue
        for c, g in zip(cases, groups):
            (J.seq_case if "steps" in c else J.fresh_case)(c, g)

    # ---- recorded cases: one driver process each (own database)
    def do_rec(ic):
        i, c = ic
        c["lines"] = recorded_lines(c)
        rc, out, err, sp, tp = enginelib.run_impl(drv, c["lines"], os.path.join(wd, "r%d" % (i % 64), "x%d" % i), timeout=30, name="rec")
        return i, rc, out, err

    with concurrent.futures.ThreadPoolExecutor(max_workers=min(8, vlib.NCPU)) as ex:
        rres = list(ex.map(do_rec, list(enumerate(recorded))))
    for i, rc, out, err in rres:
        c = recorded[i]
        if rc not in (0, -9):
            sem1, sem2 = Sem(c["rules1"], c["env1"]), Sem(c["rules2"], c["env2"])
            w1, w2 = sem1.build(c["root2"])[0], sem2.build(c["root2"])[0]
            on_cycle = any(_reaches(sem2.real, d, c["root2"]) for d in sem2.real.get(c["root2"], ()))
            if w1 is not None and w2 is None and not on_cycle and sem1.build(c["root1"])[0] is not None and c["root2"] in sem1.val:
                J.viol("crash-cycle-outside-rebuilt-key", "the engine crashed (exit code %d): the requested key %d was built before, is re-run, and now waits on a cycle that does not "
                       "contain it (breakCycle dereferences the element before the first one of the list: *std::next(ruleIt) at rend())" % (rc, c["root2"]),
                       c, dict(rc=rc, stderr=err[-1500:], output=out[-40:]), broken="c07 oracle: the build terminates with failure and reports the cycle")
                continue
        if rc != 0:
            J.viol("hang-or-crash", "the engine %s on this two-build history" % ("did not terminate within 30 s" if rc == -9 else "crashed (exit code %d)" % rc),
                   c, dict(rc=rc, stderr=err[-1500:], output=out[-40:]), broken="c07 oracle: the build terminates")
            continue
        builds = [b for b in enginelib.split_builds(out) if b["hdr"] != "restart"]
        J.recorded_case(c, builds)

    # ---- thorough: the same histories under AddressSanitizer + UBSan (crashes and out-of-bounds reads only; no re-judging)
    if not chk.quick() and only is None and not os.environ.get("VERIF_C07_DRIVER"):
        adrv = private_copy(vlib.build_drivers(["engine_driver"], "asan")["engine_driver"], os.path.join(wd, "engine_driver_asan"))
        asan_env = dict(os.environ, ASAN_OPTIONS="detect_leaks=0")

        def do_rec_asan(ic):
            i, c = ic
            rc, out, err, sp, tp = enginelib.run_impl(adrv, c["lines"], os.path.join(wd, "ar%d" % (i % 64), "x%d" % i), timeout=60, name="rec", env=asan_env)
            return i, rc, err

        def do_batch_asan(ib):
            i, cases = ib
            L = ["db 0"]
            for c in cases:
                L += case_lines(c)
            rc, out, err, sp, tp = enginelib.run_impl(adrv, L, os.path.join(wd, "ab%d" % (i % 32)), timeout=600, name="abatch%d" % i, env=asan_env)
            return i, rc, err

        nsan = 0
        with concurrent.futures.ThreadPoolExecutor(max_workers=min(8, vlib.NCPU)) as ex:
            for i, rc, err in ex.map(do_rec_asan, list(enumerate(recorded[:2500]))):
                nsan += 1
                if rc != 0:
                    J.viol("sanitizer-or-crash", "under ASan/UBSan the engine %s on this two-build history" % ("hung" if rc == -9 else "aborted (exit code %d)" % rc),
                           recorded[i], dict(rc=rc, stderr=err[-3000:]), broken="c07 oracle: the build terminates (memory-safely)")
            picked = [ib for ib in enumerate(batches) if ib[0] % 4 == 0][:40]
            for i, rc, err in ex.map(do_batch_asan, picked):
                nsan += len(batches[i])
                if rc != 0:
                    for c in batches[i]:
                        rc1, out1, err1, sp, tp = enginelib.run_impl(adrv, ["db 0"] + case_lines(c), os.path.join(wd, "asingle"), timeout=60, name="s", env=asan_env)
                        if rc1 != 0:
                            J.viol("sanitizer-or-crash", "under ASan/UBSan the engine %s on this scenario" % ("hung" if rc1 == -9 else "aborted (exit code %d)" % rc1),
                                   c, dict(rc=rc1, stderr=err1[-3000:]), broken="c07 oracle: the build terminates (memory-safely)")
                            break
        chk.cov["asan_cases"] = nsan

    # ---- tie: the extracted findCycle model on every dumped graph
    reqs = [t[0] for t in J.tie]
    ndis = 0
    if reqs:
        rc, ans, err = vlib.run_lines(model, reqs, timeout=1200)
        if rc != 0 or len(ans) != len(reqs):
            raise vlib.BuildError("the extracted cycle model failed: rc=%s %s" % (rc, err[-800:]))
        for (req, impl, c, ctx, root, g, lst), m in zip(J.tie, ans):
            chk.count(("tie", req))
            if m == impl:
                continue
            ndis += 1
            waits = set((w, a) for (a, w) in g)
            why = valid_cycle_in(lst, root, lambda x, y: (x, y) in waits)
            if why:
                J.viol("cycle-list-not-in-waitgraph", "the list handed to cycleDetected is not a cycle of the wait-for graph findCycle was given: %s (model: %s)" % (why, m),
                       c, dict(ctx, model=m, request=req), broken="c07 oracle on the dumped graph + correspondence FindCycle.findCycle")
            else:
                J.viol("findcycle-correspondence", "findCycle returned %s, the model %s on the same graph; the implementation's list is a valid cycle of that graph, "
                       "so the property clause holds here but the model no longer describes the code (predecessor order?)" % (impl, m),
                       c, dict(ctx, model=m, request=req), found=False, broken="correspondence: Engine/FindCycle.v vs BuildEngine.cpp findCycle")
        chk.sample(dict(kind="tie", request=reqs[0], implementation=J.tie[0][1], model=ans[0]))
        k = next((i for i, t in enumerate(J.tie) if len(t[6]) > 3), None)
        if k is not None:
            chk.sample(dict(kind="tie", request=reqs[k], implementation=J.tie[k][1], model=ans[k]))
    chk.cov["tie_graphs"] = len(reqs)
    chk.cov["tie_disagreements"] = ndis
    chk.cov["cases"] = dict(fresh=len(fresh), recorded=len(recorded))
    chk.cov["categories"] = J.stats
    chk.cov["schedules"] = scheds
    if J.stats["dead_end_waitgraphs"]:
        chk.notes["dead_end_waitgraphs"] = ("%d dumped wait-for graphs contain a key reachable from the requested one that waits on nothing: there findCycle "
                                            "backtracks (its running time is exponential in general: c07_fc_polynomial_fuel_refuted)" % J.stats["dead_end_waitgraphs"])
    chk.assumptions = ["keys are the names k<decimal> compared as byte strings (the driver's default naming)",
                       "the client never enables cycle breaking (shouldResolveCycle answers false, as the default delegate does)",
                       "signature discipline for the 'must fail' direction after rule edits: an edited rule has a changed signature; without it only the accuracy of a report is checked",
                       "schedules are those the driver can produce through the hook points (sync / deferred / mixed / racing threads in thorough)"]
    return chk.finish(level="proof",
                      rule="scenario = rule set over <= 10 keys (req / single-use / must-follow edges, one value-dependent branch per rule, discovered dependencies) + external values + requested key + schedule; "
                           "all digraphs on <= 3 keys and (thorough) on 4 keys, sampled in quick; random rule sets with back edges; two-build histories over a database with rule edits and value changes; "
                           "non-trivial = some rule requests something; distinct by (rules, values, key, schedule); every failing build adds one tie evaluation (graph, root)",
                      trusted=["hand-written model coq/Engine/FindCycle.v tied to findCycle by running it on the graph dumped at hook point 3",
                               "harness/cpp/engine_driver.cpp and the LLBUILD_VERIF hook points in lib/Core/BuildEngine.cpp",
                               "class Sem in harness/py/props/c07.py (the oracle's reading of the rule DSL)",
                               "extraction (ExtrOcamlBasic) + ocaml/vmodel_cycle.ml",
                               "not modelled: breakCycle; how the engine fills the successor graph (checked edge by edge against the scenario's dependencies, not proved)"])


def replay(chk, rp):
    print(json.dumps({k: rp[k] for k in rp if k not in ("case",)}, indent=1)[:6000])
    c = rp.get("case")
    if not c:
        return run(chk)
    def fix(rules):
        out = {}
        for k, r in rules.items():
            r = dict(r)
            if "br" in r:
                r["br"] = tuple(r["br"])
            out[int(k)] = r
        return out
    for f in ("rules", "rules1", "rules2"):
        if f in c:
            c[f] = fix(c[f])
    for f in ("env", "env1", "env2"):
        if f in c:
            c[f] = {int(k): v for k, v in c[f].items()}
    for st in c.get("steps", []):
        st["set"] = {int(k): v for k, v in st.get("set", {}).items()}
    return run(chk, only=c)
