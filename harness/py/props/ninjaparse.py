# ninjaparse - the Ninja PARSER model (coq/Parse/NinjaParse.v) between the lexer model and the loader model
# (deepens C17 and C19).
#
#  (a) proof gate: Props/Properties_ninjaparse.v
#  (b) differential, parser: byte string -> extracted model `parse` (lexer model + parser model) versus
#      `ninja_driver ast` (REAL Lexer + Parser with a recording ParseActions): identical action lists required,
#      parser errors included (mapped to the codes of ninja_driver.cpp), on
#        - every file of the C17 generator's manifests (+ its corpus), the manifests of /repo/tests/Ninja,
#        - every truncation of the C19 seed manifests,
#        - the C19 manifest stream: corpus tails, dictionary / byte mutants, random bytes
#  (c) oracles on the implementation's action list, computed from the bytes alone (no model):
#        - every token text handed to an action occurs in the buffer,
#        - no silent drop: bytes other than blanks and comments give at least one action; when no '$' stands before a
#          line end, at least one top-level action (declaration or error) per line that starts in column 0
#  (d) differential, end to end: directory of byte strings -> model `loadbytes` (parse every file with the model, load
#      with the loader model) versus `ninja_driver load` (REAL ManifestLoader): identical canonical dumps.
import os, json, shutil, glob
import vlib
from vlib import hx

AREA = "ninjaparse"
SANDBOX = os.path.join(vlib.WORK, "tmp", "ninjaparse-%d" % os.getpid())
BATCH = 150
TOP = "BDIEUPR"
WS = bytes([9, 10, 11, 12, 13, 32])


def show(b):
    return b.decode("latin-1")


# ------------------------------------------------------------------ the implementation's action lists (batched)

def impl_asts(drv, datas, tag):
    """[bytes] -> [list of AST lines] through `ninja_driver ast` (one request, one file per input)"""
    wd = os.path.join(SANDBOX, "ast-" + tag)
    shutil.rmtree(wd, ignore_errors=True)
    os.makedirs(wd)
    names = []
    for i, d in enumerate(datas):
        n = "f%04d.ninja" % i
        with open(os.path.join(wd, n), "wb") as f:
            f.write(d)
        names.append(n)
    out = os.path.join(SANDBOX, "ast-%s.txt" % tag)
    a = drv.ask("ast %s %s %s %s" % (out, hx(wd.encode()), hx(names[0].encode()), " ".join(hx(n.encode()) for n in names)))
    if not a.startswith("OK %d" % len(datas)):
        raise RuntimeError("ast failed: " + a)
    res, cur = [], None
    for l in open(out).read().split("\n"):
        if l.startswith("F "):
            cur = []
            res.append(cur)
        elif l and cur is not None:
            cur.append(l)
    if len(res) != len(datas):
        raise RuntimeError("ast: %d sections for %d files" % (len(res), len(datas)))
    shutil.rmtree(wd, ignore_errors=True)
    return res


def model_ast(model, data):
    a = model.ask("parse " + hx(data))
    if a == ".":
        return []
    return a.split(" ; ")


# ------------------------------------------------------------------ oracles on the implementation (no model involved)

def texts_of(lines):
    """the token texts of an action list"""
    out = []
    for l in lines:
        f = l.split(" ")
        if f[0] in ("B", "b"):
            out += [f[1], f[2]]
        elif f[0] == "D":
            out += [] if f[1] == "." else f[1].split(",")
        elif f[0] == "I":
            out.append(f[2])
        elif f[0] in ("P", "R"):
            out.append(f[1])
        elif f[0] == "U":
            out.append(f[1])
            for x in f[2:]:
                out += [] if x == "." else x.split(",")
    return [vlib.unhx(x) for x in out]


def split_lines(data):
    """physical lines as the lexer's getNextChar folds line ends: \\r\\n and \\n\\r are ONE line end"""
    lines, cur, i = [], bytearray(), 0
    while i < len(data):
        c = data[i]
        if c in (10, 13):
            lines.append(bytes(cur)); cur = bytearray()
            if i + 1 < len(data) and data[i + 1] == 23 - c:
                i += 1
        else:
            cur.append(c)
        i += 1
    lines.append(bytes(cur))
    return lines


def is_blank_or_comment(line):
    s = line.lstrip(bytes([9, 11, 12, 32]))
    return s == b"" or s[:1] == b"#"


def statement_lines(data):
    """lines that start a statement: first byte in column 0 is neither a blank nor '#'"""
    return sum(1 for l in split_lines(data) if l and l[0] not in WS and l[0] != 35)


def oracle(data, lines):
    """-> list of (key, what) the implementation's action list violates"""
    bad = []
    for t in texts_of(lines):
        if t not in data:
            bad.append(("token-text-outside-buffer", "a token text handed to a parse action (%r) is not a slice of the buffer" % show(t)[:60]))
            break
    ntop = sum(1 for l in lines if l[0] in TOP)
    if ntop == 0 and not all(is_blank_or_comment(l) for l in split_lines(data)):
        bad.append(("statement-dropped-silently", "the buffer holds more than blanks and comments but the parser made no action call and reported no error"))
    if b"$\n" not in data and b"$\r" not in data:
        need = statement_lines(data)
        if ntop < need:
            bad.append(("statement-dropped-silently", "%d lines start a statement in column 0 but the parser made only %d top-level action/error calls" % (need, ntop)))
    return bad


# ------------------------------------------------------------------ inputs

def parser_inputs(chk):
    """[(key, bytes)]: every file of the C17 generator's trees, the repository's Ninja test manifests, every
    truncation of the C19 seeds, the C19 manifest stream"""
    import props.c17 as c17
    import props.c19 as c19
    rng = chk.rng
    cases = []
    for c in c17.CORPUS:
        for n, d in sorted(c["files"].items()):
            cases.append(("c17corpus:%s:%s" % (c["name"], n), d))
    for p in sorted(glob.glob("/repo/tests/Ninja/*/*.ninja") + glob.glob("/repo/tests/Ninja/*/*/*.ninja")):
        cases.append(("repo:" + os.path.relpath(p, "/repo/tests/Ninja"), open(p, "rb").read()))
    for i in range(chk.n(300, 2500)):
        r = rng.random()
        kind = "oracle" if r < 0.45 else "late" if r < 0.6 else "weird" if r < 0.72 else "malformed"
        g = c17.Gen(rng, kind).generate()
        for n, d in sorted(g["files"].items()):
            cases.append(("c17gen:%s:%d:%s" % (kind, i, n), d))
    stream = c19.ninja_cases(chk)
    fixed = [(k, f) for (k, f) in stream if not k.startswith(("mutant:", "random:"))]
    var = [(k, f) for (k, f) in stream if k.startswith(("mutant:", "random:"))]
    if chk.tier == "quick":
        # all corpus tails and truncations, a sample of the mutants
        var = rng.sample(var, min(len(var), 9000))
    for k, f in fixed + var:
        for n, d in sorted(f.items()):
            cases.append(("c19:%s:%s" % (k, n) if n != "build.ninja" else "c19:" + k, d))
    seen, out = set(), []
    for k, d in cases:
        if d not in seen:
            seen.add(d)
            out.append((k, d))
    return out


def classify(lines):
    """identity of a non-trivial case: the sequence of action kinds / error codes (runs collapsed)"""
    sig = []
    for l in lines:
        f = l.split(" ")
        s = f[0] + (f[1] if f[0] in "Ee" else "")
        if s != "end" and (not sig or sig[-1] != s):
            sig.append(s)
    return tuple(sig[:12])


# ------------------------------------------------------------------ (b) + (c): model parse vs ninja_driver ast

def parse_part(chk, only=None):
    drv_path = vlib.build_drivers(["ninja_driver"])["ninja_driver"]
    model_path = vlib.model_bin(AREA)
    os.makedirs(SANDBOX, exist_ok=True)
    cases = only if only is not None else parser_inputs(chk)
    drv = vlib.Interactive(drv_path)
    model = vlib.Interactive(model_path)
    stats = dict(inputs=len(cases), bytes=0, identical=0, disagreements=0, with_errors=0, error_free=0, empty=0, actions=0, by_source={})
    codes = {}
    try:
        for b0 in range(0, len(cases), BATCH):
            batch = cases[b0:b0 + BATCH]
            try:
                impl = impl_asts(drv, [d for _, d in batch], "b%d" % (b0 // BATCH))
            except RuntimeError as e:
                # the real parser died inside this batch: find the input
                drv.close()
                drv = vlib.Interactive(drv_path)
                impl = []
                for k, d in batch:
                    try:
                        impl.append(impl_asts(drv, [d], "one")[0])
                    except RuntimeError as e1:
                        drv.close()
                        drv = vlib.Interactive(drv_path)
                        impl.append(None)
                        chk.violation("parser-crash", "the Ninja parser crashed on a byte string (case %s): %s" % (k, str(e1)[-300:]),
                                      dict(case=k, data=d.hex(), data_text=show(d)[:2000]), found_input=True, broken="ninja::Parser::parse")
            for (k, d), lines in zip(batch, impl):
                if lines is None:
                    continue
                stats["bytes"] += len(d)
                kf = k.split(":")
                src = kf[0] + (":" + (kf[1] if kf[1] in ("truncate", "mutant", "random", "tail") else "corpus") if kf[0] == "c19" else "")
                stats["by_source"][src] = stats["by_source"].get(src, 0) + 1
                mod = model_ast(model, d)
                errs = [l.split(" ")[1] for l in lines if l[:2] in ("E ", "e ")]
                for c in errs:
                    codes[c] = codes.get(c, 0) + 1
                stats["with_errors" if errs else "error_free"] += 1
                stats["actions"] += sum(1 for l in lines if l != "end")
                if not lines:
                    stats["empty"] += 1
                chk.count(("parse", classify(lines)) if lines else None)
                if lines and errs and len(chk.samples) < 2:
                    chk.sample(dict(kind="parse", case=k, data=show(d)[:300], implementation_actions=lines[:8], model_actions=mod[:8]))
                obad = oracle(d, lines)
                for (key, what) in obad:
                    chk.violation(key, what + " (case %s)" % k, dict(case=k, data=d.hex(), data_text=show(d)[:2000], implementation_actions=lines[:40]),
                                  found_input=True, broken="ninja::Parser (oracle on the recorded parse actions)")
                if mod == lines:
                    stats["identical"] += 1
                else:
                    stats["disagreements"] += 1
                    i = next((j for j in range(min(len(mod), len(lines))) if mod[j] != lines[j]), min(len(mod), len(lines)))
                    if len(chk.notes.setdefault("parse_disagreements", [])) < 3:
                        chk.notes["parse_disagreements"].append(dict(case=k, data=d.hex(), first_difference=i, implementation=lines[i:i + 3], model=mod[i:i + 3]))
                    if not obad:
                        chk.violation("parse-correspondence", "model (Parse.NinjaParse.parse) and ninja::Parser disagree on the parse actions of a byte string (case %s, action %d: implementation %s, model %s)"
                                      % (k, i, lines[i:i + 1], mod[i:i + 1]),
                                      dict(case=k, data=d.hex(), data_text=show(d)[:2000], implementation_actions=lines[:60], model_actions=mod[:60]),
                                      found_input=False, broken="correspondence: Parse.NinjaParse.parse vs lib/Ninja/Parser.cpp")
    finally:
        drv.close(); model.close()
    stats["parser_error_codes_seen"] = {c: codes[c] for c in sorted(codes, key=int)}
    chk.cov["parse"] = stats
    return stats


# ------------------------------------------------------------------ error order inside ONE declaration is not compared

def canon_dump(recs, groups):
    """canonical manifest dump records with the error records of each declaration sorted: `groups` = numbers of errors per
    declaration in program order (model handler `loadgroups`); the order in which ONE statement reports its independent
    errors is not part of the property, the order of errors of DIFFERENT declarations is.  Applied to both sides.
    groups None or not covering the error records exactly: the records are returned unchanged (strict comparison)."""
    head = [r for r in recs if not r.startswith("E ")]
    errs = [r for r in recs if r.startswith("E ")]
    if groups is None or sum(groups) != len(errs):
        return list(recs)
    out, i = [], 0
    for g in groups:
        out += sorted(errs[i:i + g])
        i += g
    return head + out


def error_groups(model, wd, main):
    a = model.ask("loadgroups %s %s" % (wd, main))
    if a == "NONE" or a.startswith(("ERR", "EXC")):
        return None
    return [] if a == "." else [int(x) for x in a.split(",")]


def same_up_to_error_order(model, wd, main, impl_recs, mod_recs):
    """model = Interactive of the ninjaparse model; the files of the case are in wd"""
    groups = error_groups(model, wd, main)
    return groups is not None and canon_dump(impl_recs, groups) == canon_dump(mod_recs, groups)


# ------------------------------------------------------------------ (d): bytes -> model parse -> model load vs ninja_driver load

def load_inputs(chk):
    """[(key, {relative name: bytes}, main)]"""
    import props.c17 as c17
    import props.c19 as c19
    rng = chk.rng
    cases = []
    for c in c17.CORPUS:
        cases.append(("c17corpus:" + c["name"], c["files"], "main.ninja"))
    for i in range(chk.n(150, 1500)):
        r = rng.random()
        kind = "oracle" if r < 0.45 else "late" if r < 0.6 else "weird" if r < 0.72 else "malformed"
        cases.append(("c17gen:%s:%d" % (kind, i), c17.Gen(rng, kind).generate()["files"], "main.ninja"))
    stream = c19.ninja_cases(chk)
    fixed = [(k, f) for (k, f) in stream if not k.startswith(("mutant:", "random:", "truncate:"))]
    trunc = [(k, f) for (k, f) in stream if k.startswith("truncate:")]
    var = [(k, f) for (k, f) in stream if k.startswith(("mutant:", "random:"))]
    if chk.tier == "quick":
        trunc = [(k, f) for (k, f) in trunc if int(k.split(":")[2]) % 3 == 0]
        var = rng.sample(var, min(len(var), 2000))
    for k, f in fixed + trunc + var:
        cases.append(("c19:" + k, f, "build.ninja"))
    return [c for c in cases if not nul_in_include(c[1])]


def nul_in_include(files):
    """a path with a NUL byte reaches the operating system truncated (C strings): `subninja sub.ninja\0` opens sub.ninja,
    which the file MAP of the loader model cannot express; such trees take part in the parser differential only"""
    return any(b"\x00" in c for c in files.values()) and any(b"include" in c or b"subninja" in c for c in files.values())


def load_part(chk, only=None):
    drv_path = vlib.build_drivers(["ninja_driver"])["ninja_driver"]
    model_path = vlib.model_bin(AREA)
    os.makedirs(SANDBOX, exist_ok=True)
    cases = only if only is not None else load_inputs(chk)
    drv = vlib.Interactive(drv_path)
    model = vlib.Interactive(model_path)
    stats = dict(trees=len(cases), identical=0, identical_up_to_error_order_within_a_declaration=0, disagreements=0, commands=0, with_errors=0, crashes=0)
    try:
        for idx, (k, files, main) in enumerate(cases):
            wd = os.path.join(SANDBOX, "l%d" % idx)
            shutil.rmtree(wd, ignore_errors=True)
            os.makedirs(wd)
            for n, c in files.items():
                p = os.path.join(wd, n)
                os.makedirs(os.path.dirname(p), exist_ok=True)
                with open(p, "wb") as f:
                    f.write(c)
            rp = dict(case=k, files={n: c.hex() for n, c in files.items()}, files_text={n: show(c)[:1500] for n, c in files.items()}, main=main)
            try:
                impl = drv.ask("load %s %s" % (hx(wd.encode()), hx(main.encode())))
            except RuntimeError as e:
                drv.close()
                drv = vlib.Interactive(drv_path)
                stats["crashes"] += 1
                chk.violation("loader-crash", "the manifest loader crashed on a directory of byte strings (case %s): %s" % (k, str(e)[-300:]), rp,
                              found_input=True, broken="ManifestLoader::load")
                continue
            mod = model.ask("loadbytes %s %s" % (wd, main))
            irecs = impl.split(" ; ")
            ncmd = sum(1 for r in irecs if r.startswith("C "))
            errs = tuple(sorted(set(r.split(" ")[1] for r in irecs if r.startswith("E "))))
            stats["commands"] += ncmd
            stats["with_errors"] += 1 if errs else 0
            chk.count(("load", min(ncmd, 6), errs) if (ncmd or errs) else None)
            if impl == mod:
                stats["identical"] += 1
                shutil.rmtree(wd, ignore_errors=True)
            elif same_up_to_error_order(model, wd, main, irecs, mod.split(" ; ")):
                stats["identical"] += 1
                stats["identical_up_to_error_order_within_a_declaration"] += 1
                shutil.rmtree(wd, ignore_errors=True)
            else:
                stats["disagreements"] += 1
                mrecs = mod.split(" ; ")
                a = [r for r in irecs if r not in mrecs][:5]
                b = [r for r in mrecs if r not in irecs][:5]
                chk.violation("parse-load-correspondence", "model (Parse.NinjaParse.parse_load) and ManifestLoader disagree on a directory of byte strings (case %s)" % k,
                              dict(rp, sandbox=wd, only_implementation=a, only_model=b), found_input=False,
                              broken="correspondence: Parse.NinjaParse.parse_load (parser + loader models) vs lib/Ninja/Parser.cpp + ManifestLoader.cpp")
    finally:
        drv.close(); model.close()
    chk.cov["load"] = stats
    return stats


# ------------------------------------------------------------------ entry points

RULE = ("byte strings through the extracted parser model (lexer model + Parse.NinjaParse.parse) and through the REAL ninja::Lexer + ninja::Parser with a recording "
        "ParseActions (`ninja_driver ast`): every file of the C17 generator's manifest trees and corpus, the manifests of /repo/tests/Ninja, truncations of the C19 seed "
        "manifests, the C19 stream (corpus tails, dictionary/byte mutants with CR/LF mixes, random bytes); the action lists (declarations, block bindings, parser errors "
        "as codes, in order) must be identical. Oracles on the implementation's list computed from the bytes alone: token texts occur in the buffer; no statement line "
        "without an action or an error. End to end: directory of byte strings -> model parse of every file -> loader model, versus the REAL ManifestLoader: identical "
        "canonical dumps. non-trivial = at least one action; distinct by the sequence of action kinds / error codes (parse) and (commands, error kinds) (load)")


def run(chk):
    try:
        chk.proof_gate()
        parse_part(chk)
        load_part(chk)
    finally:
        if not chk.violations:
            shutil.rmtree(SANDBOX, ignore_errors=True)
    chk.assumptions = ["ManifestLoader reads an included file when it reaches the include; the model parses every file of the map up front (parsing depends on the bytes only)",
                       "the file map of the end-to-end part is keyed by make_absolute(wd, relative name): includes that spell an existing file differently are not generated",
                       "a tree in which a NUL byte and an include / subninja occur is excluded from the end-to-end part (the path reaches the OS truncated at the NUL)",
                       "the errors ONE declaration reports are compared as a multiset (their order is not part of the property); errors of different declarations keep their order",
                       "Token line/column numbers are modelled but not compared (the recording driver prints texts only)"]
    return chk.finish(level="proof", rule=RULE,
                      trusted=["hand-written models coq/Parse/NinjaParse.v, NinjaLex.v, NinjaEval.v tied by differential execution", "harness/cpp/ninja_driver.cpp",
                               "extraction (ExtrOcamlBasic) + ocaml/vmodel_ninjaparse.ml"])


def replay(chk, rp):
    print("replaying %s" % rp.get("finding_key"))
    if rp.get("files"):
        files = {n: bytes.fromhex(c) for n, c in rp["files"].items()}
        load_part(chk, only=[(rp.get("case", "replay"), files, rp.get("main", "build.ninja"))])
        parse_part(chk, only=[("replay:" + n, d) for n, d in sorted(files.items())])
    elif "data" in rp:
        parse_part(chk, only=[(rp.get("case", "replay"), bytes.fromhex(rp["data"]))])
    else:
        print(json.dumps(rp, indent=1)[:4000])
        return run(chk)
    return chk.finish(level="proof", rule="replay of one recorded input")
