# C08 - on-disk outputs after any incremental build equal a clean build's.
# (a) proof gate: coq/Props/Properties_C08.v (rule-level facts over the model coq/BSys/RulesBS.v)
# (b) histories through the real CLI (`llbuild buildsystem build`, one database across processes): generated
#     descriptions x {edit source, delete/overwrite output, edit description, build target / other target / single node}
#     x serial and parallel.  After EVERY successful build, every output reachable from the built target is compared with
#       - an actual clean build of the same description + same sources in a fresh directory without database (the
#         property's own oracle: independent of the Coq model), and
#       - the extracted model's `clean` (correspondence of the model with the code).
#     The run log is compared with a Python-side expectation: commands that must not run / must run / run at most once.
# PARTIAL by design: the world invariant over the real file system is sampled here; the proofs cover the rule level.
import os, json, shutil, random, stat, copy, sqlite3, subprocess, signal, time
import vlib
from vlib import hx

BASE = os.path.join(vlib.WORK, "tmp", "c08")


def is_virtual(n):
    return len(n) >= 2 and n[0] == "<" and n[-1] == ">"


def yq(s):
    return '"' + s.replace("\\", "\\\\").replace('"', '\\"') + '"'


# --------------------------------------------------------------------------------------------- project state

class Project:
    """A description (commands in file order, targets) plus what the harness knows about the sandbox."""

    def __init__(self):
        self.cmds = {}            # name -> dict(tool, inputs, outputs, tag, contents)   (insertion order = file order)
        self.targets = {}         # name -> [nodes]
        self.counter = 0          # fresh names / tags / logical mtimes
        self.version = {}         # path -> id of the last harness write to that path (sources and tampered outputs)

    def fresh(self):
        self.counter += 1
        return self.counter

    def producers(self, n):
        return [c for c, d in self.cmds.items() if n in d["outputs"]]

    def nodes(self):
        out = []
        for d in self.cmds.values():
            for n in d["inputs"] + d["outputs"]:
                if n not in out:
                    out.append(n)
        for ns in self.targets.values():
            for n in ns:
                if n not in out:
                    out.append(n)
        return out

    def extras(self, c):
        """Sources a command reads without declaring them: it names them in its dependency files (discovered inputs)."""
        out = []
        for f, xs in self.cmds[c].get("deps", []):
            for x in xs:
                if x not in out:
                    out.append(x)
        return out

    def extra_sources(self):
        out = []
        for c in self.cmds:
            for x in self.extras(c):
                if x not in out:
                    out.append(x)
        return out

    def source_nodes(self):
        return [n for n in self.nodes() if not is_virtual(n) and not self.producers(n)] + \
               [x for x in self.extra_sources() if x not in self.nodes()]

    def produced_by_tool(self, n):
        p = self.producers(n)
        return self.cmds[p[0]]["tool"] if p else None

    def acyclic(self):
        state = {}
        def visit(c):
            if state.get(c) == 1:
                return False
            if state.get(c) == 2:
                return True
            state[c] = 1
            for n in self.cmds[c]["inputs"]:
                for p in self.producers(n):
                    if not visit(p):
                        return False
            state[c] = 2
            return True
        return all(visit(c) for c in self.cmds)

    def unique_producers(self):
        return all(len(self.producers(n)) <= 1 for n in self.nodes())

    def reachable_cmds(self, nodes):
        seen, order = set(), []
        def visit_node(n):
            for p in self.producers(n):
                if p not in seen:
                    seen.add(p)
                    for i in self.cmds[p]["inputs"]:
                        visit_node(i)
                    order.append(p)
        for n in nodes:
            visit_node(n)
        return order

    # ---- text of the build file
    def script(self, name):
        d = self.cmds[name]
        if "script" in d:
            return d["script"]            # the temporary commands of an aborted-build episode
        parts = []
        # a directory written by a directory-producing command is read entry by entry (sorted glob)
        reads = "".join(("cat %s/* 2>/dev/null; " % i.rstrip("/")) if self.produced_by_tool(i) == "dirshell" else
                        ("cat %s 2>/dev/null; " % i) for i in d["inputs"] if not is_virtual(i))
        reads += "".join("cat %s 2>/dev/null; " % x for x in self.extras(name))
        if d["tool"] == "dirshell":
            # the declared output is a directory which the command recreates from scratch and populates
            D = d["outputs"][0].rstrip("/")
            parts.append("rm -rf %s; mkdir -p %s" % (D, D))
            for j in range(d.get("entries", 2)):
                parts.append("(printf '%%s' '%s%d('; %sprintf ')') > %s/e%d" % (d["tag"], j, reads, D, j))
        else:
            for j, o in enumerate(d["outputs"]):
                if not is_virtual(o):
                    parts.append("(printf '%%s' '%s%d('; %sprintf ')') > %s" % (d["tag"], j, reads, o))
        first = [o for o in d["outputs"] if not is_virtual(o)][:1] or ["x"]
        for f, xs in d.get("deps", []):
            if d.get("deps_style") == "dependency-info":
                parts.append("env printf '\\000llbuild-verif\\000%s' > %s" % ("".join("\\020%s\\000" % x for x in xs), f))
            else:
                parts.append("printf '%s: %s\\n' > %s" % (first[0], " ".join(xs), f))
        parts.append("echo %s >> runlog" % name)
        return "; ".join(parts)

    def in_model(self, cmds):
        """Directory outputs populated by a shell command are outside the Coq model (flat world, no tree signatures)."""
        return all(self.cmds[c]["tool"] != "dirshell" for c in cmds)

    def yaml(self):
        L = ["client:", "  name: basic", "", "targets:"]
        for t, ns in self.targets.items():
            L.append("  %s: [%s]" % (yq(t), ", ".join(yq(n) for n in ns)))
        L += ["", "commands:"]
        for name, d in self.cmds.items():
            L.append("  %s:" % yq(name))
            L.append("    tool: %s" % ("shell" if d["tool"] == "dirshell" else d["tool"]))
            if d["inputs"]:
                L.append("    inputs: [%s]" % ", ".join(yq(n) for n in d["inputs"]))
            L.append("    outputs: [%s]" % ", ".join(yq(n) for n in d["outputs"]))
            if d["tool"] != "phony":
                L.append("    description: %s" % yq("RUN:" + name))
            if d["tool"] in ("shell", "dirshell"):
                L.append("    args: %s" % yq(self.script(name)))
            if d["tool"] == "symlink":
                L.append("    contents: %s" % yq(d["contents"]))
            if d.get("deps"):
                L.append("    deps: [%s]" % ", ".join(yq(f) for f, xs in d["deps"]))
                L.append("    deps-style: %s" % d["deps_style"])
        return "\n".join(L) + "\n"

    # ---- encoding for the model
    def model_desc(self):
        tl = {"shell": "s", "phony": "p", "mkdir": "m", "symlink": "l", "dirshell": "s"}
        def fl(l):
            return "." if not l else ",".join(hx(x.encode()) for x in l)
        # the model has no discovery: a discovered input is presented to it as one more declared input (same contents read,
        # in the same order); what discovery means for incremental builds is checked against the actual clean build
        cmds = ";".join(":".join([tl[d["tool"]], hx(n.encode()), fl(d["inputs"] + self.extras(n)), fl(d["outputs"]),
                                  hx(d["tag"].encode()), hx(d["contents"].encode())]) for n, d in self.cmds.items())
        tg = ";".join("%s/%s" % (hx(t.encode()), fl(ns)) for t, ns in self.targets.items())
        return cmds, tg

    def model_request(self, sources, target):
        cmds, tg = self.model_desc()
        src = ";".join("%s/%s" % (hx(p.encode()), hx(c)) for p, c in sources) or "."
        return "clean %s %s %s %s" % (cmds, tg, src, hx(target.encode()))


# --------------------------------------------------------------------------------------------- generation

def gen_deps(rng, k):
    """1-3 dependency files, each naming 1-2 sources that the command reads without declaring them."""
    deps = []
    for i in range(rng.choice([1, 2, 2, 3])):
        deps.append(["dep%d_%d.d" % (k, i), ["x%d_%d_%d" % (k, i, j) for j in range(rng.randint(1, 2))]])
    return deps, rng.choice(["makefile", "makefile", "dependency-info"])


def gen_project(rng):
    P = Project()
    files = []                    # regular-file nodes usable as shell inputs (sources + shell outputs)
    dirs, virtuals, gdirs = [], [], []
    free_virtuals = 0
    for i in range(rng.randint(2, 4)):
        files.append("s%d" % i)
    ncmd = rng.randint(3, 8)
    sinks = []
    for i in range(ncmd):
        r = rng.random()
        k = P.fresh()
        if r < 0.58 or i == 0:
            pool = files + dirs + virtuals + gdirs
            ins = rng.sample(pool, min(len(pool), rng.randint(1, 3)))
            if rng.random() < 0.25 and free_virtuals < 2:
                ins.append("<u%d>" % k)       # a virtual input that no command produces (yet)
                free_virtuals += 1
            outs = []
            for j in range(rng.choice([1, 1, 2, 3])):
                where = rng.random()
                base = "o%d_%d" % (k, j)
                if where < 0.2:
                    base = "sub%d/%s" % (k, base)
                elif where < 0.35 and dirs:
                    d = rng.choice(dirs)
                    base = "%s/%s" % (d, base)
                    if d not in ins:
                        ins.append(d)
                outs.append(base)
            if rng.random() < 0.25:
                v = "<v%d>" % k
                outs.insert(rng.randint(0, len(outs)), v)
                virtuals.append(v)
            P.cmds["C%d" % k] = dict(tool="shell", inputs=ins, outputs=outs, tag="T%d" % k, contents="")
            if rng.random() < 0.22:
                P.cmds["C%d" % k]["deps"], P.cmds["C%d" % k]["deps_style"] = gen_deps(rng, k)
            for o in outs:
                if not is_virtual(o):
                    files.append(o)
            sinks += outs
        elif r < 0.70:
            # a shell command whose declared output is a directory it populates: as a directory node "g/" (consumers
            # take its tree signature) or as a plain node that happens to be a directory
            pool = files + virtuals
            ins = rng.sample(pool, min(len(pool), rng.randint(1, 2)))
            D = "g%d/" % k if rng.random() < 0.6 else "g%d" % k
            P.cmds["C%d" % k] = dict(tool="dirshell", inputs=ins, outputs=[D], tag="T%d" % k, contents="", entries=rng.randint(2, 3))
            gdirs.append(D)
            sinks.append(D)
        elif r < 0.80:
            d = "d%d" % k if rng.random() < 0.7 else "dd%d/in" % k
            P.cmds["C%d" % k] = dict(tool="mkdir", inputs=[], outputs=[d], tag="", contents="")
            dirs.append(d)
            sinks.append(d)
        elif r < 0.90:
            l = "l%d" % k
            tgt = rng.choice(files)
            P.cmds["C%d" % k] = dict(tool="symlink", inputs=[tgt] if rng.random() < 0.5 else [], outputs=[l], tag="", contents=tgt)
            sinks.append(l)
        else:
            pool = files + virtuals
            ins = rng.sample(pool, min(len(pool), rng.randint(1, 3)))
            v = "<g%d>" % k
            P.cmds["C%d" % k] = dict(tool="phony", inputs=ins, outputs=[v], tag="", contents="")
            virtuals.append(v)
            sinks.append(v)
    P.cmds["C.all"] = dict(tool="phony", inputs=list(dict.fromkeys(sinks)), outputs=["<all>"], tag="", contents="")
    P.targets[""] = ["<all>"]
    produced = [n for n in P.nodes() if P.producers(n) and n != "<all>"]
    P.targets["t2"] = rng.sample(produced, min(len(produced), rng.randint(1, 2)))
    P.targets["one"] = [rng.choice(produced)]
    return P


# --------------------------------------------------------------------------------------------- one history

class HistoryFailure(Exception):
    def __init__(self, key, what, found):
        self.key, self.what, self.found = key, what, found


class History:
    def __init__(self, chk, llb, model, seed, idx, root):
        self.chk, self.llb, self.model = chk, llb, model
        self.seed = seed
        self.rng = random.Random(seed)
        self.S = os.path.join(root, "h%d" % idx)
        self.C = os.path.join(root, "h%d.clean" % idx)
        shutil.rmtree(self.S, ignore_errors=True)
        os.makedirs(self.S)
        self.P = gen_project(self.rng)
        self.log = []             # the operations, for the replay file
        self.pending = []         # mutation labels since the last build
        self.tamper = {}          # path -> counter of harness tamperings
        self.uptodate = {}        # command -> (fp, own) at the last time it was known up to date
        self.uncertain = False    # a failed build happened: expectations are re-established by the next successful build
        self.dirty_sources = set()    # sources written by the harness since the last successful build that reached them
        self.dirty_outputs = set()    # outputs tampered with since the last successful build that reached their producer
        self.nbuilds = 0
        self.inodes_seen = {}     # source -> inode numbers the path has had (replacement op)
        self.ever_ran = set()     # commands that executed at least once in the sandbox
        self.soft = {}            # directory output -> counter of modifications of entries inside it
        self.entry_modified = set()   # directory outputs with an entry overwritten since their producer last ran
        self.sig_of_tokens, self.tokens_of_sig = {}, {}
        for n in self.P.source_nodes():
            self.write_source(n, "src-%s-%d;" % (n, self.P.fresh()))

    # ---- file system helpers
    def path(self, n):
        return os.path.join(self.S, n.rstrip("/"))

    def logical_ns(self):
        # explicit, strictly increasing, far from the wall clock: an observable edit
        return (1_000_000_000 + 7 * self.P.fresh()) * 10**9 + 123

    def write_source(self, n, content, keep_mtime=False):
        p = self.path(n)
        os.makedirs(os.path.dirname(p), exist_ok=True)
        old = os.stat(p).st_mtime_ns if (keep_mtime and os.path.isfile(p)) else None
        if os.path.isfile(p) and not os.path.islink(p):
            with open(p, "r+b") as f:
                f.seek(0); f.write(content.encode()); f.truncate()
        else:
            self.remove(n)
            with open(p, "wb") as f:
                f.write(content.encode())
        ns = old if old is not None else self.logical_ns()
        os.utime(p, ns=(ns, ns))
        self.P.version[n] = self.P.fresh()
        self.dirty_sources.add(n)

    def remove(self, n):
        p = self.path(n)
        if os.path.islink(p) or os.path.isfile(p):
            os.unlink(p)
        elif os.path.isdir(p):
            shutil.rmtree(p)

    def observe(self, root, n, listing=False):
        p = os.path.join(root, n.rstrip("/"))
        try:
            st = os.lstat(p)
        except OSError:
            return ("x", b"")
        if stat.S_ISLNK(st.st_mode):
            return ("l", os.readlink(p).encode())
        if stat.S_ISDIR(st.st_mode):
            if not listing:
                return ("d", b"")
            # a directory that one command owns: every entry with its content belongs to the output
            items = []
            for dp, dn, fn in os.walk(p):
                for f in fn:
                    q = os.path.join(dp, f)
                    items.append(os.path.relpath(q, p).encode() + b"=" + (open(q, "rb").read() if os.path.isfile(q) else b"?"))
            return ("d", b";".join(sorted(items)))
        return ("f", open(p, "rb").read())

    def bump_tamper(self, n):
        # a tampering of n also hits every node stored beneath it (deleting a directory)
        for m in self.P.nodes():
            if m.rstrip("/") == n.rstrip("/") or m.startswith(n.rstrip("/") + "/"):
                self.tamper[m] = self.tamper.get(m, 0) + 1
                self.dirty_outputs.add(m)

    # ---- fingerprints for the run-log expectation
    def fp(self, c, memo):
        if c in memo:
            return memo[c]
        d = self.P.cmds[c]
        ins = []
        for n in d["inputs"]:
            ps = self.P.producers(n)
            if ps:
                ins.append(("prod", n, ps[0], self.fp(ps[0], memo)))
            elif is_virtual(n):
                ins.append(("virt", n))
            else:
                ins.append(("src", n, self.P.version.get(n)))
        for x in self.P.extras(c):
            ins.append(("src", x, self.P.version.get(x)))
        ins.append(("deps", repr(d.get("deps")), d.get("deps_style")))
        outs = tuple((o, self.tamper.get(o, 0), self.soft.get(o, 0)) for o in d["outputs"] if not is_virtual(o))
        memo[c] = hash((c, d["tool"], tuple(d["inputs"]), tuple(d["outputs"]), d["tag"], d["contents"], tuple(ins), outs))
        return memo[c]

    def own(self, c):
        d = self.P.cmds[c]
        # the symlink tool only orders itself after its inputs (mustFollow): an edited input does not re-run it
        srcs = {} if d["tool"] == "symlink" else \
            {n: self.P.version.get(n) for n in d["inputs"] + self.P.extras(c) if not is_virtual(n) and not self.P.producers(n)}
        outs = tuple((o, self.tamper.get(o, 0)) for o in d["outputs"] if not is_virtual(o))
        return dict(defn=(d["tool"], tuple(d["inputs"]), tuple(d["outputs"]), d["tag"], d["contents"], repr(d.get("deps")), d.get("deps_style")),
                    srcs=srcs, outs=outs)

    # ---- mutations
    def ensure_sources_exist(self):
        for n in self.P.source_nodes():
            p = self.path(n)
            if not os.path.lexists(p):
                self.write_source(n, "new-src-%s-%d;" % (n, self.P.fresh()))
            elif n not in self.P.version:
                self.P.version[n] = self.P.fresh()      # a former output that is now a source, content as left on disk

    def mutate(self):
        rng, P = self.rng, self.P
        for attempt in range(20):
            kind = rng.choice(["edit_source", "edit_source_same_mtime", "delete_output", "delete_last_output", "garbage_output",
                               "garbage_same_mtime", "nothing", "change_args", "add_command", "remove_command", "rewire_input",
                               "source_to_produced", "source_to_produced", "produced_to_source", "add_output", "change_link",
                               "dir_delete_entry", "dir_add_entry", "dir_modify_entry", "virtual_gains_producer", "virtual_gains_producer",
                               "virtual_loses_producer", "edit_discovered_source", "edit_discovered_source", "replace_source_same_stat"])
            r = getattr(self, "m_" + kind)()
            if r is not None:
                self.pending.append(kind)
                self.log.append(dict(op=kind, detail=r))
                return kind
        return None

    def m_nothing(self):
        return "-"

    def file_sources(self):
        return [n for n in self.P.source_nodes() if os.path.isfile(self.path(n)) and not os.path.islink(self.path(n))]

    def m_edit_source(self):
        c = self.file_sources()
        if not c:
            return None
        n = self.rng.choice(c)
        self.write_source(n, "edit-%s-%d;" % (n, self.P.fresh()))
        return n

    def m_edit_discovered_source(self):
        # a source that a command reads without declaring it (named only in one of its dependency files), fresh mtime
        c = []
        for cn in self.P.cmds:
            for i, (f, xs) in enumerate(self.P.cmds[cn].get("deps", [])):
                for x in xs:
                    if os.path.isfile(self.path(x)):
                        c += [x] * (1 if i == 0 else 3)        # mostly the ones named in the 2nd / 3rd file only
        if not c:
            return None
        x = self.rng.choice(c)
        self.write_source(x, "disc-%s-%d;" % (x, self.P.fresh()))
        return x

    def m_replace_source_same_stat(self):
        # the source is REPLACED by another file (new inode) with the same size and the same mtime, other content
        c = [n for n in self.file_sources() if os.path.getsize(self.path(n)) > 0]
        if not c:
            return None
        n = self.rng.choice(c)
        p = self.path(n)
        st = os.stat(p)
        old = open(p, "rb").read()
        first = b"ABCDEFGHIJKLMNOPQRSTUVWXYZ"[self.P.fresh() % 26:][:1]
        new = (first if first != old[:1] else b"#") + old[1:]
        # the file system may hand a freed inode number out again: the replacement must carry an inode this path never had,
        # otherwise the edit would not be observable
        seen = self.inodes_seen.setdefault(n, set())
        seen.add(st.st_ino)
        placeholders = []
        while True:
            tmp = p + ".replacement%d" % len(placeholders)
            with open(tmp, "wb") as f:
                f.write(new)
            if os.stat(tmp).st_ino not in seen:
                break
            placeholders.append(tmp)
        os.utime(tmp, ns=(st.st_atime_ns, st.st_mtime_ns))
        os.rename(tmp, p)
        for q in placeholders:
            os.unlink(q)
        st2 = os.stat(p)
        seen.add(st2.st_ino)
        assert st2.st_ino != st.st_ino and st2.st_size == st.st_size and st2.st_mtime_ns == st.st_mtime_ns
        self.P.version[n] = self.P.fresh()
        self.dirty_sources.add(n)
        return n

    def m_edit_source_same_mtime(self):
        # the modification time is put back, but the size differs: still an observable edit
        c = self.file_sources()
        if not c:
            return None
        n = self.rng.choice(c)
        old = open(self.path(n), "rb").read().decode()
        self.write_source(n, old + "+%d" % self.P.fresh(), keep_mtime=True)
        return n

    def existing_outputs(self, tools, last_only=False):
        out = []
        for c, d in self.P.cmds.items():
            if d["tool"] not in tools:
                continue
            real = [o for o in d["outputs"] if not is_virtual(o)]
            if last_only:
                if len(d["outputs"]) < 2 or is_virtual(d["outputs"][-1]):
                    continue
                real = [d["outputs"][-1]]
            for o in real:
                if os.path.lexists(self.path(o)):
                    out.append(o)
        return out

    def m_delete_output(self):
        c = self.existing_outputs(("shell", "mkdir", "symlink", "dirshell"))
        special = self.existing_outputs(("mkdir", "symlink", "dirshell"))
        if not c:
            return None
        o = self.rng.choice(special) if special and self.rng.random() < 0.3 else self.rng.choice(c)
        self.remove(o)
        self.bump_tamper(o)
        return o

    def m_delete_last_output(self):
        c = self.existing_outputs(("shell",), last_only=True)
        if not c:
            return None
        o = self.rng.choice(c)
        self.remove(o)
        self.bump_tamper(o)
        return o

    def m_garbage_output(self):
        c = self.existing_outputs(("shell", "symlink"))
        links = self.existing_outputs(("symlink",))
        if not c:
            return None
        o = self.rng.choice(links) if links and self.rng.random() < 0.4 else self.rng.choice(c)
        p = self.path(o)
        if os.path.islink(p):
            os.unlink(p)
            os.symlink("garbage-%d" % self.P.fresh(), p)
        else:
            with open(p, "r+b") as f:                       # same inode
                f.seek(0); f.write(("GARBAGE%d" % self.P.fresh()).encode()); f.truncate()
            ns = self.logical_ns()
            os.utime(p, ns=(ns, ns))
        self.bump_tamper(o)
        return o

    def m_garbage_same_mtime(self):
        # overwritten in place, modification time put back, size different
        c = [o for o in self.existing_outputs(("shell",)) if os.path.isfile(self.path(o))]
        if not c:
            return None
        o = self.rng.choice(c)
        p = self.path(o)
        st = os.stat(p)
        with open(p, "r+b") as f:
            old = f.read()
            f.seek(0); f.write(b"X" * (len(old) + 1 + self.rng.randint(0, 3))); f.truncate()
        os.utime(p, ns=(st.st_atime_ns, st.st_mtime_ns))
        self.bump_tamper(o)
        return o

    def m_change_args(self):
        c = [n for n, d in self.P.cmds.items() if d["tool"] in ("shell", "dirshell")]
        if not c:
            return None
        n = self.rng.choice(c)
        self.P.cmds[n]["tag"] = "T%dv%d" % (self.P.fresh(), self.rng.randint(0, 9))
        return n

    # ---- tampering inside a directory that a command produced
    def produced_dirs(self):
        return [d["outputs"][0] for d in self.P.cmds.values() if d["tool"] == "dirshell" and os.path.isdir(self.path(d["outputs"][0]))]

    def m_dir_delete_entry(self):
        c = [D for D in self.produced_dirs() if os.listdir(self.path(D))]
        if not c:
            return None
        D = self.rng.choice(c)
        e = self.rng.choice(sorted(os.listdir(self.path(D))))
        os.unlink(os.path.join(self.path(D), e))
        ns = self.logical_ns()
        os.utime(self.path(D), ns=(ns, ns))
        self.bump_tamper(D)
        return "%s/%s" % (D.rstrip("/"), e)

    def m_dir_add_entry(self):
        c = self.produced_dirs()
        if not c:
            return None
        D = self.rng.choice(c)
        e = "zz%d" % self.P.fresh()
        q = os.path.join(self.path(D), e)
        open(q, "w").write("EXTRA%d" % self.P.fresh())
        ns = self.logical_ns()
        os.utime(q, ns=(ns, ns))
        os.utime(self.path(D), ns=(ns, ns))
        self.bump_tamper(D)
        return "%s/%s" % (D.rstrip("/"), e)

    def m_dir_modify_entry(self):
        # an existing entry is overwritten (explicit fresh mtime on the entry); the directory itself is not touched
        c = [D for D in self.produced_dirs() if os.listdir(self.path(D))]
        if not c or self.rng.random() < 0.5:
            return None
        D = self.rng.choice(c)
        e = self.rng.choice(sorted(os.listdir(self.path(D))))
        q = os.path.join(self.path(D), e)
        with open(q, "r+b") as f:
            f.seek(0); f.write(("GARBAGE%d" % self.P.fresh()).encode()); f.truncate()
        ns = self.logical_ns()
        os.utime(q, ns=(ns, ns))
        self.soft[D] = self.soft.get(D, 0) + 1
        self.entry_modified.add(D)
        return "%s/%s" % (D.rstrip("/"), e)

    def m_change_link(self):
        c = [n for n, d in self.P.cmds.items() if d["tool"] == "symlink"]
        if not c:
            return None
        n = self.rng.choice(c)
        self.P.cmds[n]["contents"] = "elsewhere-%d" % self.P.fresh()
        return n

    def shell_input_pool(self):
        out = []
        for n in self.P.nodes():
            if n == "<all>":
                continue
            t = self.P.produced_by_tool(n)
            if t in (None, "shell", "mkdir", "phony", "dirshell"):
                if t is None and not is_virtual(n) and not os.path.isfile(self.path(n)):
                    continue
                out.append(n)
        return out

    def try_edit(self, f):
        """Apply a description edit on a copy; keep it only if the description stays acyclic with unique producers."""
        Q = copy.deepcopy(self.P)
        r = f(Q)
        if r is None or not Q.acyclic() or not Q.unique_producers():
            return None
        self.P = Q
        self.ensure_sources_exist()
        return r

    def m_add_command(self):
        def f(Q):
            pool = self.shell_input_pool()
            if not pool:
                return None
            k = Q.fresh()
            ins = self.rng.sample(pool, min(len(pool), self.rng.randint(1, 3)))
            outs = ["o%d_%d" % (k, j) for j in range(self.rng.choice([1, 2]))]
            Q.cmds["C%d" % k] = dict(tool="shell", inputs=ins, outputs=outs, tag="T%d" % k, contents="")
            if self.rng.random() < 0.3:
                Q.cmds["C%d" % k]["deps"], Q.cmds["C%d" % k]["deps_style"] = gen_deps(self.rng, k)
            allc = Q.cmds.pop("C.all")
            allc["inputs"] = allc["inputs"] + outs
            Q.cmds["C.all"] = allc
            return "C%d" % k
        return self.try_edit(f)

    def m_add_output(self):
        def f(Q):
            c = [n for n, d in Q.cmds.items() if d["tool"] == "shell"]
            if not c:
                return None
            n = self.rng.choice(c)
            o = "x%d" % Q.fresh()
            Q.cmds[n]["outputs"] = Q.cmds[n]["outputs"] + [o]
            Q.cmds["C.all"]["inputs"] = Q.cmds["C.all"]["inputs"] + [o]
            return "%s+%s" % (n, o)
        return self.try_edit(f)

    def drop_command(self, Q, n, keep_virtual):
        d = Q.cmds.pop(n)
        for o in d["outputs"]:
            # a file left on disk by the removed command becomes a source; a virtual output may stay as a virtual
            # input without producer; other references are dropped
            if is_virtual(o):
                keep = keep_virtual
            else:
                keep = d["tool"] == "shell" and os.path.isfile(self.path(o))
            if not keep:
                for e in Q.cmds.values():
                    e["inputs"] = [i for i in e["inputs"] if i != o]
                for t in Q.targets:
                    Q.targets[t] = [i for i in Q.targets[t] if i != o]
            elif n in self.ever_ran:
                Q.version.pop(o, None)          # whatever the command left there is a new source version
        for t in Q.targets:
            if not Q.targets[t]:
                Q.targets[t] = ["<all>"]

    def m_remove_command(self):
        def f(Q):
            c = [n for n in Q.cmds if n != "C.all"]
            if len(c) < 2:
                return None
            n = self.rng.choice(c)
            self.drop_command(Q, n, self.rng.random() < 0.5)
            return n
        return self.try_edit(f)

    def m_virtual_gains_producer(self):
        # a virtual node that is an input of an existing command and has no producer gets one: a new command with the
        # virtual node and a file among its outputs; the consumer is unchanged and nothing else refers to the new command
        def f(Q):
            c = [v for v in Q.nodes() if is_virtual(v) and v != "<all>" and not Q.producers(v) and
                 any(v in e["inputs"] for e in Q.cmds.values())]
            pool = [n for n in self.shell_input_pool() if not is_virtual(n)]
            if not c or not pool:
                return None
            v = self.rng.choice(c)
            k = Q.fresh()
            outs = ["p%d_0" % k]
            outs.insert(self.rng.randint(0, 1), v)
            cmd = dict(tool="shell", inputs=self.rng.sample(pool, min(len(pool), self.rng.randint(1, 2))), outputs=outs,
                       tag="P%d" % k, contents="")
            if self.rng.random() < 0.5:
                new = {"P%d" % k: cmd}
                new.update(Q.cmds)
                Q.cmds = new
            else:
                Q.cmds["P%d" % k] = cmd
            return "P%d->%s" % (k, v)
        return self.try_edit(f)

    def m_virtual_loses_producer(self):
        def f(Q):
            c = [n for n, d in Q.cmds.items() if d["tool"] == "shell" and
                 any(is_virtual(o) and any(o in e["inputs"] for m, e in Q.cmds.items() if m != "C.all") for o in d["outputs"])]
            if not c:
                return None
            n = self.rng.choice(c)
            self.drop_command(Q, n, True)
            return n
        return self.try_edit(f)

    def m_produced_to_source(self):
        # remove a shell command one of whose file outputs is consumed by another command
        def f(Q):
            c = []
            for n, d in Q.cmds.items():
                if d["tool"] != "shell":
                    continue
                for o in d["outputs"]:
                    if not is_virtual(o) and os.path.isfile(self.path(o)) and \
                            any(o in e["inputs"] for m, e in Q.cmds.items() if m != "C.all"):
                        c.append(n)
                        break
            if not c:
                return None
            n = self.rng.choice(c)
            self.drop_command(Q, n, False)
            return n
        return self.try_edit(f)

    def m_source_to_produced(self):
        def f(Q):
            consumed = [n for n in self.file_sources() if any(n in e["inputs"] for e in Q.cmds.values())]
            if not consumed:
                return None
            s = self.rng.choice(consumed)
            pool = [n for n in self.shell_input_pool() if n != s]
            if not pool:
                return None
            k = Q.fresh()
            ins = self.rng.sample(pool, min(len(pool), self.rng.randint(1, 2)))
            # the generator is placed first in the file: producers are recorded in file order
            new = {"G%d" % k: dict(tool="shell", inputs=ins, outputs=[s], tag="G%d" % k, contents="")}
            new.update(Q.cmds)
            Q.cmds = new
            return "G%d->%s" % (k, s)
        return self.try_edit(f)

    def m_rewire_input(self):
        def f(Q):
            c = [n for n, d in Q.cmds.items() if d["tool"] in ("shell", "phony", "dirshell") and d["inputs"]]
            pool = self.shell_input_pool()
            if not c or not pool:
                return None
            n = self.rng.choice(c)
            d = Q.cmds[n]
            if d["tool"] == "phony":
                # any produced node may feed a phony command (links included): same number of inputs, another name
                pool = [x for x in Q.nodes() if x != "<all>" and (Q.producers(x) or x in pool)]
            new = self.rng.choice(pool)
            if new in d["inputs"] or new in d["outputs"]:
                return None
            i = self.rng.randrange(len(d["inputs"]))
            old = d["inputs"][i]
            d["inputs"] = d["inputs"][:i] + [new] + d["inputs"][i + 1:]
            return "%s: %s -> %s" % (n, old, new)
        return self.try_edit(f)

    # ---- the stored values and the model's validity verdicts
    def read_db(self):
        db = os.path.join(self.S, "build.db")
        if not os.path.exists(db):
            return {}
        con = sqlite3.connect("file:%s?mode=ro" % db, uri=True)
        try:
            rows = con.execute("select k.key, r.value, r.signature from rule_results r join key_names k on k.id = r.key_id").fetchall()
        finally:
            con.close()
        self.db_sigs = {(k if isinstance(k, str) else bytes(k).decode("latin1")): s for k, v, s in rows}
        return {(k if isinstance(k, str) else bytes(k).decode("latin1")): bytes(v) for k, v, s in rows}

    def signature_tie(self, keys):
        """The token sequence the model feeds to a rule's signature and the signature the engine stored must be in
        one-to-one correspondence within a history (ideal hash): returns (key, why) on a mismatch."""
        cmds, tg = self.P.model_desc()
        ks = [k for k in keys if k in self.db_sigs]
        if not ks:
            return None
        ans = self.model.ask("sigtok %s %s %s" % (cmds, tg, ",".join("%s%s" % (k[0], hx(k[1:].encode())) for k in ks))).split(",")
        if len(ans) != len(ks):
            raise RuntimeError("model answer for %d keys: %r" % (len(ks), ans[:3]))
        for k, tok in zip(ks, ans):
            if k[0] == "C" and self.P.cmds.get(k[1:], {}).get("tool") == "shell":
                tok += "|" + self.P.script(k[1:])        # the model's args are the tag; the real ones the script made from it
            sig = self.db_sigs[k]
            if self.sig_of_tokens.setdefault(tok, sig) != sig:
                return (k, "the same signature tokens %s were stored with signatures %s and %s" % (tok[:80], self.sig_of_tokens[tok], sig))
            if self.tokens_of_sig.setdefault(sig, tok) != tok:
                return (k, "signature %s was stored for different token sequences: %s and %s" % (sig, self.tokens_of_sig[sig][:120], tok[:120]))
            self.chk.cov["signatures_compared"] = self.chk.cov.get("signatures_compared", 0) + 1
        return None

    def stats(self):
        items = []
        for n in self.P.nodes():
            if is_virtual(n):
                continue
            try:
                st = os.lstat(self.path(n)) if self.P.produced_by_tool(n) == "symlink" else os.stat(self.path(n))
            except OSError:
                continue
            items.append("%s/%d:%d:%d:%d:%d:%d" % (hx(n.encode()), st.st_dev, st.st_ino, st.st_mode, st.st_size,
                                                   st.st_mtime_ns // 10**9, st.st_mtime_ns % 10**9))
        return ";".join(items) or "."

    def verdicts(self, stored, keys):
        """key -> V | I | O for every key that has a stored value: the model's isResultValid on the real stored bytes
        and the real stat of the sandbox."""
        cmds, tg = self.P.model_desc()
        ks = [k for k in keys if k in stored and stored[k]]
        if not ks:
            return {}
        ans = self.model.ask("valid %s %s . %s %s" % (cmds, tg, self.stats(),
                                                      ",".join("%s%s=%s" % (k[0], hx(k[1:].encode()), stored[k].hex()) for k in ks)))
        if len(ans) != len(ks):
            raise RuntimeError("model answer %r for %d keys" % (ans[:80], len(ks)))
        return dict(zip(ks, ans))

    # ---- builds
    def run_llbuild(self, root, target, serial, db):
        rl = os.path.join(root, "runlog")
        if os.path.exists(rl):
            os.unlink(rl)
        open(os.path.join(root, "build.llbuild"), "w").write(self.P.yaml())
        cmd = [self.llb, "buildsystem", "build"] + (["--serial"] if serial else []) + \
              ["--chdir", root, "-f", os.path.join(root, "build.llbuild")] + (["--db", db] if db else ["--no-db"])
        if target:
            cmd.append(target)
        rc, out, err = vlib.sh(cmd, timeout=120)
        ran = open(rl).read().split() if os.path.exists(rl) else []
        ran += [l[4:].strip() for l in out.splitlines() if l.startswith("RUN:") and
                self.P.cmds.get(l[4:].strip(), {}).get("tool") in ("mkdir", "symlink")]
        return rc, out, err, ran

    # ---- a build that is aborted in the middle
    def episode(self):
        """edit a source; break the description (dependency cycle | failing command | slow command + SIGINT) so that the
        build of the default target aborts after a command reading that source has re-run; repair the description; edit
        the SAME source again.  The caller then builds the default target in a new process: the usual oracle applies."""
        rng, P = self.rng, self.P
        reach = P.reachable_cmds(P.targets[""])
        cands = []
        for c in reach:
            d = P.cmds[c]
            if d["tool"] != "shell":
                continue
            outs = [o for o in d["outputs"] if not is_virtual(o)]
            srcs = [n for n in d["inputs"] + P.extras(c) if n in self.file_sources()]
            if outs and srcs:
                cands.append((c, srcs, outs))
        if not cands:
            return False
        c, srcs, outs = rng.choice(cands)
        s, o = rng.choice(srcs), rng.choice(outs)
        kind = rng.choice(["cycle", "cycle", "failing_command", "sigint"])
        self.write_source(s, "before-abort-%s-%d;" % (s, P.fresh()))
        saved_cmds, saved_target = copy.deepcopy(P.cmds), list(P.targets[""])
        if kind == "cycle":
            P.cmds["CYA"] = dict(tool="shell", inputs=["cyb", o], outputs=["cya"], tag="CYA", contents="")
            P.cmds["CYB"] = dict(tool="shell", inputs=["cya"], outputs=["cyb"], tag="CYB", contents="")
            P.targets[""] = saved_target + ["cya"]
        elif kind == "failing_command":
            P.cmds["FAIL"] = dict(tool="shell", inputs=[o], outputs=["failout"], tag="", contents="", script="echo FAIL >> runlog; exit 1")
            P.targets[""] = saved_target + ["failout"]
        else:
            P.cmds["SLOW"] = dict(tool="shell", inputs=[o], outputs=["slowout"], tag="", contents="", script="echo SLOW >> runlog; sleep 20")
            P.targets[""] = saved_target + ["slowout"]
        serial = rng.random() < 0.5
        rl = os.path.join(self.S, "runlog")
        if os.path.exists(rl):
            os.unlink(rl)
        open(os.path.join(self.S, "build.llbuild"), "w").write(P.yaml())
        cmd = [self.llb, "buildsystem", "build"] + (["--serial"] if serial else []) + \
              ["--chdir", self.S, "-f", os.path.join(self.S, "build.llbuild"), "--db", os.path.join(self.S, "build.db")]
        pr = subprocess.Popen(cmd, stdout=subprocess.PIPE, stderr=subprocess.PIPE)
        if kind == "sigint":
            t0 = time.time()
            while time.time() - t0 < 15 and pr.poll() is None:
                if os.path.exists(rl) and "SLOW" in open(rl).read().split():
                    break
                time.sleep(0.01)
            if pr.poll() is None:
                pr.send_signal(signal.SIGINT)
        try:
            out, err = pr.communicate(timeout=60)
        except subprocess.TimeoutExpired:
            pr.kill()
            out, err = pr.communicate()
        rc = pr.returncode
        ran = [x for x in (open(rl).read().split() if os.path.exists(rl) else []) if x not in ("FAIL", "SLOW")]
        self.ever_ran |= set(ran)
        self.nbuilds += 1
        self.log.append(dict(op="aborted_build", kind=kind, source=s, command=c, serial=serial, rc=rc, ran=sorted(ran),
                             reran_before_abort=c in ran, stderr=err.decode("utf-8", "replace")[-200:]))
        self.chk.cov["aborted_builds"] = self.chk.cov.get("aborted_builds", 0) + 1
        if rc != 0 and c in ran:
            self.chk.cov["aborted_after_rerun"] = self.chk.cov.get("aborted_after_rerun", 0) + 1
        by = self.chk.cov.setdefault("aborted_builds_by_kind", {})
        by[kind] = by.get(kind, 0) + 1
        # nothing is expected of the run set of the next build
        self.uncertain = True
        self.uptodate = {}
        # repair the description, edit the same source again
        P.cmds, P.targets[""] = saved_cmds, saved_target
        for leftover in ("cya", "cyb", "failout", "slowout"):
            self.remove(leftover)
        self.write_source(s, "after-abort-%s-%d;" % (s, P.fresh()))
        self.pending.append("aborted_" + kind)
        return True

    def build(self, force_target=None):
        rng, P, chk = self.rng, self.P, self.chk
        tname = rng.choice(["", "", "t2", "one"]) if force_target is None else force_target
        if tname == "one":
            produced = [n for n in P.nodes() if P.producers(n)]
            P.targets["one"] = [rng.choice(produced)]
        serial = rng.random() < 0.5
        self.ensure_sources_exist()
        tnodes = P.targets[tname]
        reach = P.reachable_cmds(tnodes)
        sources = [(n, self.observe(self.S, n)) for n in P.source_nodes()]
        # expectations from the state before the build
        memo = {}
        fps = {c: self.fp(c, memo) for c in reach}
        owns = {c: self.own(c) for c in reach}
        must_not, must = set(), set()
        if not self.uncertain:
            for c in reach:
                if P.cmds[c]["tool"] == "phony":
                    continue
                u = self.uptodate.get(c)
                if u is not None and u[0] == fps[c]:
                    must_not.add(c)
                if u is None:
                    must.add(c)
                else:
                    o0, o1 = u[1], owns[c]
                    if o0["defn"] != o1["defn"] or o0["outs"] != o1["outs"] or \
                            any(n in o1["srcs"] and o0["srcs"][n] != o1["srcs"][n] for n in o0["srcs"]):
                        must.add(c)
        # the model's verdict on what the database holds, in the world as it is before the build
        # the node keys the engine requests: the target's nodes and the inputs of every reachable command
        reach_nodes = list(dict.fromkeys([n for c in reach for n in P.cmds[c]["inputs"]] + list(tnodes)))
        keys = ["C" + c for c in reach] + ["N" + n for n in reach_nodes]
        in_model = P.in_model(reach)
        pre = self.verdicts(self.read_db(), keys) if in_model else {}
        unchanged_def = lambda c: c in self.uptodate and self.uptodate[c][1]["defn"] == owns[c]["defn"]
        rc, out, err, ran = self.run_llbuild(self.S, tname, serial, os.path.join(self.S, "build.db"))
        self.nbuilds += 1
        self.ever_ran |= set(ran)
        muts = tuple(self.pending)
        self.pending = []
        entry = dict(op="build", target=tname, nodes=tnodes, serial=serial, rc=rc, ran=sorted(ran), after=list(muts))
        self.log.append(entry)
        if rc != 0:
            # not a successful build: the property says nothing; expectations are re-established later
            self.uncertain = True
            self.uptodate = {}
            chk.cov["failed_builds"] = chk.cov.get("failed_builds", 0) + 1
            entry["stderr"] = err[-300:]
            entry["stdout"] = out[-300:]
            chk.count(None)
            return
        # ---- the property's oracle: an actual clean build of the same description and sources
        shutil.rmtree(self.C, ignore_errors=True)
        os.makedirs(self.C)
        for n, (k, content) in sources:
            p = os.path.join(self.C, n)
            os.makedirs(os.path.dirname(p), exist_ok=True)
            if k == "f":
                open(p, "wb").write(content)
            elif k == "d":
                os.makedirs(p, exist_ok=True)
            elif k == "l":
                os.symlink(content.decode(), p)
        crc, cout, cerr, cran = self.run_llbuild(self.C, tname, True, None)
        outputs = [o for c in reach for o in P.cmds[c]["outputs"] if not is_virtual(o)]
        owned_dir = lambda o: P.produced_by_tool(o) == "dirshell"
        got = {o: self.observe(self.S, o, owned_dir(o)) for o in outputs}
        rp = dict(history_seed=self.seed, sandbox=self.S, operations=self.log, description=P.yaml(),
                  sources={n: [k, c.decode("latin1")] for n, (k, c) in sources}, target=tname, serial=serial)
        if crc != 0:
            raise HistoryFailure("c08-clean-build-failed", "the incremental build succeeded but a clean build of the same description and "
                                 "sources fails (rc=%d): %s" % (crc, (cerr or cout)[-300:]), False)
        want = {o: self.observe(self.C, o, owned_dir(o)) for o in outputs}
        diff = [o for o in outputs if got[o] != want[o]]
        # ---- the model's clean build
        ans = self.model.ask(P.model_request([(n, c) for n, (k, c) in sources if k == "f"], tname)) if in_model else "OUTSIDE"
        mod = None
        if ans.startswith("OK "):
            f = ans.split(" ")
            mod = {}
            if f[1] != ".":
                for item in f[1].split(","):
                    a, b = item.split("=")
                    mod[vlib.unhx(a).decode()] = (b[0], vlib.unhx(b[1:]) if len(b) > 1 else b"")
            mod_ran = [] if f[2] == "." else [vlib.unhx(x).decode() for x in f[2].split(",")]
        nontrivial = bool(muts) and bool(ran)
        chk.count(("build", muts, tname if tname != "one" else "single-node", serial, len(ran) > 0) if nontrivial else None)
        if diff:
            o = diff[0]
            rp.update(output=o, incremental=[got[o][0], got[o][1].decode("latin1")], clean=[want[o][0], want[o][1].decode("latin1")],
                      model=(None if mod is None or o not in mod else [mod[o][0], mod[o][1].decode("latin1")]), ran=ran, differing=diff)
            self.rp = rp
            # show both contents from shortly before the first byte that differs
            a, b = got[o][1], want[o][1]
            i = next((j for j in range(min(len(a), len(b))) if a[j] != b[j]), min(len(a), len(b)))
            sa, sb = (got[o][0].encode() + b":" + a[max(0, i - 25):i + 45]), (want[o][0].encode() + b":" + b[max(0, i - 25):i + 45])
            stale_dirs = [D for D in self.entry_modified if P.producers(D) and P.producers(D)[0] in reach and P.producers(D)[0] not in ran]
            if stale_dirs:
                rp.update(directory=stale_dirs[0])
                raise HistoryFailure("c08-dir-entry-modified", "an entry inside the directory %r, the declared output of command %s, was overwritten "
                                     "(fresh mtime on the entry; the directory's own stat is unchanged): the producer was judged up to date and did not run again, "
                                     "so after the successful build output %r holds %r but a clean build gives %r" %
                                     (stale_dirs[0], P.producers(stale_dirs[0])[0], o, sa, sb), True)
            raise HistoryFailure("c08-stale-output", "after a successful incremental build, output %r reachable from target %r holds %r but a "
                                 "clean build of the same description and sources gives %r (shown around the first difference, at byte %d)" % (o, tname, sa, sb, i), True)
        # ---- run-log expectations (independent of the model)
        dup = sorted(set(c for c in ran if ran.count(c) > 1))
        bad_not = sorted(c for c in ran if c in must_not)
        bad_must = sorted(c for c in must if c not in ran)
        unreachable = sorted(c for c in ran if c not in reach)
        if dup or bad_not or bad_must or unreachable:
            rp.update(ran=ran, ran_twice=dup, ran_but_nothing_changed=bad_not, should_have_run=bad_must, ran_but_unreachable=unreachable)
            self.rp = rp
            what = ("commands %s ran although none of their transitive inputs, their definition or their outputs changed" % bad_not if bad_not else
                    "commands %s did not run although their definition, a source they read or one of their outputs changed" % bad_must if bad_must else
                    "commands %s ran twice in one build" % dup if dup else "commands %s ran although the target does not reach them" % unreachable)
            # outputs are correct (checked above): over/under-execution, reported without claiming a stale output
            raise HistoryFailure("c08-run-set", what + " (outputs nevertheless equal the clean build's)", False)
        if not muts and self.last_ok_target == tname and ran:
            rp.update(ran=ran)
            self.rp = rp
            raise HistoryFailure("c08-null-build-runs", "a build right after a successful build of the same target ran %s" % ran, False)
        # ---- correspondence of the model's validity predicates (real stored values, real stat)
        stored_after = self.read_db()
        post = self.verdicts(stored_after, keys) if in_model else {}
        vbad = None
        if not in_model:
            chk.cov["builds_outside_model"] = chk.cov.get("builds_outside_model", 0) + 1
        if in_model and not self.uncertain:
            for c in reach:
                v = pre.get("C" + c)
                if v is None or not unchanged_def(c):
                    continue
                tampered = [o for o in P.cmds[c]["outputs"] if o in self.dirty_outputs]
                if v != "V" and c in must_not:
                    vbad = ("C" + c, v, "the model finds the stored value of %s not valid although nothing it depends on was touched" % c)
                elif v == "I" and P.cmds[c]["tool"] != "phony" and c not in ran:
                    vbad = ("C" + c, v, "the model finds the stored value of %s invalid but llbuild did not run it again" % c)
                elif v == "V" and tampered:
                    vbad = ("C" + c, v, "the model finds the stored value of %s valid although its output %s was deleted or overwritten" % (c, tampered[0]))
            for n in reach_nodes:
                v = pre.get("N" + n)
                if v == "V" and n in self.dirty_sources and not P.producers(n) and not is_virtual(n):
                    vbad = ("N" + n, v, "the model finds the stored value of input node %s valid although the harness edited the file" % n)
        for k, v in post.items():
            if v != "V":
                vbad = (k, v, "after a successful build the model finds the value stored for %s not valid (verdict %s)" % (k, v))
        chk.cov["validity_verdicts_checked"] = chk.cov.get("validity_verdicts_checked", 0) + len(pre) + len(post)
        chk.cov["validity_invalid_before_build"] = chk.cov.get("validity_invalid_before_build", 0) + sum(1 for v in pre.values() if v == "I")
        if vbad:
            rp.update(key=vbad[0], model_verdict=vbad[1], ran=ran, verdicts_before=pre, verdicts_after=post)
            self.rp = rp
            raise HistoryFailure("c08-validity-correspondence", vbad[2] + " (outputs nevertheless equal the clean build's)", False)
        sbad = self.signature_tie(keys) if in_model else None
        if sbad:
            rp.update(key=sbad[0], ran=ran)
            self.rp = rp
            raise HistoryFailure("c08-signature-correspondence", "rule signatures of the model (BSys.RulesBS.rule_sig) and of llbuild are not in "
                                 "one-to-one correspondence at key %s: %s" % sbad, False)
        # ---- correspondence of the model
        if in_model and mod is None:
            rp.update(model_answer=ans)
            self.rp = rp
            raise HistoryFailure("c08-model-stuck", "the model's clean build does not complete (%s) on a description the implementation builds" % ans[:40], False)
        mdiff = [o for o in outputs if mod.get(o) != want[o]] if in_model else []
        logging_cmds = lambda l: sorted(c for c in l if P.cmds[c]["tool"] in ("shell", "mkdir", "symlink"))
        if in_model and (mdiff or logging_cmds(mod_ran) != sorted(cran) or sorted(mod) != sorted(set(outputs))):
            o = mdiff[0] if mdiff else None
            rp.update(output=o, clean=None if o is None else [want[o][0], want[o][1].decode("latin1")],
                      model=None if o is None or o not in mod else [mod[o][0], mod[o][1].decode("latin1")],
                      model_ran=mod_ran, clean_ran=cran, model_outputs=sorted(mod), outputs=sorted(set(outputs)))
            self.rp = rp
            raise HistoryFailure("c08-model-correspondence", "the model's clean build (BSys.RulesBS.clean) and an actual clean build disagree on %s" %
                                 ("output %r" % o if o else "the set of commands run / outputs built"), False)
        chk.cov["traces_validated_against_impl"] = chk.cov.get("traces_validated_against_impl", 0) + 1
        chk.cov["outputs_compared"] = chk.cov.get("outputs_compared", 0) + len(outputs)
        chk.cov["commands_run"] = chk.cov.get("commands_run", 0) + len(ran)
        chk.cov["must_not_run_checked"] = chk.cov.get("must_not_run_checked", 0) + len(must_not)
        chk.cov["must_run_checked"] = chk.cov.get("must_run_checked", 0) + len(must)
        if not ran:
            chk.cov["null_builds"] = chk.cov.get("null_builds", 0) + 1
        # every reachable command is now up to date
        self.uncertain = False
        for c in reach:
            self.uptodate[c] = (fps[c], owns[c])
            self.dirty_outputs -= set(P.cmds[c]["outputs"])
            if c in ran:
                self.entry_modified -= set(P.cmds[c]["outputs"])
        self.dirty_sources -= set(reach_nodes)
        self.last_ok_target = tname

    def run(self):
        self.last_ok_target = None
        self.rp = None
        self.build()
        nsteps = self.rng.randint(4, 6)
        at = self.rng.randrange(nsteps) if self.rng.random() < 0.5 else -1
        for i in range(nsteps):
            if i == at and self.episode():
                self.build(force_target="")      # a new process over the same database
                continue
            for j in range(self.rng.choice([1, 1, 1, 2])):
                self.mutate()
            self.build()


# --------------------------------------------------------------------------------------------- entry points

def private_llbuild():
    """A private copy of the binary: other checks may relink _work/b-hooks/bin/llbuild while the histories run."""
    src = vlib.llbuild_bin()
    os.makedirs(BASE, exist_ok=True)
    dst = os.path.join(BASE, "llbuild.%d" % os.getpid())
    with vlib.Lock("build-hooks"):
        shutil.copy2(src, dst)
    return dst


def run_histories(chk, seeds):
    llb = private_llbuild()
    model = vlib.Interactive(vlib.model_bin("bsys"))
    root = os.path.join(BASE, "run-%d" % os.getpid())       # concurrent runs of this check do not share sandboxes
    shutil.rmtree(root, ignore_errors=True)
    os.makedirs(root)
    kinds = {}
    try:
        for idx, seed in enumerate(seeds):
            h = History(chk, llb, model, seed, idx, root)
            try:
                h.run()
            except HistoryFailure as e:
                rp = h.rp or dict(history_seed=seed, sandbox=h.S, operations=h.log, description=h.P.yaml())
                chk.violation(e.key, e.what, rp, found_input=e.found,
                              broken="c08 oracle: incremental build vs clean build through llbuild" if e.found else
                                     ("correspondence: BSys.RulesBS.clean" if "model" in e.key else
                                      "correspondence: BSys.RulesBS.rule_valid" if "validity" in e.key else
                                      "correspondence: BSys.RulesBS.rule_sig" if "signature" in e.key else "c08 run-set expectation"))
            for e in h.log:
                kinds[e["op"]] = kinds.get(e["op"], 0) + 1
            if idx < 2:
                chk.sample(dict(kind="history", seed=seed, commands={n: dict(tool=d["tool"], inputs=d["inputs"], outputs=d["outputs"])
                                                                     for n, d in h.P.cmds.items()},
                                operations=[{k: v for k, v in e.items() if k in ("op", "detail", "target", "serial", "ran", "rc")} for e in h.log]))
            if not chk.violations:
                shutil.rmtree(h.S, ignore_errors=True)
                shutil.rmtree(h.C, ignore_errors=True)
    finally:
        model.close()
        try:
            os.unlink(llb)
            if not chk.violations:
                shutil.rmtree(root, ignore_errors=True)
        except OSError:
            pass
    chk.cov["histories"] = len(seeds)
    chk.cov["operations_by_kind"] = kinds


def finish(chk):
    chk.assumptions = [
        "PARTIAL by design: the world invariant over the real file system is sampled at the CLI; the proofs cover the rule level "
        "(validity predicates, signatures, effect of running a command, clean-build fixpoint); the general incremental half rests on the engine theorem",
        "commands are deterministic functions of their declared inputs (the harness's sh one-liners; Section variable F in the model)",
        "observable edits: every harness write changes a FileInfo field the code compares (fresh explicit mtime, or same mtime and different size); "
        "commands' own writes get distinct kernel timestamps",
        "not modelled in Coq (exercised against the actual clean build only): shell commands with a directory output and directory-tree nodes; "
        "discovered inputs (deps files, makefile and dependency-info styles, 1-3 files) are exercised against the actual clean build; the Coq model has no "
        "discovery and is shown them as declared inputs; not modelled nor exercised: stat/custom keys, command-timestamp nodes, link-output-path",
        "a command that declares a directory as its output recreates it from scratch (rm -rf; mkdir; write entries): the directory is a function of the inputs",
        "signature injectivity is a premise of c08_description_edit* (ideal hash; proved for token lists in the signature area)"]
    builds = chk.cov.get("traces_validated_against_impl", 0) + chk.cov.get("failed_builds", 0)
    if chk.cov.get("traces_validated_against_impl", 0) < 0.8 * max(1, chk.cov["evaluations"]) and not chk.violations:
        chk.violation("c08-vacuous", "fewer than 80%% of the builds were successful and compared (%d of %d): the check is not exercising the property" %
                      (chk.cov.get("traces_validated_against_impl", 0), chk.cov["evaluations"]), dict(coverage=chk.cov), found_input=False, broken="c08 harness")
    return chk.finish(level="proof",
                      rule="histories: a generated description (4-10 commands: shell one-liners writing tag+index+concatenated inputs, shell commands whose declared output "
                           "is a directory they recreate and populate (as directory node 'g/' or as plain node), consumers of such directories, phony, mkdir, symlink; "
                           "shell commands with 1-3 dependency files naming undeclared sources they read; virtual nodes with and without producer; multiple outputs; targets sharing sub-graphs) followed by 5-7 builds, each after 0-2 mutations drawn from "
                           "{edit source (fresh mtime | same mtime, other size), delete output, delete LAST output, overwrite output (fresh mtime | same mtime, other size), "
                           "delete / add / overwrite an entry INSIDE a produced directory (explicit mtimes), "
                           "nothing, change args, add command, add output, remove command, rewire input, source->produced, produced->source, change link, "
                           "virtual input gains a producer with a file output, virtual node loses its producer, edit a discovered-only source, "
                           "replace a source by another inode with the same size and mtime}; in half of the histories one ABORTED build in the middle "
                           "(edit a source; break the description by a dependency cycle | a failing command | a slow command interrupted by SIGINT, so that the build aborts "
                           "after a reader of that source re-ran; repair; edit the SAME source again; build the default target in a new process); "
                           "each build picks the default target / a second target / a single node and --serial or parallel, over one database in new processes. "
                           "After every successful build: reachable outputs (entries of produced directories included) == actual clean build == model clean; run log vs "
                           "must-run / must-not-run sets; model validity verdicts on the stored values; model signature tokens <-> stored signatures one-to-one. "
                           "Builds reaching a directory-producing command are compared with the actual clean build only (outside the Coq model: builds_outside_model). "
                           "evaluations = builds; non-trivial = a build after >=1 mutation in which >=1 command ran; distinct by (mutations, target kind, serial)",
                      trusted=["hand-written model coq/BSys/RulesBS.v (validity, run effects, clean build), tied to the code by the clean-build differential only",
                               "coq/BSys/Sig.v definitions (shared model of ExternalCommand::isResultValid and the signature token lists)",
                               "extraction (ExtrOcamlBasic) + ocaml/vmodel_bsys.ml", "the harness's Python expectation of the run set",
                               "PARTIAL: engine-level incremental=clean theorem is separate"])


def run(chk):
    vlib.llbuild_bin()
    vlib.model_bin("bsys")
    chk.proof_gate()
    n = chk.n(34, 400)
    seeds = [chk.rng.getrandbits(40) for _ in range(n)]
    # corpus: seeds of histories that exposed something during development stay in front
    cdir = os.path.join(vlib.ROOT, "corpus", "C08")
    if os.path.isdir(cdir):
        for f in sorted(os.listdir(cdir)):
            if f.endswith(".json"):
                try:
                    seeds.insert(0, int(json.load(open(os.path.join(cdir, f)))["history_seed"]))
                except Exception:
                    pass
    run_histories(chk, seeds)
    return finish(chk)


def replay(chk, rp):
    print(json.dumps({k: rp.get(k) for k in ("finding_key", "what", "history_seed", "target", "output", "incremental", "clean", "model")}, indent=1))
    chk.proof_gate()
    if rp.get("history_seed") is not None:
        run_histories(chk, [int(rp["history_seed"])])
    else:
        return run(chk)
    return finish(chk)
