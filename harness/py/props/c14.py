# C14 - stale-file removal deletes exactly the obsolete outputs inside the allowed roots
import os, itertools, shutil, json
import vlib
from vlib import hx

SEP = "/"

def comps(s):
    return [c for c in s.split("/") if c != ""]

def comp_prefix(r, p):
    return p[:len(r)] == r

def strings(alpha, maxlen):
    out = [""]
    for n in range(1, maxlen + 1):
        out += ["".join(t) for t in itertools.product(alpha, repeat=n)]
    return out

def oracle_pip(chk, impl, pairs):
    """Property oracle on the implementation, independent of the Coq model.
    impl: dict (p, r) -> bool. Returns list of (key, what, replay)."""
    bad = []
    for (p, r) in pairs:
        v = impl[(p, r)]
        if v and not comp_prefix(comps(r), comps(p)):
            bad.append(("pip-unsound", "pathIsPrefixedByPath(%r, %r) is true although the prefix's components are not a prefix of the path's" % (p, r), dict(path=p, prefix=r, impl=v)))
        v2 = impl.get((p, r + "/"))
        if v2 is not None and v2 != v:
            bad.append(("pip-trailing-sep", "pathIsPrefixedByPath(%r, %r) = %s but with a trailing separator on the prefix it is %s" % (p, r, v, v2), dict(path=p, prefix=r, impl=v, impl_with_trailing_sep=v2)))
        # completeness on canonical absolute spellings without empty interior components
        if (not v and p.startswith("/") and r.startswith("/") and "//" not in p and "//" not in r.rstrip("/")
                and comp_prefix(comps(r), comps(p))):
            bad.append(("pip-incomplete", "pathIsPrefixedByPath(%r, %r) is false although the path lies beneath the prefix by whole components" % (p, r), dict(path=p, prefix=r, impl=v)))
    return bad

def run_pip(chk, drv, model):
    if chk.quick():
        domain = strings("/ab", 5)
    else:
        domain = strings("/ab.", 5)
    # structured longer cases aimed at the case splits of the proof: equal length, prefix longer by one,
    # mismatch at a separator, trailing separators on either side
    rng = chk.rng
    extra = []
    words = ["foo", "bar", "foobar", "f", "", ".", ".."]
    for _ in range(chk.n(3000, 60000)):
        a = [rng.choice(words) for _ in range(rng.randint(0, 4))]
        b = a[:rng.randint(0, len(a))] if rng.random() < 0.7 else [rng.choice(words) for _ in range(rng.randint(0, 3))]
        p = ("/" if rng.random() < 0.8 else "") + "/".join(a) + rng.choice(["", "", "/", "//"])
        r = ("/" if rng.random() < 0.8 else "") + "/".join(b) + rng.choice(["", "", "/", "//", "x"])
        extra.append((p, r))
        extra.append((p, r + "/"))
    pairs = [(p, r) for p in domain for r in domain] + extra
    reqs = ["pip %s %s" % (hx(p.encode()), hx(r.encode())) for (p, r) in pairs]
    rc1, o1, e1 = vlib.run_lines(drv, reqs, timeout=1200)
    rc2, o2, e2 = vlib.run_lines(model, reqs, timeout=1200)
    if rc1 != 0 or len(o1) != len(reqs):
        chk.violation("pip-driver-crash", "the implementation driver crashed or stopped on pathIsPrefixedByPath input",
                      dict(rc=rc1, stderr=e1[-2000:], answered=len(o1), next_input=pairs[min(len(o1), len(pairs) - 1)]), found_input=True)
        return
    assert rc2 == 0 and len(o2) == len(reqs), (rc2, e2[-500:])
    impl = {}
    ntrue = 0
    for (pr, a) in zip(pairs, o1):
        impl[pr] = (a == "1")
    dis = [(pr, a, b) for (pr, a, b) in zip(pairs, o1, o2) if a != b]
    for pr in set(pairs):
        chk.count(("pip",) + pr if impl[pr] else None)
    chk.cov["pip_pairs"] = len(set(pairs))
    chk.cov["pip_true"] = sum(1 for v in impl.values() if v)
    chk.cov["pip_exhaustive_domain"] = "all pairs of strings over %r up to length 5 (%d strings)" % ("/ab" if chk.quick() else "/ab.", len(domain))
    chk.sample(dict(kind="pip", path="/ab/a", prefix="/ab/", impl=impl.get(("/ab/a", "/ab/")), note="one of %d pairs" % len(impl)))
    # O: property oracle on the implementation over the same pairs
    obad = oracle_pip(chk, impl, list(impl.keys()))
    seen = set()
    for key, what, rp in sorted(obad, key=lambda x: (x[0], len(x[2]["path"]) + len(x[2]["prefix"]))):
        if key in seen:
            continue
        seen.add(key)
        rp["oracle"] = "component-prefix semantics computed by the harness"
        rp["model"] = None
        chk.violation(key, what, rp, found_input=True, broken="c14 oracle on implementation")
    if dis:
        chk.cov["disagreements"] = len(dis)
        if not obad:
            (p, r), a, b = min(dis, key=lambda d: len(d[0][0]) + len(d[0][1]))
            chk.violation("pip-correspondence", "model and implementation of pathIsPrefixedByPath disagree on (%r, %r): impl=%s model=%s; the oracle found no property failure" % (p, r, a, b),
                          dict(path=p, prefix=r, implementation=a, model=b, broken="correspondence pip (Path/PathPrefix.v) vs lib/BuildSystem/BuildSystem.cpp"),
                          found_input=False, broken="correspondence: Path.PathPrefix.pip")

BUILD_TMPL = """client:
  name: basic

targets:
  "": ["<all>"]

commands:
  C.1:
    tool: stale-file-removal
    description: STALE
    expectedOutputs: [%s]
%s    outputs: ["<all>"]
"""

def yq(s):
    return '"' + s.replace("\\", "\\\\").replace('"', '\\"') + '"'

def run_cli(chk, model):
    llb = vlib.llbuild_bin()
    base = os.path.join(vlib.WORK, "tmp", "c14")
    shutil.rmtree(base, ignore_errors=True)
    rng = chk.rng
    nhist = chk.n(40, 600)
    nruns_total = 0
    mismatches = 0
    for h in range(nhist):
        S = os.path.join(base, "h%d" % h)
        os.makedirs(S)
        # universe of files (relative to S) that exist before every run
        files = ["r1/x", "r1/sub/y", "r1/sub/deep/z", "r1x/z", "r2/w", "out/v", "rel/q", "r1/dir/inner", "keep/sentinel", "r2/sub/k",
                 "outside/o1", "outside/deep/o2", "outside2/o3"]
        # symbolic links of the universe (relative to S) -> target: a stale path that IS a link is removed as a link (never followed);
        # a link found inside a removed directory is removed, its target left alone; a dangling link is still "a path to remove"
        links = {"r1/lnk": S + "/outside", "r1/dangling": S + "/nowhere", "r1/flink": S + "/keep/sentinel", "r1/dir/inl": S + "/outside2",
                 "r2/rlnk": "../outside"}
        # candidate expected-output spellings
        def ab(p): return S + "/" + p
        cands = [ab("r1/x"), ab("r1/sub/y"), ab("r1/sub"), ab("r1x/z"), ab("r2/w"), ab("out/v"), "rel/q", "./rel/q",
                 ab("r1//x"), ab("r1/dir/"), ab("r1/dir"), ab("r2/sub/k"), ab("r1x"), "", ab("r1/sub/deep/z"), ab("r2"), ab("nonexistent"),
                 ab("r1/lnk"), ab("r1/dangling"), ab("r1/flink"), ab("r2/rlnk"), ab("r1/lnk/"),
                 # a doubled LEADING separator is still an absolute path (POSIX: "//x" names the same object as "/x" here)
                 "/" + ab("r2/w"), "/" + ab("r1/sub/deep/z"), "//" + ab("out/v")]
        rootc = [ab("r1"), ab("r1/"), ab("r2//"), ab("r1/sub"), "rel", ab("r1/sub/"), ab("r"), ab("r2"), "/" + ab("r2"), "/" + ab("r1") + "/", "/", "//"]        # "/" as a root: every ABSOLUTE path lies beneath it, a relative one does not
        runs = []
        for i in range(rng.randint(2, 5)):
            e = rng.sample(cands, rng.randint(0, 7))
            if rng.random() < 0.15 and e:
                e.append(e[0])  # duplicate entry
            mode = rng.random()
            roots = [] if mode < 0.3 else rng.sample(rootc, rng.randint(1, 3))
            runs.append((e, roots))
        if h % 4 == 1:
            # the lists are SETS: a path the previous run listed several times and this run lists fewer times (but at least once) is still
            # expected and must stay; listed more times now than before changes nothing either
            keep = [ab("r1/x"), ab("r2/w"), "rel/q"]
            rng.shuffle(keep)
            a, b2 = keep[0], keep[1]
            runs = [([a, b2, a, a, ab("r1/sub/y")], []), ([b2, a, b2], []), ([a, a, b2, ab("out/v")], [ab("r1"), ab("r2")]), ([a, ab("out/v"), ab("out/v")], [])]
        # model prediction
        def fl(l): return "." if not l else ",".join(hx(x.encode()) for x in l)
        req = "stale_history NONE " + " ".join(fl(e) + "/" + fl(r) for (e, r) in runs)
        rc, out, err = vlib.run_lines(model, [req])
        pred = [[] if f == "." else [vlib.unhx(x).decode() for x in f.split(",")] for f in out[0].split(" ")]
        for i, (e, roots) in enumerate(runs):
            # (re)create the universe
            for f in files:
                p = os.path.join(S, f)
                os.makedirs(os.path.dirname(p), exist_ok=True)
                if not os.path.exists(p):
                    open(p, "w").write("x")
            for f, tgt in links.items():
                p = os.path.join(S, f)
                os.makedirs(os.path.dirname(p), exist_ok=True)
                if not os.path.lexists(p):
                    os.symlink(tgt, p)
            bf = os.path.join(S, "build-%d.llbuild" % i)
            open(bf, "w").write(BUILD_TMPL % (", ".join(yq(x) for x in e),
                                              ("    roots: [%s]\n" % ", ".join(yq(x) for x in roots)) if roots else ""))
            rc, out, err = vlib.sh([llb, "buildsystem", "build", "--serial", "--chdir", S, "-f", bf], timeout=60)
            nruns_total += 1
            universe = files + sorted(links)
            gone = sorted(f for f in universe if not os.path.lexists(os.path.join(S, f)))
            # expected from the model's deleted strings: a file disappears iff some deleted path is a
            # component-prefix of it (remove() is recursive); relative strings resolve against S
            dels = pred[i]
            def resolve(d):
                if d == "":
                    return None
                r = os.path.normpath(d if d.startswith("/") else os.path.join(S, d))
                return "/" + r.lstrip("/")          # normpath keeps exactly two leading slashes; here "//x" and "/x" name the same object
            exp = []
            for f in universe:
                full = os.path.normpath(os.path.join(S, f))
                for d in dels:
                    rd = resolve(d)
                    if rd is not None and (full == rd or full.startswith(rd + "/")):
                        exp.append(f)
                        break
            exp = sorted(exp)
            # "<link>/" (trailing separator) names, by POSIX resolution, the directory the link points to, not the link: unlink()
            # refuses it (ENOTDIR) and the tool reports "cannot remove"; the property's lexical reading would remove the link.
            # Either outcome is accepted for the link itself; the target's contents must stay in both.
            optional = set(f for f in links for d in dels if d.endswith("/") and resolve(d) == os.path.normpath(os.path.join(S, f)))
            if optional:
                gone_cmp = [f for f in gone if f not in optional]
                exp = [f for f in exp if f not in optional]
            else:
                gone_cmp = gone
            chk.count(("cli", tuple(sorted(dels)), tuple(roots)) if dels else None)
            if h == 0 and i == 1:
                chk.sample(dict(kind="cli-run", prior=runs[0][0], expected=e, roots=roots, model_deletes=dels, files_gone=gone))
            if rc != 0 or gone_cmp != exp:
                mismatches += 1
                # O: judge the implementation directly against the property text
                prior = runs[i - 1][0] if i > 0 else []
                reason = None
                for f in gone_cmp:
                    full = os.path.normpath(os.path.join(S, f))
                    legit = False
                    for d in prior:
                        rd = resolve(d)
                        if rd is None or d in e:
                            continue
                        if not (full == rd or full.startswith(rd + "/")):
                            continue
                        if roots and not (d.startswith("/") and any(comp_prefix(comps(r), comps(d)) for r in roots)):
                            continue
                        legit = True
                    if not legit:
                        reason = ("stale-removed-too-much", "file %s was removed although no obsolete expected output inside the roots covers it" % f)
                for f in exp:
                    if f not in gone and reason is None:
                        reason = ("stale-removed-too-little", "file %s should have been removed (obsolete and inside the roots) but still exists" % f)
                if rc != 0 and reason is None:
                    reason = ("stale-build-failed", "llbuild exited with %d" % rc)
                rp = dict(history=[dict(expected=a, roots=b) for (a, b) in runs[:i + 1]], run_index=i, sandbox=S,
                          implementation_removed=gone, model_removed=exp, model_deleted_paths=dels, stdout=out[-800:], stderr=err[-800:])
                if reason:
                    chk.violation(reason[0], reason[1], rp, found_input=True, broken="c14 oracle on llbuild buildsystem build")
                else:
                    chk.violation("stale-correspondence", "model (Path.PathPrefix.stale_history) and llbuild disagree on which files a run removes", rp,
                                  found_input=False, broken="correspondence: Path.PathPrefix.stale_history")
                break
        shutil.rmtree(S, ignore_errors=True)
    chk.cov["cli_histories"] = nhist
    chk.cov["cli_runs"] = nruns_total
    chk.cov["traces_validated_against_impl"] = nruns_total - mismatches

def run_same_frontend(chk):
    """Histories inside ONE BuildSystemFrontend (the command object is reused from build to build): process A records list L0; one frontend over
    the same database with list L1 then builds several times while files re-appear in between. The 'previous successful run' of the second and
    later builds on the frontend is the build before it, which listed L1 - so nothing may be removed any more (fixed 529c4cb: the list computed
    for the first build was cached on the command object and applied again)."""
    import subprocess
    drv = vlib.build_drivers(["bsys_driver"])["bsys_driver"]
    llb = vlib.llbuild_bin()
    base = os.path.join(vlib.WORK, "tmp", "c14sf")
    shutil.rmtree(base, ignore_errors=True)
    rng = chk.rng
    hxs = lambda x: x.encode().hex()
    n = chk.n(12, 150)
    for h in range(n):
        S = os.path.join(base, "h%d" % h)
        os.makedirs(S)
        names = ["a", "b", "c", "d/e", "d/f"]
        full = [S + "/" + x for x in names]
        l0 = rng.sample(full, rng.randint(2, 5))
        l1 = rng.sample(l0, rng.randint(0, len(l0) - 1)) + ([S + "/new"] if rng.random() < 0.3 else [])
        verbose = rng.random() < 0.5
        def mk():
            for f in full:
                os.makedirs(os.path.dirname(f), exist_ok=True)
                if not os.path.exists(f):
                    open(f, "w").write("x")
        mk()
        open(S + "/b0.llbuild", "w").write(BUILD_TMPL % (", ".join(yq(x) for x in l0), ""))
        open(S + "/b1.llbuild", "w").write(BUILD_TMPL % (", ".join(yq(x) for x in l1), ""))
        vlib.sh([llb, "buildsystem", "build", "--serial", "--chdir", S, "--db", S + "/build.db", "-f", S + "/b0.llbuild"] + (["-v"] if verbose else []), timeout=60)
        p = subprocess.Popen([drv], stdin=subprocess.PIPE, stdout=subprocess.PIPE, text=True)
        def ask(l):
            p.stdin.write(l + "\n"); p.stdin.flush()
            return p.stdout.readline().strip()
        try:
            ask("open %s %s %s 0" % (hxs(S), hxs(S + "/b1.llbuild"), hxs(S + "/build.db")))
            stale = sorted(set(l0) - set(l1))
            for b in range(rng.randint(2, 4)):
                mk()
                ans = ask("fbuild - 0 - -")
                gone = sorted(f for f in full if not os.path.exists(f))
                want = [f for f in full if any(f == d or f.startswith(d + "/") for d in stale)] if b == 0 else []
                chk.count(("sf", tuple(x[len(S):] for x in stale), b) if (stale and b > 0) else None)
                if gone != sorted(want):
                    key = "stale-removed-too-much" if set(gone) - set(want) else "stale-removed-too-little"
                    chk.violation(key + "-same-frontend", "build %d on one frontend (previous process listed %s, this frontend lists %s): removed %s, the property allows %s" % (
                        b + 1, [x[len(S):] for x in l0], [x[len(S):] for x in l1], [x[len(S):] for x in gone], [x[len(S):] for x in want]),
                        dict(first_list=l0, frontend_list=l1, build_on_frontend=b + 1, removed=gone, allowed=want, driver_answer=ans[:300], sandbox=S),
                        found_input=True, broken="c14 oracle on one BuildSystemFrontend building several times")
                    break
            ask("close")
        finally:
            p.stdin.close(); p.wait(timeout=20)
        shutil.rmtree(S, ignore_errors=True)
    chk.cov["same_frontend_histories"] = n


def run_recording(chk, model):
    """Histories through the REAL BuildSystemFrontend with a file system that RECORDS the arguments of FileSystem::remove instead of removing:
    path strings that name objects directly under the file-system root ('/x', '//x', '//x/y', '/', '//'), which no sandbox on the real file
    system can hold, take part. Each build is its own frontend over one database (= one process per run as far as the stored lists go).
    Compared: the exact set of strings handed to remove() against (a) the model Path.PathPrefix.stale_history, (b) the property text."""
    import subprocess
    drv = vlib.build_drivers(["bsys_driver"])["bsys_driver"]
    base = os.path.join(vlib.WORK, "tmp", "c14rec")
    shutil.rmtree(base, ignore_errors=True)
    rng = chk.rng
    hxs = lambda x: x.encode().hex()
    n = chk.n(30, 400)
    nruns = 0
    names = ["a", "b", "ab", "a/b", "a/b/c", "b/a", "a.o"]
    def spellings(nm):
        return ["/" + nm, "//" + nm, "/" + nm + "/", "//" + nm + "/", "///" + nm, nm, "./" + nm, "/" + nm.replace("/", "//")]
    cands = sorted(set(x for nm in names for x in spellings(nm))) + ["/", "//", "", "."]
    rootc = ["/", "//", "/a", "//a", "/a/", "//a/", "/a/b", "//a/b/", "/b", "//b", "/ab", "a", "/a.o", "//a.o", "///a", "/a//b"]
    for h in range(n):
        S = os.path.join(base, "h%d" % h)
        os.makedirs(S)
        runs = []
        for i in range(rng.randint(2, 4)):
            pool = cands if h % 3 else [c for c in cands if c.startswith("/")]       # every third history: absolute spellings only
            e = rng.sample(pool, rng.randint(0, 8))
            roots = [] if rng.random() < 0.25 else rng.sample(rootc, rng.randint(1, 3))
            runs.append((e, roots))
        if h == 0:
            # fixed boundary history (every seed): one-component paths with doubled/tripled leading separators, under roots that are
            # separators only and under canonical roots
            L = ["//a", "/b", "//a/b", "///ab", "/a.o/", "ab", "", "/a/b/c", "//b/"]
            runs = [(L, []), ([], ["/"]), (L, ["/a"]), ([], ["//"]), (L, []), ([], ["/a", "/ab/"]), (L, ["a"]), (["/b"], ["//a", "/b/"]), (L, []), ([], [])]
        def fl(l): return "." if not l else ",".join(hx(x.encode()) for x in l)
        rc, out, err = vlib.run_lines(model, ["stale_history NONE " + " ".join(fl(e) + "/" + fl(r) for (e, r) in runs)])
        pred = [[] if f == "." else [vlib.unhx(x).decode() for x in f.split(",")] for f in out[0].split(" ")]
        p = subprocess.Popen([drv], stdin=subprocess.PIPE, stdout=subprocess.PIPE, text=True)
        def ask(l):
            p.stdin.write(l + "\n"); p.stdin.flush()
            return p.stdout.readline().strip()
        try:
            for i, (e, roots) in enumerate(runs):
                bf = S + "/b%d.llbuild" % i
                open(bf, "w").write(BUILD_TMPL % (", ".join(yq(x) for x in e), ("    roots: [%s]\n" % ", ".join(yq(x) for x in roots)) if roots else ""))
                ask("openrec %s %s %s 0" % (hxs(S), hxs(bf), hxs(S + "/build.db")))
                ans = ask("fbuild - 0 - -")
                rec = ask("removed")
                ask("close")
                nruns += 1
                got = sorted(set([] if rec == "." else [("" if x == "-" else vlib.unhx(x).decode()) for x in rec.split(",")]))
                want_model = sorted(set(pred[i]))
                prior = runs[i - 1][0] if i > 0 else []
                # the property text. Upper bound (nothing else may be removed, ANY spelling): listed by the previous successful run, not
                # listed now; with roots: absolute and at/beneath a root by whole components.
                want_prop = sorted(set(d for d in prior if d not in e and
                                       (not roots or (d.startswith("/") and any(comp_prefix(comps(r), comps(d)) for r in roots)))))
                # Lower bound (must be removed): the same with "beneath a root" read on canonical spellings, as in theorem
                # c14_pip_complete: root = "/c1/../cn" + any trailing separators, path = that canonical root followed by nothing or by a
                # separator and anything. (A root and a path that spell the SAME components with differently doubled separators are
                # not matched by the code; the completeness theorem does not claim them - DESIGN 10.2.)
                def canon_under(r, d):
                    cr = "".join("/" + c for c in comps(r))
                    return r.rstrip("/") == cr and (d == cr or d.startswith(cr + "/"))
                must = sorted(set(d for d in prior if d not in e and (not roots or (d.startswith("/") and any(canon_under(r, d) for r in roots)))))
                chk.count(("rec", tuple(got), tuple(roots)) if got else None)
                if h == 0 and i == 1:
                    chk.sample(dict(kind="recording-run", prior=prior, expected=e, roots=roots, model_deletes=want_model, remove_calls=got))
                bad_prop = [x for x in got if x not in want_prop] or [x for x in must if x not in got]
                if not ans.startswith("ok=1") or got != want_model or bad_prop:
                    rp = dict(history=[dict(expected=a, roots=b) for (a, b) in runs[:i + 1]], run_index=i, remove_calls=got, model_deletes=want_model,
                              property_text_allows=want_prop, property_text_requires=must, driver_answer=ans[:300])
                    if not ans.startswith("ok=1"):
                        chk.violation("stale-build-failed-recording", "the build with a stale-file-removal command failed: %s" % ans[:120], rp,
                                      found_input=True, broken="c14 oracle on BuildSystemFrontend with a recording file system")
                    elif bad_prop:
                        extra = [x for x in got if x not in want_prop]; miss = [x for x in must if x not in got]
                        chk.violation("stale-removed-too-much-recording" if extra else "stale-removed-too-little-recording",
                                      "remove() was called for %s; the property allows at most %s and requires at least %s (previous list %s, current list %s, roots %s)" % (got, want_prop, must, prior, e, roots),
                                      rp, found_input=True, broken="c14 oracle on BuildSystemFrontend with a recording file system")
                    else:
                        chk.violation("stale-correspondence-recording", "model (Path.PathPrefix.stale_history) and the remove() calls of the stale-file-removal command differ",
                                      rp, found_input=False, broken="correspondence: Path.PathPrefix.stale_history")
                    break
        finally:
            p.stdin.close(); p.wait(timeout=20)
        shutil.rmtree(S, ignore_errors=True)
    chk.cov["recording_histories"] = n
    chk.cov["recording_runs"] = nruns


def run(chk):
    drv = vlib.build_drivers(["leaf_driver"])["leaf_driver"]
    model = vlib.model_bin()
    chk.proof_gate()
    run_pip(chk, drv, model)
    run_cli(chk, model)
    # the file-system side: LocalFileSystem::remove / rm_tree against the system-call-level model Path/FsRemove.v (chroot sandbox)
    from props import c14fs
    c14fs.run_fs(chk)
    run_same_frontend(chk)
    run_recording(chk, model)
    chk.assumptions = ["POSIX path separators only ('/'); the Windows separator set is not modelled",
                       "file system model (Path/FsRemove.v): regular files, directories and symbolic links only; permissions not modelled (the harness runs as root); "
                       "the process working directory is the tree root; readdir order is an input of the model",
                       "model tied to the code by differential execution (exhaustive over a small alphabet, sampled beyond)"]
    return chk.finish(level="proof",
                      rule="pip: every pair of strings over the path alphabet up to length 5 plus structured random pairs; non-trivial = pairs on which the implementation answers true. "
                           "fs: generated trees with symbolic links x every path: model remove == LocalFileSystem::remove (result tree and errno) and a model-independent before/after oracle. "
                           "rec: random histories of lists whose strings name objects directly under '/', run on the real BuildSystemFrontend with a file system that records remove(): exact remove() argument set == model == property text. cli: random histories of (expectedOutputs, roots) lists run through `llbuild buildsystem build` in fresh processes over one database; non-trivial = runs that delete something; distinct by (deleted set, roots)",
                      trusted=["hand-written models coq/Path/PathPrefix.v and coq/Path/FsRemove.v, tied by correspondence only", "harness/cpp/leaf_driver.cpp", "harness/cpp/fsrm_driver.cpp (chroot sandbox)", "extraction (ExtrOcamlBasic) + ocaml/vmodel.ml"])

def replay(chk, rp):
    print(json.dumps(rp, indent=1))
    return run(chk)
