# C05: cancellation never hangs, leaks work, or poisons later builds.
# Theorems: coq/Props/Properties_C05.v (Engine/Cancel.v over the specification engine: persisted-only-completed, flags exact,
#           flagged rules re-run, refutation witnesses for the unflagged engine and for the discovered-dependency window).
# Oracle O on the real engine (the cancelled build itself is schedule dependent, so the verdict is the property's own statement):
#   cancelBuild() delivered from inside every kind of task callback (cancel=cb:n), at the top of every engine loop iteration
#   (cancel=iter:n), and from a foreign thread while tasks complete on racing threads (cancel=thread:us), under sync / deferred /
#   mixed / threaded completion; then further mutations and builds on the SAME engine and on a NEW engine over the same database.
#   Checked: the call returns (timeout = hang), failure is reported, no callback after return, nothing left pending, database rows
#   written by the cancelled build belong to tasks that completed in it, every later build equals a brand-new engine's result,
#   every input handed to a task is current, reported reasons are justified (Forced only for interrupted rules).
import os, random
import vlib, enginelib as E, enginechk as K


def db_rows(b):
    rows = {}
    for l in b["db"]:
        t = l.split(" ")
        if t[0] == "dbrow":
            rows[int(t[1])] = t[2:]
    return rows


def window_suspects(b, rules):
    """Tasks that completed in an aborted build while one of their discovered dependencies was never looked at in it."""
    seen = set()
    for l in b["events"]:
        t = l.split(" ")
        if t[0] in ("valid", "need", "create"):
            seen.add(int(t[1]))
    out = []
    for l in b["events"]:
        t = l.split(" ")
        if t[0] == "complete":
            k = int(t[1])
            for d in rules.get(k, {}).get("disc", []):
                if d not in seen:
                    out.append((k, d))
    return out


def started_after_cancel(out, hdr):
    """create events of the build `hdr` that follow the cancel-sent marker."""
    inb, sent, late = False, False, []
    for l in out:
        if l.startswith("build "):
            inb = (l == hdr)
            sent = False
        elif inb and "cancel-sent" in l:
            sent = True
        elif inb and sent and l.startswith("create "):
            late.append(l)
    return late


def window_suspects_in(lines, out):
    """True if every stale build of this trace is explained by the known window: a task completed in an earlier cancelled build while one of its
    discovered dependencies was never looked at in it, and in the stale build that discovered input is scanned and judged VALID without running
    (it is back at the stamp of its stored result) while the completed task is not re-run."""
    builds = K.parse_impl(out)
    window, stale, explained = [], 0, 0
    for b, rules, env, restarts in K.Scenario(lines).walk(builds):
        val, cancelled = K.result_value(b)
        if cancelled or any(x.startswith("cancel-sent") for x in b["other"]):
            window += window_suspects(b, rules)
            continue
        fresh_bad = b.get("fresh") is not None and val != b["fresh"]
        input_bad = any(l.split(" ")[0] == "provide" and b.get("freshvals", {}).get(int(l.split(" ")[3])) not in (None, l.split(" ")[4]) for l in b["events"])
        if fresh_bad or input_bad:
            stale += 1
            evs = set(b["events"])
            created = set(int(l.split(" ")[1]) for l in b["events"] if l.startswith("create "))
            if [1 for (k, d) in window if ("valid %d 1" % d) in evs and d not in created and k not in created]:
                explained += 1
    return stale > 0 and explained == stale


def judge(chk, lines, out, origin, sess=None, tag=None):
    """All oracles over one implementation trace. Returns list of (key, what)."""
    bad = []
    builds = K.parse_impl(out)
    for l in out:
        if l.startswith("LATE-CALLBACK"):
            bad.append(("late-callback", "a task callback was delivered after build() returned: %s" % l))
        if l.startswith("leftover-pending"):
            bad.append(("leftover-pending", "the engine returned while tasks were still waiting to report: %s" % l))
    prev_rows = {}
    window = []
    cancelled_seen = False
    for b, rules, env, restarts in K.Scenario(lines).walk(builds):
        if restarts and not restarts[-1]:
            prev_rows = {}
        val, cancelled = K.result_value(b)
        sent = any(x.startswith("cancel-sent") for x in b["other"])
        rows = db_rows(b)
        if sent or cancelled:
            cancelled_seen = True
            if val != "EMPTY":
                # cancelBuild() arrived after the engine's last cancellation test: the build was already finishing.  That is only
                # acceptable if no new work was started after the call.
                late = started_after_cancel(out, b["hdr"])
                if late:
                    bad.append(("cancel-not-failure", "cancelBuild() was called during '%s', tasks were still created afterwards (%s) and build() returned the value %s" % (b["hdr"], late[:3], val)))
            comp = {}
            for l in b["events"]:
                t = l.split(" ")
                if t[0] == "complete":
                    comp[int(t[1])] = t[2]
            for k, row in rows.items():
                if prev_rows.get(k) == row:
                    continue
                if k not in comp:
                    bad.append(("persisted-not-completed", "the cancelled build '%s' changed the stored result of rule %d, whose task did not complete in it" % (b["hdr"], k)))
                elif row[0] != comp[k]:
                    bad.append(("persisted-wrong-value", "the cancelled build stored %s for rule %d but its task completed with %s" % (row[0], k, comp[k])))
            window += window_suspects(b, rules)
        else:
            if b.get("fresh") is not None and val != b["fresh"] and not any(x.startswith("cycle") for x in b["other"]):
                # the known window (KNOWN_FINDINGS discovered-window) needs the discovered input to be back at the stamp of its stored result:
                # in THIS build it is then scanned and judged valid without running, and the completed task is not re-run.  A discovered
                # input that is not even scanned (it is missing from the recorded dependencies) or that re-ran is a different failure.
                evs = set(b["events"])
                created_now = set(int(l.split(" ")[1]) for l in b["events"] if l.startswith("create "))
                in_window = [(k, d) for (k, d) in window if ("valid %d 1" % d) in evs and d not in created_now and k not in created_now]
                key = "discovered-window" if (cancelled_seen and in_window) else ("stale-after-cancel" if cancelled_seen else "stale-result")
                bad.append((key, "build '%s' returned %s but a brand-new engine computes %s%s" % (
                    b["hdr"], val, b["fresh"], (" (tasks %s completed in a cancelled build before their discovered dependencies were brought up to date)" % window[:3]) if key == "discovered-window" else "")))
            for l in b["events"]:
                t = l.split(" ")
                if t[0] == "provide":
                    fv = b.get("freshvals", {}).get(int(t[3]))
                    if fv is not None and t[4] != fv:
                        evs2 = set(b["events"])
                        cr2 = set(int(l.split(" ")[1]) for l in b["events"] if l.startswith("create "))
                        key = "discovered-window-input" if (cancelled_seen and [1 for (k, d) in window if ("valid %d 1" % d) in evs2 and d not in cr2 and k not in cr2]) else "stale-input-after-cancel"
                        bad.append((key, "in '%s' task %s was handed %s for input %s whose current value is %s" % (b["hdr"], t[1], t[4], t[3], fv)))
        if rows:
            prev_rows = rows
    bad += [(k, w) for k, w in K.oracle_c02(lines, builds)]
    return bad


def cancel_variants(rng, nquick):
    v = []
    for _ in range(nquick):
        x = rng.random()
        if x < 0.4:
            v.append(("sync", "cancel=cb:%d" % rng.randint(0, 25)))
        elif x < 0.6:
            v.append(("sync", "cancel=iter:%d" % rng.randint(0, 20)))
        elif x < 0.8:
            v.append((rng.choice(["defer", "mixed"]) + ":%d" % rng.randint(0, 99), "cancel=iter:%d" % rng.randint(0, 30)))
        elif x < 0.9:
            v.append((rng.choice(["defer", "mixed"]) + ":%d" % rng.randint(0, 99), "cancel=cb:%d" % rng.randint(0, 25)))
        else:
            v.append(("threads:%d" % rng.randint(0, 99), "cancel=thread:%d" % rng.choice([0, 50, 200, 500, 1200])))
    return v


def make_history(rng, sched, cancel):
    """A generated history in which one build (not the last) is cancelled, followed by further ops; optionally a restart right after."""
    L = E.gen_history(rng, nops=(4, 10), allow_rule_edits=False)
    bidx = [i for i, l in enumerate(L) if l.startswith("build")]
    i = rng.choice(bidx[:-1]) if len(bidx) > 1 else bidx[0]
    L[i] = L[i].split(" sched=")[0] + " sched=%s %s" % (sched, cancel)
    tail = []
    if L[0] == "db 1" and rng.random() < 0.4:
        tail.append("restart")
    # flip-flop an observed input to an earlier value: what exposes stale epochs
    sets = [l for l in L[:i] if l.startswith("set")]
    if sets and rng.random() < 0.6:
        tail.append(rng.choice(sets))
    key = L[i].split(" ")[1]
    allkeys = [l.split(" ")[1] for l in L if l.startswith("rule")]
    # sometimes a DIFFERENT key is built first after the cancellation (in a new process: without loading what the cancelled build touched),
    # then the database is re-opened again and builds are repeated
    if rng.random() < 0.5:
        tail.append("build %s" % rng.choice(allkeys))
        if L[0] == "db 1" and rng.random() < 0.6:
            tail.append("restart")
        if rng.random() < 0.5:
            tail.append(tail[-1] if tail[-1].startswith("build") else "build %s" % rng.choice(allkeys))
    tail.append("build %s" % key)
    L = L[:i + 1] + tail + L[i + 1:]
    return K.with_fresh(L)


CORPUS = [
    # same-engine staleness after cancellation (fixed d025783): R=3 requests A=0 then B=1; B changes; cancel after A was re-provided
    ("same-engine", ["db 0", "rule 0 sig=0 obs=1", "rule 1 sig=0 obs=1", "rule 4 sig=1 obs=0 req=0,1", "set 0 1", "set 1 1", "build 4", "set 1 2"],
     ["set 1 2", "build 4"], "4"),
    # the same with the second input requested dynamically once the first arrived (the partial dependency list [A] is what made it stale)
    ("same-engine-dyn", ["db 0", "rule 0 sig=0 obs=1", "rule 1 sig=0 obs=1", "rule 4 sig=1 obs=0 req=0 br=0:1:1", "set 0 1", "set 1 1", "build 4", "set 1 2"],
     ["build 4", "set 1 3", "build 4"], "4"),
    ("same-engine-dyn-db", ["db 1", "rule 0 sig=0 obs=1", "rule 1 sig=0 obs=1", "rule 2 sig=0 obs=1", "rule 4 sig=1 obs=0 req=0 br=0:1,2:2,1", "rule 5 sig=0 obs=0 req=4", "set 0 1", "set 1 1", "set 2 1", "build 5", "set 2 2"],
     ["build 5", "set 1 3", "build 4"], "5"),
    # a cancelled build commits the rows of the tasks that finished (stamped N) and must persist iteration N as well: otherwise a
    # new engine over the database re-issues epoch N and a dependent stored in the cancelled build is never re-run (stale for ever)
    ("iteration-persisted", ["db 1", "rule 0 sig=0 obs=1", "rule 4 sig=0 obs=0 req=0", "rule 5 sig=0 obs=0 req=4", "rule 7 sig=0 obs=0 req=5", "set 0 1", "build 7", "set 0 2"],
     ["restart", "set 0 3", "build 7", "build 5"], "7"),
    # cancellation while previously built rules are only being VALIDATED (inside isResultValid of the leaf): every rule the scan touched must be
    # scanned again by the next build on the same engine (a rule left in a "scanned" state would be served stale)
    ("scan-cancel-chain", ["db 0", "rule 0 sig=0 obs=1", "rule 4 sig=0 obs=0 req=0", "rule 5 sig=0 obs=0 req=4", "rule 7 sig=0 obs=0 req=5", "set 0 1", "build 7"],
     ["set 0 2", "build 7", "set 0 3", "build 5"], "7"),
    ("scan-cancel-chain-db", ["db 1", "rule 0 sig=0 obs=1", "rule 1 sig=0 obs=1", "rule 4 sig=0 obs=0 req=0 follow=1", "rule 5 sig=0 obs=0 req=4", "rule 7 sig=0 obs=0 req=5,1", "set 0 1", "set 1 1", "build 7"],
     ["set 0 2", "set 1 2", "build 7"], "7"),
    # discovered-dependency window (known finding): R=3 requests A=0, discovers D=1; both change; cancel right after R completed;
    # D returns to its earlier stamp
    ("disc-window", ["db 1", "rule 0 sig=0 obs=1", "rule 1 sig=0 obs=1", "rule 4 sig=1 obs=0 req=0 disc=1", "set 0 1", "set 1 1", "build 4", "set 0 2", "set 1 2"],
     ["set 1 1", "build 4", "restart", "build 4"], "4"),
]


def drain_family(go):
    """A completion that arrives WHILE the engine drains a cancellation (the task was computing on another thread when cancelBuild() came): the
    engine waits for it, but that execution was interrupted as far as the build is concerned - its discovered dependencies were not recorded
    and nothing of it may be relied on: the next build (same engine, or a new one over the database) must bring the rule up to date again,
    also when only a DISCOVERED input changes afterwards.  The rule re-runs in the cancelled build because of its own observation or signature."""
    n = 0
    for usedb in (0, 1):
        for why in ("obs", "sig"):
            for seed in (1, 2, 3):
                pre = ["db %d" % usedb, "rule 0 sig=0 obs=1", "rule 1 sig=0 obs=1", "rule 4 sig=1 obs=%d req=0 disc=1" % (1 if why == "obs" else 0), "rule 5 sig=0 obs=0 req=4",
                       "set 0 1", "set 1 1", "set 4 1", "build 5"]
                if why == "obs":
                    pre += ["set 4 2"]
                else:
                    pre += ["rule 4 sig=2 obs=0 req=0 disc=1"] + (["restart"] if usedb else [])
                if why == "sig" and not usedb:
                    continue            # a rule edit needs a new engine; without a database that engine has no history
                for tail in (["set 1 2", "build 5", "set 1 3", "build 4"], ["restart", "set 1 2", "build 5"] if usedb else ["set 1 5", "build 4", "build 5"]):
                    L = K.with_fresh(pre + ["build 5 sched=threads:%d:400000 cancel=thread:30000" % seed] + tail)
                    go(L, "drain-%s-%d" % (why, usedb), "drain family why=%s db=%d seed=%d" % (why, usedb, seed))
                    n += 1
    # the task completing during the drain is the changed INPUT itself (its dependents have not started): the retry must bring the dependents up to
    # date although the input "re-computes to the value it already holds in memory"
    for usedb in (0, 1):
        for seed in (1, 2, 3):
            pre = ["db %d" % usedb, "rule 0 sig=0 obs=1", "rule 4 sig=1 obs=0 req=0", "rule 5 sig=0 obs=0 req=4", "set 0 1", "build 5", "set 0 2"]
            for tail in (["build 5", "build 4"], (["restart", "build 5"] if usedb else ["build 4", "set 0 3", "build 5"])):
                L = K.with_fresh(pre + ["build 5 sched=threads:%d:400000 cancel=thread:30000" % seed] + tail)
                go(L, "drain-input-%d" % usedb, "drain family why=input db=%d seed=%d" % (usedb, seed))
                n += 1
    return n


def exec_queue_family(chk, sess):
    """Cancellation while a task computes in a REAL child process on the engine's execution queue (TaskInterface::spawn), also after the
    engine has already marked the build cancelled by itself (a task asking for a reserved input id): the client's cancelBuild() must
    still interrupt the child, build() must return (the child would run for a minute), nothing may be left running, and later builds
    are clean.  The driver's watchdog turns a build that does not return within 6 s of the cancellation into a WATCHDOG line."""
    n = 0
    for bad in (0, 1, 2):
        for order in ("1,2", "2,1"):
            for delay in (150000, 400000):
                L = ["db 1", "queue lanes", "rule 0 sig=0 obs=0 req=%s" % order, "rule 1 sig=0 obs=0 proc=60000",
                     "rule 2 sig=0 obs=0 req=3" + (" bad=%d" % bad if bad else ""), "rule 3 sig=0 obs=1", "set 3 1",
                     "build 0 cancel=thread:%d watchdog=6000" % delay, "fresh 0",
                     # a new engine over the database sees the edited rules (the child now ends by itself, rule 2 is healthy)
                     "rule 1 sig=0 obs=0 proc=20", "rule 2 sig=0 obs=0 req=3", "set 3 2", "restart", "build 0", "fresh 0", "set 3 3", "build 0", "fresh 0"]
                r = sess.run(L, "xq%d" % n, timeout=90)
                n += 1
                out = r["out"]
                rp = dict(scenario=L, implementation=out[-60:], stderr=r["err"][-800:], origin="exec-queue family bad=%d order=%s delay=%d" % (bad, order, delay))
                if r["rc"] != 0:
                    chk.violation("hang-or-crash" if r["rc"] == -9 else "driver-crash", "the engine did not return from a cancelled build whose task runs a child process (driver status %s)" % r["rc"],
                                  rp, found_input=True, broken="cancellation oracle on the implementation")
                    continue
                builds = K.parse_impl(out)
                wd = [l for l in out if "WATCHDOG" in l]
                b0 = builds[0]
                el = [int(l.split(" ")[1]) for l in b0["other"] if l.startswith("elapsed_ms")]
                pd = [l for l in b0["other"] if l.startswith("procdone")]
                if wd or (el and el[0] > delay // 1000 + 5000):
                    chk.violation("cancel-ignored-running-process", "cancelBuild() did not interrupt the child process a task was running (%s): build() came back only after the watchdog killed the child (%s ms)" % (
                        "after the engine had marked the build cancelled by itself: reserved input id" if bad else "healthy build", el[:1]), rp, found_input=True,
                        broken="cancellation oracle on the implementation")
                elif "cancelled" not in (b0["result"] or "") or not (b0["result"] or "").startswith("result EMPTY"):
                    chk.violation("cancel-not-failure", "a build cancelled while a child process was running returned %r" % b0["result"], rp, found_input=True,
                                  broken="cancellation oracle on the implementation")
                elif pd and not pd[0].endswith("cancelled"):
                    chk.violation("cancel-status-running-process", "the interrupted child was reported as %r" % pd[0], rp, found_input=True, broken="cancellation oracle on the implementation")
                for key, what in K.oracle_c01(builds[1:]):
                    chk.violation(key + "-after-cancel", what, rp, found_input=True, broken="cancellation oracle on the implementation")
                chk.count(("xq", bad, order, delay), n=3)
    chk.cov["exec_queue_cancel_scenarios"] = n


def run(chk):
    sess = K.Session(chk)
    chk.proof_gate()
    dist = {}
    def go(lines, tag, origin):
        r = sess.run(lines, tag, timeout=60)
        if r["rc"] != 0:
            chk.violation("hang-or-crash" if r["rc"] == -9 else "driver-crash",
                          "the engine did not return from a cancelled build within the timeout" if r["rc"] == -9 else "engine_driver exited with status %s" % r["rc"],
                          dict(scenario=lines, stderr=r["err"][-1500:], origin=origin), found_input=True)
            return
        bad = judge(chk, lines, r["out"], origin)
        seen = set()
        for key, what in bad:
            if key in seen:
                continue
            seen.add(key)
            def still(cand, key=key):
                rr = sess.run(cand, tag + "-shrink", timeout=60)
                return rr["rc"] == 0 and any(k == key for k, _ in judge(chk, cand, rr["out"], origin))
            small = K.shrink(lines, still, budget=40) if not key.startswith("discovered-window") else lines
            rr = sess.run(small, tag + "-min", timeout=60)
            chk.violation(key, what, dict(scenario=small, original_scenario=lines, implementation=rr["out"], origin=origin), found_input=True,
                          broken="cancellation oracle on the implementation")
        nb = sum(1 for l in r["out"] if l.startswith("build "))
        was_cancelled = any("cancelled" in l for l in r["out"] if l.startswith("result"))
        chk.count(("c", tag) if was_cancelled else None, n=nb)
    # corpus: every cancellation point of the two design-round scenarios
    for name, pre, post, key in CORPUS:
        for n in range(0, 24):
            for spec in ("cancel=iter:%d" % n, "cancel=cb:%d" % n):
                L = K.with_fresh(pre + ["build %s sched=sync %s" % (key, spec)] + post)
                go(L, "corpus-%s" % name, "corpus %s %s" % (name, spec))
    n = chk.n(60, 3000)
    per = chk.n(4, 12)
    for i in range(n):
        rng = random.Random(chk.rng.random())
        seed = rng.random()
        for sched, cancel in cancel_variants(rng, per):
            L = make_history(random.Random(seed), sched, cancel)
            dist[cancel.split(":")[0] + "/" + sched.split(":")[0]] = dist.get(cancel.split(":")[0] + "/" + sched.split(":")[0], 0) + 1
            go(L, "h%d" % (i % 30), "seed=%d index=%d %s %s" % (chk.seed, i, sched, cancel))
        if i < 2:
            chk.sample("\n".join(L[:14]))
    chk.cov["drain_completion_scenarios"] = drain_family(go)
    exec_queue_family(chk, sess)
    sess.close()
    # build-system level: cancellation through BuildSystemFrontend (command skip state, same frontend reused, new process over the same database)
    try:
        import props.c05bs as c05bs
        c05bs.bs_cancel_part(chk)
    except ImportError:
        chk.notes["bs_cancel_part"] = "props/c05bs.py not present: build-system level cancellation not exercised"
    return chk.finish(level="proof",
                      rule="one evaluation = one build of a history containing a cancelled build, judged by the property's oracles on the real engine; non-trivial = history in which the cancellation really interrupted the build",
                      extra=dict(cancel_points=dist, note="the cancelled build itself is schedule dependent and is judged by oracles only; the specification engine (Cancel.v) is tied through its proved consequences (flags, persisted rows, later builds clean) which are exactly the oracles applied here"),
                      trusted=["engine_driver.cpp (cancellation delivered through the guarded hook or from a thread)", "observer harness/py/enginechk.py"])


def replay(chk, rp):
    sess = K.Session(chk)
    r = sess.run(rp["scenario"], "replay", timeout=60)
    for key, what in judge(chk, rp["scenario"], r["out"], "replay"):
        chk.violation(key, what, dict(scenario=rp["scenario"], implementation=r["out"]), found_input=True)
    sess.close()
    return chk.finish(level="proof", rule="replay of one history")
